(* Mem.v -- element-granular memory shared by the pointer-level models (Views.v,
   Flatten.v).  Definitions only; lemmas in MemProofs.v.

   A block is a list of cells, a pointer is (block, offset counted in ELEMENTS of
   the leaf type T).  A pointer whose pointee is GenericArray<T,N> moves in
   strides of N elements: that is property C01 (size_of GenericArray<T,N> =
   N * size_of T, no padding, same alignment, closed under nesting), for every
   element size including 0.  Byte addresses are recovered as offset * size_of T.

   Every access is bounds- and initialisation-checked and fails with the
   distinguished [UB]; nothing is ever read through a default value.

   Offsets and lengths are [nat]: the modelled code only compares lengths for
   (in)equality and hands them to slice::from_raw_parts; it performs no
   subtraction and no run-time multiplication of usize values (products and
   quotients of lengths are type-level, sizes are compile-time constants). *)
From GA Require Import Base.

Inductive cell : Type := Uninit | Init (x : Z).
Definition block : Type := list cell.
Definition mem : Type := list block.

Record ptr : Type := mkptr { pblk : nat; poff : nat }.

(* p.add(i) for a *T *)
Definition padd (p : ptr) (i : nat) : ptr := mkptr (pblk p) (poff p + i).
(* p.add(i) for a *GenericArray<T,N> (stride N elements, C01) *)
Definition padd_arr (N : nat) (p : ptr) (i : nat) : ptr := mkptr (pblk p) (poff p + i * N).
(* byte offset inside the block for leaf size s *)
Definition byte_off (s : nat) (p : ptr) : nat := poff p * s.

Definition cell_at (m : mem) (p : ptr) : option cell :=
  match nth_error m (pblk p) with
  | Some b => nth_error b (poff p)
  | None => None
  end.

(* reading a T: in bounds and initialised, else UB *)
Definition load (m : mem) (p : ptr) : res Z :=
  match cell_at m p with
  | Some (Init x) => Ret x
  | _ => UB
  end.

(* ptr::write: in bounds, else UB *)
Definition store (m : mem) (p : ptr) (v : Z) : res mem :=
  match nth_error m (pblk p) with
  | Some b => if poff p <? length b then Ret (upd (pblk p) (upd (poff p) (Init v) b) m) else UB
  | None => UB
  end.

Definition rbind {A B} (r : res A) (f : A -> res B) : res B :=
  match r with Ret a => f a | Panicked => Panicked | UB => UB end.

(* `*r = v` through a `&mut T`: the place must hold an initialised value *)
Definition assign (m : mem) (p : ptr) (v : Z) : res mem :=
  rbind (load m p) (fun _ => store m p v).

(* the N cells from p on hold exactly the values a (in order) *)
Definition holds (m : mem) (p : ptr) (a : list Z) : Prop :=
  forall i x, nth_error a i = Some x -> load m (padd p i) = Ret x.

(* every cell of a block, for observation *)
Definition block_cells (m : mem) (b : nat) : list cell :=
  match nth_error m b with Some c => c | None => [] end.

(* PtrTie.v -- tier T3 tie for src/sequence.rs: the pointer programs tools/ga2coq regenerates
   from the bodies of Lengthen / Shorten / Split / Concat / Remove (coq/gen/GenSeq.v), run by
   the interpreter of PtrProg.v, ARE the hub functions of SeqOps.v that C09's theorems are
   about -- for every array, every element, every index. *)
From Coq Require Import String Lia ZifyBool.
From GA Require Import Base SeqOps SeqOpsProofs PtrProg.
From GAGen Require Import GenSeq.
Local Open Scope string_scope.

Definition omap {A B} (f : A -> B) (o : outcome A) : outcome B :=
  match o with
  | Ok a => Ok (f a)
  | PanicBounds => PanicBounds
  | PanicOther => PanicOther
  | Fault => Fault
  | NoInst => NoInst
  end.

Definition rmap {A B} (f : A -> B) (r : result A) : result B := (omap f (fst r), snd r).

Local Arguments mwrite : simpl never.
Local Arguments mread : simpl never.
Local Arguments mread1 : simpl never.
Local Arguments mcopy : simpl never.
Local Arguments mswap : simpl never.
Local Arguments assume_init : simpl never.
Local Arguments sub1 : simpl never.
Local Arguments diff : simpl never.
Local Arguments zsub : simpl never.
Local Arguments Z.of_nat : simpl never.
Local Arguments Z.to_nat : simpl never.
Local Arguments Z.leb : simpl never.
Local Arguments Z.ltb : simpl never.
Local Arguments Z.eqb : simpl never.

(* symbolic execution of a generated program against the hub function: compute, normalise the
   offset arithmetic, and case-split on each memory access / type-level length / comparison
   as it becomes the head of both sides *)
Ltac norm :=
  cbn; unfold zlen, add1, sum, fresh;
  change (Z.to_nat 1) with 1; change (Z.to_nat 0) with 0;
  change (0 <=? 1)%Z with true; change (0 <=? 0)%Z with true; cbn;
  rewrite ?Nat.add_0_l, ?Nat.add_0_r, ?Nat.mul_1_l, ?Nat.mul_1_r, ?Nat.eqb_refl, ?Nat2Z.id.

Ltac step :=
  match goal with
  | |- context [sub1 ?n] => destruct (sub1 n) eqn:?
  | |- context [diff ?n ?k] => destruct (diff n k) eqn:?
  | |- context [mwrite ?b ?o ?v] => destruct (mwrite b o v) eqn:?
  | |- context [mread1 ?b ?o] => destruct (mread1 b o) eqn:?
  | |- context [mread ?b ?o ?k] => destruct (mread b o k) eqn:?
  | |- context [mcopy ?b ?s ?d ?c] => destruct (mcopy b s d c) eqn:?
  | |- context [mswap ?b ?i ?j] => destruct (mswap b i j) eqn:?
  | |- context [assume_init ?b] => destruct (assume_init b) eqn:?
  | |- context [zsub ?a ?b] => destruct (zsub a b) eqn:?
  | |- context [(?a <=? ?b)%Z] => destruct (a <=? b)%Z eqn:?
  | |- context [(?a <? ?b)%Z] => destruct (a <? b)%Z eqn:?
  | |- context [(?a =? ?b)%Z] => destruct (a =? b)%Z eqn:?
  end.

Lemma zsub_some a b c : zsub a b = Some c -> (b <= a /\ c = a - b)%Z.
Proof. unfold zsub. destruct (b <=? a)%Z eqn:E; [|discriminate]. intros [= <-]. lia. Qed.

Ltac inj_somes :=
  repeat match goal with
  | H : Some ?a = Some ?b |- _ => injection H as H; try subst a; try subst b
  end.
Ltac zsub_facts :=
  repeat match goal with
  | H : zsub ?a ?b = Some ?c |- _ => apply zsub_some in H; destruct H
  end.

Ltac ptr_tie :=
  norm; repeat (first [reflexivity | congruence | solve [exfalso; zsub_facts; lia] | step; inj_somes; norm]).

Lemma tie_append l x k :
  run gen_append (length l) k [("self", VArr l); ("last", VElem x)] =
  rmap (fun r => [VArr r]) (append l x).
Proof. unfold run, gen_append, append, rmap. ptr_tie. Qed.

Lemma tie_prepend l x k :
  run gen_prepend (length l) k [("self", VArr l); ("first", VElem x)] =
  rmap (fun r => [VArr r]) (prepend l x).
Proof. unfold run, gen_prepend, prepend, rmap. ptr_tie. Qed.

Lemma tie_pop_back l k :
  run gen_pop_back (length l) k [("self", VArr l)] =
  rmap (fun p => [VArr (fst p); VElem (snd p)]) (pop_back l).
Proof. unfold run, gen_pop_back, pop_back, rmap. ptr_tie. Qed.

Lemma tie_pop_front l k :
  run gen_pop_front (length l) k [("self", VArr l)] =
  rmap (fun p => [VElem (fst p); VArr (snd p)]) (pop_front l).
Proof. unfold run, gen_pop_front, pop_front, rmap. ptr_tie. Qed.

Lemma tie_split K l :
  run gen_split (length l) K [("self", VArr l)] =
  rmap (fun p => [VArr (fst p); VArr (snd p)]) (split K l).
Proof. unfold run, gen_split, split, rmap. ptr_tie. Qed.

Lemma tie_concat l m :
  run gen_concat (length l) (length m) [("self", VArr l); ("rest", VArr m)] =
  rmap (fun r => [VArr r]) (concat l m).
Proof. unfold run, gen_concat, concat, rmap. ptr_tie. Qed.

Lemma tie_split_ref K l :
  run gen_split_ref (length l) K [("self", VArr l)] =
  (omap (fun p => [VView (fst p); VView (snd p)]) (split_ref (length l) K), []).
Proof. unfold run, gen_split_ref, split_ref. ptr_tie. Qed.

Lemma tie_split_mut K l :
  run gen_split_mut (length l) K [("self", VArr l)] =
  (omap (fun p => [VView (fst p); VView (snd p)]) (split_ref (length l) K), []).
Proof. unfold run, gen_split_mut, split_ref. ptr_tie. Qed.

Definition rm_out (p : Z * list Z) : list val := [VElem (fst p); VArr (snd p)].

Lemma tie_remove_unchecked idx l k : (0 <= idx)%Z ->
  run gen_remove_unchecked (length l) k [("self", VArr l); ("idx", VUsize idx)] =
  (omap rm_out (remove_unchecked idx l), []).
Proof. intros Hidx. unfold run, gen_remove_unchecked, remove_unchecked, remove_count, rm_out. ptr_tie. Qed.

Lemma tie_swap_remove_unchecked idx l k : (0 <= idx)%Z ->
  run gen_swap_remove_unchecked (length l) k [("self", VArr l); ("idx", VUsize idx)] =
  (omap rm_out (swap_remove_unchecked idx l), []).
Proof. intros Hidx. unfold run, gen_swap_remove_unchecked, swap_remove_unchecked, rm_out. ptr_tie. Qed.

(* the checked wrappers: the assert runs while `self` is still owned (its unwinding drops every
   element), then the whole result is the unchecked function's *)
Lemma tie_remove idx l k : (0 <= idx)%Z ->
  run_tail gen_remove "remove_unchecked" gen_remove_unchecked (length l) k [("self", VArr l); ("idx", VUsize idx)] =
  rmap rm_out (remove idx l).
Proof.
  intros Hidx. unfold run_tail, rmap, remove. cbn [p_requires p_ret gen_remove String.eqb Ascii.eqb Bool.eqb].
  rewrite tie_remove_unchecked by exact Hidx.
  unfold gen_remove. ptr_tie; rewrite ?app_nil_r; reflexivity.
Qed.

Lemma tie_swap_remove idx l k : (0 <= idx)%Z ->
  run_tail gen_swap_remove "swap_remove_unchecked" gen_swap_remove_unchecked (length l) k [("self", VArr l); ("idx", VUsize idx)] =
  rmap rm_out (swap_remove idx l).
Proof.
  intros Hidx. unfold run_tail, rmap, swap_remove. cbn [p_requires p_ret gen_swap_remove String.eqb Ascii.eqb Bool.eqb].
  rewrite tie_swap_remove_unchecked by exact Hidx.
  unfold gen_swap_remove. ptr_tie; rewrite ?app_nil_r; reflexivity.
Qed.

(* ---- composed with SeqOpsProofs: what the REGENERATED programs compute, as Vec operations ---- *)

Lemma src_append l x k :
  run gen_append (length l) k [("self", VArr l); ("last", VElem x)] = (Ok [VArr (l ++ [x])], []).
Proof. rewrite tie_append, append_spec. reflexivity. Qed.

Lemma src_prepend l x k :
  run gen_prepend (length l) k [("self", VArr l); ("first", VElem x)] = (Ok [VArr (x :: l)], []).
Proof. rewrite tie_prepend, prepend_spec. reflexivity. Qed.

Lemma src_concat l m :
  run gen_concat (length l) (length m) [("self", VArr l); ("rest", VArr m)] = (Ok [VArr (l ++ m)], []).
Proof. rewrite tie_concat, concat_spec. reflexivity. Qed.

Lemma src_pop_back l x k :
  run gen_pop_back (length (l ++ [x])) k [("self", VArr (l ++ [x]))] = (Ok [VArr l; VElem x], []).
Proof. rewrite tie_pop_back, pop_back_spec. reflexivity. Qed.

Lemma src_pop_front l x k :
  run gen_pop_front (length (x :: l)) k [("self", VArr (x :: l))] = (Ok [VElem x; VArr l], []).
Proof. rewrite tie_pop_front, pop_front_spec. reflexivity. Qed.

Lemma src_split K l : K <= length l ->
  run gen_split (length l) K [("self", VArr l)] = (Ok [VArr (firstn K l); VArr (skipn K l)], []).
Proof. intros H. rewrite tie_split, split_spec by exact H. reflexivity. Qed.

Lemma src_split_ref K l : K <= length l ->
  run gen_split_ref (length l) K [("self", VArr l)] = (Ok [VView (0, K); VView (K, length l - K)], []) /\
  run gen_split_mut (length l) K [("self", VArr l)] = (Ok [VView (0, K); VView (K, length l - K)], []).
Proof. intros H. rewrite tie_split_ref, tie_split_mut, split_ref_spec by exact H. split; reflexivity. Qed.

Lemma src_remove l idx k : (0 <= idx < zlen l)%Z ->
  exists r, vec_remove (Z.to_nat idx) l = Some r /\
  run_tail gen_remove "remove_unchecked" gen_remove_unchecked (length l) k
    [("self", VArr l); ("idx", VUsize idx)] = (Ok (rm_out r), []).
Proof.
  intros H. destruct (remove_in_range l idx H) as (r & Hv & Hr). exists r. split; [exact Hv|].
  rewrite tie_remove by lia. rewrite Hr. reflexivity.
Qed.

Lemma src_swap_remove l idx k : (0 <= idx < zlen l)%Z ->
  exists r, vec_swap_remove (Z.to_nat idx) l = Some r /\
  run_tail gen_swap_remove "swap_remove_unchecked" gen_swap_remove_unchecked (length l) k
    [("self", VArr l); ("idx", VUsize idx)] = (Ok (rm_out r), []).
Proof.
  intros H. destruct (swap_remove_in_range l idx H) as (r & Hv & Hr). exists r. split; [exact Hv|].
  rewrite tie_swap_remove by lia. rewrite Hr. reflexivity.
Qed.

Lemma src_remove_out_of_range l idx k : l <> [] -> (zlen l <= idx)%Z ->
  run_tail gen_remove "remove_unchecked" gen_remove_unchecked (length l) k
    [("self", VArr l); ("idx", VUsize idx)] = (PanicBounds, map EDrop l) /\
  run_tail gen_swap_remove "swap_remove_unchecked" gen_swap_remove_unchecked (length l) k
    [("self", VArr l); ("idx", VUsize idx)] = (PanicBounds, map EDrop l).
Proof.
  intros Hne H. assert (0 <= idx)%Z by (unfold zlen in H; lia).
  rewrite tie_remove, tie_swap_remove by assumption.
  rewrite remove_out_of_range, swap_remove_out_of_range by assumption. split; reflexivity.
Qed.

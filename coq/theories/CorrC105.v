(* CorrC105.v -- C05 histories executed through the regenerated programs (GenRun.v) *)
From GA Require Import Base GenRun.
Definition run_c105 (case : list Z) : list Z := GenRun.run_c105 case.

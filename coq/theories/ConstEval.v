(* ConstEval.v -- hub model for C18: the crate's `const fn`s as programs over an
   element-granular memory, under TWO interpretations selected by one boolean:

     strict = true    what rustc's const evaluator does: every pointer offset must stay
                      inside (or one past) its allocation, every reference / slice built
                      from raw parts must cover memory of its allocation, every value read
                      at a type that needs initialised bytes must be initialised.  A
                      violated check is the failure value [UB] (rustc: error E0080).
     strict = false   what the compiled code does at run time: no check at all; memory the
                      evaluator would refuse to read yields the arbitrary value [junk].

   The programs are written once; [guard] is the only place where the two differ.
   [Panicked] is a Rust panic (a failed `assert!`/`panic!` in the crate: at compile time
   "evaluation panicked", at run time an unwind), in both interpretations.

   Sizes.  The evaluator checks BYTE ranges.  Memory here is element-granular (justified
   by C01: GenericArray<T,N> is N consecutive T without padding), and [esz] is the byte
   size of the element type T: for a zero-sized T every access is a zero-sized access,
   which the evaluator accepts for any pointer, so the checks degenerate exactly as in
   rustc.  Definitions only; proofs in ConstEvalProofs.v. *)
From GA Require Import Base.
From Coq Require Import String.
Local Open Scope Z_scope.

Inductive cell : Type := Uninit | Init (v : Z).
Definition block := list cell.
Definition mem := list block.

(* a pointer is (allocation, offset in elements of T).  [Dangling]: a non-null aligned
   address without allocation behind it (what `&[]` / `&mut []` of a zero-length array
   and NonNull::dangling give). *)
Inductive base : Type := Blk (b : nat) | Dangling.
Record ptr : Type := mkPtr { pbase : base; poff : Z }.

(* a reference to [slen] consecutive items of [sstride] elements each:
   &[T] has stride 1, &[GenericArray<T,N>] and &[[T; N]] have stride N,
   &GenericArray<T,N> is the case slen = 1, stride N. *)
Record slice : Type := mkSlice { sp : ptr; slen : Z; sstride : Z }.

Definition two64 : Z := 18446744073709551616.

Definition is_init (c : cell) : bool := match c with Init _ => true | Uninit => false end.
Definition all_init (l : list cell) : bool := forallb is_init l.

Definition bind {A B} (r : res A) (k : A -> res B) : res B :=
  match r with Ret a => k a | Panicked => Panicked | UB => UB end.

(* usize arithmetic as the code relies on it: overflow / underflow is a panic
   ("attempt to multiply with overflow"), at compile time and in debug builds *)
Definition umul (a b : Z) : res Z := if two64 <=? a * b then Panicked else Ret (a * b).
Definition usub (a b : Z) : res Z := if a <? b then Panicked else Ret (a - b).

Section Interp.
  Variable strict : bool.   (* true: const evaluator; false: run time *)
  Variable junk : Z.        (* run time only: content of memory the evaluator refuses to read *)
  Variable esz : Z.         (* size_of::<T>() in bytes; 0 for zero-sized T *)

  (* THE difference between the two interpretations *)
  Definition guard {A} (ok : bool) (k : res A) : res A :=
    if strict then (if ok then k else UB) else k.

  (* [n] elements starting at [p] lie inside p's allocation (byte range of size 0: always) *)
  Definition inb (m : mem) (p : ptr) (n : Z) : bool :=
    (n * esz =? 0) ||
    match pbase p with
    | Blk b =>
      match nth_error m b with
      | Some bl => (0 <=? poff p) && (0 <=? n) && (poff p + n <=? zlen bl)
      | None => false
      end
    | Dangling => false
    end.

  (* ptr.add(k) on a *const T: the result must stay in bounds or one past the end *)
  Definition p_add (m : mem) (p : ptr) (k : Z) : res ptr :=
    guard ((k * esz =? 0) ||
           match pbase p with
           | Blk b =>
             match nth_error m b with
             | Some bl => (0 <=? poff p) && (poff p <=? zlen bl) &&
                          (0 <=? poff p + k) && (poff p + k <=? zlen bl)
             | None => false
             end
           | Dangling => false
           end)
          (Ret (mkPtr (pbase p) (poff p + k))).

  (* slice::from_raw_parts(p as *const [T; stride], n) / &*(p as *const GenericArray<T,stride>):
     the whole range must be dereferenceable *)
  Definition from_raw_parts (m : mem) (p : ptr) (n stride : Z) : res slice :=
    guard (inb m p (n * stride)) (Ret (mkSlice p n stride)).

  (* typed read of one T *)
  Definition rd (needs_init : bool) (m : mem) (p : ptr) : res Z :=
    if esz =? 0 then Ret 0 else
    match pbase p with
    | Blk b =>
      match nth_error m b with
      | Some bl =>
        if poff p <? 0 then guard false (Ret junk) else
        match nth_error bl (Z.to_nat (poff p)) with
        | Some (Init v) => Ret v
        | Some Uninit => guard (negb needs_init) (Ret junk)
        | None => guard false (Ret junk)
        end
      | None => guard false (Ret junk)
      end
    | Dangling => guard false (Ret junk)
    end.

  Fixpoint rd_range (m : mem) (p : ptr) (n : nat) : res (list Z) :=
    match n with
    | O => Ret []
    | S n' => bind (rd true m p) (fun v =>
              bind (rd_range m (mkPtr (pbase p) (poff p + 1)) n') (fun r => Ret (v :: r)))
    end.

  (* typed write of one T; out-of-bounds: strict UB, run time: some other memory is
     clobbered, modelled as "this memory unchanged" *)
  Definition wr (m : mem) (p : ptr) (v : Z) : res mem :=
    if esz =? 0 then Ret m else
    match pbase p with
    | Blk b =>
      match nth_error m b with
      | Some bl =>
        if (0 <=? poff p) && (poff p <? zlen bl)
        then Ret (upd b (upd (Z.to_nat (poff p)) (Init v) bl) m)
        else guard false (Ret m)
      | None => guard false (Ret m)
      end
    | Dangling => guard false (Ret m)
    end.

  Fixpoint wr_range (m : mem) (p : ptr) (vs : list Z) : res mem :=
    match vs with
    | [] => Ret m
    | v :: r => bind (wr m p v) (fun m' => wr_range m' (mkPtr (pbase p) (poff p + 1)) r)
    end.

  (* ------------------------------------------------------------------ src/lib.rs *)

  (* pub const fn len() -> usize { N::USIZE } *)
  Definition ga_len (N : Z) : res Z := Ret N.

  (* as_slice / as_mut_slice: slice::from_raw_parts(self as *const Self as *const T, N::USIZE) *)
  Definition as_slice (m : mem) (N : Z) (self : ptr) : res slice := from_raw_parts m self N 1.
  Definition as_mut_slice := as_slice.

  (* from_slice: if slice.len() != N { panic!() }  &*(slice.as_ptr() as *const GenericArray<T,N>) *)
  Definition from_slice (m : mem) (N : Z) (s : slice) : res slice :=
    if negb (slen s =? N) then Panicked else from_raw_parts m (sp s) 1 N.
  (* from_mut_slice: assert!(slice.len() == N) ; &mut *(slice.as_mut_ptr() as *mut GenericArray<T,N>) *)
  Definition from_mut_slice (m : mem) (N : Z) (s : slice) : res slice :=
    if slen s =? N then from_raw_parts m (sp s) 1 N else Panicked.

  (* try_from_slice: if slice.len() != N { return Err(LengthError) }  Ok(&*(...)) *)
  Definition try_from_slice (m : mem) (N : Z) (s : slice) : res (option slice) :=
    if negb (slen s =? N) then Ret None
    else bind (from_raw_parts m (sp s) 1 N) (fun r => Ret (Some r)).
  (* try_from_mut_slice: match slice.len() == N { true => Ok(from_mut_slice(slice)), false => Err } *)
  Definition try_from_mut_slice (m : mem) (N : Z) (s : slice) : res (option slice) :=
    if slen s =? N then bind (from_mut_slice m N s) (fun r => Ret (Some r)) else Ret None.

  (* `&[]` / `&mut []`: an empty slice of items of [stride] elements, no allocation *)
  Definition empty_lit (stride : Z) : slice := mkSlice (mkPtr Dangling 0) 0 stride.

  (* chunks_from_slice / chunks_from_slice_mut (same pointer program) *)
  Definition chunks_from_slice (m : mem) (N : Z) (s : slice) : res (slice * slice) :=
    if N =? 0 then
      (if slen s =? 0 then Ret (empty_lit N, empty_lit 1) else Panicked)
    else
      let num_chunks := slen s / N in
      bind (umul num_chunks N) (fun num_in_chunks =>
      bind (usub (slen s) num_in_chunks) (fun num_remainder =>
      bind (from_raw_parts m (sp s) num_chunks N) (fun chunks =>
      bind (p_add m (sp s) num_in_chunks) (fun q =>
      bind (from_raw_parts m q num_remainder 1) (fun remainder =>
      Ret (chunks, remainder)))))).
  Definition chunks_from_slice_mut := chunks_from_slice.

  (* slice_from_chunks(_mut): from_raw_parts(slice.as_ptr() as *const T, slice.len() * N::USIZE) *)
  Definition slice_from_chunks (m : mem) (N : Z) (s : slice) : res slice :=
    bind (umul (slen s) N) (fun n => from_raw_parts m (sp s) n 1).
  Definition slice_from_chunks_mut := slice_from_chunks.

  (* from_chunks(_mut) / into_chunks(_mut): mem::transmute of the fat pointer: same address,
     same count, items of N elements (Const<U>: IntoArrayLength<ArrayLength = N>, i.e. U = N).
     A transmute performs no check when executed; the reference it yields is checked like
     every other reference once it is used or stored in a const. *)
  Definition from_chunks (m : mem) (N : Z) (s : slice) : res slice :=
    guard (inb m (sp s) (slen s * N)) (Ret (mkSlice (sp s) (slen s) N)).
  Definition from_chunks_mut := from_chunks.
  Definition into_chunks := from_chunks.
  Definition into_chunks_mut := from_chunks.

  (* const_transmute::<A, B>(a): size test, then a read of the union's other field.
     [a] are A's elements, [nb] the number of elements B holds; [b_needs_init]: B's type
     does not tolerate uninitialised bytes (false for MaybeUninit<..>). For a zero-sized T
     there are no bytes: B's nb elements are all the unique value of T. *)
  Definition const_transmute (b_needs_init : bool) (nb : Z) (a : list cell) : res (list cell) :=
    if negb (zlen a * esz =? nb * esz) then Panicked
    else
      let out := if esz =? 0 then repeat (Init 0) (Z.to_nat nb) else a in
      guard (negb b_needs_init || all_init out) (Ret out).

  (* MaybeUninit::<X>::assume_init(), X holding the given elements *)
  Definition mu_assume_init (x_needs_init : bool) (a : list cell) : res (list cell) :=
    guard (negb x_needs_init || (esz =? 0) || all_init a) (Ret a).

  (* from_array::<U>(value: [T; U]) with U = N ; into_array::<U>(self) -> [T; U] *)
  Definition from_array (t_needs_init : bool) (N : Z) (value : list cell) : res (list cell) :=
    const_transmute t_needs_init N value.
  Definition into_array (t_needs_init : bool) (U : Z) (self : list cell) : res (list cell) :=
    const_transmute t_needs_init U self.

  (* uninit(): MaybeUninit::<GenericArray<MaybeUninit<T>, N>>::uninit().assume_init() *)
  Definition uninit (N : Z) : res (list cell) :=
    mu_assume_init false (repeat Uninit (Z.to_nat N)).

  (* assume_init(array): const_transmute::<_, MaybeUninit<GenericArray<T,N>>>(array).assume_init() *)
  Definition assume_init (t_needs_init : bool) (N : Z) (array : list cell) : res (list cell) :=
    bind (const_transmute false N array) (mu_assume_init t_needs_init).

  (* ------------------------------------------------------------------ src/arr.rs *)
  (* arr![x0, x1, ...]  =>  GenericArray::from_array([x0, x1, ...]) *)
  Definition arr_list (xs : list Z) : res (list cell) := from_array true (zlen xs) (map Init xs).
  (* arr![x; N: typenum]  =>  __do_transmute::<_, N>([x; N::USIZE]) = const_transmute *)
  Definition arr_repeat_ty (x : Z) (N : Z) : res (list cell) :=
    const_transmute true N (repeat (Init x) (Z.to_nat N)).
  (* arr![x; n: expr]  =>  GenericArray::from_array([x; n]) *)
  Definition arr_repeat_expr (x : Z) (n : Z) : res (list cell) :=
    from_array true n (repeat (Init x) (Z.to_nat n)).

  (* ------------------------------------------------------------------ src/impl_const_default.rs *)
  (* Structural ConstDefault over the storage nodes.  N in binary; UInt<U, B0> stores
     Even { parent1: U's storage, parent2: U's storage }, UInt<U, B1> stores
     Odd { parent1, parent2, data: T }, UTerm stores [T; 0]; each DEFAULT initialises
     every field from the field type's DEFAULT.  Result: the T leaves in memory order. *)
  Fixpoint cd_pos (d : Z) (p : positive) : list cell :=
    match p with
    | xH => [] ++ [] ++ [Init d]
    | xO q => cd_pos d q ++ cd_pos d q
    | xI q => cd_pos d q ++ cd_pos d q ++ [Init d]
    end.
  Definition const_default (d : Z) (N : Z) : res (list cell) :=
    match N with Zpos p => Ret (cd_pos d p) | _ => Ret [] end.

  (* ------------------------------------------------------------------ src/internal.rs *)
  Record builder : Type := mkBuilder { b_array : list cell; b_position : Z }.
  Record ibuilder : Type := mkIBuilder { ib_array : ptr; ib_position : Z }.

  (* ArrayBuilder::new(): { array: GenericArray::uninit(), position: 0 } *)
  Definition builder_new (N : Z) : res builder := bind (uninit N) (fun a => Ret (mkBuilder a 0)).
  Definition builder_is_full (N : Z) (b : builder) : bool := b_position b =? N.
  (* ArrayBuilder::assume_init(self): debug_assert!(self.is_full()); ptr::read(&self.array);
     mem::forget(self); GenericArray::assume_init(array).  [dbg]: debug assertions compiled in *)
  Definition builder_assume_init (dbg t_needs_init : bool) (N : Z) (b : builder) : res (list cell) :=
    if dbg && negb (builder_is_full N b) then Panicked
    else assume_init t_needs_init N (b_array b).
  (* IntrusiveArrayBuilder::new(array): { array, position: 0 } *)
  Definition ibuilder_new (array : ptr) : res ibuilder := Ret (mkIBuilder array 0).
  Definition ibuilder_is_full (N : Z) (b : ibuilder) : bool := ib_position b =? N.
  (* finish(self): debug_assert!(self.is_full()); mem::forget(self) *)
  Definition ibuilder_finish (dbg : bool) (N : Z) (b : ibuilder) : res unit :=
    if dbg && negb (ibuilder_is_full N b) then Panicked else Ret tt.
  (* ArrayConsumer::new(array): { array: ManuallyDrop::new(array), position: 0 } *)
  Definition consumer_new (array : list cell) : res builder := Ret (mkBuilder array 0).

  (* indexing a slice of items: &s[c] (bounds-checked by the language: panic) *)
  Definition item (s : slice) (c : Z) : res ptr :=
    if (0 <=? c) && (c <? slen s) then Ret (mkPtr (pbase (sp s)) (poff (sp s) + c * sstride s))
    else Panicked.

  (* ---------------------------------------------------- uniform view of the const API *)
  Inductive cfn : Type :=
  | FLen | FAsSlice | FAsMutSlice | FFromSlice | FTryFromSlice | FFromMutSlice | FTryFromMutSlice
  | FChunksFromSlice | FChunksFromSliceMut | FSliceFromChunks | FSliceFromChunksMut
  | FFromArray | FIntoArray | FFromChunks | FFromChunksMut | FIntoChunks | FIntoChunksMut
  | FUninit | FAssumeInit | FConstTransmute
  | FArrList | FArrRepeatTy | FArrRepeatExpr | FConstDefault
  | FBuilderNew | FBuilderIsFull | FBuilderAssumeInit
  | FIBuilderNew | FIBuilderIsFull | FIBuilderFinish | FConsumerNew.

  (* arguments: the type-level length N, a second length (the U / target length), the
     memory, a reference argument, a by-value argument, a builder position *)
  Record cargs : Type := mkArgs {
    aN : Z; aM : Z; amem : mem; aref : slice; aval : list cell; apos : Z; adbg : bool;
    aneeds : bool   (* T does not tolerate uninitialised bytes *) }.

  Inductive value : Type :=
  | VNum (z : Z) | VBool (b : bool) | VRef (s : slice) | VOptRef (o : option slice)
  | VPair (a b : slice) | VCells (c : list cell) | VBuilder (b : builder)
  | VIBuilder (b : ibuilder) | VUnit.

  Definition rmap {A B} (f : A -> B) (r : res A) : res B := bind r (fun a => Ret (f a)).

  Definition call (f : cfn) (a : cargs) : res value :=
    let m := amem a in let N := aN a in
    match f with
    | FLen => rmap VNum (ga_len N)
    | FAsSlice => rmap VRef (as_slice m N (sp (aref a)))
    | FAsMutSlice => rmap VRef (as_mut_slice m N (sp (aref a)))
    | FFromSlice => rmap VRef (from_slice m N (aref a))
    | FTryFromSlice => rmap VOptRef (try_from_slice m N (aref a))
    | FFromMutSlice => rmap VRef (from_mut_slice m N (aref a))
    | FTryFromMutSlice => rmap VOptRef (try_from_mut_slice m N (aref a))
    | FChunksFromSlice => rmap (fun p => VPair (fst p) (snd p)) (chunks_from_slice m N (aref a))
    | FChunksFromSliceMut => rmap (fun p => VPair (fst p) (snd p)) (chunks_from_slice_mut m N (aref a))
    | FSliceFromChunks => rmap VRef (slice_from_chunks m N (aref a))
    | FSliceFromChunksMut => rmap VRef (slice_from_chunks_mut m N (aref a))
    | FFromArray => rmap VCells (from_array (aneeds a) N (aval a))
    | FIntoArray => rmap VCells (into_array (aneeds a) (aM a) (aval a))
    | FFromChunks => rmap VRef (from_chunks m N (aref a))
    | FFromChunksMut => rmap VRef (from_chunks_mut m N (aref a))
    | FIntoChunks => rmap VRef (into_chunks m N (aref a))
    | FIntoChunksMut => rmap VRef (into_chunks_mut m N (aref a))
    | FUninit => rmap VCells (uninit N)
    | FAssumeInit => rmap VCells (assume_init (aneeds a) N (aval a))
    | FConstTransmute => rmap VCells (const_transmute (aneeds a) (aM a) (aval a))
    | FArrList => rmap VCells (from_array (aneeds a) N (aval a))
    | FArrRepeatTy => rmap VCells (const_transmute (aneeds a) N (aval a))
    | FArrRepeatExpr => rmap VCells (from_array (aneeds a) N (aval a))
    | FConstDefault => rmap VCells (const_default (apos a) N)
    | FBuilderNew => rmap VBuilder (builder_new N)
    | FBuilderIsFull => Ret (VBool (builder_is_full N (mkBuilder (aval a) (apos a))))
    | FBuilderAssumeInit =>
        rmap VCells (builder_assume_init (adbg a) (aneeds a) N (mkBuilder (aval a) (apos a)))
    | FIBuilderNew => rmap VIBuilder (ibuilder_new (sp (aref a)))
    | FIBuilderIsFull => Ret (VBool (ibuilder_is_full N (mkIBuilder (sp (aref a)) (apos a))))
    | FIBuilderFinish => rmap (fun _ => VUnit) (ibuilder_finish (adbg a) N (mkIBuilder (sp (aref a)) (apos a)))
    | FConsumerNew => rmap VBuilder (consumer_new (aval a))
    end.
End Interp.

(* ---------------------------------------------------------------- valid input objects *)

(* a Rust reference to [n] elements at [p]: inside a live allocation (or zero bytes) *)
Definition valid_ref (esz : Z) (m : mem) (p : ptr) (n : Z) : Prop :=
  0 <= n /\ 0 <= esz /\
  (n * esz = 0 \/
   exists b bl, pbase p = Blk b /\ nth_error m b = Some bl /\ 0 <= poff p /\ poff p + n <= zlen bl).

(* a slice reference of [slen] items of [sstride] elements; its total size is a usize *)
Definition valid_slice (esz : Z) (m : mem) (s : slice) : Prop :=
  0 <= slen s /\ 0 <= sstride s /\ slen s * sstride s < two64 /\
  valid_ref esz m (sp s) (slen s * sstride s).

(* a by-value [T; n] / GenericArray<T, n>: n cells, initialised when T needs it *)
Definition valid_val (needs : bool) (n : Z) (a : list cell) : Prop :=
  zlen a = n /\ (needs = true -> all_init a = true).

Definition valid_args (esz : Z) (f : cfn) (a : cargs) : Prop :=
  0 <= aN a /\ aN a < two64 /\ 0 <= esz /\
  match f with
  | FLen | FUninit | FBuilderNew | FConstDefault | FBuilderIsFull | FIBuilderIsFull => True
  | FAsSlice | FAsMutSlice | FIBuilderNew =>
      valid_ref esz (amem a) (sp (aref a)) (aN a)                       (* &self: a GenericArray<T,N> *)
  | FFromSlice | FTryFromSlice | FFromMutSlice | FTryFromMutSlice
  | FChunksFromSlice | FChunksFromSliceMut =>
      valid_slice esz (amem a) (aref a) /\ sstride (aref a) = 1         (* &[T] *)
  | FSliceFromChunks | FSliceFromChunksMut | FFromChunks | FFromChunksMut
  | FIntoChunks | FIntoChunksMut =>
      valid_slice esz (amem a) (aref a) /\ sstride (aref a) = aN a      (* &[[T; N]] *)
  | FFromArray | FArrList | FArrRepeatTy | FArrRepeatExpr | FConsumerNew =>
      valid_val (aneeds a) (aN a) (aval a)                              (* U = N by the type bound *)
  | FIntoArray => valid_val (aneeds a) (aN a) (aval a) /\ aM a = aN a   (* U = N by the type bound *)
  | FAssumeInit => valid_val (aneeds a) (aN a) (aval a)                 (* safety contract: all written *)
  | FConstTransmute =>                                                  (* safety contract: as transmute *)
      valid_val (aneeds a) (aN a) (aval a) /\ 0 <= aM a /\ (esz <> 0 -> aM a = aN a)
  | FBuilderAssumeInit =>                                               (* safety contract: all N written *)
      valid_val (aneeds a) (aN a) (aval a) /\ apos a = aN a
  | FIBuilderFinish => apos a = aN a
  end.

(* the const API of the crate (name, model function).  Plain data: to be regenerated by
   the translator from the `const` qualifiers in the source. *)
Definition const_fns : list (string * cfn) :=
  [ ("GenericArray::len", FLen); ("GenericArray::as_slice", FAsSlice);
    ("GenericArray::as_mut_slice", FAsMutSlice); ("GenericArray::from_slice", FFromSlice);
    ("GenericArray::try_from_slice", FTryFromSlice); ("GenericArray::from_mut_slice", FFromMutSlice);
    ("GenericArray::try_from_mut_slice", FTryFromMutSlice);
    ("GenericArray::chunks_from_slice", FChunksFromSlice);
    ("GenericArray::chunks_from_slice_mut", FChunksFromSliceMut);
    ("GenericArray::slice_from_chunks", FSliceFromChunks);
    ("GenericArray::slice_from_chunks_mut", FSliceFromChunksMut);
    ("GenericArray::from_array", FFromArray); ("GenericArray::into_array", FIntoArray);
    ("GenericArray::from_chunks", FFromChunks); ("GenericArray::from_chunks_mut", FFromChunksMut);
    ("GenericArray::into_chunks", FIntoChunks); ("GenericArray::into_chunks_mut", FIntoChunksMut);
    ("GenericArray::uninit", FUninit); ("GenericArray::assume_init", FAssumeInit);
    ("const_transmute", FConstTransmute);
    ("arr![x0, x1, ..]", FArrList); ("arr![x; N]", FArrRepeatTy); ("arr![x; n]", FArrRepeatExpr);
    ("GenericArray::const_default", FConstDefault);
    ("ArrayBuilder::new", FBuilderNew); ("ArrayBuilder::is_full", FBuilderIsFull);
    ("ArrayBuilder::assume_init", FBuilderAssumeInit);
    ("IntrusiveArrayBuilder::new", FIBuilderNew); ("IntrusiveArrayBuilder::is_full", FIBuilderIsFull);
    ("IntrusiveArrayBuilder::finish", FIBuilderFinish); ("ArrayConsumer::new", FConsumerNew) ]%string.

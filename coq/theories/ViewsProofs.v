(* ViewsProofs.v -- proofs about Views.v (property C02). *)
From GA Require Import Base Mem MemProofs Views.

(* ---- shape of every view --------------------------------------------------- *)

Lemma view_shape k N self : view_of k N self = mkslice self N.
Proof. destruct k; reflexivity. Qed.

Lemma view_base k N self : sptr (view_of k N self) = self.
Proof. now rewrite view_shape. Qed.

Lemma view_len k N self : slen (view_of k N self) = N.
Proof. now rewrite view_shape. Qed.

Lemma elem_ptr_view k N self i :
  elem_ptr (view_of k N self) i = if i <? N then Ret (padd self i) else Panicked.
Proof. now rewrite view_shape. Qed.

Lemma view_get_spec k N self m a i : valid_ref m self N a ->
  view_get m (view_of k N self) i =
  match nth_error a i with Some x => Ret x | None => Panicked end.
Proof.
  intros [Hlen Hh]. unfold view_get. rewrite elem_ptr_view.
  destruct (i <? N) eqn:L.
  - apply Nat.ltb_lt in L. destruct (nth_error_Some_lt a i) as [x Hx]; [lia|].
    rewrite Hx. cbn. apply Hh. exact Hx.
  - apply Nat.ltb_ge in L. cbn. destruct (nth_error a i) eqn:E; [|reflexivity].
    assert (i < length a) by (apply nth_error_Some; congruence). lia.
Qed.

(* C02_view *)
Theorem view_spec : forall k N self,
  sptr (view_of k N self) = self /\ slen (view_of k N self) = N /\
  (forall i, i < N -> elem_ptr (view_of k N self) i = Ret (padd self i)) /\
  (forall i, N <= i -> elem_ptr (view_of k N self) i = Panicked) /\
  (forall m a, valid_ref m self N a -> forall i,
     view_get m (view_of k N self) i =
     match nth_error a i with Some x => Ret x | None => Panicked end).
Proof.
  intros k N self. split; [apply view_base|]. split; [apply view_len|].
  split; [|split].
  - intros i Hi. rewrite elem_ptr_view. apply Nat.ltb_lt in Hi. now rewrite Hi.
  - intros i Hi. rewrite elem_ptr_view. apply Nat.ltb_ge in Hi. now rewrite Hi.
  - intros m a Hv i. now apply view_get_spec.
Qed.

Lemma map_ext_seq {A} (f g : nat -> A) a n :
  (forall i, a <= i < a + n -> f i = g i) -> map f (seq a n) = map g (seq a n).
Proof.
  revert a; induction n as [|n IH]; intros a H; cbn; [reflexivity|].
  rewrite H by lia. f_equal. apply IH. intros i Hi. apply H. lia.
Qed.

Lemma map_nth_error_seq {A} (a : list A) :
  map (fun i => nth_error a i) (seq 0 (length a)) = map Some a.
Proof.
  induction a as [|x a IH]; [reflexivity|].
  cbn [length seq map]. cbn [nth_error]. f_equal.
  rewrite <- seq_shift, map_map. cbn [nth_error]. exact IH.
Qed.

(* all N elements, in index order, each in bounds and initialised *)
Theorem view_read_spec : forall k N self m a, valid_ref m self N a ->
  view_read m (view_of k N self) = map Ret a.
Proof.
  intros k N self m a Hv. unfold view_read. rewrite view_len.
  destruct Hv as [Hlen Hh]. subst N.
  rewrite (map_ext_seq _ (fun i => match nth_error a i with Some x => Ret x | None => Panicked end)).
  - change (fun i => match nth_error a i with Some x => Ret x | None => Panicked end)
      with (fun i => (fun o : option Z => match o with Some x => Ret x | None => Panicked end) (nth_error a i)).
    rewrite <- (map_map (fun i => nth_error a i)). rewrite map_nth_error_seq, map_map. reflexivity.
  - intros i _. apply view_get_spec. split; auto.
Qed.

(* by-reference iteration: N items, item i is the reference to element i *)
Theorem iter_spec : forall k N self,
  slice_iter (view_of k N self) = map (padd self) (seq 0 N) /\
  length (slice_iter (view_of k N self)) = N /\
  (forall i, i < N -> nth_error (slice_iter (view_of k N self)) i = Some (padd self i)) /\
  (forall i, N <= i -> nth_error (slice_iter (view_of k N self)) i = None).
Proof.
  intros k N self. unfold slice_iter. rewrite view_shape. cbn [sptr slen].
  split; [reflexivity|]. split; [now rewrite map_length, seq_length|]. split.
  - intros i Hi. rewrite nth_error_map. rewrite (nth_error_nth' _ 0) by (rewrite seq_length; lia).
    rewrite seq_nth by lia. reflexivity.
  - intros i Hi. apply nth_error_None. rewrite map_length, seq_length. lia.
Qed.

(* ---- write-through --------------------------------------------------------- *)

Theorem write_through : forall kA kB N self m a i v,
  valid_ref m self N a -> i < N ->
  exists m',
    view_set m (view_of kA N self) i v = Ret m' /\
    valid_ref m' self N (upd i v a) /\
    (forall j, view_get m' (view_of kB N self) j =
               if j =? i then Ret v else view_get m (view_of kB N self) j) /\
    (forall q, q <> padd self i -> cell_at m' q = cell_at m q).
Proof.
  intros kA kB N self m a i v Hv Hi. pose proof Hv as [Hlen Hh].
  destruct (nth_error_Some_lt a i) as [x Hx]; [lia|].
  destruct (assign_ok m (padd self i) v x (Hh _ _ Hx)) as [m' Hm'].
  exists m'. unfold view_set. rewrite elem_ptr_view.
  assert (L : (i <? N) = true) by now apply Nat.ltb_lt. rewrite L. cbn [rbind].
  split; [exact Hm'|].
  assert (Hv' : valid_ref m' self N (upd i v a)).
  { split; [now rewrite upd_length|]. eapply holds_assign; eauto. }
  split; [exact Hv'|]. split.
  - intros j. rewrite (view_get_spec kB N self m' _ j Hv'), (view_get_spec kB N self m a j Hv).
    destruct (j =? i) eqn:E.
    + apply Nat.eqb_eq in E. subst j. rewrite nth_error_upd_eq by lia. reflexivity.
    + apply Nat.eqb_neq in E. rewrite nth_error_upd_ne by auto. reflexivity.
  - intros q Hq. eapply cell_at_assign_other; eauto.
Qed.

(* a write through a shared-only route does not exist; writes outside the range
   fail without touching memory *)
Lemma write_oob k N self m i v : N <= i -> view_set m (view_of k N self) i v = Panicked.
Proof.
  intros H. unfold view_set. rewrite elem_ptr_view. apply Nat.ltb_ge in H. now rewrite H.
Qed.

(* ---- checked reinterpretation ---------------------------------------------- *)

Lemma from_slice_spec N s :
  from_slice N s = if slen s =? N then Ret (sptr s) else Panicked.
Proof. unfold from_slice. now destruct (slen s =? N). Qed.

Lemma reinterpret_spec f N s :
  reinterpret f N s = if slen s =? N then Ret (TOk (sptr s)) else reject_kind f.
Proof.
  destruct f; cbn; unfold from_slice, try_from_slice, from_mut_slice, try_from_mut, try_from_ref,
    try_from_mut_slice, try_from_slice, from_mut_slice;
  destruct (slen s =? N) eqn:E; cbn; try rewrite E; reflexivity.
Qed.

(* C02_exact, uniform over the six checked forms *)
Theorem reinterpret_exact : forall f N s,
  (forall q, reinterpret f N s = Ret (TOk q) <-> slen s = N /\ q = sptr s) /\
  (slen s <> N -> reinterpret f N s = reject_kind f) /\
  (slen s < N -> reinterpret f N s = reject_kind f) /\
  (N < slen s -> reinterpret f N s = reject_kind f) /\
  reinterpret f N s <> UB.
Proof.
  intros f N s. rewrite reinterpret_spec.
  destruct (slen s =? N) eqn:E.
  - apply Nat.eqb_eq in E. split; [|split; [|split; [|split]]]; try lia; try discriminate.
    intros q. split.
    + intros [= <-]. auto.
    + intros [_ ->]. reflexivity.
  - apply Nat.eqb_neq in E. split; [|split; [|split; [|split]]]; auto.
    + intros q. split; [|tauto]. destruct f; discriminate.
    + destruct f; discriminate.
Qed.

Theorem from_slice_exact : forall N s,
  (forall q, from_slice N s = Ret q <-> slen s = N /\ q = sptr s) /\
  (slen s <> N -> from_slice N s = Panicked).
Proof.
  intros N s. rewrite from_slice_spec. destruct (slen s =? N) eqn:E.
  - apply Nat.eqb_eq in E. split; [|tauto]. intros q. split.
    + intros [= <-]. auto.
    + intros [_ ->]. reflexivity.
  - apply Nat.eqb_neq in E. split; [|auto]. intros q. split; [discriminate|tauto].
Qed.

Theorem from_mut_slice_exact : forall N s,
  (forall q, from_mut_slice N s = Ret q <-> slen s = N /\ q = sptr s) /\
  (slen s <> N -> from_mut_slice N s = Panicked).
Proof.
  intros N s. unfold from_mut_slice. destruct (slen s =? N) eqn:E.
  - apply Nat.eqb_eq in E. split; [|tauto]. intros q. split.
    + intros [= <-]. auto.
    + intros [_ ->]. reflexivity.
  - apply Nat.eqb_neq in E. split; [|auto]. intros q. split; [discriminate|tauto].
Qed.

Theorem try_from_slice_exact : forall N s,
  (forall q, try_from_slice N s = Ret (TOk q) <-> slen s = N /\ q = sptr s) /\
  (slen s <> N -> try_from_slice N s = Ret TErr).
Proof.
  intros N s. unfold try_from_slice. destruct (slen s =? N) eqn:E; cbn.
  - apply Nat.eqb_eq in E. split; [|tauto]. intros q. split.
    + intros [= <-]. auto.
    + intros [_ ->]. reflexivity.
  - apply Nat.eqb_neq in E. split; [|auto]. intros q. split; [discriminate|tauto].
Qed.

Theorem try_from_mut_slice_exact : forall N s,
  (forall q, try_from_mut_slice N s = Ret (TOk q) <-> slen s = N /\ q = sptr s) /\
  (slen s <> N -> try_from_mut_slice N s = Ret TErr).
Proof.
  intros N s. unfold try_from_mut_slice, from_mut_slice. destruct (slen s =? N) eqn:E; cbn.
  - apply Nat.eqb_eq in E. split; [|tauto]. intros q. split.
    + intros [= <-]. auto.
    + intros [_ ->]. reflexivity.
  - apply Nat.eqb_neq in E. split; [|auto]. intros q. split; [discriminate|tauto].
Qed.

(* the result aliases the source: same cells, same contents, nothing copied,
   and it is a valid reference (N initialised cells in bounds) *)
Theorem reinterpret_alias : forall f N s q m a,
  reinterpret f N s = Ret (TOk q) -> valid_slice m s a ->
  q = sptr s /\ valid_ref m q N a /\ as_slice N q = s.
Proof.
  intros f N s q m a H [Hlen Hh]. apply (proj1 (reinterpret_exact f N s)) in H.
  destruct H as [HN ->]. split; [reflexivity|]. split.
  - split; [lia|exact Hh].
  - unfold as_slice. destruct s; cbn in *. now subst.
Qed.

Theorem from_array_ref_alias : forall a m l, valid_slice m a l ->
  from_array_ref a = Ret (sptr a) /\ from_array_mut a = Ret (sptr a) /\
  valid_ref m (sptr a) (slen a) l.
Proof. intros a m l [H1 H2]. repeat split; auto. Qed.

(* C02_roundtrip *)
Theorem roundtrip : forall N p,
  from_slice N (as_slice N p) = Ret p /\
  (forall f k, reinterpret f N (view_of k N p) = Ret (TOk p)) /\
  (forall f s q, reinterpret f N s = Ret (TOk q) -> forall k, view_of k N q = s).
Proof.
  intros N p. split; [|split].
  - rewrite from_slice_spec. cbn. now rewrite Nat.eqb_refl.
  - intros f k. rewrite reinterpret_spec, view_shape. cbn. now rewrite Nat.eqb_refl.
  - intros f s q H k. apply (proj1 (reinterpret_exact f N s)) in H. destruct H as [HN ->].
    rewrite view_shape. destruct s; cbn in *. now subst.
Qed.

(* a write through the reinterpreted mutable reference lands in the source slice *)
Theorem reinterpret_write_through : forall f N s q m a i v k,
  reinterpret f N s = Ret (TOk q) -> valid_slice m s a -> i < N ->
  exists m', view_set m (view_of k N q) i v = Ret m' /\
             valid_slice m' s (upd i v a) /\
             view_get m' s i = Ret v /\
             (forall r, r <> padd (sptr s) i -> cell_at m' r = cell_at m r).
Proof.
  intros f N s q m a i v k H Hs Hi.
  destruct (reinterpret_alias _ _ _ _ _ _ H Hs) as (-> & Hv & Hs').
  destruct (write_through k KAsSlice N (sptr s) m a i v Hv Hi) as (m' & Hw & Hv' & Hr & Hf).
  exists m'. split; [exact Hw|]. split; [|split].
  - destruct Hv' as [Hl Hh]. split; [|exact Hh]. rewrite upd_length. apply Hs.
  - specialize (Hr i). rewrite Nat.eqb_refl in Hr. cbn [view_of] in Hr. now rewrite Hs' in Hr.
  - exact Hf.
Qed.

(* ---- the guard discriminates ----------------------------------------------- *)

(* `!=` relaxed to `>`: a shorter slice is accepted and the resulting reference
   reaches past it *)
Lemma from_slice_gt_refuted : exists m s a q,
  valid_slice m s a /\ from_slice_gt 2 s = Ret q /\ ~ exists b, valid_ref m q 2 b.
Proof.
  exists [[Init 7%Z]], (mkslice (mkptr 0 0) 1), [7%Z], (mkptr 0 0).
  split; [|split].
  - split; [reflexivity|]. intros [|i] x Hx; cbn in Hx; [|destruct i; discriminate].
    injection Hx as <-. reflexivity.
  - reflexivity.
  - intros ([|x [|y b]] & Hl & Hh); cbn in Hl; try discriminate.
    specialize (Hh 1 y eq_refl). discriminate.
Qed.

(* `!=` relaxed to `<`: a longer slice is accepted, i.e. reinterpretation without
   exact length (a truncated reference) *)
Lemma from_slice_lt_refuted : exists s q, from_slice_lt 2 s = Ret q /\ slen s <> 2.
Proof. exists (mkslice (mkptr 0 0) 3), (mkptr 0 0). split; [reflexivity|cbn; lia]. Qed.

(* ---- by-value conversions -------------------------------------------------- *)

Lemma const_transmute_eq {X} a b (x : X) : a = b -> const_transmute a b x = Ret x.
Proof. intros ->. unfold const_transmute. now rewrite Nat.eqb_refl. Qed.

Lemma const_transmute_ne {X} a b (x : X) : a <> b -> const_transmute a b x = Panicked.
Proof. intros H. unfold const_transmute. apply Nat.eqb_neq in H. now rewrite H. Qed.

Theorem by_value_spec : forall s N (v : list Z), length v = N ->
  from_array s N N v = Ret v /\ into_array s N N v = Ret v /\
  from_native s N v = Ret v /\ into_native s N v = Ret v /\
  from_tuple s v = Ret v /\ into_tuple s v = Ret v.
Proof.
  intros s N v H. unfold from_native, into_native, from_tuple, into_tuple, from_array, into_array, const_len.
  repeat split; apply const_transmute_eq; reflexivity.
Qed.

(* position by position, both directions, and the round trips *)
Theorem by_value_positions : forall s N (v : list Z), length v = N ->
  (forall r, from_native s N v = Ret r -> forall i, nth_error r i = nth_error v i) /\
  (forall r, into_native s N v = Ret r -> forall i, nth_error r i = nth_error v i) /\
  (forall r, from_tuple s v = Ret r -> forall i, nth_error r i = nth_error v i) /\
  (forall r, into_tuple s v = Ret r -> forall i, nth_error r i = nth_error v i) /\
  rbind (from_native s N v) (into_native s N) = Ret v /\
  rbind (from_tuple s v) (into_tuple s) = Ret v.
Proof.
  intros s N v H. destruct (by_value_spec s N v H) as (_ & _ & H3 & H4 & H5 & H6).
  rewrite H3, H4, H5, H6. cbn [rbind]. rewrite H4, H6.
  repeat split; intros r [= <-] i; reflexivity.
Qed.

(* outside the typed domain (U <> N cannot be written: the where-clause
   Const<U>: IntoArrayLength<ArrayLength = N> forbids it): the size test rejects
   it for sized elements; for zero-sized elements it cannot *)
Lemma from_array_size_mismatch s U N v : 0 < s -> U <> N -> from_array s U N v = Panicked.
Proof. intros Hs H. apply const_transmute_ne. nia. Qed.

Lemma from_array_zst U N v : from_array 0 U N v = Ret v.
Proof. apply const_transmute_eq. lia. Qed.

(* ---- non-vacuity ----------------------------------------------------------- *)

(* an array of three elements in the middle of a block satisfies [valid_ref] *)
Example valid_ref_nontrivial :
  valid_ref [map Init [9; 1; 2; 3]%Z] (mkptr 0 1) 3 [1; 2; 3]%Z /\
  valid_slice [map Init [9; 1; 2; 3]%Z] (mkslice (mkptr 0 1) 3) [1; 2; 3]%Z.
Proof.
  split; (split; [reflexivity|]); apply (holds_init_block [9; 1; 2; 3]%Z 1); cbn; lia.
Qed.

(* ... and the theorems compute on it: a write through AsMut<[T; N]> at index 1 is seen by
   by-reference iteration, the neighbours keep their values, an index past the end panics *)
Example write_through_nontrivial :
  let m := [map Init [9; 1; 2; 3]%Z] in
  let self := mkptr 0 1 in
  exists m', view_set m (view_of KAsMutArr 3 self) 1 77%Z = Ret m' /\
             view_read m' (view_of KIter 3 self) = [Ret 1; Ret 77; Ret 3]%Z /\
             load m' (mkptr 0 0) = Ret 9%Z /\
             view_get m' (view_of KDeref 3 self) 3 = Panicked.
Proof. eexists. repeat split. Qed.

Example exact_nontrivial :
  from_slice 3 (mkslice (mkptr 0 1) 3) = Ret (mkptr 0 1) /\
  from_slice 3 (mkslice (mkptr 0 1) 2) = Panicked /\
  from_slice 3 (mkslice (mkptr 0 1) 4) = Panicked /\
  try_from_mut_slice 3 (mkslice (mkptr 0 1) 4) = Ret TErr /\
  from_tuple 4 [5; 6; 7]%Z = Ret [5; 6; 7]%Z.
Proof. repeat split. Qed.

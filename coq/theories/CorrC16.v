(* CorrC16.v -- correspondence entry point for C16 (harness/src/bin/c16.rs).
   Case encoding: HeapCase.v.  The whole run is observed: building the source values,
   the operation, dropping the result.
   OBS when fail = -1: code, alloc calls, dealloc calls, realloc calls, zero-size requests,
        releases that do not match a live block with its layout, live blocks at the end,
        4 k requested sizes (sorted)..., 4 d identities dropped during the operation (sorted)...
   OBS when fail >= 0 (child process): 0 the run finished | 1 abort through the standard
        allocation-error path | 2 any other abnormal end (signal, UB check) | 3 timeout. *)
From GA Require Import Base Codec Builder Functional Alloc HeapOps HeapCase.
Local Open Scope Z_scope.

Definition run_c16 (case : list Z) : list Z :=
  match decode case with
  | Some (T, okind, sc, fails) =>
    let r := run_scn fails T sc (init 0 0) in
    if nth 6 case (-1) <? 0 then
      let t := tally_of (atr (r_final r)) in
      [code_num (r_code r); t_alloc t; t_dealloc t; t_realloc t; t_zero t; t_mis t; zlen (t_heap t)] ++
      enc_list (sortZ (t_sizes t)) ++
      enc_list (canon_drops3 (nth 1 case 0) (right_kind case) okind (releases (r_events r)))
    else
      [match r_code r with RAllocErr => 1 | RUB => 2 | _ => 0 end]
  | None => [-1]
  end.

(* Flatten.v -- hub model of Flatten / Unflatten (src/sequence.rs:594-676) over the
   element-granular memory of Mem.v.  Definitions only; proofs in FlattenProofs.v.

   Layout (property C01, closed under nesting): GenericArray<GenericArray<T,N>,M>
   is M consecutive inner arrays of stride N elements, so inner array i occupies
   the cells [i*N, (i+1)*N) and its element j is cell i*N + j.  The cell list of a
   nested array value is therefore the concatenation of its rows, and reading a
   cell list back at the nested type cuts it into consecutive rows of N cells. *)
From GA Require Import Base Mem Views.

(* a value of type GenericArray<GenericArray<T,N>,M> *)
Definition shape (N M : nat) (a : list (list Z)) : Prop :=
  length a = M /\ Forall (fun r => length r = N) a.

Definition cells_of_nested (a : list (list Z)) : list Z := concat a.

Fixpoint chunks (N Q : nat) (c : list Z) : list (list Z) :=
  match Q with
  | 0 => []
  | S Q' => firstn N c :: chunks N Q' (skipn N c)
  end.
Definition nested_of_cells (N Q : nat) (c : list Z) : list (list Z) := chunks N Q c.

(* typenum: Prod<N, M> and Quot<NM, N> (type-level; Quot<_, U0> does not exist) *)
Definition prod_len (N M : nat) : nat := N * M.
Definition quot_len (NM N : nat) : nat := NM / N.

(* ---- owned forms: crate::const_transmute(self) ------------------------------
   size_of GenericArray<GenericArray<T,N>,M> = M * (N * s),
   size_of GenericArray<T,K> = K * s   (C01) *)
Definition flatten_owned (s N M : nat) (a : list (list Z)) : res (list Z) :=
  const_transmute (M * (N * s)) (prod_len N M * s) (cells_of_nested a).

Definition unflatten_owned (s NM N : nat) (b : list Z) : res (list (list Z)) :=
  rbind (const_transmute (NM * s) (quot_len NM N * (N * s)) b)
        (fun c => Ret (nested_of_cells N (quot_len NM N) c)).

(* ---- reference forms: mem::transmute(self) ----------------------------------
   the reference keeps its address; its new length comes from the Output type *)
Record aref : Type := mkaref { aptr : ptr; alen : nat }.                  (* &GenericArray<T, alen> *)
Record nref : Type := mknref { nptr : ptr; ninner : nat; nouter : nat }.  (* &GenericArray<GenericArray<T,ninner>,nouter> *)

Definition flatten_ref (N M : nat) (self : ptr) : aref := mkaref self (prod_len N M).
Definition flatten_mut (N M : nat) (self : ptr) : aref := mkaref self (prod_len N M).
Definition unflatten_ref (NM N : nat) (self : ptr) : nref := mknref self N (quot_len NM N).
Definition unflatten_mut (NM N : nat) (self : ptr) : nref := mknref self N (quot_len NM N).

(* total extent in elements (size_of_val / size_of T) *)
Definition aref_extent (r : aref) : nat := alen r.
Definition nref_extent (r : nref) : nat := nouter r * ninner r.

Definition aref_slice (r : aref) : slice := as_slice (alen r) (aptr r).

(* r[i][j]: outer bounds check, inner array i at stride ninner, inner bounds check *)
Definition outer_elem (r : nref) (i : nat) : res ptr :=
  if i <? nouter r then Ret (padd_arr (ninner r) (nptr r) i) else Panicked.
Definition nested_ptr (r : nref) (i j : nat) : res ptr :=
  rbind (outer_elem r i) (fun q => elem_ptr (as_slice (ninner r) q) j).
Definition nested_get (m : mem) (r : nref) (i j : nat) : res Z :=
  rbind (nested_ptr r i j) (load m).
Definition nested_set (m : mem) (r : nref) (i j : nat) (v : Z) : res mem :=
  rbind (nested_ptr r i j) (fun q => assign m q v).

Definition valid_nested (m : mem) (r : nref) (a : list (list Z)) : Prop :=
  shape (ninner r) (nouter r) a /\ holds m (nptr r) (cells_of_nested a).

(* element j of row i of a nested value *)
Definition nested_nth (a : list (list Z)) (i j : nat) : option Z :=
  match nth_error a i with Some r => nth_error r j | None => None end.

(* all leaves read through a nested reference, row by row *)
Definition nested_read (m : mem) (r : nref) : list (list (res Z)) :=
  map (fun i => map (nested_get m r i) (seq 0 (ninner r))) (seq 0 (nouter r)).

(* mutant for the discrimination lemma (FlattenProofs): Prod<N,M> replaced by Sum<N,M> in the
   Output type of a reference impl *)
Definition flatten_ref_sum (N M : nat) (self : ptr) : aref := mkaref self (N + M).

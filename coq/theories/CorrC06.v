(* CorrC06.v -- correspondence entry point for C06: decode a case, run the hub
   model, encode the observables exactly as harness/src/bin/c06.rs does. *)
From GA Require Import Base Codec Iter.
Local Open Scope Z_scope.

Fixpoint decode_ops (fuel : nat) (l : list Z) : list op :=
  match fuel with
  | O => []
  | S f =>
    match l with
    | 0 :: r => ONext :: decode_ops f r
    | 1 :: r => ONextBack :: decode_ops f r
    | 2 :: n :: r => ONth n :: decode_ops f r
    | 3 :: n :: r => ONthBack n :: decode_ops f r
    | 4 :: r => OLen :: decode_ops f r
    | 5 :: r => OSizeHint :: decode_ops f r
    | 6 :: r => OAsSlice :: decode_ops f r
    | 7 :: i :: v :: r => OWrite (znat i) v :: decode_ops f r
    | 8 :: r => OCloneObs :: decode_ops f r
    | 9 :: r => OCloneSwap :: decode_ops f r
    | 10 :: r => OFoldClone :: decode_ops f r
    | 11 :: r => ORfoldClone :: decode_ops f r
    | 12 :: r => OCountClone :: decode_ops f r
    | 13 :: r => OLastClone :: decode_ops f r
    | 14 :: r => ODebug :: decode_ops f r
    (* 15 / 16: fold / rfold of the iterator itself as the last operation of a history (plain values:
       what it visits is what a clone's fold visits; the iterator is gone afterwards) *)
    (* 17: clone_from into another iterator, which is then observed: what a clone shows *)
    | 17 :: r => OCloneObs :: decode_ops f r
    | 15 :: _ => [OFoldClone]
    | 16 :: _ => [ORfoldClone]
    | _ => []
    end
  end.

Definition enc_out (v : out) : list Z :=
  match v with
  | VOpt o => enc_opt o
  | VNum n => [2; Z.of_nat n]
  | VHint lo hi => [3; Z.of_nat lo; Z.of_nat hi]
  | VList l => enc_list l
  | VUnit => [5]
  | VPanic => [6]
  | VUB => [7]
  end.

Definition run_c06 (case : list Z) : list Z :=
  match case with
  | n :: rest =>
    let '(vals, opsz) := take_list (znat n) rest in
    flat_map enc_out (run (into_iter vals) (decode_ops (length opsz) opsz))
  | [] => []
  end.

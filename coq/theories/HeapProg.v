(* HeapProg.v -- a small expression language for the heap conversions of src/impl_alloc.rs
   (into_boxed_slice, into_vec, try_from_boxed_slice, try_from_vec, TryFrom<Vec<T>>,
   TryFrom<Box<[T]>>, From<GenericArray> for Box<[T]> / Vec<T>), the target of tools/ga2coq
   (coq/gen/GenHeap.v), and its interpreter over the allocator model of Alloc.v.
   Definitions only.

   A body is an optional length guard (`if x.len() != N::USIZE { return Err(LengthError) }`,
   which drops the argument) and one expression built from the std operations the code calls --
   Box::into_raw, pointer casts, slice_from_raw_parts_mut, Box::from_raw, Vec::from(Box<[T]>),
   Vec::into_boxed_slice, Box::new, moving a Vec's items into a builder -- and calls of the other
   functions of the file.  Every method call is resolved by the translator from the declared
   types (Vec::into_boxed_slice vs GenericArray::into_boxed_slice, `.into()`, `.try_into()`).
   Raw pointers carry the block they came from; Box::from_raw of a pointer whose pointee does not
   have the length of that block is undefined behaviour here, never a silent reinterpretation. *)
From Coq Require Import String.
From GA Require Import Base Builder Alloc.
Local Open Scope Z_scope.

Inductive hx : Type :=
| HArg                                   (* the function's argument *)
| HBoxIntoRaw (e : hx)                   (* Box::into_raw(e) *)
| HCast (e : hx)                         (* e as *mut T / as *mut _ *)
| HSliceFromRawParts (e : hx)            (* core::ptr::slice_from_raw_parts_mut(e, N::USIZE) *)
| HBoxFromRaw (as_array : bool) (e : hx) (* Box::from_raw(e), typed Box<GenericArray<T, N>> or Box<[T]> *)
| HVecFromBoxSlice (e : hx)              (* Vec::from(e) / e.into() for e: Box<[T]> *)
| HVecIntoBoxedSlice (e : hx)            (* e.into_boxed_slice() for e: Vec<T> *)
| HBoxNew (e : hx)                       (* Box::new(e) for e: GenericArray<T, N> *)
| HExtendFromVec (e : hx)                (* uninit array + builder.extend(e.into_iter()) + finish: moves the
                                            Vec's items into a stack array; vec::IntoIter frees the buffer *)
| HCrate (f : string) (e : hx).          (* another function of src/impl_alloc.rs, by name *)

Record hbody : Type := mkBody {
  b_guard : bool;        (* `if arg.len() != N::USIZE { return Err(LengthError) }` first *)
  b_ok : bool;           (* the result is wrapped in Ok(..) (a guard without it is ill-formed) *)
  b_expr : hx
}.

Inductive hv : Type :=
| VBoxA (b : hbox)                       (* Box<GenericArray<T, N>> *)
| VBoxS (b : hbox)                       (* Box<[T]> *)
| VVecV (v : hvec)
| VRawA (blk : option nat) (el : list Z) (* thin pointer into a block holding el *)
| VRawS (blk : option nat) (el : list Z) (len : Z)   (* *mut [T] with its length *)
| VArrV (l : list Z)                     (* a GenericArray by value *)
| VOkV (v : hv)
| VErrV.

Section Interp.
  Variable fails : nat -> bool.
  Variable T : elt.
  Variable N : nat.
  Variable table : list (string * hbody).

  Fixpoint lookup (k : string) (l : list (string * hbody)) : option hbody :=
    match l with
    | [] => None
    | (k', a) :: r => if String.eqb k k' then Some a else lookup k r
    end.

  Definition arg_len (v : hv) : option Z :=
    match v with
    | VBoxS b => Some (blen b)
    | VVecV v => Some (vlen v)
    | _ => None
    end.

  (* dropping a value that is being discarded on the Err path *)
  Definition drop_hv (v : hv) : M unit :=
    match v with
    | VBoxS b => box_drop T b
    | VVecV v => vec_drop T v
    | VBoxA b => arr_drop T N b
    | VArrV l => emitE (map EDrop l)
    | _ => stop MUB
    end.

  Fixpoint run_body (depth : nat) (b : hbody) (arg : hv) {struct depth} : M hv :=
    match depth with
    | O => stop MUB
    | S d =>
      let fix go (e : hx) {struct e} : M hv :=
        match e with
        | HArg => ret arg
        | HBoxIntoRaw x =>
          v <- go x ;;
          match v with
          | VBoxA b => ret (VRawA (bblk b) (bel b))
          | VBoxS b => ret (VRawS (bblk b) (bel b) (blen b))
          | _ => stop MUB
          end
        | HCast x =>
          v <- go x ;;
          match v with
          | VRawA blk el => ret (VRawA blk el)
          | VRawS blk el _ => ret (VRawA blk el)     (* a fat pointer cast to a thin one keeps the address *)
          | _ => stop MUB
          end
        | HSliceFromRawParts x =>
          v <- go x ;;
          match v with
          | VRawA blk el => ret (VRawS blk el (Z.of_nat N))
          | _ => stop MUB
          end
        | HBoxFromRaw as_array x =>
          v <- go x ;;
          match v with
          | VRawA blk el =>
            if as_array && (zlen el =? Z.of_nat N) then ret (VBoxA (mkBox blk el)) else stop MUB
          | VRawS blk el len =>
            if negb as_array && (zlen el =? len) then ret (VBoxS (mkBox blk el)) else stop MUB
          | _ => stop MUB
          end
        | HVecFromBoxSlice x =>
          v <- go x ;;
          match v with VBoxS b => ret (VVecV (vec_from_box b)) | _ => stop MUB end
        | HVecIntoBoxedSlice x =>
          v <- go x ;;
          match v with
          | VVecV w => b <- vec_into_boxed_slice fails T w ;; ret (VBoxS b)
          | _ => stop MUB
          end
        | HBoxNew x =>
          v <- go x ;;
          match v with
          | VArrV l => b <- box_new fails T l ;; ret (VBoxA b)
          | _ => stop MUB
          end
        | HExtendFromVec x =>
          v <- go x ;;
          match v with
          | VVecV w =>
            (* exactly N slots, filled from the N items (the guard ran first); IntoIter then has
               nothing left to drop and frees the buffer *)
            if vlen w =? Z.of_nat N
            then std_free (vblk w) (bytes T (vcap w)) (eal T) ;;; ret (VArrV (vel w))
            else stop MUB
          | _ => stop MUB
          end
        | HCrate f x =>
          v <- go x ;;
          match lookup f table with
          | Some body => run_body d body v
          | None => stop MUB
          end
        end in
      if b_guard b then
        match arg_len arg with
        | Some l =>
          if negb (l =? Z.of_nat N) then drop_hv arg ;;; ret VErrV
          else v <- go (b_expr b) ;; ret (if b_ok b then VOkV v else v)
        | None => stop MUB
        end
      else v <- go (b_expr b) ;; ret (if b_ok b then VOkV v else v)
    end.

  Definition call (f : string) (arg : hv) : M hv :=
    match lookup f table with
    | Some body => run_body 6 body arg
    | None => stop MUB
    end.
End Interp.

(* GenRun.v -- executable histories in which every iterator method is run through the
   REGENERATED program of coq/gen/GenIter.v (MuRust interpreter) instead of the hub function.
   Used by second correspondence runs of C05 and C06 (model entries 105 and 206): the
   translated source itself is executed against the real crate, so a mistranslation or a
   change of the source shows up as a concrete disagreement, not only as a broken tie proof. *)
From Coq Require Import String.
From GA Require Import Base Codec Iter MuRust IterTie CorrC05 CorrC06.
From GAGen Require Import GenIter.
Local Open Scope string_scope.
Local Open Scope Z_scope.

Definition unlift_val (v : val) : res (option Z) :=
  match v with
  | VSome (VId x) => Ret (Some x)
  | VNone => Ret None
  | _ => UB
  end.

Definition unlift (o : out val) : R (option Z) :=
  let '(r, s, b, e) := o in
  (match r with MRet v => unlift_val v | MPanic => Panicked | MUB => UB end, unembed s, b, e).

Definition gcall (m : string) (args : list val) (bomb : option Z) (s : it) : out val :=
  call iter_table DEPTH m args (embed s) bomb.

Definition gstep (bomb : option Z) (s : it) (o : dop) : R (option Z) :=
  unlift (match o with
          | DNext => gcall "next" [] bomb s
          | DNextBack => gcall "next_back" [] bomb s
          | DNth n => gcall "nth" [VInt n] bomb s
          | DNthBack n => gcall "nth_back" [VInt n] bomb s
          end).

Definition gfinish (bomb : option Z) (s : it) (f : dfin) : res (option Z) * list ev :=
  match f with
  | FDrop =>
    let '(r, _, _, e) := gcall "drop" [] bomb s in
    (match r with MRet _ => Ret None | MPanic => Panicked | MUB => UB end, e)
  | FCount =>
    let '(r, _, _, e) := gcall "count" [] bomb s in
    (match r with MRet (VInt n) => Ret (Some n) | MRet _ => UB | MPanic => Panicked | MUB => UB end, e)
  | FLast =>
    let '(r, _, _, e) := gcall "last" [] bomb s in
    (match r with MRet v => unlift_val v | MPanic => Panicked | MUB => UB end, e)
  end.

(* teardown of the builder / consumer types through the programs regenerated from
   src/internal.rs (their Drop impls); the array's own drop glue is not crate code *)
Definition gteardown (bomb : option Z) (a : list Z) (rest : list Z) : option (list Z) :=
  let fin (o : out val) :=
      let '(r, _, _, e) := o in
      Some (List.app (match r with MRet _ => [5] | MPanic => [6] | MUB => [7] end) (zlen (drops_of e) :: drops_of e)) in
  match rest with
  | [24; p] => fin (call builder_table DEPTH "drop" [] (with_pos a (znat p)) bomb)
  | [26; p] => fin (call ibuilder_table DEPTH "drop" [] (with_pos a (znat p)) bomb)
  | [25; p] => fin (call consumer_table DEPTH "drop" [] (with_pos a (znat p)) bomb)
  | _ => teardown bomb a rest
  end.

(* same encoding as CorrC05.run_c05 *)
Definition run_c105 (case : list Z) : list Z :=
  match case with
  | n :: b :: rest =>
    match gteardown (if b <? 0 then None else Some b) (map Z.of_nat (seq 0 (znat n))) rest with
    | Some out => out
    | None =>
    let a := map Z.of_nat (seq 0 (znat n)) in
    let bomb := if b <? 0 then None else Some b in
    let '(ops, fin) := decode_dops (length rest) rest in
    let '(outs, s, bomb') := drun gstep bomb (into_iter a) ops in
    let '(r, e) := gfinish bomb' s fin in
    flat_map enc_step outs ++
    (match fin, r with
     | FCount, Ret (Some k) => [2; k]
     | FDrop, Ret _ => [5]
     | _, _ => enc_res r
     end) ++ (zlen (drops_of e) :: drops_of e)
    end
  | _ => []
  end.

(* C06: next / next_back / nth / nth_back / len / size_hint / as_slice through the generated
   programs; the clone-based operations, write and Debug through the hub *)
Definition gstep06 (s : it) (o : op) : Iter.out * it :=
  let opt m args :=
      let '(r, s', _, _) := unlift (gcall m args None s) in (out_of_res r, s') in
  match o with
  | ONext => opt "next" []
  | ONextBack => opt "next_back" []
  | ONth n => opt "nth" [VInt n]
  | ONthBack n => opt "nth_back" [VInt n]
  | OLen =>
    match gcall "len" [] None s with
    | (MRet (VInt k), _, _, _) => (VNum (Z.to_nat k), s)
    | _ => (VUB, s)
    end
  | OSizeHint =>
    match gcall "size_hint" [] None s with
    | (MRet (VPair (VInt lo) (VSome (VInt hi))), _, _, _) => (VHint (Z.to_nat lo) (Z.to_nat hi), s)
    | _ => (VUB, s)
    end
  | OAsSlice =>
    match gcall "as_slice" [] None s with
    | (MRet (VSlice a b), _, _, _) => (VList (range (Z.to_nat a) (Z.to_nat b) (slots s)), s)
    | _ => (VUB, s)
    end
  | _ => step s o
  end.

Fixpoint grun06 (s : it) (ops : list op) : list Iter.out :=
  match ops with
  | [] => []
  | o :: r => let '(v, s') := gstep06 s o in v :: grun06 s' r
  end.

Definition run_c206 (case : list Z) : list Z :=
  match case with
  | n :: rest =>
    let '(vals, opsz) := take_list (znat n) rest in
    flat_map enc_out (grun06 (into_iter vals) (decode_ops (length opsz) opsz))
  | [] => []
  end.

(* CorrC15.v -- correspondence entry point for C15 (harness/src/bin/c15.rs).
   Case encoding: HeapCase.v.
   OBS: code (0 ok | 1 LengthError | 2 caller panic | 3 length panic | 4 alloc error | 5 UB),
        4 k contents..., 4 d dropped-during-the-operation (sorted)...,
        same block (1 yes | 0 no | 2 not applicable: no heap source, or moved by a realloc),
        alloc / dealloc / realloc calls during the operation (0 0 0 for the constructors
        default_boxed and generate, whose allocator behaviour is C16's subject). *)
From GA Require Import Base Codec Builder Functional Alloc HeapOps HeapCase.
Local Open Scope Z_scope.

Definition window (w : nat * nat) (t : list aev) : list aev :=
  firstn (snd w - fst w) (skipn (fst w) t).

Definition count_kind (k : Z) (t : list aev) : Z :=
  zlen (filter (fun e => match e with
                         | EAlloc _ _ _ => k =? 0
                         | EDealloc _ _ _ => k =? 1
                         | ERealloc _ _ _ _ _ => k =? 2
                         | _ => false
                         end) t).

Definition run_c15 (case : list Z) : list Z :=
  match decode case, case with
  | Some (T, okind, sc, fails), op :: _ =>
    let r := run_scn fails T sc (init 0 0) in
    let w := window (r_win r) (atr (r_final r)) in
    let conv := (1 <=? op) && (op <=? 4) in
    let ctor := (op =? 5) || (op =? 6) in
    [code_num (r_code r)] ++ enc_list (canon okind (r_contents r)) ++
    enc_list (canon_drops3 (nth 1 case 0) (right_kind case) okind (releases (r_events r))) ++
    [if conv && (count_kind 2 w =? 0)
     then match r_same r with Some true => 1 | Some false => 0 | None => 2 end
     else 2] ++
    (if ctor then [0; 0; 0] else [count_kind 0 w; count_kind 1 w; count_kind 2 w])
  | _, _ => [-1]
  end.

(* CorrC20.v -- correspondence entry point for C20 (harness/src/bin/c20.rs).
   case: [form; count; etype; trailing; via]
     form   0 arr![e0,..]            1 const A = arr![c0,..]
            2 arr![e0; U<count>]     3 arr![e0; count]
            4 const A = arr![c0; U<count>]   5 const A = arr![c0; count]
            6 box_arr![e0,..]        7 box_arr![e0; U<count>]   8 box_arr![e0; count]
            9 arr![e0; LEN]  (LEN a const item named by a bare path)   10 box_arr![e0; LEN]
            11 const B: Box<_> = box_arr![c0,..]
            12 arr![e0; {LEN}]       13 box_arr![e0; {LEN}]
     count  number of elements (list forms) / the length (repeat forms)
     etype  0 u32 (Copy, 4 bytes)  1 String (not Copy, clones not observable)
            2 Ck (not Copy, Clone logs)  3 Zs (Copy, zero-sized: every value reads 0)
     trailing  number of trailing commas (list forms)
     via    0 written in the harness source, 1 generated program, 2 generated program whose list
            elements are distinct fn items coerced to one fn-pointer type, 4 generated program in
            which the braced length is a const generic parameter of the enclosing fn (all ignored by
            the model), 5 / 6 the type-level length written as an alias named `N` / `T` (ignored by the model); 3 generated program whose repeat operand is a path to a `const` item of
            the (non-Copy) element type: the operand is a ConstPath, nothing is logged for it
            10 box_arr![x; N] inside a fn generic over N (ignored by the model);
            13 the list elements are non-Copy local variables moved into the invocation (evaluated, in order, when they
            are bound: the same log; ignored by the model);
            12 the invocation sits in a scope that shadows Box / Vec / GenericArray / Option / Default / vec! (ignored by
            the model: every path of the transcribers starts with $crate);
            11 the FIRST element of a list form carries `#[cfg(any())]`: it is compiled out before the macro's
            transcription is type-checked, so the invocation denotes the list without it (elements 1..count-1);
            8 every element is `unsafe { f(i) }` for an unsafe fn f and the program denies unused_unsafe
            (ignored by the model: accepted like the native literal); 9 every element is `f(i)` for an
            unsafe fn f with NO unsafe block: rejected like the native literal whenever an element
            expression is written at all (a harness-level rule: the term model has no notion of unsafe)
   element i is an expression that appends i to the log and yields 3 + 7*i.
   obs: Done -> 0 kind(0 GenericArray,1 Box) N::USIZE len values... loglen log...
        (log entry: tag of an evaluated expression, or -1-v for a clone of value v)
        compile error -> 1 ; panic -> 2 ; UB in the model -> 3  (the harness reports 4 when the program was killed) *)
From GA Require Import Base Codec Macros MacroDecls.
Local Open Scope Z_scope.

(* typenum 1.20 generic_const_mappings.rs: Const<k>: ToUInt for 0..=1024, 2^k-1, 2^k,
   10^k and 3600 (listed here up to 100000; the harness stays below that) *)
Definition typenum_csup (k : Z) : bool :=
  ((0 <=? k) && (k <=? 1024)) ||
  existsb (Z.eqb k) [2047; 2048; 3600; 4095; 4096; 8191; 8192; 10000; 16383; 16384;
                     32767; 32768; 65535; 65536; 100000].

Definition world_of (etype : Z) : world :=
  mkWorld (if etype =? 0 then 4 else if etype =? 1 then 24 else if etype =? 2 then 8 else 0)
          ((etype =? 0) || (etype =? 3))
          typenum_csup.

Definition val_of (etype i : Z) : Z := if etype =? 3 then 0 else 3 + 7 * i.

Definition elems (etype : Z) (n : nat) (c : bool) : list term :=
  map (fun i => User (Z.of_nat i) (val_of etype (Z.of_nat i)) c) (List.seq 0%nat n).

Definition enc_value (v : value) : Z := match v with VE x => x | _ => -1 end.

Definition enc_log (etype : Z) (lg : list lev) : list Z :=
  flat_map (fun e => match e with
                     | LEval t => [t]
                     | LClone v => if etype =? 1 then [] else [-1 - enc_value v]
                     end) lg.

Definition enc_res (etype : Z) (r : mres (value * list lev)) : list Z :=
  match r with
  | Done (v, lg) =>
      let l := enc_log etype lg in
      match v with
      | VGA n a => 0 :: 0 :: n :: zlen a :: map enc_value a ++ zlen l :: l
      | VBox n a => 0 :: 1 :: n :: zlen a :: map enc_value a ++ zlen l :: l
      | _ => [-2]
      end
  | CompileError _ => [1]
  | Panic => [2]
  | UBhit => [3]
  end.

Definition run_c20 (case : list Z) : list Z :=
  match case with
  | form :: count :: etype :: trailing :: rest =>
    let via := match rest with v :: _ => v | [] => 0 end in
    let w := world_of etype in
    let isc := (form =? 1) || (form =? 4) || (form =? 5) || (form =? 11) in
    let cx := if isc then Const else Runtime in
    let x := if via =? 3 then ConstPath (val_of etype 0) else User 0 (val_of etype 0) isc in
    let lst := InList (if via =? 11 then tl (elems etype (znat count) isc) else elems etype (znat count) isc) (znat trailing) in
    let go m i := enc_res etype (run crate_decls w cx m i) in
    let listform := (form =? 0) || (form =? 1) || (form =? 6) || (form =? 11) in
    if (via =? 9) && negb (listform && (count =? 0)) then [1] else
    if (form =? 0) || (form =? 1) then go MArr lst
    else if (form =? 2) || (form =? 4) then go MArr (InSemi x (TyLen count))
    else if (form =? 3) || (form =? 5) || (form =? 12) then go MArr (InSemi x (User 1 count true))
    else if (form =? 6) || (form =? 11) then go MBoxArr lst
    else if form =? 7 then go MBoxArr (InSemi x (TyLen count))
    else if (form =? 8) || (form =? 13) then go MBoxArr (InSemi x (User 1 count true))
    else if form =? 9 then go MArr (InSemi x (ConstPath count))
    else if form =? 10 then go MBoxArr (InSemi x (ConstPath count))
    else [-1]
  | _ => [-1]
  end.

(* IterDropProofs.v -- C05: with the index moved before the skipped range is
   dropped, no history of iterator operations, whichever element's destructor
   panics, releases an element twice; and the pre-fix order is refuted. *)
From Coq Require Import Permutation.
From GA Require Import Base Iter IterProofs.

Lemma drop_list_events bomb l : snd (drop_list bomb l) = map EDrop l.
Proof. reflexivity. Qed.

(* what one operation releases, together with what is still live afterwards, is
   exactly what was live before -- whether or not a destructor panicked *)
Definition conserves (s : it) (e : list ev) (s' : it) : Prop :=
  Permutation (live s) (releases e ++ live s') /\ Inv s'.

Lemma next_conserves s : Inv s -> let '(_, s', e) := next s in conserves s e s'.
Proof.
  intros HI. unfold next, conserves. destruct (index s <? back s) eqn:E.
  - apply Nat.ltb_lt in E. destruct (live_next s HI E) as [x [Hx Hl]]. rewrite Hx, Hl. cbn.
    split; [reflexivity|]. destruct HI; unfold Inv; cbn; lia.
  - cbn. split; [reflexivity|exact HI].
Qed.

Lemma next_back_conserves s : Inv s -> let '(_, s', e) := next_back s in conserves s e s'.
Proof.
  intros HI. unfold next_back, conserves. destruct (index s <? back s) eqn:E.
  - apply Nat.ltb_lt in E. destruct (live_next_back s HI E) as [x [Hx Hl]]. rewrite Hx, Hl. cbn.
    split; [|destruct HI; unfold Inv; cbn; lia].
    apply Permutation_sym, Permutation_cons_append.
  - cbn. split; [reflexivity|exact HI].
Qed.

Lemma nth_conserves bomb s n : Inv s ->
  let '(_, s', _, e) := nth_ bomb s n in conserves s e s'.
Proof.
  intros HI. unfold nth_, drop_list.
  pose proof (clampn_le n (len s)) as Hk. set (k := clampn n (len s)) in *.
  destruct (live_skip_front s k HI Hk) as [Hsplit _].
  assert (HI1 : Inv (set_index s (index s + k))).
  { apply Inv_set_index; [exact HI|]. unfold len in Hk. destruct HI. lia. }
  destruct (fires bomb _).
  - unfold conserves. rewrite releases_drops, <- Hsplit. split; [reflexivity|exact HI1].
  - pose proof (next_conserves _ HI1) as Hn.
    destruct (next (set_index s (index s + k))) as [[r s2] e2]. destruct Hn as [Hp HI2].
    unfold conserves. split; [|exact HI2].
    rewrite releases_app, releases_drops, <- app_assoc, Hsplit. now apply Permutation_app_head.
Qed.

Lemma nth_back_conserves bomb s n : Inv s ->
  let '(_, s', _, e) := nth_back_ bomb s n in conserves s e s'.
Proof.
  intros HI. unfold nth_back_, drop_list.
  pose proof (clampn_le n (len s)) as Hk. set (k := clampn n (len s)) in *.
  destruct (live_skip_back s k HI Hk) as [Hsplit _].
  assert (HI1 : Inv (set_back s (back s - k))).
  { apply Inv_set_back; [exact HI|]. unfold len in Hk. destruct HI. lia. }
  destruct (fires bomb _).
  - unfold conserves. rewrite releases_drops, Hsplit. split; [apply Permutation_app_comm|exact HI1].
  - pose proof (next_back_conserves _ HI1) as Hn.
    destruct (next_back (set_back s (back s - k))) as [[r s2] e2]. destruct Hn as [Hp HI2].
    unfold conserves. split; [|exact HI2].
    rewrite releases_app, releases_drops, <- app_assoc, Hsplit.
    rewrite Permutation_app_comm. now apply Permutation_app_head.
Qed.

Lemma dstep_conserves bomb s o : Inv s ->
  let '(_, s', _, e) := dstep bomb s o in conserves s e s'.
Proof.
  intros HI. destruct o; cbn [dstep].
  - pose proof (next_conserves s HI) as H. now destruct (next s) as [[r s'] e].
  - pose proof (next_back_conserves s HI) as H. now destruct (next_back s) as [[r s'] e].
  - apply nth_conserves; exact HI.
  - apply nth_back_conserves; exact HI.
Qed.

Lemma drun_conserves ops : forall bomb s, Inv s ->
  let '(outs, s', _) := drun dstep bomb s ops in conserves s (flat_map snd outs) s'.
Proof.
  induction ops as [|o ops IH]; intros bomb s HI; cbn [drun].
  - cbn. unfold conserves. split; [reflexivity|exact HI].
  - pose proof (dstep_conserves bomb s o HI) as H1.
    destruct (dstep bomb s o) as [[[v s1] b1] e1]. destruct H1 as [Hp1 HI1].
    specialize (IH b1 s1 HI1). destruct (drun dstep b1 s1 ops) as [[outs s2] b2].
    destruct IH as [Hp2 HI2]. cbn [flat_map snd]. unfold conserves. split; [|exact HI2].
    rewrite releases_app, <- app_assoc, Hp1. now apply Permutation_app_head.
Qed.

Lemma next_back_events s : Inv s ->
  let '(r, s', e) := next_back s in
  match r with
  | Ret (Some x) => e = [EMove x]
  | Ret None => e = []
  | _ => False
  end.
Proof.
  intros HI. unfold next_back. destruct (index s <? back s) eqn:E; [|reflexivity].
  apply Nat.ltb_lt in E. destruct (live_next_back s HI E) as [x [Hx _]]. now rewrite Hx.
Qed.

Lemma dfinish_conserves bomb s f : Inv s -> Permutation (live s) (releases (snd (dfinish bomb s f))).
Proof.
  intros HI. destruct f; cbn [dfinish].
  - unfold drop_it, drop_list. cbn [snd]. now rewrite releases_drops.
  - unfold count_, drop_it, drop_list. destruct (fires bomb (live s)); cbn [snd]; now rewrite releases_drops.
  - unfold last_. pose proof (next_back_conserves s HI) as H. pose proof (next_back_events s HI) as He.
    destruct (next_back s) as [[r s1] e1]. destruct H as [Hp HI1].
    unfold drop_it, drop_list. destruct (fires bomb (live s1)); cbn [snd].
    + rewrite releases_app, releases_drops.
      destruct r as [[x|]| |]; try contradiction; subst e1; exact Hp.
    + now rewrite releases_app, releases_drops.
Qed.

(* ---------- the theorem ---------- *)

Theorem no_double_release a ops f bomb :
  NoDup a ->
  Permutation a (releases (dtrace dstep bomb a ops f)).
Proof.
  intros _. unfold dtrace.
  pose proof (drun_conserves ops bomb (into_iter a) (Inv_into_iter a)) as H.
  destruct (drun dstep bomb (into_iter a) ops) as [[outs s] b]. destruct H as [Hp HI].
  rewrite live_into_iter in Hp. rewrite releases_app, Hp.
  apply Permutation_app_head. now apply dfinish_conserves.
Qed.

Corollary no_double_release_NoDup a ops f bomb :
  NoDup a -> NoDup (releases (dtrace dstep bomb a ops f)).
Proof.
  intros Ha. eapply Permutation_NoDup; [apply no_double_release; exact Ha|exact Ha].
Qed.

(* from any state satisfying the invariant, not only from into_iter *)
Theorem no_double_release_from s ops f bomb : Inv s ->
  let '(outs, s', b) := drun dstep bomb s ops in
  Permutation (live s) (releases (flat_map snd outs ++ snd (dfinish b s' f))).
Proof.
  intros HI. pose proof (drun_conserves ops bomb s HI) as H.
  destruct (drun dstep bomb s ops) as [[outs s'] b]. destruct H as [Hp HI'].
  rewrite releases_app, Hp. apply Permutation_app_head. now apply dfinish_conserves.
Qed.

(* the order found in 614d235 (drop first, advance afterwards) is refuted:
   U5 ids 0..4, destructor of id 1 panics, nth(3), then the iterator is dropped *)
Lemma nth_buggy_refuted :
  exists a ops f bomb, NoDup a /\ ~ NoDup (releases (dtrace dstep_buggy bomb a ops f)).
Proof.
  exists [0; 1; 2; 3; 4]%Z, [DNth 3%Z], FDrop, (Some 1%Z). split.
  - repeat constructor; cbn; intuition lia.
  - vm_compute. intro H. inversion H as [|? ? Hin _]; subst. apply Hin. cbn. auto 10.
Qed.

Lemma nth_back_buggy_refuted :
  exists a ops f bomb, NoDup a /\ ~ NoDup (releases (dtrace dstep_buggy bomb a ops f)).
Proof.
  exists [0; 1; 2; 3; 4]%Z, [DNthBack 3%Z], FDrop, (Some 3%Z). split.
  - repeat constructor; cbn; intuition lia.
  - vm_compute. intro H. inversion H as [|? ? Hin _]; subst. apply Hin. cbn. auto 10.
Qed.

(* non-vacuity: a concrete panicking history *)
Example drop_history_example :
  releases (dtrace dstep (Some 1%Z) [0; 1; 2; 3; 4]%Z [DNth 3%Z; DNext] FDrop) = [0; 1; 2; 3; 4]%Z.
Proof. reflexivity. Qed.

(* SigDefs.v -- look-ups over the tables tools/ga2coq regenerates into coq/gen/GenSigs.v.  Definitions only:
   nothing in this file can stop compiling because ONE function of the crate changed, so a property that
   imports it is affected only through the theorems it states itself. *)
From Coq Require Import String.
From GA Require Import Base.
From GAGen Require Import GenSigs.
Local Open Scope string_scope.

(* the functions whose whole body is one reinterpretation of the argument *)
Definition transmute_of (name : string) : option (string * string) :=
  match find (fun r => String.eqb (fst (fst r)) name) gen_transmutes with
  | Some (_, k, a) => Some (k, a)
  | None => None
  end.

(* which methods each trait impl defines itself (all others are the trait's defaults) *)
Definition methods_of (header : string) : option (list string) :=
  match find (fun r => String.eqb (snd (fst r)) header) gen_impl_methods with
  | Some (_, _, ms) => Some ms
  | None => None
  end.

(* the bounds each trait impl places on its type parameters *)
Definition bounds_of (header : string) : option (list string) :=
  match find (fun r => String.eqb (snd (fst r)) header) gen_impl_bounds with
  | Some (_, _, bs) => Some bs
  | None => None
  end.

(* what a trait declares: supertraits, parameter bounds, where-predicates, associated types with their
   bounds, method signatures (by the trait's header, e.g. "pub unsafe trait Concat<T,M>") *)
Definition trait_header_of (header : string) : option (list string) :=
  match find (fun r => String.eqb (snd (fst r)) header) gen_trait_headers with
  | Some (_, _, bs) => Some bs
  | None => None
  end.

(* the signature of an inherent method / free function, by owner (Self type text as in gen_fn_sigs; "fn" for free
   functions) and name *)
Definition sig_of (owner fn : string) : option string :=
  match find (fun r => match r with (_, o, n, _) => String.eqb o owner && String.eqb n fn end) gen_fn_sigs with
  | Some (_, _, _, sg) => Some sg
  | None => None
  end.

(* every inherent method of the crate's types, as (owner, name), in source order: an inherent method added to one
   of them is a candidate that method-call syntax tries BEFORE the trait methods and the slice's methods *)
Definition inherent_methods : list (string * string) :=
  flat_map (fun r => match r with (_, o, n, _) => if String.eqb o "fn" then [] else [(o, n)] end) gen_fn_sigs.

Definition structural_traits : list string :=
  ["Default"; "Clone"; "PartialEq"; "Eq"; "PartialOrd"; "Ord"; "Debug"; "Hash"]%string.

Definition mentions (needle header : string) : bool :=
  let n := String.length needle in
  existsb (fun i => String.eqb (substring i n header) needle) (seq 0 (String.length header)).

(* the inverse bounds of Lengthen / Shorten as they stand in the trait declarations *)
Definition inverse_eq_of (tr : string) : bool :=
  match find (fun r => String.eqb (fst (fst (fst r))) tr) gen_inverse_bounds with
  | Some (_, _, _, Some _) => true
  | _ => false
  end.

(* methods whose body is one expression *)
Definition thin_of (header method : string) : option string :=
  match find (fun r => match r with (_, h, m, _) => String.eqb h header && String.eqb m method end) gen_thin_bodies with
  | Some (_, _, _, b) => Some b
  | None => None
  end.

(* the short multi-statement bodies *)
Definition small_of (owner fn : string) : option (list string) :=
  match find (fun r => String.eqb (fst (fst r)) owner && String.eqb (snd (fst r)) fn) gen_small_bodies with
  | Some (_, _, b) => Some b
  | None => None
  end.

(* DelegTie.v -- tier T1 tie: the bodies of the trait impls for GenericArray, as tools/ga2coq
   regenerates them from /repo/src on every run (coq/gen/GenDeleg.v), are delegations of the
   right slice method to the right operands -- the shape the models implement:
     CmpHash.v  ga_eq (deref a, deref b), ga_partial_cmp / ga_cmp / ga_hash / ga_debug (as_slice),
                ga_borrow / ga_as_ref (as_slice), ga_borrow_mut / ga_as_mut (as_mut_slice)
     Functional.v  clone_ = map over &self with Clone::clone, default_ = generate(T::default)
     ZeroDefault.v zeroize_slice over as_mut_slice().iter_mut()
     Views.v    deref = as_slice, deref_mut = as_mut_slice *)
From Coq Require Import String List.
From GA Require Import Deleg.
From GAGen Require Import GenDeleg.
Import ListNotations.
Local Open Scope string_scope.

Definition expected_delegations : list (string * deleg) :=
  [("AsMut<[T]>::as_mut", DView (VAsMutSlice "self"));
   ("AsRef<[T]>::as_ref", DView (VAsSlice "self"));
   ("Borrow<[T]>::borrow", DView (VAsSlice "self"));
   ("BorrowMut<[T]>::borrow_mut", DView (VAsMutSlice "self"));
   ("Clone::clone", DMap VSelf "Clone::clone");
   ("Debug::fmt", DMethod (VAsSlice "self") "fmt" [VArg "fmt"]);
   ("Default::default", DGenerate "T::default");
   ("Deref::deref", DView (VAsSlice "self"));
   ("DerefMut::deref_mut", DView (VAsMutSlice "self"));
   ("Hash::hash", DCall "Hash::hash" [VAsSlice "self"; VArg "state"]);
   ("Ord::cmp", DCall "Ord::cmp" [VAsSlice "self"; VAsSlice "other"]);
   ("PartialEq::eq", DBinOp "==" (VDeref "self") (VDeref "other"));
   ("PartialOrd::partial_cmp", DCall "PartialOrd::partial_cmp" [VAsSlice "self"; VAsSlice "other"]);
   ("Zeroize::zeroize", DEach (VAsMutSlice "self") "zeroize")].

Lemma tie_delegations : gen_delegations = expected_delegations.
Proof. reflexivity. Qed.


Lemma tie_deleg_of k : lookup k gen_delegations = lookup k expected_delegations.
Proof. now rewrite tie_delegations. Qed.

(* Iter.v -- hub model of src/iter.rs (GenericArrayIter): definitions only.
   The array is modelled physically: a slot keeps the bits of an element after
   ptr::read moved it out; liveness is carried only by index/back, exactly as in
   the code.  A bookkeeping bug therefore shows as a duplicated release event. *)
From GA Require Import Base.

Record it : Type := mkIt { slots : list Z; index : nat; back : nat }.

Definition live (s : it) : list Z := range (index s) (back s) (slots s).
Definition len (s : it) : nat := back s - index s.
Definition Inv (s : it) : Prop := index s <= back s /\ back s <= length (slots s).

Definition set_index (s : it) (i : nat) : it := mkIt (slots s) i (back s).
Definition set_back (s : it) (b : nat) : it := mkIt (slots s) (index s) b.

(* IntoIterator::into_iter *)
Definition into_iter (a : list Z) : it := mkIt a 0 (length a).

(* drop_in_place of a slice: every element's destructor runs, in order; slice
   drop glue keeps going after a destructor panic and the panic resumes at the
   end.  [bomb] = the one element whose destructor panics (once). *)
Definition fires (bomb : option Z) (l : list Z) : bool :=
  match bomb with Some b => existsb (Z.eqb b) l | None => false end.

Definition drop_list (bomb : option Z) (l : list Z) : bool * option Z * list ev :=
  let f := fires bomb l in (f, if f then None else bomb, map EDrop l).

(* result, iterator afterwards (it stays in the caller's hands after a caught
   panic), bomb afterwards, events *)
Definition R (A : Type) : Type := (res A * it * option Z * list ev)%type.

(* Iterator::next *)
Definition next (s : it) : res (option Z) * it * list ev :=
  if index s <? back s then
    match nth_error (slots s) (index s) with
    | Some x => (Ret (Some x), set_index s (S (index s)), [EMove x])
    | None => (UB, s, [])
    end
  else (Ret None, s, []).

(* DoubleEndedIterator::next_back *)
Definition next_back (s : it) : res (option Z) * it * list ev :=
  if index s <? back s then
    match nth_error (slots s) (back s - 1) with
    | Some x => (Ret (Some x), set_back s (back s - 1), [EMove x])
    | None => (UB, s, [])
    end
  else (Ret None, s, []).

Definition clampn (n : Z) (m : nat) : nat := Z.to_nat (Z.min n (Z.of_nat m)).

(* Iterator::nth, index advanced BEFORE the skipped range is dropped (the order
   after the fix: commit recorded in known_findings.txt) *)
Definition nth_ (bomb : option Z) (s : it) (n : Z) : R (option Z) :=
  let old := index s in
  let next_index := old + clampn n (len s) in
  let s1 := set_index s next_index in
  let '(fired, bomb', evs) := drop_list bomb (range old next_index (slots s)) in
  if fired then (Panicked, s1, bomb', evs)
  else let '(r, s2, evs2) := next s1 in (r, s2, bomb', evs ++ evs2).

(* the pre-fix order (614d235): drop first, then advance; a destructor panic
   leaves the index where it was *)
Definition nth_buggy (bomb : option Z) (s : it) (n : Z) : R (option Z) :=
  let old := index s in
  let next_index := old + clampn n (len s) in
  let s1 := set_index s next_index in
  let '(fired, bomb', evs) := drop_list bomb (range old next_index (slots s)) in
  if fired then (Panicked, s, bomb', evs)
  else let '(r, s2, evs2) := next s1 in (r, s2, bomb', evs ++ evs2).

Definition nth_back_ (bomb : option Z) (s : it) (n : Z) : R (option Z) :=
  let old := back s in
  let next_back_ix := old - clampn n (len s) in
  let s1 := set_back s next_back_ix in
  let '(fired, bomb', evs) := drop_list bomb (range next_back_ix old (slots s)) in
  if fired then (Panicked, s1, bomb', evs)
  else let '(r, s2, evs2) := next_back s1 in (r, s2, bomb', evs ++ evs2).

Definition nth_back_buggy (bomb : option Z) (s : it) (n : Z) : R (option Z) :=
  let old := back s in
  let next_back_ix := old - clampn n (len s) in
  let s1 := set_back s next_back_ix in
  let '(fired, bomb', evs) := drop_list bomb (range next_back_ix old (slots s)) in
  if fired then (Panicked, s, bomb', evs)
  else let '(r, s2, evs2) := next_back s1 in (r, s2, bomb', evs ++ evs2).

(* Drop for GenericArrayIter: drop_in_place(as_mut_slice()).  The iterator is
   gone afterwards whatever happens. *)
Definition drop_it (bomb : option Z) (s : it) : bool * option Z * list ev :=
  drop_list bomb (live s).

(* count(self) = self.len(); then self is dropped *)
Definition count_ (bomb : option Z) (s : it) : res nat * option Z * list ev :=
  let n := len s in
  let '(fired, bomb', evs) := drop_it bomb s in
  ((if fired then Panicked else Ret n), bomb', evs).

(* last(mut self) = self.next_back(); then self is dropped.  If that drop
   panics, the value already moved out never reaches the caller and rustc's
   unwinding does not destroy it either (observed on rustc 1.95, validated by
   the correspondence): it leaks. *)
Definition last_ (bomb : option Z) (s : it) : res (option Z) * option Z * list ev :=
  let '(r, s1, evs1) := next_back s in
  let '(fired, bomb', evs) := drop_it bomb s1 in
  if fired then
    (Panicked, bomb', match r with Ret (Some x) => [ELeak x] | _ => [] end ++ evs)
  else (r, bomb', evs1 ++ evs).

(* as_slice / as_mut_slice: the live range *)
Definition as_slice (s : it) : list Z := live s.

(* as_mut_slice()[i] = v *)
Definition write (s : it) (i : nat) (v : Z) : res unit * it :=
  if i <? len s then (Ret tt, mkIt (upd (index s + i) v (slots s)) (index s) (back s))
  else (Panicked, s).   (* slice index out of range: an ordinary bounds panic *)

(* Clone: ptr::read of the whole array (all bits copied), then the clones of the
   live elements are written to the FRONT; index = 0, index_back = count.
   [f] maps an element to its clone. *)
Definition clone_it (f : Z -> Z) (s : it) : it :=
  mkIt (map f (live s) ++ skipn (len s) (slots s)) 0 (len s).

(* fold / rfold without panics: visit the live range in order / reversed,
   move each element out, forget the (now empty) iterator *)
Definition fold_visit (s : it) : list Z := live s.
Definition rfold_visit (s : it) : list Z := rev (live s).

(* ---------- histories (C06): values, no panics ---------- *)

Inductive op : Type :=
| ONext | ONextBack | ONth (n : Z) | ONthBack (n : Z)
| OLen | OSizeHint | OAsSlice | OWrite (i : nat) (v : Z)
| OCloneObs        (* clone; observe the clone's remaining elements; drop the clone *)
| OCloneSwap       (* continue with the clone, drop the original *)
| OFoldClone | ORfoldClone | OCountClone | OLastClone   (* consume a clone *)
| ODebug.

Inductive out : Type :=
| VOpt (o : option Z) | VNum (n : nat) | VHint (lo hi : nat) | VList (l : list Z)
| VUnit | VPanic | VUB.

Definition out_of_res (r : res (option Z)) : out :=
  match r with Ret o => VOpt o | Panicked => VPanic | UB => VUB end.

(* [f]: what Clone::clone makes of an element (identity for plain values) *)
Definition step_gen (f : Z -> Z) (s : it) (o : op) : out * it :=
  match o with
  | ONext => let '(r, s', _) := next s in (out_of_res r, s')
  | ONextBack => let '(r, s', _) := next_back s in (out_of_res r, s')
  | ONth n => let '(r, s', _, _) := nth_ None s n in (out_of_res r, s')
  | ONthBack n => let '(r, s', _, _) := nth_back_ None s n in (out_of_res r, s')
  | OLen => (VNum (len s), s)
  | OSizeHint => (VHint (len s) (len s), s)
  | OAsSlice => (VList (as_slice s), s)
  | OWrite i v => let '(r, s') := write s i v in
                  (match r with Ret _ => VUnit | _ => VPanic end, s')
  | OCloneObs => (VList (as_slice (clone_it f s)), s)
  | OCloneSwap => (VUnit, clone_it f s)
  | OFoldClone => (VList (fold_visit (clone_it f s)), s)
  | ORfoldClone => (VList (rfold_visit (clone_it f s)), s)
  | OCountClone => let '(r, _, _) := count_ None (clone_it f s) in
                   (match r with Ret n => VNum n | _ => VPanic end, s)
  | OLastClone => let '(r, _, _) := last_ None (clone_it f s) in
                  (out_of_res r, s)
  | ODebug => (VList (as_slice s), s)
  end.

Definition step : it -> op -> out * it := step_gen (fun x => x).

Fixpoint run_gen (f : Z -> Z) (s : it) (ops : list op) : list out :=
  match ops with
  | [] => []
  | o :: r => let '(v, s') := step_gen f s o in v :: run_gen f s' r
  end.
Definition run : it -> list op -> list out := run_gen (fun x => x).

(* ---------- the abstract specification: a double-ended queue ---------- *)

Definition q_next (q : list Z) : option Z * list Z :=
  match q with [] => (None, []) | x :: r => (Some x, r) end.

Definition q_next_back (q : list Z) : option Z * list Z :=
  match rev q with [] => (None, []) | x :: r => (Some x, rev r) end.

Definition q_nth (q : list Z) (n : nat) : option Z * list Z := q_next (skipn n q).

Definition q_nth_back (q : list Z) (n : nat) : option Z * list Z :=
  q_next_back (firstn (length q - n) q).

Definition q_step_gen (f : Z -> Z) (q : list Z) (o : op) : out * list Z :=
  match o with
  | ONext => let '(r, q') := q_next q in (VOpt r, q')
  | ONextBack => let '(r, q') := q_next_back q in (VOpt r, q')
  | ONth n => let '(r, q') := q_nth q (Z.to_nat n) in (VOpt r, q')
  | ONthBack n => let '(r, q') := q_nth_back q (Z.to_nat n) in (VOpt r, q')
  | OLen => (VNum (length q), q)
  | OSizeHint => (VHint (length q) (length q), q)
  | OAsSlice | ODebug => (VList q, q)
  | OCloneObs | OFoldClone => (VList (map f q), q)
  | OWrite i v => if i <? length q then (VUnit, upd i v q) else (VPanic, q)
  | OCloneSwap => (VUnit, map f q)
  | ORfoldClone => (VList (rev (map f q)), q)
  | OCountClone => (VNum (length q), q)
  | OLastClone => (VOpt (fst (q_next_back (map f q))), q)
  end.

Definition q_step : list Z -> op -> out * list Z := q_step_gen (fun x => x).

Fixpoint q_run_gen (f : Z -> Z) (q : list Z) (ops : list op) : list out :=
  match ops with
  | [] => []
  | o :: r => let '(v, q') := q_step_gen f q o in v :: q_run_gen f q' r
  end.
Definition q_run : list Z -> list op -> list out := q_run_gen (fun x => x).

(* ---------- histories with a panicking destructor (C05) ----------
   The caller catches every unwind and keeps using the iterator; finally the
   iterator is dropped (or consumed by count / last). *)

Inductive dop : Type := DNext | DNextBack | DNth (n : Z) | DNthBack (n : Z).
Inductive dfin : Type := FDrop | FCount | FLast.

Definition dstep (bomb : option Z) (s : it) (o : dop) : R (option Z) :=
  match o with
  | DNext => let '(r, s', e) := next s in (r, s', bomb, e)
  | DNextBack => let '(r, s', e) := next_back s in (r, s', bomb, e)
  | DNth n => nth_ bomb s n
  | DNthBack n => nth_back_ bomb s n
  end.

(* the pre-fix code, for the refutation lemmas *)
Definition dstep_buggy (bomb : option Z) (s : it) (o : dop) : R (option Z) :=
  match o with
  | DNext => let '(r, s', e) := next s in (r, s', bomb, e)
  | DNextBack => let '(r, s', e) := next_back s in (r, s', bomb, e)
  | DNth n => nth_buggy bomb s n
  | DNthBack n => nth_back_buggy bomb s n
  end.

Section DRun.
  Variable stepf : option Z -> it -> dop -> R (option Z).

  Fixpoint drun (bomb : option Z) (s : it) (ops : list dop)
    : list (res (option Z) * list ev) * it * option Z :=
    match ops with
    | [] => ([], s, bomb)
    | o :: r =>
      let '(v, s', bomb', e) := stepf bomb s o in
      let '(outs, s'', bomb'') := drun bomb' s' r in
      ((v, e) :: outs, s'', bomb'')
    end.
End DRun.

Definition dfinish (bomb : option Z) (s : it) (f : dfin) : res (option Z) * list ev :=
  match f with
  | FDrop => let '(fired, _, e) := drop_it bomb s in ((if fired then Panicked else Ret None), e)
  | FCount => let '(r, _, e) := count_ bomb s in
              (match r with Ret n => Ret (Some (Z.of_nat n)) | Panicked => Panicked | UB => UB end, e)
  | FLast => let '(r, _, e) := last_ bomb s in (r, e)
  end.

(* all events of a history: the steps, then the final consumption *)
Definition dtrace (stepf : option Z -> it -> dop -> R (option Z))
           (bomb : option Z) (a : list Z) (ops : list dop) (f : dfin) : list ev :=
  let '(outs, s, bomb') := drun stepf bomb (into_iter a) ops in
  flat_map snd outs ++ snd (dfinish bomb' s f).

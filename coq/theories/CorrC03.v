(* CorrC03.v -- correspondence entry point for C03 (harness/src/bin/c03.rs).
   case: [first_id; ops...]; every op is a code followed by its arguments (slot numbers,
   lengths, indices):
    0 n generate | 1 i collect(Vec->array) | 2 i into_iter | 3 i next | 4 i next_back
    5 i n nth | 6 i n nth_back | 7 i clone_iter | 8 i clone_arr | 9 i drop | 10 i map
    11 i j zip | 12 i fold | 13 i iter_fold | 14 i iter_rfold | 15 i count | 16 i last
    17 i j append | 18 i j prepend | 19 i pop_back | 20 i pop_front | 21 i k split
    22 i j concat | 23 i idx remove | 24 i idx swap_remove | 25 i j flatten2 | 26 i n unflatten
    27 i native | 28 i tuple | 29 i to_vec | 30 i vec_to_arr | 31 i to_box | 32 i box_into_vec
    33 i box_into_slice | 34 i slice_to_box | 35 i vec_to_box | 36 i box_iter | 37 i unbox
    38 i observe | 39 i n try_collect (Vec -> array of length n through try_from_iter) | 40 i n try_collect_boxed
   observables, per op: valid(1/0); d, dropped ids sorted; o, observed ids in order;
     k, then for each of the k objects appended to the pool: kind len ids...
     (kind: 1 array, 2 iterator, 3 boxed array, 4 Vec, 5 boxed slice, 6 element)
   then, after the last op: the ids still in the pool, sorted (they are dropped last). *)
From GA Require Import Base Codec Iter Own.
Local Open Scope Z_scope.

Fixpoint decode_pops (fuel : nat) (l : list Z) : list pop :=
  match fuel with
  | O => []
  | S f =>
    match l with
    | 0 :: n :: r => PGenerate (znat n) :: decode_pops f r
    | 1 :: i :: r => PCollect (znat i) :: decode_pops f r
    | 2 :: i :: r => PIntoIter (znat i) :: decode_pops f r
    | 3 :: i :: r => PNext (znat i) :: decode_pops f r
    | 4 :: i :: r => PNextBack (znat i) :: decode_pops f r
    | 5 :: i :: n :: r => PNth (znat i) n :: decode_pops f r
    | 6 :: i :: n :: r => PNthBack (znat i) n :: decode_pops f r
    | 7 :: i :: r => PCloneIter (znat i) :: decode_pops f r
    | 8 :: i :: r => PCloneArr (znat i) :: decode_pops f r
    | 9 :: i :: r => PDrop (znat i) :: decode_pops f r
    | 10 :: i :: r => PMap (znat i) :: decode_pops f r
    | 11 :: i :: j :: r => PZip (znat i) (znat j) :: decode_pops f r
    | 12 :: i :: r => PFold (znat i) :: decode_pops f r
    | 13 :: i :: r => PIterFold (znat i) :: decode_pops f r
    | 14 :: i :: r => PIterRfold (znat i) :: decode_pops f r
    | 15 :: i :: r => PCount (znat i) :: decode_pops f r
    | 16 :: i :: r => PLast (znat i) :: decode_pops f r
    | 17 :: i :: j :: r => PAppend (znat i) (znat j) :: decode_pops f r
    | 18 :: i :: j :: r => PPrepend (znat i) (znat j) :: decode_pops f r
    | 19 :: i :: r => PPopBack (znat i) :: decode_pops f r
    | 20 :: i :: r => PPopFront (znat i) :: decode_pops f r
    | 21 :: i :: k :: r => PSplit (znat i) (znat k) :: decode_pops f r
    | 22 :: i :: j :: r => PConcat (znat i) (znat j) :: decode_pops f r
    | 23 :: i :: k :: r => PRemove (znat i) (znat k) :: decode_pops f r
    | 24 :: i :: k :: r => PSwapRemove (znat i) (znat k) :: decode_pops f r
    | 25 :: i :: j :: r => PFlatten2 (znat i) (znat j) :: decode_pops f r
    | 26 :: i :: n :: r => PUnflatten (znat i) (znat n) :: decode_pops f r
    | 27 :: i :: r => PNative (znat i) :: decode_pops f r
    | 28 :: i :: r => PTuple (znat i) :: decode_pops f r
    | 29 :: i :: r => PToVec (znat i) :: decode_pops f r
    | 30 :: i :: r => PVecToArr (znat i) :: decode_pops f r
    | 31 :: i :: r => PToBox (znat i) :: decode_pops f r
    | 32 :: i :: r => PBoxIntoVec (znat i) :: decode_pops f r
    | 33 :: i :: r => PBoxIntoSlice (znat i) :: decode_pops f r
    | 34 :: i :: r => PSliceToBox (znat i) :: decode_pops f r
    | 35 :: i :: r => PVecToBox (znat i) :: decode_pops f r
    | 36 :: i :: r => PBoxIter (znat i) :: decode_pops f r
    | 37 :: i :: r => PUnbox (znat i) :: decode_pops f r
    | 38 :: i :: r => PObserve (znat i) :: decode_pops f r
    | 39 :: i :: n :: r => PTryCollect (znat i) (znat n) :: decode_pops f r
    | 40 :: i :: n :: r => PTryCollectBoxed (znat i) (znat n) :: decode_pops f r
    | _ => []
    end
  end.

Definition enc_obj (o : option obj) : list Z :=
  match o with
  | Some (OArr l) => 1 :: zlen l :: l
  | Some (OIter s) => 2 :: zlen (live s) :: live s
  | Some (OBoxArr l) => 3 :: zlen l :: l
  | Some (OVec l) => 4 :: zlen l :: l
  | Some (OBoxSlice l) => 5 :: zlen l :: l
  | Some (OElem x) => [6; 1; x]
  | None => [0; 0]
  end.

Definition enc_stepres (before : pool) (s : stepres) : list Z :=
  let newobjs := skipn (length (objs before)) (objs (sp s)) in
  [enc_bool (svalid s)] ++ (zlen (sdropped s) :: sortZ (sdropped s)) ++ (zlen (sobs s) :: sobs s) ++
  (zlen newobjs :: flat_map enc_obj newobjs).

Fixpoint enc_run (p : pool) (ops : list pop) : list Z * pool :=
  match ops with
  | [] => ([], p)
  | o :: r => let s := step p o in
              let '(rest, p') := enc_run (sp s) r in (enc_stepres p s ++ rest, p')
  end.

Definition run_c03 (case : list Z) : list Z :=
  match case with
  | z :: opsz =>
    let '(out, p') := enc_run (empty_pool z) (decode_pops (length opsz) opsz) in
    out ++ (zlen (pool_ids p') :: sortZ (pool_ids p'))
  | [] => []
  end.

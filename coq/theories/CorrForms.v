(* CorrForms.v -- shared correspondence entry for C04 and C08 (harness/src/forms.rs).
   op 9: dst.clone_from(&src) (src = identities 0.., dst = identities 100..)
   case: [op; form; elem; N; pan; front; back; mode]
   elem: 0 Tr (x Tr), 1 u32 (x u32), 2 Tr x u32, 3 u32 x Tr (zip only), 4 Cn (Clone only), 5 zero-sized, 6 zero-sized with a counted destructor (generate / default only),
         8 plain 12-byte elements (size <> alignment), 9 / 10 zips of plain arrays whose element sizes differ (2 x 4, 4 x 2 -> 12): as elem 1,
         7 Tr mapped to plain u32 (map only);
   mode (how the caller's code fails: own panic / destructor of an argument) does not change
   what the crate has to do *)
From GA Require Import Base Codec Builder Iter Functional.
Local Open Scope Z_scope.

Definition fresh_id (k : nat) (_ : list Z) : Z := 1000 + Z.of_nat k.
Definition fold_g (k : nat) (acc x : Z) : Z := (acc * 7 + x + Z.of_nat k) mod 1000003.

Definition ids_from (base : Z) (n : nat) : list Z := map (fun i => base + Z.of_nat i) (seq 0 n).

Definition moved_of (e : list ev) : list Z :=
  sortZ (flat_map (fun x => match x with EMove i => [i] | _ => [] end) e).
Definition dropped_of (e : list ev) : list Z :=
  sortZ (flat_map (fun x => match x with EDrop i => [i] | _ => [] end) e).

Definition enc_outcome (o : outcome) : list Z :=
  match o with Ok a => 0 :: zlen a :: a | _ => [2; 0] end.

Definition enc_tail (calls : list (list Z)) (e : list ev) : list Z :=
  (zlen calls :: concat calls) ++ (zlen (moved_of e) :: moved_of e) ++ (zlen (dropped_of e) :: dropped_of e).

Definition index_calls (calls : list (list Z)) : list (list Z) :=
  map (fun i => [Z.of_nat i]) (seq 0 (length calls)).

Definition run_forms (case : list Z) : list Z :=
  match case with
  | op :: form :: elem :: n :: pan :: front :: back :: _ =>
    let N := znat n in
    (* elem 6 (zero-sized, drop-counted): the inputs are owned and released like tracked ones, but the caller's function
       cannot report zero-sized arguments as handed over: the EMove events are not observable (filtered below) *)
    let tracked := (elem =? 0) || (elem =? 2) || (elem =? 7) || (elem =? 6) in   (* the (left / only) input is drop-tracked *)
    let tracked_r := (elem =? 0) || (elem =? 3) || (elem =? 6) in       (* zip: the right input is drop-tracked *)
    let unmoved (e : list ev) := if elem =? 6 then filter (fun x => match x with EMove _ => false | _ => true end) e else e in
    let p := if pan <? 0 then None else Some (znat pan) in
    (* elem 5: zero-sized elements -- every identity reads 0 *)
    let zst := (elem =? 5) || (elem =? 6) in   (* 6: zero-sized AND drop-counted (the count is a direct oracle of the harness) *)
    let a := if zst then repeat 0 N else ids_from 0 N in
    let b := if zst then repeat 0 N else ids_from 100 N in
    let fresh_id := if zst then (fun (_ : nat) (_ : list Z) => 0) else fresh_id in
    if op =? 0 then
      let '(o, e, calls) := map_ (tracked && ((form =? 0) || (form =? 3))) fresh_id p a in
      (* elem 7: drop-tracked inputs mapped to plain outputs -- the outputs (identities >= 1000) have no destructor *)
      let e := if elem =? 7 then filter (fun x => match x with EDrop i => i <? 1000 | _ => true end) e else e in
      enc_outcome o ++ enc_tail calls (unmoved e)
    else if op =? 1 then
      let ol := tracked && ((form =? 9) || (form / 3 =? 0)) in
      let or_ := tracked_r && ((form =? 9) || (form mod 3 =? 0)) in
      let '(o, e, calls) := zip_ ol or_ fresh_id p a b in
      enc_outcome o ++ enc_tail calls (unmoved e)
    else if op =? 2 then
      let '(o, e, calls) := fold_ (tracked && ((form =? 0) || (form =? 3))) fold_g p 5 a in
      (match o with FoldOk acc => [0; 1; acc] | FoldPanic => [2; 0] end) ++ enc_tail (map (fun x => [x]) calls) (unmoved e)
    else if op =? 3 then
      let '(o, e, calls) := generate_ N fresh_id p in
      enc_outcome o ++ enc_tail (index_calls calls) e
    else if op =? 4 then
      (* elem 4: no drop glue, Clone::clone observable (adds 2^20) *)
      let clf := if elem =? 4 then (fun (_ : nat) (r : list Z) => hd 0 r + 1048576) else fresh_id in
      let '(o, e, calls) := clone_ clf p a in
      enc_outcome o ++ enc_tail calls e
    else if op =? 5 then
      let '(o, e, calls) := default_ N fresh_id p in
      enc_outcome o ++ enc_tail (index_calls calls) e
    else if op =? 9 then
      (* dst.clone_from(&src): dst holds b; Clone::clone_from's default is `*self = source.clone()` *)
      let clf := if elem =? 4 then (fun (_ : nat) (r : list Z) => hd 0 r + 1048576) else fresh_id in
      let '(o, e, calls) := clone_from_ tracked clf p b a in
      enc_outcome o ++ enc_tail calls e
    else
      let s := mkIt a (znat front) (N - znat back) in
      if op =? 6 then
        let '(r, e) := iter_clone (fun k _ => 1000 + Z.of_nat k) p s in
        let ncalls := match p with Some k => S k | None => length (live s) end in
        (match r with Some c => 0 :: zlen (live c) :: live c | None => [2; 0] end)
          ++ enc_tail (map (fun x => [x]) (firstn ncalls (live s))) e ++ [1]
      else
        let '(o, e, calls) := if op =? 7 then iter_fold fold_g p 5 s else iter_rfold fold_g p 5 s in
        (match o with FoldOk acc => [0; 1; acc] | FoldPanic => [2; 0] end) ++ enc_tail (map (fun x => [x]) calls) (unmoved e)
  | _ => []
  end.

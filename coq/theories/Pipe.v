(* Pipe.v -- a small language for the bodies that run caller-supplied code over
   ArrayConsumer / IntrusiveArrayBuilder positions (src/lib.rs: generate, map, fold,
   inverted_zip, inverted_zip2; src/impl_alloc.rs: the boxed generate), the target of
   tools/ga2coq (coq/gen/GenPipe.v), and its operational interpreter.  Definitions only.

   A body is: the sources that are iterated in lockstep (consumers over owned arguments
   with their position variables, ManuallyDrop'd arguments, an argument iterated by value,
   the builder's destination slots with its position variable, enumerate), the closure
   body statement by statement (ptr::read of a slot, `*position += 1`, `*p = *q`,
   `dst.write(e)`, the call of the caller's function), and the sink (FromIterator::from_iter,
   fold, for_each).  The interpreter executes the closure once per index, keeps every
   position variable, records which values the closure holds when the caller's function
   panics, and at the end of the body runs what the Drop impls of the sources do with the
   positions as they are then: ArrayConsumer drops position.., the builder drops ..position.
   Nothing in it knows that positions "should" equal the index. *)
From Coq Require Import String.
From GA Require Import Base Builder Functional.
Local Open Scope string_scope.

Inductive srck : Type :=
| KConsumer (arg : nat) (pos : string)  (* ArrayConsumer::new(arg).iter_position() *)
| KNoDrop (arg : nat)                   (* ManuallyDrop::new(arg).iter() *)
| KOwnedSeq (arg : nat)                 (* the argument iterated by value inside zip(..) *)
| KDest (pos : string)                  (* builder.iter_position(): destination slots *)
| KEnumerate                            (* .enumerate() *)
| KIterBack (arg : nat) (pos : string). (* the live window of a by-value iterator walked from its back end
                                           (slice.iter().rfold): pos is index_back relative to the window *)

Inductive atom : Type :=
| AVar (v : string)
| ARead (r : string).                   (* ptr::read(r) written inline as an argument *)

Inductive cexp : Type :=
| XAtom (a : atom)
| XCallF (args : list atom).            (* f(args) *)

Inductive cst : Type :=
| CRead (v r : string)                  (* let v = ptr::read(r) *)
| CBump (p : string)                    (* *p += 1 *)
| CSetPos (d s : string)                (* *d = *s *)
| CDec (p : string)                     (* *p -= 1 *)
| CWrite (d : string) (e : cexp)        (* d.write(e) *)
| CRet (e : cexp).                      (* the closure's tail expression *)

Inductive sink : Type :=
| SFromIter                             (* FromIterator::from_iter(chain.map(closure)) *)
| SFold (accv : string)                 (* chain.fold(init, |accv, ..| ..) *)
| SForEach.                             (* chain.for_each(closure), then builder.finish() *)

Record pipe : Type := mkPipe { p_srcs : list (string * srck); p_body : list cst; p_sink : sink }.

(* mem::needs_drop::<type of argument k>() *)
Inductive ndc : Type := NdArg (arg : nat) | NdOr (a b : ndc).
Inductive fnprog : Type :=
| FPipe (p : pipe)
| FIfNeedsDrop (c : ndc) (t e : pipe).

(* ------------------------------------------------------------------ interpretation *)

Inductive cval : Type :=
| VSlotRef (arg i : nat)
| VOwn (x : Z)
| VBorrow (x : Z)                       (* an item lent by a by-reference sequence *)
| VIdx (i : nat)
| VAccv (a : Z)
| VDstRef (i : nat)
| VRet (z : Z).

Fixpoint lookup {A} (k : string) (l : list (string * A)) : option A :=
  match l with
  | [] => None
  | (k', a) :: r => if String.eqb k k' then Some a else lookup k r
  end.

Fixpoint set {A} (k : string) (a : A) (l : list (string * A)) : list (string * A) :=
  match l with
  | [] => [(k, a)]
  | (k', a') :: r => if String.eqb k k' then (k, a) :: r else (k', a') :: set k a r
  end.

Fixpoint remove1 (x : Z) (l : list Z) : list Z :=
  match l with
  | [] => []
  | y :: r => if Z.eqb x y then r else y :: remove1 x r
  end.

(* what persists from one closure call to the next *)
Record pstate : Type := mkP {
  s_pos : list (string * nat);      (* the position variables *)
  s_ev : list ev;                   (* ownership events so far *)
  s_calls : list (list Z);          (* the argument identities of each call of f so far *)
  s_written : list Z;               (* destination slots written so far (for_each sink) *)
  s_acc : Z                         (* fold accumulator *)
}.

Inductive sres : Type :=
| RItem (z : Z)      (* the closure returned this value *)
| RUnit
| RPanic             (* the caller's function panicked *)
| RStuck.            (* ill-formed program: never the case for accepted translations *)

(* the caller's code: f (call index) (argument identities) = produced identity;
   g (call index) acc x = new accumulator; pan = the call that panics *)
Section Run.
  Variable args : list (list Z).
  Variable seq_owned : bool.     (* does the by-value iterated argument own its items (Box / array) or lend them (&, &mut) *)
  Variable f : nat -> list Z -> Z.
  Variable g : nat -> Z -> Z -> Z.
  Variable pan : option nat.

  Definition arg_elem (a i : nat) : option Z :=
    match nth_error args a with Some l => nth_error l i | None => None end.

  (* closure-local state *)
  Record cl : Type := mkCl { c_env : list (string * cval); c_held : list Z; c_st : pstate }.

  Definition bind_src (i : nat) (acc : option cl) (s : string * srck) : option cl :=
    match acc with
    | None => None
    | Some c =>
      match snd s with
      | KConsumer a _ | KNoDrop a => Some (mkCl (set (fst s) (VSlotRef a i) (c_env c)) (c_held c) (c_st c))
      | KOwnedSeq a =>
        match arg_elem a i with
        | Some x =>
          if seq_owned then Some (mkCl (set (fst s) (VOwn x) (c_env c)) (c_held c ++ [x]) (c_st c))
          else Some (mkCl (set (fst s) (VBorrow x) (c_env c)) (c_held c) (c_st c))
        | None => None
        end
      | KDest _ => Some (mkCl (set (fst s) (VDstRef i) (c_env c)) (c_held c) (c_st c))
      | KEnumerate => Some (mkCl (set (fst s) (VIdx i) (c_env c)) (c_held c) (c_st c))
      | KIterBack a _ =>
        match nth_error args a with
        | Some l => if Nat.ltb i (length l)
                    then Some (mkCl (set (fst s) (VSlotRef a (length l - 1 - i)) (c_env c)) (c_held c) (c_st c))
                    else None
        | None => None
        end
      end
    end.

  (* evaluate an argument of f: the value, what the closure still holds, was it an owned element *)
  Definition eval_atom (c : cl) (a : atom) : option (cval * list Z) :=
    match a with
    | AVar v =>
      match lookup v (c_env c) with
      | Some (VOwn x) => Some (VOwn x, remove1 x (c_held c))     (* moved into the call *)
      | Some w => Some (w, c_held c)
      | None => None
      end
    | ARead r =>
      match lookup r (c_env c) with
      | Some (VSlotRef a i) => match arg_elem a i with Some x => Some (VOwn x, c_held c) | None => None end
      | _ => None
      end
    end.

  Fixpoint eval_atoms (c : cl) (l : list atom) : option (list cval * list Z) :=
    match l with
    | [] => Some ([], c_held c)
    | a :: r =>
      match eval_atom c a with
      | Some (v, held) =>
        match eval_atoms (mkCl (c_env c) held (c_st c)) r with
        | Some (vs, held') => Some (v :: vs, held')
        | None => None
        end
      | None => None
      end
    end.

  Definition ids_of (vs : list cval) : list Z :=
    flat_map (fun v => match v with VOwn x | VBorrow x => [x] | _ => [] end) vs.
  Definition own_ids_of (vs : list cval) : list Z :=
    flat_map (fun v => match v with VOwn x => [x] | _ => [] end) vs.

  Definition is_pan (k : nat) : bool := match pan with Some p => Nat.eqb k p | None => false end.

  Inductive eres : Type := EVal (v : cval) (c : cl) | EPanicked (c : cl) | EStuck.

  (* the call index of f is the number of calls made so far *)
  Definition eval_cexp (fold_sink : bool) (c : cl) (e : cexp) : eres :=
    match e with
    | XAtom a =>
      match eval_atom c a with
      | Some (v, held) => EVal v (mkCl (c_env c) held (c_st c))
      | None => EStuck
      end
    | XCallF l =>
      match eval_atoms c l with
      | Some (vs, held) =>
        let st := c_st c in
        let k := length (s_calls st) in
        let ids := ids_of vs in
        let st' := mkP (s_pos st) (s_ev st ++ map EMove (own_ids_of vs)) (s_calls st ++ [ids]) (s_written st) (s_acc st) in
        if is_pan k then EPanicked (mkCl (c_env c) held st')
        else if fold_sink then
          match vs with
          | [VAccv a; VOwn x] | [VAccv a; VBorrow x] => EVal (VAccv (g k a x)) (mkCl (c_env c) held st')
          | _ => EStuck
          end
        else EVal (VRet (f k ids)) (mkCl (c_env c) held st')
      | None => EStuck
      end
    end.

  Definition upd_st (c : cl) (st : pstate) : cl := mkCl (c_env c) (c_held c) st.
  Definition with_pos (st : pstate) (p : list (string * nat)) : pstate :=
    mkP p (s_ev st) (s_calls st) (s_written st) (s_acc st).

  (* leaving the closure (normally or by unwinding) drops what it still holds *)
  Definition leave (c : cl) : pstate :=
    let st := c_st c in
    mkP (s_pos st) (s_ev st ++ map EDrop (c_held c)) (s_calls st) (s_written st) (s_acc st).

  Fixpoint exec_body (fold_sink : bool) (c : cl) (b : list cst) : sres * pstate :=
    match b with
    | [] => (RUnit, leave c)
    | s :: rest =>
      match s with
      | CRead v r =>
        match lookup r (c_env c) with
        | Some (VSlotRef a i) =>
          match arg_elem a i with
          | Some x => exec_body fold_sink (mkCl (set v (VOwn x) (c_env c)) (c_held c ++ [x]) (c_st c)) rest
          | None => (RStuck, c_st c)
          end
        | _ => (RStuck, c_st c)
        end
      | CBump p =>
        match lookup p (s_pos (c_st c)) with
        | Some n => exec_body fold_sink (upd_st c (with_pos (c_st c) (set p (S n) (s_pos (c_st c))))) rest
        | None => (RStuck, c_st c)
        end
      | CSetPos d s0 =>
        match lookup s0 (s_pos (c_st c)), lookup d (s_pos (c_st c)) with
        | Some n, Some _ => exec_body fold_sink (upd_st c (with_pos (c_st c) (set d n (s_pos (c_st c))))) rest
        | _, _ => (RStuck, c_st c)
        end
      | CDec p =>
        match lookup p (s_pos (c_st c)) with
        | Some (S n) => exec_body fold_sink (upd_st c (with_pos (c_st c) (set p n (s_pos (c_st c))))) rest
        | _ => (RStuck, c_st c)
        end
      | CWrite d e =>
        match lookup d (c_env c), eval_cexp fold_sink c e with
        | Some (VDstRef _), EVal (VRet z) c' =>
          let st := c_st c' in
          exec_body fold_sink (upd_st c' (mkP (s_pos st) (s_ev st) (s_calls st) (s_written st ++ [z]) (s_acc st))) rest
        | Some (VDstRef _), EPanicked c' => (RPanic, leave c')
        | _, _ => (RStuck, c_st c)
        end
      | CRet e =>
        match rest with
        | [] =>
          match eval_cexp fold_sink c e with
          | EVal (VRet z) c' => (RItem z, leave c')
          | EVal (VAccv a) c' =>
            let st := leave c' in (RUnit, mkP (s_pos st) (s_ev st) (s_calls st) (s_written st) a)
          | EVal _ _ => (RStuck, c_st c)
          | EPanicked c' => (RPanic, leave c')
          | EStuck => (RStuck, c_st c)
          end
        | _ => (RStuck, c_st c)
        end
      end
    end.

  (* one call of the closure, at index i of the lockstep iteration *)
  Definition step (P : pipe) (i : nat) (st : pstate) : sres * pstate :=
    let fold_sink := match p_sink P with SFold _ => true | _ => false end in
    let c0 := mkCl (match p_sink P with SFold accv => [(accv, VAccv (s_acc st))] | _ => [] end) [] st in
    match fold_left (bind_src i) (p_srcs P) (Some c0) with
    | Some c => exec_body fold_sink c (p_body P)
    | None => (RStuck, st)
    end.

  Definition init_pos (P : pipe) : list (string * nat) :=
    flat_map (fun s => match snd s with
                       | KConsumer _ p | KDest p => [(p, 0)]
                       | KIterBack a p => [(p, match nth_error args a with Some l => length l | None => 0 end)]
                       | _ => []
                       end) (p_srcs P).

  Definition init_state (P : pipe) (init : Z) : pstate := mkP (init_pos P) [] [] [] init.

  (* the state before call i, when calls 0..i-1 have been made (a panicking call ends the run,
     so later states are never looked at) *)
  Fixpoint state_before (P : pipe) (init : Z) (i : nat) : pstate :=
    match i with
    | O => init_state P init
    | S j => snd (step P j (state_before P init j))
    end.

  (* what the sources' destructors do at the end of the body, last declared first:
     an ArrayConsumer drops position.. of its array, a by-value iterator the items it has
     not yielded (it yielded [calls]), ManuallyDrop nothing *)
  Definition teardown (P : pipe) (st : pstate) (calls : nat) : list ev :=
    flat_map (fun s =>
      match snd s with
      | KConsumer a p =>
        match nth_error args a, lookup p (s_pos st) with
        | Some l, Some n => map EDrop (skipn n l)
        | _, _ => []
        end
      | KOwnedSeq a =>
        if seq_owned then match nth_error args a with Some l => map EDrop (skipn calls l) | None => [] end else []
      | KIterBack a p =>
        match nth_error args a, lookup p (s_pos st) with
        | Some l, Some n => map EDrop (firstn n l)
        | _, _ => []
        end
      | _ => []
      end) (rev (p_srcs P)).

  (* FromIterator::from_iter over the closure: Builder.try_from_iter polls it; poll i < N runs
     the closure, poll i >= N finds the lockstep iteration exhausted (f is not called) *)
  Definition pipe_response (P : pipe) (N : nat) (i : nat) : response :=
    if Nat.ltb i N then
      match fst (step P i (state_before P 0%Z i)) with
      | RItem z => Item z
      | RPanic => PanicNow
      | _ => PanicNow      (* RStuck / RUnit: excluded by the tie theorems, which prove Item / PanicNow *)
      end
    else End.

  Definition run_from_iter (P : pipe) (N : nat) : outcome * list ev * list ev * list ev * list (list Z) :=
    let '(o, e, p) := try_from_iter N (mkSrc (Z.of_nat N) (Some (Z.of_nat N)) (pipe_response P N)) in
    let calls := Nat.min p N in
    let st := state_before P 0%Z calls in
    (o, s_ev st, teardown P st calls, e, s_calls st).

  (* chain.fold(init, closure): calls 0..N-1 until one panics *)
  Fixpoint fold_run (P : pipe) (n : nat) (i : nat) (st : pstate) : bool * pstate * nat :=
    match n with
    | O => (true, st, i)
    | S n' =>
      match step P i st with
      | (RUnit, st') => fold_run P n' (S i) st'
      | (_, st') => (false, st', S i)
      end
    end.

  Definition run_fold (P : pipe) (N : nat) (init : Z) : fold_outcome * list ev * list ev * list (list Z) :=
    let '(ok, st, calls) := fold_run P N 0 (init_state P init) in
    ((if ok then FoldOk (s_acc st) else FoldPanic), s_ev st, teardown P st calls, s_calls st).

  (* chain.for_each(closure) over the builder's slots; then builder.finish() + assume_init;
     on unwinding the builder drops ..position of what was written *)
  Definition builder_teardown (P : pipe) (st : pstate) : list ev :=
    flat_map (fun s =>
      match snd s with
      | KDest p => match lookup p (s_pos st) with Some n => map EDrop (firstn n (s_written st)) | None => [] end
      | _ => []
      end) (p_srcs P).

  Definition run_for_each (P : pipe) (N : nat) : outcome * list ev * list ev * list ev * list (list Z) :=
    let '(ok, st, calls) := fold_run P N 0 (init_state P 0%Z) in
    if ok then (Ok (s_written st), s_ev st, teardown P st calls, [], s_calls st)
    else (Panic, s_ev st, teardown P st calls, builder_teardown P st, s_calls st).

End Run.

Fixpoint nd_eval (nd : nat -> bool) (c : ndc) : bool :=
  match c with NdArg a => nd a | NdOr a b => nd_eval nd a || nd_eval nd b end.

Definition select (nd : nat -> bool) (F : fnprog) : pipe :=
  match F with
  | FPipe p => p
  | FIfNeedsDrop c t e => if nd_eval nd c then t else e
  end.

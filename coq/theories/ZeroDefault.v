(* ZeroDefault.v -- hub model of src/impl_zeroize.rs and src/impl_const_default.rs
   over the recursive storage of src/lib.rs.  Definitions only.

   A length is a type-level binary number: UTerm, or UInt<N, B> whose OUTERMOST
   digit B is the least significant one (U2 = UInt<UInt<UTerm, B1>, B0>).  It is
   modelled as the list of its digits, outermost first ([false; true] = 2, true =
   B1); leading zero digits (UInt<UInt<UTerm, B0>, B1> = [true; false] = 1) are
   legal lengths and are covered.

   N::ArrayType<T> is the storage tree: [T; 0] for UTerm, GenericArrayImplEven
   {parent1, parent2, _marker} for a B0 digit, GenericArrayImplOdd {parent1,
   parent2, data} for a B1 digit, both parents of the type of the inner number.
   The slice view of the array (as_slice / as_mut_slice) shows the T leaves of
   the tree in memory order = repr(C) field order. *)
From GA Require Import Base ConstDefaultDecls Builder Functional.

Inductive tree (A : Type) : Type :=
| Leaf0 : tree A                                   (* [T; 0] *)
| Even (p1 p2 : tree A) : tree A                   (* GenericArrayImplEven *)
| Odd (p1 p2 : tree A) (data : A) : tree A.        (* GenericArrayImplOdd *)
Arguments Leaf0 {A}.
Arguments Even {A} p1 p2.
Arguments Odd {A} p1 p2 data.

(* the elements in memory order: the fields in DECLARED order (ConstDefaultDecls),
   each contributing its own leaves.  (An Even node has no data field; a marker
   is zero-sized.) *)
Fixpoint leaves {A} (t : tree A) : list A :=
  match t with
  | Leaf0 => []
  | Even p1 p2 =>
    flat_map (fun f => match f with
                       | FParent1 => leaves p1 | FParent2 => leaves p2
                       | FData => [] | FMarker => [] end) even_fields
  | Odd p1 p2 x =>
    flat_map (fun f => match f with
                       | FParent1 => leaves p1 | FParent2 => leaves p2
                       | FData => [x] | FMarker => [] end) odd_fields
  end.

(* the number a digit list denotes (Unsigned::USIZE) *)
Fixpoint val (ds : list bool) : nat :=
  match ds with
  | [] => 0
  | b :: r => (if b then 1 else 0) + 2 * val r
  end.

(* typenum's normalised digits of a number (no leading zero digit) *)
Fixpoint pos_digits (p : positive) : list bool :=
  match p with
  | xH => [true]
  | xO q => false :: pos_digits q
  | xI q => true :: pos_digits q
  end.
Definition N_digits (n : N) : list bool :=
  match n with N0 => [] | Npos p => pos_digits p end.

(* t is a value of the type <digits as ArrayLength>::ArrayType<T> *)
Fixpoint has_shape {A} (ds : list bool) (t : tree A) : bool :=
  match ds, t with
  | [], Leaf0 => true
  | b :: r, Even p1 p2 =>
    match arraytype_of_bit b with NEven => has_shape r p1 && has_shape r p2 | NOdd => false end
  | b :: r, Odd p1 p2 _ =>
    match arraytype_of_bit b with NOdd => has_shape r p1 && has_shape r p2 | NEven => false end
  | _, _ => false
  end.

(* ---------- ConstDefault ---------- *)

(* the value a field gets from its initialiser expression; None = the expression
   does not have the field's type (rustc rejects the impl) *)
Definition eval_parent {A} (i : init) (u : tree A) : option (tree A) :=
  match i with DefaultOf TyU | DefaultOf TyInfer => Some u | _ => None end.
Definition eval_data {A} (i : init) (d : A) : option A :=
  match i with DefaultOf TyT | DefaultOf TyInfer => Some d | _ => None end.
Definition eval_marker (i : init) : bool :=
  match i with PhantomLit | DefaultOf TyInfer => true | _ => false end.

(* <GenericArrayImplEven<T, U> as ConstDefault>::DEFAULT, given u = U::DEFAULT *)
Definition even_default {A} (u : tree A) : option (tree A) :=
  match eval_parent even_parent1_init u, eval_parent even_parent2_init u with
  | Some p1, Some p2 => if eval_marker even_marker_init then Some (Even p1 p2) else None
  | _, _ => None
  end.

(* <GenericArrayImplOdd<T, U> as ConstDefault>::DEFAULT, given u = U::DEFAULT, d = T::DEFAULT *)
Definition odd_default {A} (u : tree A) (d : A) : option (tree A) :=
  match eval_parent odd_parent1_init u, eval_parent odd_parent2_init u, eval_data odd_data_init d with
  | Some p1, Some p2, Some x => Some (Odd p1 p2 x)
  | _, _, _ => None
  end.

(* <N::ArrayType<T> as ConstDefault>::DEFAULT by the type-level recursion;
   the innermost [T; 0] is [T::DEFAULT; 0] (const-default crate): no element *)
Fixpoint const_default_tree {A} (ds : list bool) (d : A) : option (tree A) :=
  match ds with
  | [] => Some Leaf0
  | b :: r =>
    match const_default_tree r d with
    | None => None
    | Some u => match arraytype_of_bit b with NOdd => odd_default u d | NEven => even_default u end
    end
  end.

(* <GenericArray<T, N> as ConstDefault>::DEFAULT = GenericArray { data: ConstDefault::DEFAULT };
   GenericArray::const_default() returns Self::DEFAULT *)
Definition const_default_arr {A} (ds : list bool) (d : A) : option (tree A) :=
  match const_default_tree ds d with
  | Some t => eval_parent wrapper_data_init t
  | None => None
  end.

(* what the caller sees through the slice view *)
Definition const_default_elems {A} (ds : list bool) (d : A) : option (list A) :=
  option_map leaves (const_default_arr ds d).

(* Default::default() = Self::generate(|_| T::default()) (src/impls.rs; model in
   Functional.v): no panic, element type Z *)
Definition default_elems (N : nat) (d : Z) : option (list Z) :=
  match fst (fst (default_ N (fun _ _ => d) None)) with
  | Ok a => Some a
  | _ => None
  end.

(* ---------- Zeroize ---------- *)

(* `iter_mut().zeroize()` (zeroize crate: for elem in self { elem.zeroize() }):
   k cells from index i on, each overwritten in place by its zeroized value.
   Reading outside the view would be UB; the theorems show it does not happen. *)
Fixpoint zeroize_loop {A} (zero : A -> A) (k i : nat) (cells : list A) : res (list A) :=
  match k with
  | O => Ret cells
  | S k' =>
    match nth_error cells i with
    | Some x => zeroize_loop zero k' (S i) (upd i (zero x) cells)
    | None => UB
    end
  end.

(* over the whole mutable slice view: as_mut_slice() has all N cells *)
Definition zeroize_slice {A} (zero : A -> A) (cells : list A) : res (list A) :=
  zeroize_loop zero (length cells) 0 cells.

(* the storage holding given contents: the first val ds elements of l laid out
   in memory order over the tree; returns the unused rest *)
Fixpoint fill {A} (ds : list bool) (l : list A) : option (tree A * list A) :=
  match ds with
  | [] => Some (Leaf0, l)
  | b :: r =>
    match fill r l with
    | None => None
    | Some (p1, l1) =>
      match fill r l1 with
      | None => None
      | Some (p2, l2) =>
        match arraytype_of_bit b with
        | NEven => Some (Even p1 p2, l2)
        | NOdd => match l2 with x :: l3 => Some (Odd p1 p2 x, l3) | [] => None end
        end
      end
    end
  end.

(* GenericArray::zeroize: the slice view is zeroized in place; the array
   afterwards is the same storage with the view's new contents *)
Definition zeroize_arr {A} (zero : A -> A) (ds : list bool) (t : tree A) : res (tree A) :=
  match zeroize_slice zero (leaves t) with
  | Ret l => match fill ds l with Some (t', []) => Ret t' | _ => UB end
  | Panicked => Panicked
  | UB => UB
  end.

(* ---------- plausible bugs (for the _refuted lemmas) ---------- *)

(* an impl that leaves parent2 of the Odd (odd_p2 = false) / Even (even_p2 = false)
   node out: that subtree holds no initialised element *)
Fixpoint cd_tree_mut {A} (odd_p2 even_p2 : bool) (ds : list bool) (d : A) : tree A :=
  match ds with
  | [] => Leaf0
  | b :: r =>
    let u := cd_tree_mut odd_p2 even_p2 r d in
    if b then Odd u (if odd_p2 then u else Leaf0) d
    else Even u (if even_p2 then u else Leaf0)
  end.

(* an Even impl that also writes an element (a B0 digit treated like B1) *)
Fixpoint cd_tree_extra {A} (ds : list bool) (d : A) : tree A :=
  match ds with
  | [] => Leaf0
  | _ :: r => let u := cd_tree_extra r d in Odd u u d
  end.

(* zeroize over a sub-slice: [1..] and [..len-1] *)
Definition zeroize_slice_skip_first {A} (zero : A -> A) (cells : list A) : res (list A) :=
  zeroize_loop zero (length cells - 1) 1 cells.
Definition zeroize_slice_short {A} (zero : A -> A) (cells : list A) : res (list A) :=
  zeroize_loop zero (length cells - 1) 0 cells.

(* CorrC17.v -- correspondence entry point for C17: decode a case, run the hub model, encode
   the observables exactly as harness/src/bin/c17.rs does.

   case = [fmt; ty; N; h0; ha_mode; ha_p; tail; m; item_0 .. item_{m-1}]
     fmt  0 scripted deserializer, 1 JSON text, 2 bincode, 3 serde_json::Value, 4 serialize,
          5 the scripted deserializer entered through deserialize_in_place (same meaning as 0)
     ty   0 u8, 1 f64, 2 drop-tracked Tr, 3 zero-sized drop-tracked (identities reconstructed by the harness)
     h0   -1 = size_hint() says None up front, otherwise Some h0
     ha_mode / ha_p: size_hint() asked again after k calls of next_element:
          0 -> None,  1 -> Some (max 0 (ha_p - k)),  2 -> Some ha_p
     item >= 0 element with that identity/value, -2 "nothing" (Ok(None)), any other negative a parse error
     tail what next_element answers beyond the m scripted items
   observables (deserialize) = [1; len; a...; polls; ndrops; sorted drops...] on Ok,
                               [0; 0; polls; ndrops; sorted drops...] on Err  (polls = -1 where the format
                               hides them; drops only for ty = 2, 3)
   observables (serialize)   = token stream, then the length and the bytes of the non-self-describing
                               encoding (bytes masked as -1 for f64) *)
From GA Require Import Base Codec Serde.
Local Open Scope Z_scope.

Definition dec_item (z : Z) : item :=
  if 0 <=? z then Item z else if z =? -2 then Nothing else ParseError.

Definition dec_hint (z : Z) : option Z := if z <? 0 then None else Some z.

Definition mk_script (h0 mode p tail : Z) (its : list Z) : script :=
  mkScript (dec_hint h0)
    (fun k => match nth_error its k with Some z => dec_item z | None => dec_item tail end)
    (fun k => if mode =? 1 then Some (Z.max 0 (p - Z.of_nat k))
              else if mode =? 2 then Some p else None).

Definition enc_tok (t : tok) : list Z :=
  match t with
  | TupleStart n => [1; n]
  | Elem x => [2; x]
  | TupleEnd => [3]
  | SeqStart n => [4; n]
  | SeqEnd => [5]
  end.

Definition enc_elem (ty : Z) (x : Z) : list Z :=
  if ty =? 0 then [x] else if ty =? 2 then le_bytes 8 x else repeat (-1) 8.

Definition run_c17 (case : list Z) : list Z :=
  match case with
  | fmt :: ty :: n :: h0 :: mode :: p :: tail :: m :: rest =>
    let its := firstn (znat m) rest in
    if fmt =? 4 then
      let ts := serialize its in
      let bytes := bytes_nsd (enc_elem ty) ts in
      flat_map enc_tok ts ++ [zlen bytes] ++ bytes
    else
      let o := deserialize (znat n) (mk_script h0 mode p tail its) in
      let pl := if (fmt =? 0) || (fmt =? 5) then Z.of_nat (polls o) else -1 in
      let dr := if (ty =? 2) || (ty =? 3) then sortZ (dropped o) else [] in
      match result o with
      | DOk a => [1; zlen a] ++ a ++ [pl; zlen dr] ++ dr
      | DErr => [0; 0] ++ [pl; zlen dr] ++ dr
      | DUB => [-7]
      end
  | _ => [-1]
  end.

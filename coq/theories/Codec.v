(* Codec.v -- integer-list encodings shared by the correspondence entry points. *)
From GA Require Import Base.

Definition znat (z : Z) : nat := Z.to_nat z.

Definition take_list (n : nat) (l : list Z) : list Z * list Z := (firstn n l, skipn n l).

Definition enc_opt (o : option Z) : list Z :=
  match o with None => [0%Z] | Some x => [1%Z; x] end.

Definition enc_list (l : list Z) : list Z := 4%Z :: zlen l :: l.

Definition enc_bool (b : bool) : Z := if b then 1%Z else 0%Z.

Fixpoint sort_insert (x : Z) (l : list Z) : list Z :=
  match l with
  | [] => [x]
  | y :: r => if (x <=? y)%Z then x :: l else y :: sort_insert x r
  end.
Definition sortZ (l : list Z) : list Z := fold_right sort_insert [] l.

(* OwnProofs.v -- C03: across any finite panic-free history of ownership moves every
   element is dropped exactly once and never observed after its drop. *)
From Coq Require Import Permutation.
From GA Require Import Base Iter IterProofs IterDropProofs Own.

(* permutation goals over appended lists of identities: by counting *)
Lemma cons_as_app {A} (x : A) l : x :: l = [x] ++ l.
Proof. reflexivity. Qed.

Ltac cons_to_app :=
  match goal with
  | |- context [count_occ _ (?x :: ?l) _] =>
    lazymatch l with [] => fail | _ => rewrite (cons_as_app x l) end
  | H : context [count_occ _ (?x :: ?l) _] |- _ =>
    lazymatch l with [] => fail | _ => rewrite (cons_as_app x l) in H end
  end.

Ltac perm_lia :=
  let zz := fresh "zz" in
  apply (proj2 (Permutation_count_occ Z.eq_dec _ _)); intro zz;
  repeat match goal with
         | H : Permutation ?a ?b |- _ =>
           let H' := fresh "Hc" in
           pose proof (proj1 (Permutation_count_occ Z.eq_dec a b) H zz) as H'; clear H
         end;
  repeat first [ rewrite count_occ_app in * | cons_to_app ]; lia.

(* ---------- slots ---------- *)

Lemma upd_other {A} (l : list A) i j v : i <> j -> nth_error (upd i v l) j = nth_error l j.
Proof.
  revert i j; induction l as [|x l IH]; intros i j H; [destruct i; reflexivity|].
  destruct i as [|i], j as [|j]; cbn; try reflexivity; try lia. apply IH. lia.
Qed.

Lemma upd_same {A} (l : list A) i v : i < length l -> nth_error (upd i v l) i = Some v.
Proof.
  revert i; induction l as [|x l IH]; intros i H; cbn in H; [lia|].
  destruct i as [|i]; cbn; [reflexivity|]. apply IH. lia.
Qed.

Lemma take_slot (l : list (option obj)) i ob : nth_error l i = Some (Some ob) ->
  Permutation (flat_map slot_ids l) (obj_ids ob ++ flat_map slot_ids (upd i None l)).
Proof.
  revert i; induction l as [|x l IH]; intros i H; [destruct i; discriminate|].
  destruct i as [|i]; cbn in H.
  - injection H as ->. cbn. reflexivity.
  - cbn [upd flat_map]. specialize (IH i H). perm_lia.
Qed.

Lemma get_spec p i ob : get p i = Some ob <-> nth_error (objs p) i = Some (Some ob).
Proof.
  unfold get. destruct (nth_error (objs p) i) as [[o|]|]; split; intros H; try discriminate; congruence.
Qed.

Definition news_ids (news : list obj) : list Z := flat_map obj_ids news.

Lemma pool_ids_app l news :
  flat_map slot_ids (l ++ map Some news) = flat_map slot_ids l ++ news_ids news.
Proof.
  rewrite flat_map_app. f_equal. unfold news_ids. induction news as [|o r IH]; cbn; [reflexivity|].
  now rewrite IH.
Qed.

Lemma finish0_conserves p news k dropped obs :
  Permutation (news_ids news ++ dropped) (fresh p k) ->
  Permutation (pool_ids (sp (finish p [] news k dropped obs)) ++ dropped) (pool_ids p ++ fresh p k).
Proof.
  intros H. unfold finish, pool_ids; cbn [sp objs fold_right]. rewrite pool_ids_app. perm_lia.
Qed.

Lemma finish1_conserves p i ob news k dropped obs :
  get p i = Some ob ->
  Permutation (news_ids news ++ dropped) (obj_ids ob ++ fresh p k) ->
  Permutation (pool_ids (sp (finish p [i] news k dropped obs)) ++ dropped) (pool_ids p ++ fresh p k).
Proof.
  intros Hg H. apply get_spec in Hg. unfold finish, pool_ids; cbn [sp objs fold_right]. unfold clear.
  rewrite pool_ids_app. pose proof (take_slot _ _ _ Hg) as H1. perm_lia.
Qed.

Lemma finish2_conserves p i j oi oj news k dropped obs :
  i <> j -> get p i = Some oi -> get p j = Some oj ->
  Permutation (news_ids news ++ dropped) (obj_ids oi ++ obj_ids oj ++ fresh p k) ->
  Permutation (pool_ids (sp (finish p [i; j] news k dropped obs)) ++ dropped) (pool_ids p ++ fresh p k).
Proof.
  intros Hne Hi Hj H. apply get_spec in Hi, Hj.
  unfold finish, pool_ids; cbn [sp objs fold_right]. unfold clear.
  assert (Hi' : nth_error (upd j None (objs p)) i = Some (Some oi)) by (rewrite upd_other by lia; exact Hi).
  rewrite pool_ids_app. pose proof (take_slot _ _ _ Hj) as H1. pose proof (take_slot _ _ _ Hi') as H2.
  perm_lia.
Qed.

(* ---------- list facts used by the sequence operations ---------- *)

Lemma skipn_nth_cons {A} (l : list A) i x : nth_error l i = Some x -> skipn i l = x :: skipn (S i) l.
Proof.
  revert i; induction l as [|y l IH]; intros i H; [destruct i; discriminate|].
  destruct i as [|i]; cbn in H; [injection H as ->; reflexivity|]. cbn [skipn]. now apply IH.
Qed.

Lemma nth_error_skipn' {A} (l : list A) a k : nth_error (skipn a l) k = nth_error l (a + k).
Proof.
  revert l; induction a as [|a IH]; intros l; [reflexivity|].
  destruct l; [now destruct k|]. cbn. apply IH.
Qed.

Lemma split_at {A} (l : list A) i x : nth_error l i = Some x -> l = firstn i l ++ x :: skipn (S i) l.
Proof. intros H. rewrite <- (skipn_nth_cons l i x H). symmetry. apply firstn_skipn. Qed.

Lemma list_remove_perm idx l x : nth_error l idx = Some x ->
  Permutation l (x :: list_remove idx l).
Proof.
  intros H. unfold list_remove. rewrite (split_at l idx x H) at 1. perm_lia.
Qed.

Lemma list_swap_remove_perm idx l x : nth_error l idx = Some x ->
  Permutation l (x :: list_swap_remove idx l).
Proof.
  intros H. assert (Hlt : idx < length l) by (apply nth_error_Some; congruence).
  unfold list_swap_remove.
  destruct (nth_error_Some_lt l (length l - 1)) as [lastx Hlast]; [lia|]. rewrite Hlast.
  pose proof (split_at l idx x H) as Hl.
  destruct (Nat.eqb_spec idx (length l - 1)) as [He|Hne].
  - assert (Hs : skipn (S idx) l = []) by (apply skipn_all2; lia).
    rewrite Hs in Hl. rewrite Hl at 1. perm_lia.
  - (* the tail after idx ends with the last element *)
    assert (Hlast' : nth_error (skipn (S idx) l) (length l - 1 - S idx) = Some lastx).
    { rewrite nth_error_skipn'. rewrite <- Hlast. f_equal. lia. }
    pose proof (split_at _ _ _ Hlast') as Ht.
    assert (Hnil : skipn (S (length l - 1 - S idx)) (skipn (S idx) l) = []).
    { apply skipn_all2. rewrite skipn_length. lia. }
    rewrite Hnil in Ht. rewrite Ht in Hl. rewrite Hl at 1. perm_lia.
Qed.

Lemma chunks_concat n : forall fuel l, 0 < n -> length l <= fuel -> concat (chunks n fuel l) = l.
Proof.
  induction fuel as [|f IH]; intros l Hn Hl.
  - destruct l; [reflexivity|cbn in Hl; lia].
  - destruct l as [|x l]; [reflexivity|]. cbn [chunks concat].
    rewrite IH; [apply firstn_skipn|exact Hn|]. rewrite skipn_length. cbn [length] in *. lia.
Qed.

Lemma news_ids_arrs ls : news_ids (map OArr ls) = concat ls.
Proof. unfold news_ids. induction ls as [|l r IH]; cbn; [reflexivity|]. now rewrite IH. Qed.

Lemma edrops_spec e : Permutation (releases e) (edrops e ++ flat_map (fun x => match x with EMove i | ELeak i => [i] | _ => [] end) e).
Proof.
  unfold releases, edrops. induction e as [|x e IH]; cbn; [reflexivity|].
  destruct x; cbn; try exact IH.
  - now apply perm_skip.
  - rewrite IH. apply Permutation_middle.
  - rewrite IH. apply Permutation_middle.
Qed.

(* ---------- well-formed pools ---------- *)

Definition iters_ok (p : pool) : Prop := forall i s, get p i = Some (OIter s) -> Inv s.

Definition WF (p : pool) : Prop :=
  NoDup (pool_ids p) /\ (forall x, In x (pool_ids p) -> (x < next_id p)%Z) /\ iters_ok p.

Lemma WF_empty z : WF (empty_pool z).
Proof.
  unfold WF. split; [apply NoDup_nil|]. split; [intros x []|].
  intros i s H. unfold get in H. cbn in H. destruct i; discriminate.
Qed.

Lemma fresh_NoDup p k : NoDup (fresh p k).
Proof.
  unfold fresh. apply FinFun.Injective_map_NoDup; [|apply seq_NoDup].
  intros a b H. lia.
Qed.

Lemma fresh_bound p k x : In x (fresh p k) -> (next_id p <= x < next_id p + Z.of_nat k)%Z.
Proof.
  unfold fresh. intros H. apply in_map_iff in H. destruct H as (i & <- & Hi). apply in_seq in Hi. lia.
Qed.

Lemma NoDup_app_intro {A} (l l' : list A) :
  NoDup l -> NoDup l' -> (forall x, In x l -> In x l' -> False) -> NoDup (l ++ l').
Proof.
  induction l as [|a l IH]; intros H1 H2 H3; cbn; [exact H2|].
  inversion H1 as [|? ? Hn Hd]; subst. constructor.
  - intro Hin. apply in_app_or in Hin. destruct Hin as [Hin|Hin]; [now apply Hn|].
    apply (H3 a); [now left|exact Hin].
  - apply IH; auto. intros x Hx. apply H3. now right.
Qed.

Lemma WF_extend p k : WF p -> NoDup (pool_ids p ++ fresh p k).
Proof.
  intros (Hnd & Hb & _). apply NoDup_app_intro; [exact Hnd|apply fresh_NoDup|].
  intros x Hx Hf. apply Hb in Hx. apply fresh_bound in Hf. lia.
Qed.

(* ---------- iterator facts in ownership form ---------- *)

Lemma next_own s : Inv s ->
  match next s with
  | (Ret (Some x), s', e) => live s = x :: live s' /\ Inv s' /\ e = [EMove x]
  | (Ret None, s', e) => s' = s /\ e = [] /\ live s = []
  | _ => False
  end.
Proof.
  intros HI. unfold next. destruct (index s <? back s) eqn:E.
  - apply Nat.ltb_lt in E. destruct (live_next s HI E) as [x [Hx Hl]]. rewrite Hx.
    repeat split; auto; destruct HI; cbn; lia.
  - apply Nat.ltb_ge in E. repeat split; auto. now apply live_empty.
Qed.

Lemma next_back_own s : Inv s ->
  match next_back s with
  | (Ret (Some x), s', e) => live s = live s' ++ [x] /\ Inv s' /\ e = [EMove x]
  | (Ret None, s', e) => s' = s /\ e = [] /\ live s = []
  | _ => False
  end.
Proof.
  intros HI. unfold next_back. destruct (index s <? back s) eqn:E.
  - apply Nat.ltb_lt in E. destruct (live_next_back s HI E) as [x [Hx Hl]]. rewrite Hx.
    repeat split; auto; destruct HI; cbn; lia.
  - apply Nat.ltb_ge in E. repeat split; auto. now apply live_empty.
Qed.

Lemma edrops_drops l : edrops (map EDrop l) = l.
Proof. unfold edrops. induction l as [|x l IH]; cbn; [reflexivity|]. now rewrite IH. Qed.

Lemma edrops_app a b : edrops (a ++ b) = edrops a ++ edrops b.
Proof. unfold edrops. apply flat_map_app. Qed.

Lemma nth_own s n : Inv s ->
  match nth_ None s n with
  | (Ret (Some x), s', _, e) => Permutation (live s) (edrops e ++ x :: live s') /\ Inv s'
  | (Ret None, s', _, e) => Permutation (live s) (edrops e ++ live s') /\ Inv s'
  | _ => False
  end.
Proof.
  intros HI. unfold nth_, drop_list. rewrite fires_None.
  pose proof (clampn_le n (len s)) as Hk. set (k := clampn n (len s)) in *.
  destruct (live_skip_front s k HI Hk) as [Hsplit _].
  assert (HI1 : Inv (set_index s (index s + k))).
  { apply Inv_set_index; [exact HI|]. unfold len in Hk. destruct HI. lia. }
  pose proof (next_own _ HI1) as Hn.
  destruct (next (set_index s (index s + k))) as [[r s2] e2].
  destruct r as [[x|]| |]; try contradiction.
  - destruct Hn as (Hl & HI2 & ->). split; [|exact HI2].
    rewrite edrops_app, edrops_drops. unfold edrops at 1. cbn [flat_map app]. rewrite app_nil_r, Hsplit, Hl. reflexivity.
  - destruct Hn as (-> & -> & Hl). split; [|exact HI1].
    rewrite edrops_app, edrops_drops. unfold edrops at 1. cbn [flat_map app]. rewrite app_nil_r, Hsplit. reflexivity.
Qed.

Lemma nth_back_own s n : Inv s ->
  match nth_back_ None s n with
  | (Ret (Some x), s', _, e) => Permutation (live s) (edrops e ++ x :: live s') /\ Inv s'
  | (Ret None, s', _, e) => Permutation (live s) (edrops e ++ live s') /\ Inv s'
  | _ => False
  end.
Proof.
  intros HI. unfold nth_back_, drop_list. rewrite fires_None.
  pose proof (clampn_le n (len s)) as Hk. set (k := clampn n (len s)) in *.
  destruct (live_skip_back s k HI Hk) as [Hsplit _].
  assert (HI1 : Inv (set_back s (back s - k))).
  { apply Inv_set_back; [exact HI|]. unfold len in Hk. destruct HI. lia. }
  pose proof (next_back_own _ HI1) as Hn.
  destruct (next_back (set_back s (back s - k))) as [[r s2] e2].
  destruct r as [[x|]| |]; try contradiction.
  - destruct Hn as (Hl & HI2 & ->). split; [|exact HI2].
    rewrite edrops_app, edrops_drops. unfold edrops at 1. cbn [flat_map app]. rewrite app_nil_r, Hsplit, Hl. perm_lia.
  - destruct Hn as (-> & -> & Hl). split; [|exact HI1].
    rewrite edrops_app, edrops_drops. unfold edrops at 1. cbn [flat_map app]. rewrite app_nil_r, Hsplit. perm_lia.
Qed.

(* ---------- one step conserves ownership ---------- *)

Lemma invalid_conserves p :
  Permutation (pool_ids (sp (invalid p)) ++ sdropped (invalid p)) (pool_ids p ++ snew (invalid p)).
Proof. cbn. reflexivity. Qed.

Lemma fresh_0 p : fresh p 0 = [].
Proof. reflexivity. Qed.

Ltac fin1 Hg := apply (finish1_conserves _ _ _ _ _ _ _ Hg); unfold news_ids; cbn [flat_map obj_ids app];
                rewrite ?fresh_0, ?app_nil_r.

Ltac dArr Hg := match goal with |- context [get ?p ?i] =>
  destruct (get p i) as [[l| | | | |]|] eqn:Hg; try apply invalid_conserves end.
Ltac dIter Hg := match goal with |- context [get ?p ?i] =>
  destruct (get p i) as [[|s| | | |]|] eqn:Hg; try apply invalid_conserves end.
Ltac dBox Hg := match goal with |- context [get ?p ?i] =>
  destruct (get p i) as [[| |l| | |]|] eqn:Hg; try apply invalid_conserves end.
Ltac dVec Hg := match goal with |- context [get ?p ?i] =>
  destruct (get p i) as [[| | |l| |]|] eqn:Hg; try apply invalid_conserves end.
Ltac dSlice Hg := match goal with |- context [get ?p ?i] =>
  destruct (get p i) as [[| | | |l|]|] eqn:Hg; try apply invalid_conserves end.

Theorem step_conserves p o : iters_ok p ->
  Permutation (pool_ids (sp (step p o)) ++ sdropped (step p o)) (pool_ids p ++ snew (step p o)).
Proof.
  intros Hok.
  destruct o; cbn [step].
  - (* generate *) apply finish0_conserves. unfold news_ids. cbn. now rewrite !app_nil_r.
  - (* collect *) dVec Hg. fin1 Hg. cbn. reflexivity.
  - (* into_iter *) dArr Hg. fin1 Hg. rewrite live_into_iter. cbn. reflexivity.
  - (* next *) dIter Hg. pose proof (next_own s (Hok _ _ Hg)) as Hn. destruct (next s) as [[r s'] e].
    destruct r as [[x|]| |]; try apply invalid_conserves.
    + destruct Hn as (Hl & _ & _). fin1 Hg. cbn. rewrite Hl. perm_lia.
    + destruct Hn as (-> & _ & _). fin1 Hg. cbn. reflexivity.
  - (* next_back *) dIter Hg. pose proof (next_back_own s (Hok _ _ Hg)) as Hn. destruct (next_back s) as [[r s'] e].
    destruct r as [[x|]| |]; try apply invalid_conserves.
    + destruct Hn as (Hl & _ & _). fin1 Hg. cbn. rewrite Hl. perm_lia.
    + destruct Hn as (-> & _ & _). fin1 Hg. cbn. reflexivity.
  - (* nth *) dIter Hg. pose proof (nth_own s n (Hok _ _ Hg)) as Hn. destruct (nth_ None s n) as [[[r s'] b] e].
    destruct r as [[x|]| |]; try apply invalid_conserves.
    + destruct Hn as (Hl & _). fin1 Hg. cbn. perm_lia.
    + destruct Hn as (Hl & _). fin1 Hg. cbn. perm_lia.
  - (* nth_back *) dIter Hg. pose proof (nth_back_own s n (Hok _ _ Hg)) as Hn.
    destruct (nth_back_ None s n) as [[[r s'] b] e].
    destruct r as [[x|]| |]; try apply invalid_conserves.
    + destruct Hn as (Hl & _). fin1 Hg. cbn. perm_lia.
    + destruct Hn as (Hl & _). fin1 Hg. cbn. perm_lia.
  - (* clone_iter *) dIter Hg. apply finish0_conserves. unfold news_ids. cbn [flat_map obj_ids]. rewrite !app_nil_r.
    unfold live; cbn [slots index back]. unfold range. rewrite Nat.sub_0_r. cbn [skipn].
    rewrite firstn_app. unfold fresh at 2. rewrite map_length, seq_length, Nat.sub_diag. cbn [firstn].
    rewrite app_nil_r, firstn_all2; [reflexivity|]. unfold fresh. now rewrite map_length, seq_length.
  - (* clone_arr *) dArr Hg. apply finish0_conserves. unfold news_ids. cbn. now rewrite !app_nil_r.
  - (* drop *) destruct (get p i) as [ob|] eqn:Hg; [|apply invalid_conserves]. fin1 Hg. cbn. reflexivity.
  - (* map *) dArr Hg. fin1 Hg. perm_lia.
  - (* zip *) destruct (get p i) as [[l| | | | |]|] eqn:Hi; try apply invalid_conserves.
    destruct (get p j) as [[m| | | | |]|] eqn:Hj; try apply invalid_conserves.
    destruct ((length l =? length m) && negb (i =? j)) eqn:E; [|apply invalid_conserves].
    apply andb_prop in E. destruct E as [_ E]. apply negb_true_iff, Nat.eqb_neq in E.
    apply (finish2_conserves _ _ _ _ _ _ _ _ _ E Hi Hj). unfold news_ids. cbn [flat_map obj_ids app].
    rewrite ?fresh_0, ?app_nil_r. perm_lia.
  - (* fold *) dArr Hg. fin1 Hg. cbn. reflexivity.
  - (* iter fold *) dIter Hg. fin1 Hg. cbn. reflexivity.
  - (* iter rfold *) dIter Hg. fin1 Hg. cbn. reflexivity.
  - (* count *) dIter Hg. fin1 Hg. cbn. reflexivity.
  - (* last *) dIter Hg. destruct (rev (live s)) as [|x r] eqn:Er.
    + fin1 Hg. cbn. assert (live s = []) as -> by (rewrite <- (rev_involutive (live s)), Er; reflexivity).
      reflexivity.
    + fin1 Hg. cbn. assert (live s = rev r ++ [x]) as -> by (rewrite <- (rev_involutive (live s)), Er; reflexivity).
      perm_lia.
  - (* append *) destruct (get p i) as [[l| | | | |]|] eqn:Hi; try apply invalid_conserves.
    destruct (get p j) as [[| | | | |x]|] eqn:Hj; try apply invalid_conserves.
    assert (i <> j) as E by (intro; subst; congruence).
    apply (finish2_conserves _ _ _ _ _ _ _ _ _ E Hi Hj). unfold news_ids. cbn [flat_map obj_ids app].
    rewrite ?fresh_0, ?app_nil_r. perm_lia.
  - (* prepend *) destruct (get p i) as [[l| | | | |]|] eqn:Hi; try apply invalid_conserves.
    destruct (get p j) as [[| | | | |x]|] eqn:Hj; try apply invalid_conserves.
    assert (i <> j) as E by (intro; subst; congruence).
    apply (finish2_conserves _ _ _ _ _ _ _ _ _ E Hi Hj). unfold news_ids. cbn [flat_map obj_ids app].
    rewrite ?fresh_0, ?app_nil_r. perm_lia.
  - (* pop_back *) dArr Hg. destruct (rev l) as [|x r] eqn:Er; [apply invalid_conserves|].
    fin1 Hg. cbn. assert (l = rev r ++ [x]) as -> by (rewrite <- (rev_involutive l), Er; reflexivity).
    perm_lia.
  - (* pop_front *) dArr Hg. destruct l as [|x r]; [apply invalid_conserves|]. fin1 Hg. cbn. perm_lia.
  - (* split *) dArr Hg. destruct (k <=? length l); [|apply invalid_conserves]. fin1 Hg.
    rewrite <- (firstn_skipn k l) at 3. perm_lia.
  - (* concat *) destruct (get p i) as [[l| | | | |]|] eqn:Hi; try apply invalid_conserves.
    destruct (get p j) as [[m| | | | |]|] eqn:Hj; try apply invalid_conserves.
    destruct (negb (i =? j)) eqn:E; [|apply invalid_conserves].
    apply negb_true_iff, Nat.eqb_neq in E.
    apply (finish2_conserves _ _ _ _ _ _ _ _ _ E Hi Hj). unfold news_ids. cbn [flat_map obj_ids app].
    rewrite ?fresh_0, ?app_nil_r. perm_lia.
  - (* remove *) dArr Hg. destruct (nth_error l idx) as [x|] eqn:Hx; [|apply invalid_conserves].
    fin1 Hg. pose proof (list_remove_perm idx l x Hx) as Hp. cbn. perm_lia.
  - (* swap_remove *) dArr Hg. destruct (nth_error l idx) as [x|] eqn:Hx; [|apply invalid_conserves].
    fin1 Hg. pose proof (list_swap_remove_perm idx l x Hx) as Hp. cbn. perm_lia.
  - (* flatten2 *) destruct (get p i) as [[l| | | | |]|] eqn:Hi; try apply invalid_conserves.
    destruct (get p j) as [[m| | | | |]|] eqn:Hj; try apply invalid_conserves.
    destruct ((length l =? length m) && negb (i =? j)) eqn:E; [|apply invalid_conserves].
    apply andb_prop in E. destruct E as [_ E]. apply negb_true_iff, Nat.eqb_neq in E.
    apply (finish2_conserves _ _ _ _ _ _ _ _ _ E Hi Hj). unfold news_ids. cbn [flat_map obj_ids app].
    rewrite ?fresh_0, ?app_nil_r. perm_lia.
  - (* unflatten *) dArr Hg. destruct ((0 <? n) && (length l mod n =? 0)) eqn:E; [|apply invalid_conserves].
    apply andb_prop in E. destruct E as [E _]. apply Nat.ltb_lt in E.
    apply (finish1_conserves _ _ _ _ _ _ _ Hg). rewrite news_ids_arrs, chunks_concat by lia.
    cbn. now rewrite !app_nil_r.
  - (* native *) dArr Hg. fin1 Hg. cbn. reflexivity.
  - (* tuple *) dArr Hg. fin1 Hg. cbn. reflexivity.
  - (* to_vec *) dArr Hg. fin1 Hg. cbn. reflexivity.
  - (* vec_to_arr *) dVec Hg. fin1 Hg. cbn. reflexivity.
  - (* to_box *) dArr Hg. fin1 Hg. cbn. reflexivity.
  - (* box_into_vec *) dBox Hg. fin1 Hg. cbn. reflexivity.
  - (* box_into_slice *) dBox Hg. fin1 Hg. cbn. reflexivity.
  - (* slice_to_box *) dSlice Hg. fin1 Hg. cbn. reflexivity.
  - (* vec_to_box *) dVec Hg. fin1 Hg. cbn. reflexivity.
  - (* box_iter *) dBox Hg. fin1 Hg. cbn. reflexivity.
  - (* unbox *) dBox Hg. fin1 Hg. cbn. reflexivity.
  - (* observe *) destruct (get p i) as [ob|] eqn:Hg; [|apply invalid_conserves]. cbn. reflexivity.
  - (* try_collect *) dVec Hg. destruct (n =? length l); fin1 Hg; cbn; reflexivity.
  - (* try_collect_boxed *) dVec Hg. destruct (n =? length l); fin1 Hg; cbn; reflexivity.
Qed.

(* ---------- iterators in the pool keep their invariant ---------- *)

Lemma nth_error_upd_None (l : list (option obj)) i j ob :
  nth_error (upd i None l) j = Some (Some ob) -> nth_error l j = Some (Some ob) /\ i <> j.
Proof.
  intros H. destruct (Nat.eq_dec i j) as [->|Hne].
  - exfalso. destruct (Nat.lt_ge_cases j (length l)) as [Hlt|Hge].
    + rewrite upd_same in H by exact Hlt. discriminate.
    + assert (nth_error (upd j None l) j = None) as Hn
          by (apply nth_error_None; rewrite upd_length; exact Hge).
      congruence.
  - rewrite upd_other in H by exact Hne. auto.
Qed.

Lemma nth_error_cleared consumed : forall (l : list (option obj)) j ob,
  nth_error (fold_right clear l consumed) j = Some (Some ob) ->
  nth_error l j = Some (Some ob) /\ ~ In j consumed.
Proof.
  induction consumed as [|c cs IH]; intros l j ob H; cbn [fold_right] in H; [auto|].
  unfold clear at 1 in H. apply nth_error_upd_None in H. destruct H as [H Hne].
  apply IH in H. destruct H as [H Hn]. split; [exact H|]. intros [->|Hin]; [now apply Hne|now apply Hn].
Qed.

Lemma get_finish p consumed news k d o j ob :
  get (sp (finish p consumed news k d o)) j = Some ob ->
  (get p j = Some ob /\ ~ In j consumed) \/ In ob news.
Proof.
  intros H. apply get_spec in H. unfold finish in H; cbn [sp objs] in H.
  destruct (Nat.lt_ge_cases j (length (fold_right clear (objs p) consumed))) as [Hlt|Hge].
  - rewrite nth_error_app1 in H by exact Hlt. apply nth_error_cleared in H. left.
    destruct H as [H Hn]. split; [now apply get_spec|exact Hn].
  - rewrite nth_error_app2 in H by exact Hge. right.
    apply nth_error_In in H. apply in_map_iff in H. destruct H as (x & Hx & Hin). now injection Hx as <-.
Qed.

Lemma finish_iters_ok p consumed news k d o :
  iters_ok p -> (forall s, In (OIter s) news -> Inv s) ->
  iters_ok (sp (finish p consumed news k d o)).
Proof.
  intros Hok Hn j s H. apply get_finish in H. destruct H as [[H _]|H]; [now apply (Hok j)|now apply Hn].
Qed.

Ltac no_new_iters := intros ? Hin; cbn in Hin; repeat (destruct Hin as [Hin|Hin]; try discriminate); try contradiction.

Lemma fresh_length p n : length (fresh p n) = n.
Proof. unfold fresh. now rewrite map_length, seq_length. Qed.

Ltac new_iters_inv :=
  let s0 := fresh "s0" in let Hin := fresh "Hin" in
  intros s0 Hin; cbn [In] in Hin;
  repeat (destruct Hin as [Hin|Hin]; try discriminate); try contradiction;
  try (injection Hin as <-).

Theorem step_iters_ok p o : iters_ok p -> iters_ok (sp (step p o)).
Proof.
  intros Hok. assert (Hinv : iters_ok (sp (invalid p))) by exact Hok.
  destruct o; cbn [step];
    repeat (first
      [ match goal with |- context [match get ?q ?i with _ => _ end] =>
          destruct (get q i) as [[?l|?s|?l|?l|?l|?x]|] eqn:?Hg end
      | match goal with |- context [if ?c then _ else _] => destruct c end
      | match goal with |- context [match rev ?l with _ => _ end] => destruct (rev l) end
      | match goal with |- context [match nth_error ?l ?i with _ => _ end] => destruct (nth_error l i) end
      | match goal with |- iters_ok (sp (match ?l with [] => _ | _ :: _ => _ end)) => destruct l end ]);
    try exact Hinv.
  all: try match goal with
       | Hg : get ?q ?i = Some (OIter ?s) |- context [next ?s] =>
         pose proof (next_own s (Hok _ _ Hg)) as Hn; destruct (next s) as [[[[x|]| |] s'] e]; try exact Hinv;
         apply finish_iters_ok; try exact Hok; new_iters_inv; intuition (subst; eauto)
       | Hg : get ?q ?i = Some (OIter ?s) |- context [next_back ?s] =>
         pose proof (next_back_own s (Hok _ _ Hg)) as Hn; destruct (next_back s) as [[[[x|]| |] s'] e]; try exact Hinv;
         apply finish_iters_ok; try exact Hok; new_iters_inv; intuition (subst; eauto)
       | Hg : get ?q ?i = Some (OIter ?s) |- context [nth_ None ?s ?n] =>
         pose proof (nth_own s n (Hok _ _ Hg)) as Hn; destruct (nth_ None s n) as [[[[[x|]| |] s'] b] e]; try exact Hinv;
         apply finish_iters_ok; try exact Hok; new_iters_inv; tauto
       | Hg : get ?q ?i = Some (OIter ?s) |- context [nth_back_ None ?s ?n] =>
         pose proof (nth_back_own s n (Hok _ _ Hg)) as Hn; destruct (nth_back_ None s n) as [[[[[x|]| |] s'] b] e]; try exact Hinv;
         apply finish_iters_ok; try exact Hok; new_iters_inv; tauto
       end.
  all: try (apply finish_iters_ok; [exact Hok|]; new_iters_inv; fail).
  all: try (apply finish_iters_ok; [exact Hok|]; new_iters_inv; apply Inv_into_iter).
  all: try (apply finish_iters_ok; [exact Hok|]; new_iters_inv; unfold Inv; cbn [index back slots];
            rewrite app_length, fresh_length; lia).
  all: try (apply finish_iters_ok; [exact Hok|]; intros s0 Hin; apply in_map_iff in Hin;
            destruct Hin as (? & Hx & _); discriminate).
  all: try (intros j s0 H; cbn [sp] in H; now apply (Hok j)).
Qed.

(* ---------- fresh identities and well-formedness ---------- *)

Ltac destruct_step :=
  repeat (first
    [ match goal with |- context [match get ?q ?i with _ => _ end] =>
        destruct (get q i) as [[?l|?s|?l|?l|?l|?x]|] eqn:?Hg end
    | match goal with |- context [if ?c then _ else _] => destruct c end
    | match goal with |- context [match rev ?l with _ => _ end] => destruct (rev l) end
    | match goal with |- context [match nth_error ?l ?i with _ => _ end] => destruct (nth_error l i) end
    | match goal with |- context [match next ?s with _ => _ end] => destruct (next s) as [[[[?x|]| |] ?s'] ?e] end
    | match goal with |- context [match next_back ?s with _ => _ end] => destruct (next_back s) as [[[[?x|]| |] ?s'] ?e] end
    | match goal with |- context [match nth_ None ?s ?n with _ => _ end] => destruct (nth_ None s n) as [[[[[?x|]| |] ?s'] ?b] ?e] end
    | match goal with |- context [match nth_back_ None ?s ?n with _ => _ end] => destruct (nth_back_ None s n) as [[[[[?x|]| |] ?s'] ?b] ?e] end
    | match goal with |- context [match ?l with [] => _ | _ :: _ => _ end] => is_var l; destruct l end ]).

Lemma step_new p o : exists k, snew (step p o) = fresh p k /\
                               next_id (sp (step p o)) = (next_id p + Z.of_nat k)%Z.
Proof.
  destruct o; cbn [step]; destruct_step;
    try (exists 0; split; [reflexivity|cbn; lia]); try (eexists; split; reflexivity).
Qed.

Lemma step_obs p o x : In x (sobs (step p o)) -> In x (pool_ids p).
Proof.
  destruct o; cbn [step]; destruct_step; cbn [sobs finish invalid]; try contradiction.
  all: intros Hin; match goal with Hg : get ?q ?i = Some ?ob |- _ =>
         apply get_spec in Hg; pose proof (take_slot _ _ _ Hg) as Hp;
         eapply Permutation_in; [apply Permutation_sym; exact Hp|]; apply in_or_app; left; exact Hin end.
Qed.

Theorem step_WF p o : WF p -> WF (sp (step p o)).
Proof.
  intros HW. pose proof HW as (Hnd & Hb & Hok).
  pose proof (step_conserves p o Hok) as Hc. destruct (step_new p o) as (k & Hk & Hn).
  rewrite Hk in Hc. pose proof (WF_extend p k HW) as Hnd2.
  assert (Hnd3 : NoDup (pool_ids (sp (step p o)) ++ sdropped (step p o))).
  { eapply Permutation_NoDup; [apply Permutation_sym; exact Hc|exact Hnd2]. }
  split; [now apply NoDup_app_l in Hnd3|]. split; [|now apply step_iters_ok].
  intros x Hx. rewrite Hn.
  assert (Hin : In x (pool_ids p ++ fresh p k)).
  { eapply Permutation_in; [exact Hc|]. apply in_or_app. now left. }
  apply in_app_or in Hin. destruct Hin as [Hin|Hin]; [apply Hb in Hin; lia|apply fresh_bound in Hin; lia].
Qed.

(* ---------- histories ---------- *)

Theorem history_conserves ops : forall p, WF p ->
  let '(rs, p') := prun p ops in
  Permutation (all_dropped rs p') (pool_ids p ++ all_created rs) /\
  NoDup (all_created rs) /\ (forall x, In x (all_created rs) -> (next_id p <= x)%Z) /\ WF p'.
Proof.
  induction ops as [|o ops IH]; intros p HW; cbn [prun].
  - unfold all_dropped, all_created. cbn. rewrite app_nil_r. split; [reflexivity|]. split; [apply NoDup_nil|]. split; [intros x []|exact HW].
  - pose proof (step_WF p o HW) as HW1. specialize (IH _ HW1).
    destruct (prun (sp (step p o)) ops) as [rs p'] eqn:Hr. destruct IH as (Hp & Hnd & Hlo & HW').
    pose proof HW as (_ & _ & Hok). pose proof (step_conserves p o Hok) as Hc.
    destruct (step_new p o) as (k & Hk & Hn).
    unfold all_dropped, all_created in *. cbn [flat_map].
    split; [|split; [|split; [|exact HW']]].
    + rewrite <- !app_assoc. clear - Hp Hc. perm_lia.
    + rewrite Hk. apply NoDup_app_intro; [apply fresh_NoDup|exact Hnd|].
      intros x Hf Hcr. apply fresh_bound in Hf. apply Hlo in Hcr. lia.
    + intros x Hx. apply in_app_or in Hx. destruct Hx as [Hx|Hx].
      * rewrite Hk in Hx. apply fresh_bound in Hx. lia.
      * apply Hlo in Hx. lia.
Qed.

(* starting from nothing: every element ever created is dropped exactly once by the time
   everything is gone *)
Theorem exactly_once ops z :
  let '(rs, p') := prun (empty_pool z) ops in
  Permutation (all_dropped rs p') (all_created rs) /\ NoDup (all_created rs).
Proof.
  pose proof (history_conserves ops (empty_pool z) (WF_empty z)) as H.
  destruct (prun (empty_pool z) ops) as [rs p']. destruct H as (Hp & Hnd & _ & _). cbn in Hp. auto.
Qed.

Corollary dropped_once ops z x :
  let '(rs, p') := prun (empty_pool z) ops in
  In x (all_created rs) -> count_occ Z.eq_dec (all_dropped rs p') x = 1.
Proof.
  pose proof (exactly_once ops z) as H. destruct (prun (empty_pool z) ops) as [rs p'].
  destruct H as [Hp Hnd]. intros Hin.
  rewrite (proj1 (Permutation_count_occ Z.eq_dec _ _) Hp x).
  apply (proj1 (NoDup_count_occ' Z.eq_dec _) Hnd x Hin).
Qed.

(* nothing is observed after it has been dropped *)
Fixpoint obs_ok (before : list Z) (rs : list stepres) : Prop :=
  match rs with
  | [] => True
  | s :: r => (forall x, In x (sobs s) -> ~ In x before) /\ obs_ok (before ++ sdropped s) r
  end.

Theorem never_observed_after_drop ops : forall p before, WF p ->
  (forall x, In x before -> ~ In x (pool_ids p) /\ (x < next_id p)%Z) ->
  obs_ok before (fst (prun p ops)).
Proof.
  induction ops as [|o ops IH]; intros p before HW Hb; cbn [prun]; [exact I|].
  pose proof (step_WF p o HW) as HW1.
  destruct (prun (sp (step p o)) ops) as [rs p'] eqn:Hr. cbn [fst obs_ok]. split.
  - intros x Hx Hbx. apply step_obs in Hx. now apply (proj1 (Hb x Hbx)).
  - specialize (IH (sp (step p o)) (before ++ sdropped (step p o)) HW1). rewrite Hr in IH. apply IH.
    pose proof HW as (Hnd & Hbound & Hok). pose proof (step_conserves p o Hok) as Hc.
    destruct (step_new p o) as (k & Hk & Hn). rewrite Hk in Hc.
    pose proof (WF_extend p k HW) as Hnd2.
    assert (Hnd3 : NoDup (pool_ids (sp (step p o)) ++ sdropped (step p o))).
    { eapply Permutation_NoDup; [apply Permutation_sym; exact Hc|exact Hnd2]. }
    intros x Hx. apply in_app_or in Hx. destruct Hx as [Hx|Hx].
    + destruct (Hb x Hx) as [Hnot Hlt]. split; [|lia].
      intro Hin. assert (Hin2 : In x (pool_ids p ++ fresh p k)).
      { eapply Permutation_in; [exact Hc|]. apply in_or_app. now left. }
      apply in_app_or in Hin2. destruct Hin2 as [H2|H2]; [now apply Hnot|apply fresh_bound in H2; lia].
    + split.
      * intro Hin. clear - Hnd3 Hin Hx. induction (pool_ids (sp (step p o))) as [|y l IHl]; [contradiction|].
        cbn in Hnd3. inversion Hnd3 as [|? ? Hny Hndl]; subst. destruct Hin as [->|Hin].
        -- apply Hny. apply in_or_app. now right.
        -- now apply IHl.
      * assert (Hin2 : In x (pool_ids p ++ fresh p k)).
        { eapply Permutation_in; [exact Hc|]. apply in_or_app. now right. }
        apply in_app_or in Hin2. destruct Hin2 as [H2|H2]; [apply Hbound in H2; lia|apply fresh_bound in H2; lia].
Qed.

(* non-vacuity: a chained history *)
Example pool_example :
  let '(rs, p') := prun (empty_pool 0)
     [PGenerate 3; PIntoIter 0; PNth 1 1%Z; PCloneIter 2; PDrop 3; PGenerate 2; PToVec 5; PVecToBox 6] in
  all_created rs = [0; 1; 2; 3; 4; 5]%Z /\ flat_map sdropped rs = [0; 1]%Z /\ pool_ids p' = [2; 3; 4; 5]%Z.
Proof. vm_compute. auto. Qed.

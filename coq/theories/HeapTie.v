(* HeapTie.v -- tier T3 tie for the heap conversions of src/impl_alloc.rs: the bodies
   tools/ga2coq regenerates (coq/gen/GenHeap.v), run by the interpreter of HeapProg.v over the
   allocator model, ARE the hub functions of HeapOps.v that C15 / C16 prove theorems about --
   same result, same allocator calls, same element events, from every allocator state. *)
From Coq Require Import String Lia.
From GA Require Import Base Builder Alloc HeapOps HeapProg.
From GAGen Require Import GenHeap.
Local Open Scope string_scope.

Section Tie.
  Variable fails : nat -> bool.
  Variable T : elt.
  Variable N : nat.

  Notation call := (HeapProg.call fails T N gen_heap_table).

  Definition opt_box (r : option hbox) : hv := match r with Some b => VOkV (VBoxA b) | None => VErrV end.
  Definition opt_arr (r : option (list Z)) : hv := match r with Some l => VOkV (VArrV l) | None => VErrV end.

  Ltac run := unfold HeapProg.call; cbn; unfold bind, ret; cbn.
  Local Arguments std_free : simpl never.
  Local Arguments std_alloc : simpl never.
  Local Arguments std_realloc : simpl never.
  Local Arguments vec_into_boxed_slice : simpl never.
  (* case-split on each primitive allocator computation / length test as it appears on both sides *)
  Ltac msplit :=
    repeat (cbn; unfold bind, ret, stop, blen, vlen, box_drop, vec_drop, arr_drop, emitE; cbn;
            match goal with
            | |- context [vec_into_boxed_slice ?f ?t ?v ?st] => destruct (vec_into_boxed_slice f t v st) as [[] ?]
            | |- context [std_alloc ?f ?a ?b ?st] => destruct (std_alloc f a b st) as [[] ?]
            | |- context [std_free ?a ?b ?c ?st] => destruct (std_free a b c st) as [[] ?]
            | |- context [if negb ?c then _ else _] => destruct c eqn:?
            | |- context [if ?c then _ else _] => destruct c eqn:?
            end);
    cbn; try reflexivity; try discriminate; try congruence.

  (* Box<GenericArray<T, N>> holds N elements: the hypothesis is the type invariant *)
  Lemma tie_into_boxed_slice b st : zlen (bel b) = Z.of_nat N ->
    call "into_boxed_slice" (VBoxA b) st = (s <- into_boxed_slice b ;; ret (VBoxS s)) st.
  Proof. intros Hlen. run. rewrite Hlen, Z.eqb_refl. reflexivity. Qed.

  Lemma tie_into_vec b st : zlen (bel b) = Z.of_nat N ->
    call "into_vec" (VBoxA b) st = (v <- into_vec b ;; ret (VVecV v)) st.
  Proof. intros Hlen. run. rewrite Hlen, Z.eqb_refl. reflexivity. Qed.

  Lemma tie_try_from_boxed_slice s st :
    call "try_from_boxed_slice" (VBoxS s) st =
    (r <- try_from_boxed_slice T N s ;; ret (opt_box r)) st.
  Proof.
    run. unfold try_from_boxed_slice, blen.
    destruct (zlen (bel s) =? Z.of_nat N)%Z eqn:E; cbn.
    - unfold ret. reflexivity.
    - unfold box_drop. msplit.
  Qed.

  Lemma tie_try_from_vec v st :
    call "try_from_vec" (VVecV v) st = (r <- try_from_vec fails T N v ;; ret (opt_box r)) st.
  Proof. run. unfold try_from_vec, try_from_boxed_slice. msplit. Qed.

  (* impl TryFrom<Vec<T>> for GenericArray<T, N> *)
  Lemma tie_vec_to_array v st :
    call "TryFrom<Vec<T>>" (VVecV v) st = (r <- vec_to_array T N v ;; ret (opt_arr r)) st.
  Proof. run. unfold vec_to_array. msplit. Qed.

  (* impl TryFrom<Box<[T]>> for GenericArray<T, N> *)
  Lemma tie_boxed_slice_to_array s st :
    call "TryFrom<Box<[T]>>" (VBoxS s) st = (r <- boxed_slice_to_array T N s ;; ret (opt_arr r)) st.
  Proof. run. unfold boxed_slice_to_array, vec_to_array, vec_from_box. msplit. Qed.

  (* impl From<GenericArray<T, N>> for Box<[T]> / Vec<T>: the array by value has N elements *)
  Lemma tie_array_to_boxed_slice a st : zlen a = Z.of_nat N ->
    call "From<GenericArray> for Box<[T]>" (VArrV a) st = (s <- array_to_boxed_slice fails T a ;; ret (VBoxS s)) st.
  Proof.
    intros Hlen. run. unfold array_to_boxed_slice, into_boxed_slice, box_new. msplit. all: rewrite Hlen, Z.eqb_refl in *; discriminate.
  Qed.

  Lemma tie_array_to_vec a st : zlen a = Z.of_nat N ->
    call "From<GenericArray> for Vec<T>" (VArrV a) st = (v <- array_to_vec fails T a ;; ret (VVecV v)) st.
  Proof.
    intros Hlen. run. unfold array_to_vec, array_to_boxed_slice, into_boxed_slice, box_new. msplit. all: rewrite Hlen, Z.eqb_refl in *; discriminate.
  Qed.
End Tie.

(* GuardTieChunks.v -- tier T2 tie (part of the former GuardTie.v, split so that a change of one function only reaches the
   properties whose theorems are stated over that function's regenerated guards): chunk arithmetic (C10, C18) *)
From Coq Require Import String.
From GA Require Import Base Guards.
From GA Require Views Chunks SeqOps Builder Hex HeapOps ConstEval Serde.
From GAGen Require Import GenGuards GenConstFns.
Local Open Scope Z_scope.

Lemma of_nat_eqb a b : (Z.of_nat a =? Z.of_nat b) = Nat.eqb a b.
Proof.
  destruct (Nat.eqb_spec a b) as [->|H]; [apply Z.eqb_refl|]. apply Z.eqb_neq. lia.
Qed.

(* ---------------- C10 / C18: chunk arithmetic (src/lib.rs) ---------------- *)

Definition chunk_env (lets : list (string * gexpr)) (L N : Z) : genv :=
  glets (env1 "slice.len" L) N lets.

Lemma tie_chunks_arith L N :
  let en := chunk_env chunks_from_slice_lets L N in
  geval en N chunks_from_slice_count = L / N /\
  geval en N chunks_from_slice_rem_offset = L / N * N /\
  geval en N chunks_from_slice_rem_len = L - L / N * N /\
  ctest (env1 "slice.len" L) N chunks_from_slice_zero_cond = (N =? 0) /\
  rejects chunks_from_slice_zero_guard (env1 "slice.len" L) N = negb (L =? 0) /\
  fails_by_panic chunks_from_slice_zero_guard = true.
Proof. cbn. repeat split. Qed.

Lemma tie_chunks_mut_arith L N :
  let en := chunk_env chunks_from_slice_mut_lets L N in
  geval en N chunks_from_slice_mut_count = L / N /\
  geval en N chunks_from_slice_mut_rem_offset = L / N * N /\
  geval en N chunks_from_slice_mut_rem_len = L - L / N * N /\
  ctest (env1 "slice.len" L) N chunks_from_slice_mut_zero_cond = (N =? 0) /\
  rejects chunks_from_slice_mut_zero_guard (env1 "slice.len" L) N = negb (L =? 0) /\
  fails_by_panic chunks_from_slice_mut_zero_guard = true.
Proof. cbn. repeat split. Qed.

(* the hub function of Chunks.v computes its result from exactly these expressions *)
Lemma tie_chunks_model N (s : Chunks.sl) : 0 < N -> 0 <= Chunks.slen s < Chunks.U64 ->
  let L := Chunks.slen s in
  let en := chunk_env chunks_from_slice_lets L N in
  Chunks.chunks_from_slice N s =
  Ret (Chunks.mkC (Chunks.sptr s) (geval en N chunks_from_slice_count),
       Chunks.mkS (Chunks.padd (Chunks.sptr s) (geval en N chunks_from_slice_rem_offset))
                  (geval en N chunks_from_slice_rem_len)).
Proof.
  intros HN HL. cbn zeta. destruct (tie_chunks_arith (Chunks.slen s) N) as (-> & -> & -> & _).
  unfold Chunks.chunks_from_slice. replace (N =? 0) with false by (symmetry; apply Z.eqb_neq; lia).
  assert (H1 : Chunks.slen s / N * N <= Chunks.slen s) by (rewrite Z.mul_comm; apply Z.mul_div_le; lia).
  replace (Chunks.U64 <=? Chunks.slen s / N * N) with false by (symmetry; apply Z.leb_gt; lia).
  replace (Chunks.slen s <? Chunks.slen s / N * N) with false by (symmetry; apply Z.ltb_ge; lia).
  reflexivity.
Qed.

Lemma tie_chunks_model_zero (s : Chunks.sl) :
  Chunks.chunks_from_slice 0 s =
  (if rejects chunks_from_slice_zero_guard (env1 "slice.len" (Chunks.slen s)) 0 then Panicked
   else Ret (Chunks.mkC Chunks.Dangling 0, Chunks.mkS Chunks.Dangling 0)).
Proof.
  unfold Chunks.chunks_from_slice. cbn [Z.eqb]. destruct (tie_chunks_arith (Chunks.slen s) 0) as (_ & _ & _ & _ & -> & _).
  now destruct (Chunks.slen s =? 0).
Qed.

Lemma tie_slice_from_chunks C N :
  geval (env1 "slice.len" C) N slice_from_chunks_len = C * N /\
  geval (env1 "slice.len" C) N slice_from_chunks_mut_len = C * N.
Proof. split; reflexivity. Qed.


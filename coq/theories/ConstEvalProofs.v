(* ConstEvalProofs.v -- proofs for C18 over the hub model ConstEval.v. *)
From GA Require Import Base ConstEval.
From Coq Require Import String.
Local Open Scope Z_scope.

(* ------------------------------------------------------------------ the two interpretations *)

(* the run-time result agrees with the const-evaluator result whenever the evaluator
   does not reject *)
Definition agrees {A} (s l : res A) : Prop := s <> UB -> l = s.

Lemma agrees_refl {A} (r : res A) : agrees r r.
Proof. intros _. reflexivity. Qed.

Lemma agrees_guard {A} ok (ks kl : res A) :
  agrees ks kl -> agrees (guard true ok ks) (guard false ok kl).
Proof. unfold agrees, guard. destruct ok; intros H Hn; [auto|congruence]. Qed.

Lemma agrees_bind {A B} (rs rl : res A) (ks kl : A -> res B) :
  agrees rs rl -> (forall a, agrees (ks a) (kl a)) -> agrees (bind rs ks) (bind rl kl).
Proof.
  unfold agrees. intros Hr Hk Hn. destruct rs as [a| |]; cbn in *.
  - rewrite Hr by discriminate. cbn. apply Hk, Hn.
  - rewrite Hr by discriminate. reflexivity.
  - congruence.
Qed.

Lemma agrees_rmap {A B} (f : A -> B) (rs rl : res A) :
  agrees rs rl -> agrees (rmap f rs) (rmap f rl).
Proof. intros H. unfold rmap. apply agrees_bind; [exact H|]. intros a. apply agrees_refl. Qed.

Lemma agrees_from_raw_parts e m p n s :
  agrees (from_raw_parts true e m p n s) (from_raw_parts false e m p n s).
Proof. unfold from_raw_parts. apply agrees_guard, agrees_refl. Qed.

Lemma agrees_p_add e m p k : agrees (p_add true e m p k) (p_add false e m p k).
Proof. unfold p_add. apply agrees_guard, agrees_refl. Qed.

Lemma agrees_const_transmute e b nb a :
  agrees (const_transmute true e b nb a) (const_transmute false e b nb a).
Proof.
  unfold const_transmute. destruct (negb _); [apply agrees_refl|]. apply agrees_guard, agrees_refl.
Qed.

Lemma agrees_mu e b a : agrees (mu_assume_init true e b a) (mu_assume_init false e b a).
Proof. unfold mu_assume_init. apply agrees_guard, agrees_refl. Qed.

Lemma agrees_from_slice e m N s : agrees (from_slice true e m N s) (from_slice false e m N s).
Proof. unfold from_slice. destruct (negb _); [apply agrees_refl|apply agrees_from_raw_parts]. Qed.

Lemma agrees_from_mut_slice e m N s :
  agrees (from_mut_slice true e m N s) (from_mut_slice false e m N s).
Proof. unfold from_mut_slice. destruct (_ =? _); [apply agrees_from_raw_parts|apply agrees_refl]. Qed.

Lemma agrees_chunks e m N s :
  agrees (chunks_from_slice true e m N s) (chunks_from_slice false e m N s).
Proof.
  unfold chunks_from_slice. destruct (N =? 0); [apply agrees_refl|].
  apply agrees_bind; [apply agrees_refl|intros nic].
  apply agrees_bind; [apply agrees_refl|intros nr].
  apply agrees_bind; [apply agrees_from_raw_parts|intros c].
  apply agrees_bind; [apply agrees_p_add|intros q].
  apply agrees_bind; [apply agrees_from_raw_parts|intros r]. apply agrees_refl.
Qed.

Lemma agrees_assume_init e b N a :
  agrees (assume_init true e b N a) (assume_init false e b N a).
Proof.
  unfold assume_init. apply agrees_bind; [apply agrees_const_transmute|intros x; apply agrees_mu].
Qed.

(* every const fn: where the evaluator accepts, run time computes the same value *)
Ltac ag :=
  repeat first
    [ apply agrees_refl
    | apply agrees_rmap
    | apply agrees_from_raw_parts | apply agrees_p_add | apply agrees_const_transmute
    | apply agrees_mu | apply agrees_from_slice | apply agrees_from_mut_slice
    | apply agrees_chunks | apply agrees_assume_init
    | apply agrees_guard
    | apply agrees_bind; [|intros ?]
    | match goal with |- agrees (if ?c then _ else _) _ => destruct c end ].

Lemma call_agrees e f a : agrees (call true e f a) (call false e f a).
Proof.
  destruct f; cbn [call];
    unfold as_mut_slice, as_slice, try_from_slice, try_from_mut_slice, chunks_from_slice_mut,
      slice_from_chunks_mut, slice_from_chunks, from_array, into_array, from_chunks_mut,
      into_chunks, into_chunks_mut, from_chunks, uninit, builder_new, builder_assume_init,
      ibuilder_new, ibuilder_finish, consumer_new, const_default, ga_len; ag.
Qed.

(* reading through a reference: same values in both interpretations when the evaluator accepts *)
Lemma agrees_rd j e b m p : agrees (rd true j e b m p) (rd false j e b m p).
Proof.
  unfold rd. destruct (e =? 0); [apply agrees_refl|].
  destruct (pbase p) as [bk|]; [|apply agrees_guard, agrees_refl].
  destruct (nth_error m bk) as [bl|]; [|apply agrees_guard, agrees_refl].
  destruct (poff p <? 0); [apply agrees_guard, agrees_refl|].
  destruct (nth_error bl _) as [[|v]|]; try apply agrees_refl; apply agrees_guard, agrees_refl.
Qed.

Lemma agrees_rd_range j e m n : forall p,
  agrees (rd_range true j e m p n) (rd_range false j e m p n).
Proof.
  induction n as [|n IH]; intros p; cbn [rd_range]; [apply agrees_refl|].
  apply agrees_bind; [apply agrees_rd|intros v].
  apply agrees_bind; [apply IH|intros r; apply agrees_refl].
Qed.

Lemma agrees_wr e m p v : agrees (wr true e m p v) (wr false e m p v).
Proof.
  unfold wr. destruct (e =? 0); [apply agrees_refl|].
  destruct (pbase p) as [bk|]; [|apply agrees_guard, agrees_refl].
  destruct (nth_error m bk) as [bl|]; [|apply agrees_guard, agrees_refl].
  destruct (_ && _); [apply agrees_refl|apply agrees_guard, agrees_refl].
Qed.

Lemma agrees_wr_range e vs : forall m p,
  agrees (wr_range true e m p vs) (wr_range false e m p vs).
Proof.
  induction vs as [|v vs IH]; intros m p; cbn [wr_range]; [apply agrees_refl|].
  apply agrees_bind; [apply agrees_wr|intros m'; apply IH].
Qed.

(* ------------------------------------------------------------------ the evaluator accepts *)

Lemma zlen_nonneg {A} (l : list A) : 0 <= zlen l.
Proof. unfold zlen. lia. Qed.

Lemma valid_ref_inb e m p n : valid_ref e m p n -> inb e m p n = true.
Proof.
  intros (Hn & He & [Hz | (b & bl & Hb & Hm & Ho & Hl)]); unfold inb.
  - apply Z.eqb_eq in Hz. rewrite Hz. reflexivity.
  - rewrite Hb, Hm. apply orb_true_iff. right.
    rewrite !andb_true_iff. repeat split; apply Z.leb_le; lia.
Qed.

Lemma from_raw_parts_ok st e m p n s :
  valid_ref e m p (n * s) -> from_raw_parts st e m p n s = Ret (mkSlice p n s).
Proof.
  intros H. unfold from_raw_parts, guard. rewrite (valid_ref_inb _ _ _ _ H). now destruct st.
Qed.

(* a sub-range of a valid reference is a valid reference *)
Lemma valid_ref_sub e m p n k n' :
  valid_ref e m p n -> 0 <= k -> 0 <= n' -> k + n' <= n ->
  valid_ref e m (mkPtr (pbase p) (poff p + k)) n'.
Proof.
  intros (Hn & He & H) Hk Hn' Hle. split; [lia|]. split; [lia|].
  destruct H as [Hz | (b & bl & Hb & Hm & Ho & Hl)].
  - left. apply Z.mul_eq_0 in Hz. destruct Hz as [Hz|Hz]; [|subst e; lia].
    assert (n' = 0) by lia. subst n'. reflexivity.
  - right. exists b, bl. cbn. repeat split; auto; lia.
Qed.

Lemma valid_ref_same e m p n n' : valid_ref e m p n -> 0 <= n' -> n' <= n -> valid_ref e m p n'.
Proof.
  intros H H1 H2. pose proof (valid_ref_sub e m p n 0 n' H ltac:(lia) H1 ltac:(lia)) as Hs.
  rewrite Z.add_0_r in Hs. destruct p; exact Hs.
Qed.

Lemma p_add_ok st e m p n k :
  valid_ref e m p n -> 0 <= k <= n ->
  p_add st e m p k = Ret (mkPtr (pbase p) (poff p + k)).
Proof.
  intros (Hn & He & H) Hk. unfold p_add, guard. destruct st; [|reflexivity].
  destruct H as [Hz | (b & bl & Hb & Hm & Ho & Hl)].
  - assert (Hk0 : k * e = 0).
    { apply Z.mul_eq_0 in Hz. destruct Hz as [Hz|Hz]; [|subst e; lia]. assert (k = 0) by lia. subst k. lia. }
    apply Z.eqb_eq in Hk0. rewrite Hk0. reflexivity.
  - rewrite Hb, Hm.
    replace ((0 <=? poff p) && (poff p <=? zlen bl) && (0 <=? poff p + k) && (poff p + k <=? zlen bl))
      with true; [now rewrite orb_true_r|].
    symmetry. rewrite !andb_true_iff. repeat split; apply Z.leb_le; lia.
Qed.

(* --- views of one array --- *)
Lemma as_slice_ok st e m N self :
  valid_ref e m self N -> as_slice st e m N self = Ret (mkSlice self N 1).
Proof. intros H. unfold as_slice. apply from_raw_parts_ok. now rewrite Z.mul_1_r. Qed.

(* --- slice -> array reference: exact length, else the documented panic / Err --- *)
Lemma from_slice_ok st e m N s :
  valid_slice e m s -> sstride s = 1 ->
  from_slice st e m N s = (if slen s =? N then Ret (mkSlice (sp s) 1 N) else Panicked) /\
  from_mut_slice st e m N s = (if slen s =? N then Ret (mkSlice (sp s) 1 N) else Panicked).
Proof.
  intros (H0 & H1 & H2 & Hr) Hs. unfold from_slice, from_mut_slice. rewrite Hs, Z.mul_1_r in Hr.
  destruct (slen s =? N) eqn:E; cbn [negb]; [|auto].
  apply Z.eqb_eq in E. rewrite from_raw_parts_ok; [auto|]. rewrite Z.mul_1_l, <- E. exact Hr.
Qed.

Lemma try_from_slice_ok st e m N s :
  valid_slice e m s -> sstride s = 1 ->
  try_from_slice st e m N s = Ret (if slen s =? N then Some (mkSlice (sp s) 1 N) else None) /\
  try_from_mut_slice st e m N s = Ret (if slen s =? N then Some (mkSlice (sp s) 1 N) else None).
Proof.
  intros Hv Hs. destruct (from_slice_ok st e m N s Hv Hs) as [_ Hm].
  destruct Hv as (H0 & H1 & H2 & Hr). unfold try_from_slice, try_from_mut_slice.
  rewrite Hs, Z.mul_1_r in Hr. rewrite Hm.
  destruct (slen s =? N) eqn:E; cbn [negb bind]; [|auto].
  apply Z.eqb_eq in E. rewrite from_raw_parts_ok; [auto|]. rewrite Z.mul_1_l, <- E. exact Hr.
Qed.

(* --- chunks: the code's arithmetic partitions the slice exactly, nothing out of bounds --- *)
Lemma chunks_ok st e m N s :
  0 < N -> valid_slice e m s -> sstride s = 1 ->
  chunks_from_slice st e m N s =
    Ret (mkSlice (sp s) (slen s / N) N,
         mkSlice (mkPtr (pbase (sp s)) (poff (sp s) + slen s / N * N)) (slen s mod N) 1).
Proof.
  intros HN (H0 & H1 & H2 & Hr) Hs. rewrite Hs, Z.mul_1_r in Hr, H2.
  unfold chunks_from_slice. replace (N =? 0) with false by (symmetry; apply Z.eqb_neq; lia).
  pose proof (Z.div_mod (slen s) N ltac:(lia)) as Hdm.
  pose proof (Z.mod_pos_bound (slen s) N HN) as Hmod.
  pose proof (Z.div_pos (slen s) N H0 HN) as Hq.
  assert (Hle : slen s / N * N <= slen s) by lia.
  unfold umul. replace (two64 <=? slen s / N * N) with false by (symmetry; apply Z.leb_gt; lia).
  cbn [bind]. unfold usub.
  replace (slen s <? slen s / N * N) with false by (symmetry; apply Z.ltb_ge; lia).
  cbn [bind]. rewrite from_raw_parts_ok by (apply (valid_ref_same _ _ _ _ _ Hr); lia).
  cbn [bind]. rewrite (p_add_ok st e m (sp s) (slen s) _ Hr) by lia.
  cbn [bind]. replace (slen s - slen s / N * N) with (slen s mod N) by lia.
  rewrite from_raw_parts_ok; [reflexivity|].
  rewrite Z.mul_1_r. apply (valid_ref_sub _ _ _ _ _ _ Hr); lia.
Qed.

Lemma chunks_zero st e m s :
  chunks_from_slice st e m 0 s =
    if slen s =? 0 then Ret (empty_lit 0, empty_lit 1) else Panicked.
Proof. reflexivity. Qed.

Lemma slice_from_chunks_ok st e m N s :
  valid_slice e m s -> sstride s = N ->
  slice_from_chunks st e m N s = Ret (mkSlice (sp s) (slen s * N) 1).
Proof.
  intros (H0 & H1 & H2 & Hr) Hs. rewrite Hs in *. unfold slice_from_chunks, umul.
  replace (two64 <=? slen s * N) with false by (symmetry; apply Z.leb_gt; lia).
  cbn [bind]. apply from_raw_parts_ok. now rewrite Z.mul_1_r.
Qed.

Lemma from_chunks_ok st e m N s :
  valid_slice e m s -> sstride s = N ->
  from_chunks st e m N s = Ret (mkSlice (sp s) (slen s) N).
Proof.
  intros (H0 & H1 & H2 & Hr) Hs. rewrite Hs in *. unfold from_chunks, guard.
  rewrite (valid_ref_inb _ _ _ _ Hr). now destruct st.
Qed.

(* --- by-value conversions --- *)
Lemma all_init_repeat v n : all_init (repeat (Init v) n) = true.
Proof. induction n; cbn; auto. Qed.

Lemma const_transmute_ok st e needs N a :
  0 <= e -> valid_val needs N a ->
  const_transmute st e needs N a =
    Ret (if e =? 0 then repeat (Init 0) (Z.to_nat N) else a).
Proof.
  intros He (Hl & Hi). unfold const_transmute. rewrite Hl, Z.eqb_refl. cbn [negb].
  unfold guard. destruct st; [|reflexivity].
  destruct needs; cbn [negb orb]; [|reflexivity].
  destruct (e =? 0); [now rewrite all_init_repeat|]. now rewrite Hi.
Qed.

(* size mismatch: the documented panic, never a wrong read *)
Lemma const_transmute_mismatch st e needs M a :
  zlen a * e <> M * e -> const_transmute st e needs M a = Panicked.
Proof.
  intros H. unfold const_transmute. apply Z.eqb_neq in H. now rewrite H.
Qed.

(* zero-sized T: sizes are equal whatever the two lengths are; the result has M elements *)
Lemma const_transmute_zst st needs M a :
  const_transmute st 0 needs M a = Ret (repeat (Init 0) (Z.to_nat M)).
Proof.
  unfold const_transmute. rewrite !Z.mul_0_r. cbn [Z.eqb negb]. unfold guard.
  destruct st; [|reflexivity]. now rewrite all_init_repeat, orb_true_r.
Qed.

Lemma uninit_ok st e N : uninit st e N = Ret (repeat Uninit (Z.to_nat N)).
Proof. unfold uninit, mu_assume_init, guard. now destruct st. Qed.

Lemma repeat_length_Z {A} (x : A) n : 0 <= n -> zlen (repeat x (Z.to_nat n)) = n.
Proof. intros H. unfold zlen. rewrite repeat_length. lia. Qed.

Lemma assume_init_ok st e needs N a :
  0 <= e -> 0 <= N -> valid_val needs N a ->
  assume_init st e needs N a = Ret (if e =? 0 then repeat (Init 0) (Z.to_nat N) else a).
Proof.
  intros He HN Hv. unfold assume_init.
  rewrite (const_transmute_ok st e false N a He); [|destruct Hv; split; [auto|discriminate]].
  cbn [bind]. unfold mu_assume_init, guard. destruct st; [|reflexivity].
  destruct needs; cbn [negb orb]; [|reflexivity].
  destruct (e =? 0); cbn [orb]; [reflexivity|]. destruct Hv as [_ Hi]. now rewrite Hi.
Qed.

(* --- const_default reaches exactly N leaves, each the default --- *)
Lemma cd_pos_repeat d p : cd_pos d p = repeat (Init d) (Pos.to_nat p).
Proof.
  induction p as [q IH|q IH|]; cbn [cd_pos].
  - rewrite IH, Pos2Nat.inj_xI.
    replace (S (2 * Pos.to_nat q)) with (Pos.to_nat q + (Pos.to_nat q + 1))%nat by lia.
    now rewrite !repeat_app.
  - rewrite IH, Pos2Nat.inj_xO.
    replace (2 * Pos.to_nat q)%nat with (Pos.to_nat q + Pos.to_nat q)%nat by lia.
    now rewrite repeat_app.
  - reflexivity.
Qed.

Lemma const_default_ok d N : 0 <= N -> const_default d N = Ret (repeat (Init d) (Z.to_nat N)).
Proof.
  intros H. unfold const_default. destruct N as [|p|p]; [reflexivity| |lia].
  now rewrite cd_pos_repeat, Z2Nat.inj_pos.
Qed.

(* --- arr! : the three arms build the array their syntax denotes --- *)
Lemma all_init_map_Init xs : all_init (map Init xs) = true.
Proof. induction xs; cbn; auto. Qed.

Lemma zlen_map {A B} (f : A -> B) l : zlen (map f l) = zlen l.
Proof. unfold zlen. now rewrite map_length. Qed.

Lemma arr_list_ok st e xs : 0 <= e ->
  arr_list st e xs = Ret (if e =? 0 then repeat (Init 0) (List.length xs) else map Init xs).
Proof.
  intros He. unfold arr_list, from_array. rewrite const_transmute_ok; auto.
  - unfold zlen. now rewrite Nat2Z.id.
  - split; [apply zlen_map|intros _; apply all_init_map_Init].
Qed.

Lemma arr_repeat_ok st e x N : 0 <= e -> 0 <= N ->
  arr_repeat_ty st e x N = Ret (repeat (Init (if e =? 0 then 0 else x)) (Z.to_nat N)) /\
  arr_repeat_expr st e x N = Ret (repeat (Init (if e =? 0 then 0 else x)) (Z.to_nat N)).
Proof.
  intros He HN. unfold arr_repeat_ty, arr_repeat_expr, from_array.
  rewrite const_transmute_ok; auto.
  - now destruct (e =? 0).
  - split; [now apply repeat_length_Z|intros _; apply all_init_repeat].
Qed.

(* --- the const builder constructors --- *)
Lemma builders_ok st e N : 0 <= N ->
  builder_new st e N = Ret (mkBuilder (repeat Uninit (Z.to_nat N)) 0) /\
  (forall b, builder_new st e N = Ret b -> builder_is_full N b = (N =? 0)) /\
  (forall p, ibuilder_new p = Ret (mkIBuilder p 0)) /\
  (forall p, ibuilder_is_full N (mkIBuilder p 0) = (N =? 0)) /\
  (forall a, consumer_new a = Ret (mkBuilder a 0)).
Proof.
  intros HN. unfold builder_new. rewrite uninit_ok. cbn [bind].
  split; [reflexivity|]. split.
  { intros b Hb. injection Hb as <-. unfold builder_is_full. cbn. now rewrite Z.eqb_sym. }
  split; [reflexivity|]. split; [|reflexivity].
  intros p. unfold ibuilder_is_full. cbn. now rewrite Z.eqb_sym.
Qed.

(* ------------------------------------------------------------------ the main theorems *)

(* the const functions whose contract includes a panic for some lengths *)
Definition documented_panic (f : cfn) (a : cargs) : Prop :=
  match f with
  | FFromSlice | FFromMutSlice => slen (aref a) <> aN a
  | FChunksFromSlice | FChunksFromSliceMut => aN a = 0 /\ slen (aref a) <> 0
  | _ => False
  end.

(* For ALL N, ALL slice lengths and ALL valid input objects: the const evaluator's
   interpretation returns a value -- never UB; a panic exactly in the documented cases. *)
Theorem strict_returns_value : forall e f a,
  valid_args e f a ->
  (documented_panic f a -> call true e f a = Panicked) /\
  (~ documented_panic f a -> exists v, call true e f a = Ret v).
Proof.
  intros e f a (HN0 & HN1 & He & Hv).
  destruct f; cbn [call documented_panic valid_args] in *;
    unfold as_mut_slice, chunks_from_slice_mut, slice_from_chunks_mut, from_array, into_array,
      from_chunks_mut, into_chunks, into_chunks_mut, rmap;
    (split; [intros Hp; try contradiction|intros Hp]).
  - eexists; reflexivity.
  - rewrite as_slice_ok by exact Hv. eexists; reflexivity.
  - rewrite as_slice_ok by exact Hv. eexists; reflexivity.
  - destruct Hv as [Hv Hs]. destruct (from_slice_ok true e _ (aN a) _ Hv Hs) as [-> _].
    apply Z.eqb_neq in Hp. now rewrite Hp.
  - destruct Hv as [Hv Hs]. destruct (from_slice_ok true e _ (aN a) _ Hv Hs) as [-> _].
    destruct (slen (aref a) =? aN a) eqn:E; [eexists; reflexivity|].
    apply Z.eqb_neq in E. exfalso. apply Hp. exact E.
  - destruct Hv as [Hv Hs]. destruct (try_from_slice_ok true e _ (aN a) _ Hv Hs) as [-> _].
    eexists; reflexivity.
  - destruct Hv as [Hv Hs]. destruct (from_slice_ok true e _ (aN a) _ Hv Hs) as [_ ->].
    apply Z.eqb_neq in Hp. now rewrite Hp.
  - destruct Hv as [Hv Hs]. destruct (from_slice_ok true e _ (aN a) _ Hv Hs) as [_ ->].
    destruct (slen (aref a) =? aN a) eqn:E; [eexists; reflexivity|].
    apply Z.eqb_neq in E. exfalso. apply Hp. exact E.
  - destruct Hv as [Hv Hs]. destruct (try_from_slice_ok true e _ (aN a) _ Hv Hs) as [_ ->].
    eexists; reflexivity.
  - destruct Hp as [Hz Hl]. rewrite Hz, chunks_zero. apply Z.eqb_neq in Hl. now rewrite Hl.
  - destruct Hv as [Hv Hs]. destruct (Z.eq_dec (aN a) 0) as [Hz|Hz].
    + rewrite Hz, chunks_zero. destruct (slen (aref a) =? 0) eqn:E; [eexists; reflexivity|].
      apply Z.eqb_neq in E. exfalso. apply Hp. auto.
    + rewrite chunks_ok by (auto; lia). eexists; reflexivity.
  - destruct Hp as [Hz Hl]. rewrite Hz, chunks_zero. apply Z.eqb_neq in Hl. now rewrite Hl.
  - destruct Hv as [Hv Hs]. destruct (Z.eq_dec (aN a) 0) as [Hz|Hz].
    + rewrite Hz, chunks_zero. destruct (slen (aref a) =? 0) eqn:E; [eexists; reflexivity|].
      apply Z.eqb_neq in E. exfalso. apply Hp. auto.
    + rewrite chunks_ok by (auto; lia). eexists; reflexivity.
  - destruct Hv as [Hv Hs]. rewrite slice_from_chunks_ok by auto. eexists; reflexivity.
  - destruct Hv as [Hv Hs]. rewrite slice_from_chunks_ok by auto. eexists; reflexivity.
  - rewrite const_transmute_ok by auto. eexists; reflexivity.
  - destruct Hv as [Hv HM]. rewrite HM, const_transmute_ok by auto. eexists; reflexivity.
  - destruct Hv as [Hv Hs]. rewrite from_chunks_ok by auto. eexists; reflexivity.
  - destruct Hv as [Hv Hs]. rewrite from_chunks_ok by auto. eexists; reflexivity.
  - destruct Hv as [Hv Hs]. rewrite from_chunks_ok by auto. eexists; reflexivity.
  - destruct Hv as [Hv Hs]. rewrite from_chunks_ok by auto. eexists; reflexivity.
  - rewrite uninit_ok. eexists; reflexivity.
  - rewrite assume_init_ok by auto. eexists; reflexivity.
  - destruct Hv as (Hv & HM0 & HM). destruct (Z.eq_dec e 0) as [E|E].
    + subst e. rewrite const_transmute_zst. eexists; reflexivity.
    + rewrite (HM E), const_transmute_ok by auto. eexists; reflexivity.
  - rewrite const_transmute_ok by auto. eexists; reflexivity.
  - rewrite const_transmute_ok by auto. eexists; reflexivity.
  - rewrite const_transmute_ok by auto. eexists; reflexivity.
  - rewrite const_default_ok by auto. eexists; reflexivity.
  - unfold builder_new. rewrite uninit_ok. eexists; reflexivity.
  - eexists; reflexivity.
  - destruct Hv as [Hv Hpos]. unfold builder_assume_init, builder_is_full. cbn [b_position b_array].
    rewrite Hpos, Z.eqb_refl. cbn [negb]. rewrite andb_false_r.
    rewrite assume_init_ok by auto. eexists; reflexivity.
  - eexists; reflexivity.
  - eexists; reflexivity.
  - unfold ibuilder_finish, ibuilder_is_full. cbn [ib_position]. rewrite Hv, Z.eqb_refl.
    cbn [negb]. rewrite andb_false_r. eexists; reflexivity.
  - eexists; reflexivity.
Qed.

Lemma strict_no_ub e f a : valid_args e f a -> call true e f a <> UB.
Proof.
  intros Hv. destruct (strict_returns_value e f a Hv) as [Hp Hr].
  destruct (call true e f a) eqn:E; try discriminate.
  exfalso.
  assert (Hd : documented_panic f a \/ ~ documented_panic f a).
  { destruct f; cbn [documented_panic]; try (right; tauto).
    - destruct (Z.eq_dec (slen (aref a)) (aN a)); [right|left]; tauto.
    - destruct (Z.eq_dec (slen (aref a)) (aN a)); [right|left]; tauto.
    - destruct (Z.eq_dec (aN a) 0), (Z.eq_dec (slen (aref a)) 0); tauto.
    - destruct (Z.eq_dec (aN a) 0), (Z.eq_dec (slen (aref a)) 0); tauto. }
  destruct Hd as [Hd|Hd]; [specialize (Hp Hd); discriminate|].
  destruct (Hr Hd) as [v Hv']. discriminate.
Qed.

(* ... and the run-time interpretation computes the same result *)
Theorem same_at_run_time : forall e f a,
  valid_args e f a -> call false e f a = call true e f a.
Proof. intros e f a Hv. apply call_agrees. apply strict_no_ub. exact Hv. Qed.

(* the whole const API at once *)
Theorem const_api_ok : forall name f, In (name, f) const_fns ->
  forall e a, valid_args e f a ->
    call true e f a <> UB /\ call false e f a = call true e f a.
Proof. intros name f _ e a Hv. split; [now apply strict_no_ub|now apply same_at_run_time]. Qed.

(* every constructor of [cfn] is listed: the uniform theorems cover the whole table and
   the table covers every modelled function *)
Lemma const_fns_complete : forall f, exists name, In (name, f) const_fns.
Proof.
  intros f. destruct f; eexists; unfold const_fns; cbn [In];
    repeat (first [left; reflexivity | right]).
Qed.

(* ------------------------------------------------------------------ results (what the values are) *)

(* elements seen through a valid reference are the allocation's cells at that offset, in
   both interpretations *)
Lemma rd_range_ok st j e (m : mem) b (bl : block) n : forall off vs,
  e <> 0 -> nth_error m b = Some bl -> 0 <= off ->
  firstn n (skipn (Z.to_nat off) bl) = map Init vs -> List.length vs = n ->
  rd_range st j e m (mkPtr (Blk b) off) n = Ret vs.
Proof.
  induction n as [|n IH]; intros off vs He Hm Ho Hf Hl.
  - destruct vs; [reflexivity|discriminate].
  - destruct vs as [|v vs]; [discriminate|]. cbn [rd_range].
    assert (Hnth : nth_error bl (Z.to_nat off) = Some (Init v) /\
                   firstn n (skipn (S (Z.to_nat off)) bl) = map Init vs).
    { destruct (nth_error bl (Z.to_nat off)) as [c|] eqn:E.
      - rewrite (firstn_S_skipn bl (Z.to_nat off) n c E) in Hf. cbn in Hf.
        injection Hf as -> Hf. auto.
      - apply nth_error_None in E. rewrite skipn_all2 in Hf by lia. discriminate. }
    destruct Hnth as [Hc Hrest].
    unfold rd at 1. cbn [pbase poff]. apply Z.eqb_neq in He. rewrite He, Hm.
    replace (off <? 0) with false by (symmetry; apply Z.ltb_ge; lia).
    rewrite Hc. cbn [bind]. apply Z.eqb_neq in He.
    rewrite (IH (off + 1) vs He Hm ltac:(lia)); [reflexivity| |now injection Hl].
    replace (Z.to_nat (off + 1)) with (S (Z.to_nat off)) by lia. exact Hrest.
Qed.

(* the chunk partition covers the slice exactly: chunks then remainder, same order *)
Lemma chunks_cover N L : 0 < N -> 0 <= L ->
  L / N * N + L mod N = L /\ 0 <= L mod N < N /\ 0 <= L / N.
Proof.
  intros HN HL. pose proof (Z.div_mod L N ltac:(lia)). pose proof (Z.mod_pos_bound L N HN).
  pose proof (Z.div_pos L N HL HN). lia.
Qed.

(* ------------------------------------------------------------------ the model discriminates *)

(* a one-element overshoot in as_slice: the evaluator's interpretation rejects it *)
Definition as_slice_off_by_one st e m N self := from_raw_parts st e m self (N + 1) 1.

Lemma as_slice_off_by_one_refuted :
  exists m self, valid_ref 1 m self 3 /\ as_slice_off_by_one true 1 m 3 self = UB
                 /\ exists v, as_slice_off_by_one false 1 m 3 self = Ret v.
Proof.
  exists [[Init 1; Init 2; Init 3]], (mkPtr (Blk 0%nat) 0). split.
  - split; [lia|]. split; [lia|]. right. exists 0%nat, [Init 1; Init 2; Init 3].
    cbn. repeat split; lia.
  - split; [reflexivity|eexists; reflexivity].
Qed.

(* the remainder computed from the chunk count instead of the element count *)
Definition chunks_bad_add st e m N (s : slice) : res (slice * slice) :=
  let nc := slen s / N in
  bind (p_add st e m (sp s) (nc * N + N)) (fun q =>
  bind (from_raw_parts st e m q (slen s - nc * N) 1) (fun r => Ret (mkSlice (sp s) nc N, r))).

Lemma chunks_bad_add_refuted :
  chunks_bad_add true 1 [[Init 1; Init 2; Init 3; Init 4]] 3
    (mkSlice (mkPtr (Blk 0%nat) 0) 4 1) = UB.
Proof. reflexivity. Qed.

(* assume_init of a partly written array is rejected by the evaluator's interpretation *)
Lemma assume_init_partial_refuted :
  assume_init true 1 true 2 [Init 1; Uninit] = UB /\
  assume_init false 1 true 2 [Init 1; Uninit] = Ret [Init 1; Uninit].
Proof. split; reflexivity. Qed.

(* ------------------------------------------------------------------ non-vacuity *)

Definition ex_mem : mem := [[Init 10; Init 11; Init 12; Init 13; Init 14; Init 15; Init 16; Init 17]].
Definition ex_args : cargs :=
  mkArgs 3 3 ex_mem (mkSlice (mkPtr (Blk 0%nat) 0) 8 1) [Init 1; Init 2; Init 3] 3 true true.

Example ex_valid_chunks : valid_args 4 FChunksFromSlice ex_args.
Proof.
  unfold valid_args, ex_args, valid_slice, valid_ref, two64; cbn.
  repeat split; try lia. right. exists 0%nat, (nth 0 ex_mem []). cbn. repeat split; lia.
Qed.

Example ex_chunks_value :
  call true 4 FChunksFromSlice ex_args =
    Ret (VPair (mkSlice (mkPtr (Blk 0%nat) 0) 2 3) (mkSlice (mkPtr (Blk 0%nat) 6) 2 1)).
Proof. reflexivity. Qed.

Example ex_valid_from_array : valid_args 4 FFromArray ex_args.
Proof. unfold valid_args, ex_args, valid_val, two64; cbn. repeat split; lia. Qed.

Example ex_valid_assume_init : valid_args 4 FAssumeInit ex_args.
Proof. unfold valid_args, ex_args, valid_val, two64; cbn. repeat split; lia. Qed.

Example ex_from_slice_panics :
  valid_args 4 FFromSlice ex_args /\ documented_panic FFromSlice ex_args.
Proof.
  split; [|cbn; lia].
  unfold valid_args, ex_args, valid_slice, valid_ref, two64; cbn.
  repeat split; try lia. right. exists 0%nat, (nth 0 ex_mem []). cbn. repeat split; lia.
Qed.

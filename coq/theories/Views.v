(* Views.v -- hub model of the borrowed views of a GenericArray and of the checked
   reinterpretations slice <-> array reference (src/lib.rs, src/impls.rs), over
   the element-granular memory of Mem.v.  Definitions only; proofs in
   ViewsProofs.v.

   A reference `&GenericArray<T,N>` / `&mut GenericArray<T,N>` is a pointer [self]
   to N consecutive initialised cells.  A slice reference `&[T]` / `&mut [T]` and a
   native-array reference `&[T; U]` are fat pointers (pointer, element count):
   for the native array the count is the U of its type.  Every function below
   computes pointer and length the way the code does. *)
From GA Require Import Base Mem.

Record slice : Type := mkslice { sptr : ptr; slen : nat }.

(* ---- lib.rs:681-690 ------------------------------------------------------ *)
(* slice::from_raw_parts(self as *const Self as *const T, N::USIZE) *)
Definition as_slice (N : nat) (self : ptr) : slice := mkslice self N.
(* slice::from_raw_parts_mut(self as *mut Self as *mut T, N::USIZE) *)
Definition as_mut_slice (N : nat) (self : ptr) : slice := mkslice self N.

(* ---- lib.rs:442-474: Deref / DerefMut / by-reference IntoIterator -------- *)
Definition deref (N : nat) (self : ptr) : slice := as_slice N self.
Definition deref_mut (N : nat) (self : ptr) : slice := as_mut_slice N self.

(* slice::Iter / slice::IterMut over a slice: the references it yields, in order
   (modelled core behaviour: item i is the element at ptr.add(i), i < len) *)
Definition slice_iter (s : slice) : list ptr := map (padd (sptr s)) (seq 0 (slen s)).
Definition iter_slice (N : nat) (self : ptr) : slice := as_slice N self.          (* self.as_slice().iter() *)
Definition iter_mut_slice (N : nat) (self : ptr) : slice := as_mut_slice N self.  (* self.as_mut_slice().iter_mut() *)

(* ---- impls.rs:57-83: Borrow / BorrowMut / AsRef / AsMut to [T] ----------- *)
Definition borrow (N : nat) (self : ptr) : slice := as_slice N self.
Definition borrow_mut (N : nat) (self : ptr) : slice := as_mut_slice N self.
Definition as_ref_slice (N : nat) (self : ptr) : slice := as_slice N self.
Definition as_mut_slice_trait (N : nat) (self : ptr) : slice := as_mut_slice N self.

(* ---- impls.rs:136-155: AsRef<[T; U]> / AsMut<[T; U]> ---------------------
   core::mem::transmute(self): the reference keeps its address; the pointee type
   [T; U] has U elements, where Const<U>: IntoArrayLength<ArrayLength = N>. *)
Definition as_ref_array (U : nat) (self : ptr) : slice := mkslice self U.
Definition as_mut_array (U : nat) (self : ptr) : slice := mkslice self U.

(* typenum's mapping Const<U> -> U<U> (trusted, sampled by the harness: the
   compiler only accepts `AsRef<[T; U]>` on GenericArray<T,N> when it yields N) *)
Definition const_len (N : nat) : nat := N.

Inductive vk : Type :=
| KAsSlice | KAsMutSlice | KDeref | KDerefMut | KBorrow | KBorrowMut
| KAsRef | KAsMut | KAsRefArr | KAsMutArr | KIter | KIterMut.

Definition all_views : list vk :=
  [KAsSlice; KAsMutSlice; KDeref; KDerefMut; KBorrow; KBorrowMut;
   KAsRef; KAsMut; KAsRefArr; KAsMutArr; KIter; KIterMut].

Definition is_mut (k : vk) : bool :=
  match k with
  | KAsMutSlice | KDerefMut | KBorrowMut | KAsMut | KAsMutArr | KIterMut => true
  | _ => false
  end.

Definition view_of (k : vk) (N : nat) (self : ptr) : slice :=
  match k with
  | KAsSlice => as_slice N self
  | KAsMutSlice => as_mut_slice N self
  | KDeref => deref N self
  | KDerefMut => deref_mut N self
  | KBorrow => borrow N self
  | KBorrowMut => borrow_mut N self
  | KAsRef => as_ref_slice N self
  | KAsMut => as_mut_slice_trait N self
  | KAsRefArr => as_ref_array (const_len N) self
  | KAsMutArr => as_mut_array (const_len N) self
  | KIter => iter_slice N self
  | KIterMut => iter_mut_slice N self
  end.

(* ---- element access through a (pointer, length) view -----------------------
   `v[i]` on a slice / native array, or the i-th item of the by-reference
   iterator: bounds-checked against the view's own length (Rust panics / the
   iterator has no such item), then a checked access to the cell at ptr.add(i). *)
Definition elem_ptr (s : slice) (i : nat) : res ptr :=
  if i <? slen s then Ret (padd (sptr s) i) else Panicked.

Definition view_get (m : mem) (s : slice) (i : nat) : res Z :=
  rbind (elem_ptr s i) (load m).

Definition view_set (m : mem) (s : slice) (i : nat) (v : Z) : res mem :=
  rbind (elem_ptr s i) (fun q => assign m q v).

(* all elements seen through a view, in index order *)
Definition view_read (m : mem) (s : slice) : list (res Z) :=
  map (view_get m s) (seq 0 (slen s)).

(* what it means for references to be valid *)
Definition valid_ref (m : mem) (self : ptr) (N : nat) (a : list Z) : Prop :=
  length a = N /\ holds m self a.
Definition valid_slice (m : mem) (s : slice) (a : list Z) : Prop :=
  length a = slen s /\ holds m (sptr s) a.

(* ---- lib.rs:700-751: checked reinterpretation of a slice ------------------- *)
Inductive tryres : Type := TOk (p : ptr) | TErr.   (* Result<&GenericArray<T,N>, LengthError> *)

(* if slice.len() != N::USIZE { panic!(..) }  &*(slice.as_ptr() as *const GenericArray<T,N>) *)
Definition from_slice (N : nat) (s : slice) : res ptr :=
  if negb (slen s =? N) then Panicked else Ret (sptr s).

(* if slice.len() != N::USIZE { return Err(LengthError) }  Ok(&*(slice.as_ptr() as ..)) *)
Definition try_from_slice (N : nat) (s : slice) : res tryres :=
  if negb (slen s =? N) then Ret TErr else Ret (TOk (sptr s)).

(* assert!(slice.len() == N::USIZE, ..);  &mut *(slice.as_mut_ptr() as *mut GenericArray<T,N>) *)
Definition from_mut_slice (N : nat) (s : slice) : res ptr :=
  if slen s =? N then Ret (sptr s) else Panicked.

(* match slice.len() == N::USIZE { true => Ok(GenericArray::from_mut_slice(slice)), false => Err(LengthError) } *)
Definition try_from_mut_slice (N : nat) (s : slice) : res tryres :=
  if slen s =? N then rbind (from_mut_slice N s) (fun p => Ret (TOk p)) else Ret TErr.

(* lib.rs:933-949: TryFrom<&[T]> / TryFrom<&mut [T]> delegate *)
Definition try_from_ref (N : nat) (s : slice) : res tryres := try_from_slice N s.
Definition try_from_mut (N : nat) (s : slice) : res tryres := try_from_mut_slice N s.

(* impls.rs:116-134: From<&[T; U]> / From<&mut [T; U]>: slice.as_ptr() cast, no
   check needed because the source type fixes U = N *)
Definition from_array_ref (a : slice) : res ptr := Ret (sptr a).
Definition from_array_mut (a : slice) : res ptr := Ret (sptr a).

Inductive form : Type :=
| FFromSlice | FTryFromSlice | FFromMutSlice | FTryFromMutSlice | FTryFrom | FTryFromMut.

(* uniform outcome: Ret (TOk p) = a reference, Ret TErr = Err(LengthError), Panicked *)
Definition reinterpret (f : form) (N : nat) (s : slice) : res tryres :=
  match f with
  | FFromSlice => rbind (from_slice N s) (fun p => Ret (TOk p))
  | FTryFromSlice => try_from_slice N s
  | FFromMutSlice => rbind (from_mut_slice N s) (fun p => Ret (TOk p))
  | FTryFromMutSlice => try_from_mut_slice N s
  | FTryFrom => try_from_ref N s
  | FTryFromMut => try_from_mut N s
  end.

(* what a wrong length produces: the panicking forms panic, the others Err *)
Definition reject_kind (f : form) : res tryres :=
  match f with
  | FFromSlice | FFromMutSlice => Panicked
  | _ => Ret TErr
  end.

(* mutants of the guard, for the discrimination lemmas (ViewsProofs) *)
Definition from_slice_gt (N : nat) (s : slice) : res ptr :=       (* `!=` relaxed to `>` *)
  if N <? slen s then Panicked else Ret (sptr s).
Definition from_slice_lt (N : nat) (s : slice) : res ptr :=       (* `!=` relaxed to `<` *)
  if slen s <? N then Panicked else Ret (sptr s).

(* ---- by-value conversions (lib.rs:823-840, 995-1010; impls.rs:95-114,157-191) *)
(* const_transmute::<A, B>: panics unless size_of A = size_of B, then the same
   bits are read back at type B *)
Definition const_transmute {X : Type} (size_a size_b : nat) (bits : X) : res X :=
  if negb (size_a =? size_b) then Panicked else Ret bits.

(* [T; U] -> GenericArray<T,N>: sizes U*s and N*s (C01); element i of both sits
   at byte i*s, so the element list is unchanged.  U = N by the where-clause. *)
Definition from_array (s U N : nat) (v : list Z) : res (list Z) := const_transmute (U * s) (N * s) v.
Definition into_array (s N U : nat) (v : list Z) : res (list Z) := const_transmute (N * s) (U * s) v.
(* From<[T; N]> / Into<[T; N]> delegate *)
Definition from_native (s N : nat) (v : list Z) : res (list Z) := from_array s (const_len N) N v.
Definition into_native (s N : nat) (v : list Z) : res (list Z) := into_array s N (const_len N) v.

(* impl_tuple!: `let (A, B, ..) = tuple; GenericArray::from_array([A, B, ..])` and
   `let [A, B, ..] = array.into_array(); (A, B, ..)`.  A tuple of k same-typed
   fields is the list of its fields in declaration order; the row of the table
   pairs k identifiers with the typenum constant of value k. *)
Definition from_tuple (s : nat) (fields : list Z) : res (list Z) :=
  from_array s (length fields) (length fields) fields.
Definition into_tuple (s : nat) (a : list Z) : res (list Z) :=
  into_array s (length a) (length a) a.

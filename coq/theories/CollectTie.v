(* CollectTie.v -- tier T3 tie for the collecting functions: IntrusiveArrayBuilder::extend,
   GenericArray::try_from_iter and try_boxed_from_iter as tools/ga2coq regenerates them
   (coq/gen/GenCollect.v), run by the interpreter of Collect.v over an arbitrary scripted
   source, ARE Builder.try_from_iter / try_boxed_from_iter -- outcome, destructor runs and
   the number of next() calls -- for every N and every source (any size hint, fused or not,
   panicking or not). *)
From Coq Require Import String Lia.
From GA Require Import Base Builder BuilderProofs Pipe Collect.
From GAGen Require Import GenCollect.
Local Open Scope string_scope.

Section Tie.
  Variable N : nat.
  Variable Sc : src.

  Lemma hint_tie : hint_rejects N Sc [HLoGt; HHiLt] = precheck_reject N Sc.
  Proof. unfold hint_rejects, precheck_reject. cbn. now rewrite orb_false_r. Qed.

  (* the regenerated extend loop is Builder.fill *)
  Lemma extend_is_fill : forall n st,
    k_pos st = length (k_written st) ->
    let '(fr, built, p) := fill n (resp Sc) (k_polls st) (k_written st) in
    extend_run Sc gen_extend n st =
    (fr, Some (mkC p built (length built) (k_ev st))).
  Proof.
    induction n as [|n IH]; intros st Hpos.
    - cbn. rewrite <- Hpos. now destruct st.
    - cbn [fill extend_run]. destruct (resp Sc (k_polls st)) as [y| |] eqn:Hr.
      + cbn.
        specialize (IH (mkC (S (k_polls st)) (k_written st ++ [y]) (S (k_pos st)) (k_ev st))).
        cbn [k_pos k_written k_polls k_ev] in IH.
        destruct (fill n (resp Sc) (S (k_polls st)) (k_written st ++ [y])) as [[fr built] p].
        apply IH. rewrite app_length, Hpos. cbn. lia.
      + cbn. rewrite <- Hpos. reflexivity.
      + cbn. rewrite <- Hpos. reflexivity.
  Qed.
  Lemma vec_extend_is_fill : forall n st,
    k_pos st = length (k_written st) ->
    let '(fr, built, p) := fill n (resp Sc) (k_polls st) (k_written st) in
    vec_extend_take Sc n st = (fr, mkC p built (length built) (k_ev st)).
  Proof.
    induction n as [|n IH]; intros st Hpos.
    - cbn. rewrite <- Hpos. now destruct st.
    - cbn [fill vec_extend_take]. destruct (resp Sc (k_polls st)) as [y| |] eqn:Hr.
      + specialize (IH (mkC (S (k_polls st)) (k_written st ++ [y]) (S (k_pos st)) (k_ev st))).
        cbn [k_pos k_written k_polls k_ev] in IH.
        destruct (fill n (resp Sc) (S (k_polls st)) (k_written st ++ [y])) as [[fr built] p].
        apply IH. rewrite app_length, Hpos. cbn. lia.
      + cbn. rewrite <- Hpos. reflexivity.
      + cbn. rewrite <- Hpos. reflexivity.
  Qed.

  Lemma fill_built_length : forall n i acc fr built p,
    fill n (resp Sc) i acc = (fr, built, p) -> fr = FFull -> length built = length acc + n.
  Proof.
    induction n as [|n IH]; intros i acc fr built p H Hf; cbn in H.
    - injection H as _ <- _. lia.
    - destruct (resp Sc i); try (injection H as <- _ _; discriminate).
      apply IH in H; [|exact Hf]. rewrite app_length in H. cbn in H. lia.
  Qed.

  Lemma fill_not_full_short : forall n i acc fr built p,
    fill n (resp Sc) i acc = (fr, built, p) -> fr <> FFull -> length built < length acc + n.
  Proof.
    induction n as [|n IH]; intros i acc fr built p H Hf; cbn in H.
    - injection H as <- _ _. contradiction.
    - destruct (resp Sc i).
      + apply IH in H; [|exact Hf]. rewrite app_length in H. cbn in H. lia.
      + injection H as _ <- _. lia.
      + injection H as _ <- _. lia.
  Qed.

  (* GenericArray::try_from_iter as it stands in the source *)
  Theorem tie_try_from_iter :
    run_collect N Sc gen_extend gen_try_from_iter = Some (try_from_iter N Sc).
  Proof.
    unfold run_collect, gen_try_from_iter, try_from_iter. cbn [exec_steps exec_step].
    rewrite hint_tie. destruct (precheck_reject N Sc); [reflexivity|].
    pose proof (extend_is_fill N (mkC 0 [] 0 []) eq_refl) as Hx. cbn [k_polls k_written k_ev] in Hx.
    destruct (fill N (resp Sc) 0 []) as [[fr built] p] eqn:Hfill. rewrite Hx.
    destruct fr.
    - (* every slot written: the extra poll *)
      pose proof (fill_built_length _ _ _ _ _ _ Hfill eq_refl) as Hlen. cbn in Hlen.
      cbn [exec_steps exec_step ceval k_pos]. rewrite Hlen, Nat.eqb_refl. cbn [k_polls].
      destruct (resp Sc p) as [y| |]; cbn; rewrite ?firstn_all; try reflexivity.
      + rewrite <- Hlen, firstn_all. reflexivity.
      + rewrite <- Hlen, firstn_all. reflexivity.
      + rewrite <- Hlen, firstn_all. reflexivity.
    - pose proof (fill_not_full_short _ _ _ _ _ _ Hfill ltac:(discriminate)) as Hlen. cbn in Hlen.
      cbn [exec_steps exec_step ceval k_pos].
      destruct (Nat.eqb_spec (length built) N) as [E|_]; [lia|]. cbn. rewrite firstn_all. reflexivity.
    - cbn. rewrite firstn_all. reflexivity.
  Qed.

  (* GenericArray::try_boxed_from_iter *)
  Theorem tie_try_boxed_from_iter :
    run_collect N Sc gen_extend gen_try_boxed_from_iter = Some (try_boxed_from_iter N Sc).
  Proof.
    unfold run_collect, gen_try_boxed_from_iter, try_boxed_from_iter, try_from_iter. cbn [exec_steps exec_step].
    rewrite hint_tie. destruct (precheck_reject N Sc); [reflexivity|].
    pose proof (vec_extend_is_fill N (mkC 0 [] 0 []) eq_refl) as Hx. cbn [k_polls k_written k_ev] in Hx.
    destruct (fill N (resp Sc) 0 []) as [[fr built] p] eqn:Hfill. rewrite Hx.
    destruct fr.
    - pose proof (fill_built_length _ _ _ _ _ _ Hfill eq_refl) as Hlen. cbn in Hlen.
      cbn [exec_steps exec_step ceval k_pos]. rewrite Hlen, Nat.eqb_refl. cbn [k_polls].
      destruct (resp Sc p) as [y| |]; cbn; rewrite <- Hlen, firstn_all; reflexivity.
    - pose proof (fill_not_full_short _ _ _ _ _ _ Hfill ltac:(discriminate)) as Hlen. cbn in Hlen.
      cbn [exec_steps exec_step ceval k_pos].
      destruct (Nat.eqb_spec (length built) N) as [E|_]; [lia|]. cbn. rewrite firstn_all. reflexivity.
    - cbn. rewrite firstn_all. reflexivity.
  Qed.
End Tie.

(* ArrayBuilder::extend (the owning builder of the `internals` API) is the same loop *)
Lemma tie_array_builder_extend : gen_array_builder_extend = gen_extend.
Proof. reflexivity. Qed.

(* ConstDefaultDecls.v -- what the SOURCE declares, one small definition per item,
   REGENERATED from /repo/src on every run by tools/ga2coq (tier T1) into
   coq/gen/GenConstDefaultDecls.v and re-exported here:

     src/lib.rs                 the two repr(C) storage nodes (field order = memory
                                order) and the ArrayLength::ArrayType recursion
     src/impl_const_default.rs  the initialiser expression of every field in the
                                three ConstDefault impls

   Nothing here is interpreted: ZeroDefault.v gives these declarations their
   meaning (leaves in field order, value built by the initialisers). *)
From GA Require Export ConstDefaultTypes.
From GAGen Require Export GenConstDefaultDecls.

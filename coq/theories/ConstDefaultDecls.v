(* ConstDefaultDecls.v -- what the SOURCE declares, one small definition per item,
   so that a translator can regenerate this file from /repo/src:

     src/lib.rs                 the two repr(C) storage nodes (field order = memory
                                order) and the ArrayLength::ArrayType recursion
     src/impl_const_default.rs  the initialiser expression of every field in the
                                three ConstDefault impls

   Nothing here is interpreted: ZeroDefault.v gives these declarations their
   meaning (leaves in field order, value built by the initialisers). *)
From GA Require Import Base.

(* ---- storage declarations (src/lib.rs) ---- *)

(* fields of a storage node, by the role of their type:
     parent1 : U, parent2 : U, data : T, _marker : PhantomData<T> *)
Inductive field : Type := FParent1 | FParent2 | FData | FMarker.

(* #[repr(C)] pub struct GenericArrayImplEven<T, U> { parent1: U, parent2: U, _marker: PhantomData<T> } *)
Definition even_fields : list field := [FParent1; FParent2; FMarker].

(* #[repr(C)] pub struct GenericArrayImplOdd<T, U> { parent1: U, parent2: U, data: T } *)
Definition odd_fields : list field := [FParent1; FParent2; FData].

(* impl ArrayLength for UTerm       { type ArrayType<T> = [T; 0]; }
   impl ArrayLength for UInt<N, B0> { type ArrayType<T> = GenericArrayImplEven<T, N::ArrayType<T>>; }
   impl ArrayLength for UInt<N, B1> { type ArrayType<T> = GenericArrayImplOdd<T, N::ArrayType<T>>; } *)
Inductive node : Type := NEven | NOdd.
Definition arraytype_of_bit (b1 : bool) : node := if b1 then NOdd else NEven.

(* ---- initialiser expressions (src/impl_const_default.rs) ---- *)

(* `X::DEFAULT` for a type parameter X, `ConstDefault::DEFAULT` (the type is
   inferred from the field), `core::marker::PhantomData` *)
Inductive tyvar : Type := TyU | TyT | TyInfer.
Inductive init : Type := DefaultOf (ty : tyvar) | PhantomLit.

(* impl<T, U: ConstDefault> ConstDefault for GenericArrayImplEven<T, U> *)
Definition even_parent1_init : init := DefaultOf TyU.     (* parent1: U::DEFAULT *)
Definition even_parent2_init : init := DefaultOf TyU.     (* parent2: U::DEFAULT *)
Definition even_marker_init : init := PhantomLit.         (* _marker: core::marker::PhantomData *)

(* impl<T: ConstDefault, U: ConstDefault> ConstDefault for GenericArrayImplOdd<T, U> *)
Definition odd_parent1_init : init := DefaultOf TyU.      (* parent1: U::DEFAULT *)
Definition odd_parent2_init : init := DefaultOf TyU.      (* parent2: U::DEFAULT *)
Definition odd_data_init : init := DefaultOf TyT.         (* data: T::DEFAULT *)

(* impl<T, U: ArrayLength> ConstDefault for GenericArray<T, U> where U::ArrayType<T>: ConstDefault *)
Definition wrapper_data_init : init := DefaultOf TyInfer. (* data: ConstDefault::DEFAULT *)

(* GuardTieHeap.v -- tier T2 tie (part of the former GuardTie.v, split so that a change of one function only reaches the
   properties whose theorems are stated over that function's regenerated guards): heap conversions (C15) *)
From Coq Require Import String.
From GA Require Import Base Guards.
From GA Require Views Chunks SeqOps Builder Hex HeapOps ConstEval Serde.
From GAGen Require Import GenGuards GenConstFns.
Local Open Scope Z_scope.

Lemma of_nat_eqb a b : (Z.of_nat a =? Z.of_nat b) = Nat.eqb a b.
Proof.
  destruct (Nat.eqb_spec a b) as [->|H]; [apply Z.eqb_refl|]. apply Z.eqb_neq. lia.
Qed.

(* ---------------- C15: heap conversions (src/impl_alloc.rs) ---------------- *)

Lemma tie_heap_guards L N :
  rejects try_from_vec_guard (env1 "v.len" L) N = negb (L =? N) /\ fails_by_panic try_from_vec_guard = false /\
  rejects try_from_boxed_slice_guard (env1 "slice.len" L) N = negb (L =? N) /\
  fails_by_panic try_from_boxed_slice_guard = false.
Proof. repeat split. Qed.


(* Guards.v -- a tiny expression language for the length checks and the integer
   arithmetic that the translator tools/ga2coq regenerates from the source on every run
   (coq/gen/GenGuards.v, tier T2), with its evaluation.  Definitions only.
   usize expressions are evaluated in Z (no wrap-around: the side conditions that make
   this faithful are stated where the expressions are used). *)
From Coq Require Import String.
From GA Require Import Base.
Local Open Scope Z_scope.

Inductive gexpr : Type :=
| GInt (z : Z)
| GN                                   (* N::USIZE *)
| GVar (x : string)                    (* a local, a parameter, `x.len()` as "x.len", `*position` as "position" *)
| GAdd (a b : gexpr) | GSub (a b : gexpr) | GMul (a b : gexpr) | GDiv (a b : gexpr)
| GShr (a b : gexpr) | GAnd (a b : gexpr) | GMin (a b : gexpr).

Inductive gcond : Type :=
| CNe (a b : gexpr) | CEq (a b : gexpr) | CLt (a b : gexpr) | CLe (a b : gexpr)
| CGt (a b : gexpr) | CGe (a b : gexpr)
| COr (a b : gcond) | CNot (a : gcond).

(* how a condition is used *)
Inductive gkind : Type :=
| PanicIf        (* if c { panic!(..) } *)
| ErrIf          (* if c { return Err(LengthError) } *)
| PanicUnless    (* assert!(c, ..) *)
| OkIfElseErr.   (* match c { true => Ok(..), false => Err(LengthError) } *)

Record guard : Type := mkGuard { g_kind : gkind; g_cond : gcond }.

Definition genv := string -> Z.

Fixpoint geval (en : genv) (N : Z) (e : gexpr) : Z :=
  match e with
  | GInt z => z
  | GN => N
  | GVar x => en x
  | GAdd a b => geval en N a + geval en N b
  | GSub a b => geval en N a - geval en N b
  | GMul a b => geval en N a * geval en N b
  | GDiv a b => geval en N a / geval en N b
  | GShr a b => Z.shiftr (geval en N a) (geval en N b)
  | GAnd a b => Z.land (geval en N a) (geval en N b)
  | GMin a b => Z.min (geval en N a) (geval en N b)
  end.

Fixpoint ctest (en : genv) (N : Z) (c : gcond) : bool :=
  match c with
  | CNe a b => negb (geval en N a =? geval en N b)
  | CEq a b => geval en N a =? geval en N b
  | CLt a b => geval en N a <? geval en N b
  | CLe a b => geval en N a <=? geval en N b
  | CGt a b => geval en N b <? geval en N a
  | CGe a b => geval en N b <=? geval en N a
  | COr a b => ctest en N a || ctest en N b
  | CNot a => negb (ctest en N a)
  end.

(* does the guard reject (panic / Err) in this environment? *)
Definition rejects (g : guard) (en : genv) (N : Z) : bool :=
  match g_kind g with
  | PanicIf | ErrIf => ctest en N (g_cond g)
  | PanicUnless | OkIfElseErr => negb (ctest en N (g_cond g))
  end.

Definition fails_by_panic (g : guard) : bool :=
  match g_kind g with PanicIf | PanicUnless => true | _ => false end.

(* environments *)
Definition env1 (x : string) (v : Z) : genv := fun y => if String.eqb x y then v else 0.
Definition env2 (x : string) (v : Z) (x' : string) (v' : Z) : genv :=
  fun y => if String.eqb x y then v else if String.eqb x' y then v' else 0.

(* a sequence of `let name = expr;` evaluated in order *)
Fixpoint glets (en : genv) (N : Z) (ls : list (string * gexpr)) : genv :=
  match ls with
  | [] => en
  | (x, e) :: r => let v := geval en N e in glets (fun y => if String.eqb x y then v else en y) N r
  end.

(* Serde.v -- hub model of src/impl_serde.rs: definitions only.

   Serializer side: the calls the impl makes on the Serializer, recorded as a token
   stream.  Deserializer side: visit_seq run against a SCRIPTED SeqAccess that is
   not assumed to be fused or truthful (hints may contradict what is delivered).
   The destination array is modelled through the IntrusiveArrayBuilder's own
   bookkeeping (slots written so far, [position] counter): what gets dropped on an
   error path is decided by [position] exactly as in src/internal.rs:186-196, so a
   bookkeeping bug shows up as a missing / duplicated EDrop or as [DUB]. *)
From GA Require Import Base.

(* ------------------------------------------------------------------ serializer *)

Inductive tok : Type :=
| TupleStart (n : Z)     (* Serializer::serialize_tuple(n) *)
| SeqStart (n : Z)       (* Serializer::serialize_seq(Some n): not used by the crate; here so that the
                            encoders below can say what a length-prefixed encoding would look like *)
| Elem (x : Z)           (* SerializeTuple::serialize_element(&x) *)
| TupleEnd               (* SerializeTuple::end() *)
| SeqEnd.

(* `for el in self { tup.serialize_element(el)?; }` against a serializer that does not fail:
   one call per element, appended to what was emitted so far *)
Fixpoint ser_elems (a : list Z) (out : list tok) : list tok :=
  match a with
  | [] => out
  | x :: r => ser_elems r (out ++ [Elem x])
  end.

(* impl Serialize for GenericArray<T, N>  (src/impl_serde.rs:15-25); N = length a *)
Definition serialize (a : list Z) : list tok :=
  let tup := [TupleStart (zlen a)] in
  let tup := ser_elems a tup in
  tup ++ [TupleEnd].

(* a non-self-describing format (bincode): tuples have no framing at all, sequences get a
   length prefix; [enc] = the element encoding *)
Fixpoint le_bytes (k : nat) (v : Z) : list Z :=
  match k with
  | O => []
  | S r => (v mod 256)%Z :: le_bytes r (v / 256)%Z
  end.

Definition encode_nsd (enc : Z -> list Z) (t : tok) : list Z :=
  match t with
  | TupleStart _ | TupleEnd | SeqEnd => []
  | SeqStart n => le_bytes 8 n
  | Elem x => enc x
  end.

Definition bytes_nsd (enc : Z -> list Z) (ts : list tok) : list Z := flat_map (encode_nsd enc) ts.

(* ---------------------------------------------------------------- deserializer *)

(* what one call of SeqAccess::next_element can produce *)
Inductive item : Type :=
| Item (x : Z)       (* Ok(Some(element x)) *)
| ParseError         (* Err(_): the element (or the framing before it) does not parse *)
| Nothing.           (* Ok(None) *)

(* A scripted SeqAccess.  [items k] = outcome of the k-th call of next_element (k from 0);
   [hint0] = what size_hint() says before anything is read; [hint_after k] = what size_hint()
   says when asked again after k calls of next_element. *)
Record script : Type := mkScript {
  hint0 : option Z;
  items : nat -> item;
  hint_after : nat -> option Z }.

(* IntrusiveArrayBuilder over an uninitialised array: the slots written so far (slot i is
   written by the i-th iteration of the destination iterator) and the position counter. *)
Record builder : Type := mkB { written : list Z; position : nat }.

Definition b_new : builder := mkB [] 0.
(* dst.write(el): the destination iterator hands out the next slot *)
Definition b_write (x : Z) (b : builder) : builder := mkB (written b ++ [x]) (position b).
(* *position += 1 *)
Definition b_incr (b : builder) : builder := mkB (written b) (S (position b)).

(* Drop for IntrusiveArrayBuilder: drop_in_place(array[..position]).  Touching a slot that was
   never written is UB. *)
Definition b_drop (b : builder) : res (list ev) :=
  if position b <=? length (written b)
  then Ret (map EDrop (firstn (position b) (written b)))
  else UB.

(* array_assume_init(dst) after builder.finish() (= mem::forget, no drops): all n slots are
   read as initialised *)
Definition b_assume_init (n : nat) (b : builder) : res (list Z) :=
  if length (written b) =? n then Ret (written b) else UB.

Inductive exit : Type := XDone | XBreak | XErr.

(* `for dst in build_iter { match seq.next_element()? { Some(el) => { dst.write(el); *position += 1 }
                                                       None => break } }`
   [slots] = destination slots left, [k] = next_element calls made so far.
   Returns how the loop was left, the builder and the number of calls made. *)
Fixpoint fill (s : script) (slots : nat) (k : nat) (b : builder) : exit * builder * nat :=
  match slots with
  | O => (XDone, b, k)
  | S r =>
    match items s k with
    | ParseError => (XErr, b, S k)
    | Nothing => (XBreak, b, S k)
    | Item x => fill s r (S k) (b_incr (b_write x b))
    end
  end.

Inductive dres : Type :=
| DOk (a : list Z)     (* Ok(array) *)
| DErr                 (* Err(_) *)
| DUB.                 (* uninitialised slot read or dropped *)

Record outcome : Type := mkO {
  result : dres;
  polls : nat;           (* calls of next_element *)
  trace : list ev }.     (* destructors run by the crate *)

(* an Err leaves visit_seq: `builder` goes out of scope, its Drop runs *)
Definition leave_err (b : builder) (k : nat) : outcome :=
  match b_drop b with
  | Ret t => mkO DErr k t
  | _ => mkO DUB k []
  end.

(* builder.finish(); array_assume_init(dst) *)
Definition finish (n : nat) (b : builder) (k : nat) : outcome :=
  match b_assume_init n b with
  | Ret a => mkO (DOk a) k []
  | _ => mkO DUB k []
  end.

(* `Some(n) if n != N::USIZE` *)
Definition hint_rejects (n : nat) (h : option Z) : bool :=
  match h with
  | Some v => negb (v =? Z.of_nat n)%Z
  | None => false
  end.

(* `seq.size_hint() != Some(0)` *)
Definition hint_allows_probe (h : option Z) : bool :=
  match h with
  | Some 0%Z => false
  | _ => true
  end.

(* GAVisitor::visit_seq  (src/impl_serde.rs:54-94) for N = n *)
Definition visit_seq (n : nat) (s : script) : outcome :=
  if hint_rejects n (hint0 s) then mkO DErr 0 []
  else
    let '(x, b, k) := fill s n 0 b_new in
    match x with
    | XErr => leave_err b k                           (* `?` inside the loop *)
    | _ =>
      if position b =? n then
        if hint_allows_probe (hint_after s k) then
          match items s k with                        (* next_element::<Dummy>() *)
          | ParseError => leave_err b (S k)           (* `?` *)
          | Item _ => leave_err b (S k)               (* is_some(): invalid_length(position + 1); Dummy owns nothing *)
          | Nothing => finish n b (S k)
          end
        else finish n b k
      else leave_err b k                              (* invalid_length(position) *)
    end.

(* Deserialize::deserialize: deserializer.deserialize_tuple(N, visitor); the scripted
   deserializer hands its SeqAccess to the visitor *)
Definition deserialize (n : nat) (s : script) : outcome := visit_seq n s.

(* ---------------------------------------------------------------- specification *)

(* the elements a reader that stops at the first non-element gets from calls k, k+1, ... (at most [fuel]) *)
Fixpoint leading (s : script) (k fuel : nat) : list Z :=
  match fuel with
  | O => []
  | S f =>
    match items s k with
    | Item x => x :: leading s (S k) f
    | _ => []
    end
  end.

(* the elements read into the array: nothing when the up-front hint already rejects *)
Definition reads (n : nat) (s : script) : list Z :=
  if hint_rejects n (hint0 s) then [] else leading s 0 n.

(* "nothing left" after n reads: said by the hint, or found out by probing *)
Definition ends_at (n : nat) (s : script) : Prop :=
  hint_after s n = Some 0%Z \/ items s n = Nothing.

(* the excluded case of the property: the source says "nothing left" while it would still
   deliver something *)
Definition lies_about_end (n : nat) (s : script) : Prop :=
  hint_after s n = Some 0%Z /\ items s n <> Nothing.

Definition dropped (o : outcome) : list Z :=
  flat_map (fun e => match e with EDrop x => [x] | _ => [] end) (trace o).

(* the input that a data format produces from the serializer's tokens: the element tokens in
   order, then "nothing"; with exact remaining-length hints ([hints] = true: bincode,
   serde_json::Value) or without any ([hints] = false: JSON text) *)
Definition tok_elems (ts : list tok) : list Z :=
  flat_map (fun t => match t with Elem x => [x] | _ => [] end) ts.

Definition script_of_list (l : list Z) (hints : bool) : script :=
  mkScript
    (if hints then Some (zlen l) else None)
    (fun k => match nth_error l k with Some x => Item x | None => Nothing end)
    (fun k => if hints then Some (zlen l - Z.of_nat k)%Z else None).

Definition script_of_tokens (ts : list tok) (hints : bool) : script :=
  script_of_list (tok_elems ts) hints.

(* a mutant for the non-vacuity lemma: visit_seq without the surplus probe *)
Definition visit_seq_noprobe (n : nat) (s : script) : outcome :=
  if hint_rejects n (hint0 s) then mkO DErr 0 []
  else
    let '(x, b, k) := fill s n 0 b_new in
    match x with
    | XErr => leave_err b k
    | _ => if position b =? n then finish n b k else leave_err b k
    end.

(* a mutant that counts the element before writing it and is interrupted in between cannot be
   expressed without panics; the second mutant used for non-vacuity forgets the builder on the
   short path (finish() instead of drop) *)
Definition visit_seq_leak (n : nat) (s : script) : outcome :=
  if hint_rejects n (hint0 s) then mkO DErr 0 []
  else
    let '(x, b, k) := fill s n 0 b_new in
    match x with
    | XErr => leave_err b k
    | _ =>
      if position b =? n then
        if hint_allows_probe (hint_after s k) then
          match items s k with
          | ParseError => leave_err b (S k)
          | Item _ => leave_err b (S k)
          | Nothing => finish n b (S k)
          end
        else finish n b k
      else mkO DErr k []
    end.

(* TypeLevelProofs.v -- proofs about the declarations of SigDecls.v (C12). *)
From GA Require Import Base TypeLevel Sigs SigDecls.
From Coq Require Import NArith.
Local Open Scope N_scope.

Ltac in_cases H := repeat (destruct H as [H|H]; [subst|]); try contradiction.
Ltac red_sat := unfold accepts, accepted, sat_decl, sat, holds, defined, eval_eq, bind2;
  cbn -[N.leb N.sub N.add N.mul N.div N.eqb in_touint];
  unfold bind2; cbn -[N.leb N.sub N.add N.mul N.div N.eqb in_touint].
Ltac fin :=
  repeat split; intros;
  repeat match goal with
  | H : exists _, _ |- _ => destruct H
  | H : _ /\ _ |- _ => destruct H
  | H : Some _ = Some _ |- _ => injection H as H; try subst
  | H : None = Some _ |- _ => discriminate H
  end; eauto; try reflexivity; try lia.

(* ---------------------------------------------------------------- split *)
Lemma split_iff d : In d split_decls -> forall n k,
  (accepts d [n; k] <-> k <= n) /\
  (forall r, accepted d [n; k] r -> r = [k; n - k] /\ k + (n - k) = n).
Proof.
  intros H n k. in_cases H; red_sat.
  all: destruct (N.leb_spec k n) as [L|L]; cbn; fin.
Qed.

Example split_ex : accepted (mkDecl 3 0 2 split_where [V1; LDiff V0 V1]) [5; 2] [2; 3].
Proof. reflexivity. Qed.
Example split_ex_rej : sat_decl (mkDecl 3 1 2 split_where [V1; LDiff V0 V1]) [5; 6] = None.
Proof. reflexivity. Qed.

(* ---------------------------------------------------------------- concat *)
Lemma concat_total d : In d concat_decls -> forall n m, accepted d [n; m] [n + m].
Proof. intros H n m. in_cases H; red_sat; fin. Qed.

(* ---------------------------------------------------------------- append / prepend *)
Lemma lengthen_total d : In d lengthen_decls -> forall n, accepted d [n] [n + 1].
Proof.
  intros H n. in_cases H; red_sat.
  all: destruct (N.leb_spec 1 (n + 1)) as [L|L]; [|lia]; cbn -[N.leb N.sub N.add N.eqb].
  all: replace (n + 1 - 1 =? n) with true by (symmetry; apply N.eqb_eq; lia); reflexivity.
Qed.

(* ---------------------------------------------------------------- pop_back / pop_front / remove / swap_remove *)
Lemma shorten_iff d : In d (shorten_decls ++ remove_decls) -> forall n,
  (accepts d [n] <-> 1 <= n) /\
  (forall r, accepted d [n] r -> r = [n - 1] /\ (n - 1) + 1 = n).
Proof.
  intros H n. cbn in H. in_cases H; red_sat.
  all: destruct (N.leb_spec 1 n) as [L|L]; cbn -[N.leb N.sub N.add N.eqb]; [|fin].
  all: try (replace (n - 1 + 1 =? n) with true by (symmetry; apply N.eqb_eq; lia);
            cbn -[N.leb N.sub N.add N.eqb]).
  all: fin.
Qed.

Example shorten_ex : accepted (mkDecl 2 0 1 shorten_where [LSub1 V0]) [4] [3].
Proof. reflexivity. Qed.
Example shorten_ex_rej : sat_decl (mkDecl 5 0 1 remove_where [LSub1 V0]) [0] = None.
Proof. reflexivity. Qed.

(* ---------------------------------------------------------------- zip / comparisons *)
Lemma same_length_iff d : In d (zip_decls ++ cmp_decls) -> forall n1 n2,
  (accepts d [n1; n2] <-> n1 = n2) /\
  (forall r, accepted d [n1; n2] r -> r = if (d_op d =? 8)%Z then [n1] else []).
Proof.
  intros H n1 n2. cbn in H. in_cases H; red_sat.
  all: destruct (N.eqb_spec n2 n1) as [E|E]; cbn; fin.
Qed.

Example zip_ex : accepted (mkDecl 8 0 2 zip_where [V0]) [3; 3] [3].
Proof. reflexivity. Qed.
Example zip_ex_rej : sat_decl (mkDecl 8 0 2 zip_where [V0]) [3; 4] = None.
Proof. reflexivity. Qed.

(* ---------------------------------------------------------------- flatten *)
Lemma flatten_total d : In d flatten_decls -> forall n m, accepted d [n; m] [n * m].
Proof. intros H n m. in_cases H; red_sat; fin. Qed.

(* ---------------------------------------------------------------- unflatten *)
Lemma unflatten_iff d : In d unflatten_decls -> forall nm n,
  (accepts d [nm; n] <-> n <> 0) /\
  (forall r, accepted d [nm; n] r ->
     r = [nm / n] /\ n * (nm / n) <= nm /\ (forall m, nm = n * m -> nm / n = m)).
Proof.
  intros H nm n. in_cases H; red_sat.
  all: destruct (N.eqb_spec n 0) as [E|E]; cbn -[N.div N.mul]; [fin|].
  all: split; [fin|]; intros r Hr; injection Hr as <-.
  all: split; [reflexivity|]; split; [apply N.mul_div_le; exact E|].
  all: intros m ->; rewrite N.mul_comm; apply N.div_mul; exact E.
Qed.

Example unflatten_ex : accepted (mkDecl 7 0 2 unflatten_where [LQuot V0 V1]) [6; 2] [3].
Proof. reflexivity. Qed.
Example unflatten_ex_rej : sat_decl (mkDecl 7 0 2 unflatten_where [LQuot V0 V1]) [6; 0] = None.
Proof. reflexivity. Qed.

(* ---------------------------------------------------------------- [T; U] conversions *)
Lemma constarr_iff d : In d (constarr_decls ++ fromarr_decls) -> forall n u,
  (accepts d [n; u] <-> u = n /\ in_touint u = true) /\
  (forall r, accepted d [n; u] r -> r = [n]).
Proof.
  intros H n u. cbn in H. in_cases H; red_sat.
  all: destruct (in_touint u) eqn:T; cbn -[N.eqb]; [|fin].
  all: try rewrite (N.eqb_sym n u).
  all: destruct (N.eqb_spec u n) as [E|E]; cbn; fin.
Qed.

Lemma touint_small u : u <= 1024 -> in_touint u = true.
Proof. intros H. unfold in_touint. apply N.leb_le in H. rewrite H. reflexivity. Qed.

Lemma constarr_small d : In d (constarr_decls ++ fromarr_decls) -> forall n u, u <= 1024 ->
  (accepts d [n; u] <-> u = n).
Proof.
  intros H n u Hu. destruct (constarr_iff d H n u) as [A _]. rewrite A.
  split; [tauto|]. intros ->. split; [reflexivity|apply touint_small; exact Hu].
Qed.

Example constarr_ex : accepted (mkDecl 10 0 2 constarr_where [V0]) [5; 5] [5].
Proof. reflexivity. Qed.
Example constarr_ex_rej : sat_decl (mkDecl 10 0 2 constarr_where [V0]) [5; 4] = None.
Proof. reflexivity. Qed.
Example constarr_ex_table : sat_decl (mkDecl 10 0 2 constarr_where [V0]) [1025; 1025] = None
  /\ accepted (mkDecl 10 0 2 constarr_where [V0]) [2048; 2048] [2048].
Proof. split; reflexivity. Qed.

(* ---------------------------------------------------------------- tuples *)
Definition tuple_dir (variant : Z) : list decl :=
  filter (fun d => (d_variant d =? variant)%Z) tuple_decls.

Lemma tuple_rows variant sizes n k : (variant = 0 \/ variant = 1)%Z ->
  sat_any (filter (fun d => (d_variant d =? variant)%Z) (flat_map tuple_row sizes)) [n; k] =
  if existsb (fun j => (k =? j) && (n =? j)) sizes then Some [k] else None.
Proof.
  intros Hv. induction sizes as [|j sizes IH]; [reflexivity|].
  cbn [flat_map existsb]. unfold tuple_row at 1. cbn [app].
  destruct Hv as [-> | ->]; cbn [filter d_variant Z.eqb Pos.eqb]; cbn [sat_any]; rewrite IH; clear IH.
  all: unfold sat_decl, sat, holds, eval_eq; cbn -[N.eqb existsb].
  all: destruct (N.eqb_spec k j) as [->|Hk]; cbn -[N.eqb existsb]; [|reflexivity].
  all: destruct (N.eqb_spec n j) as [->|Hn]; cbn -[N.eqb existsb]; reflexivity.
Qed.

Lemma tuple_sizes_spec k : In k tuple_sizes <-> 1 <= k <= 12.
Proof.
  unfold tuple_sizes. cbn [In]. split.
  - intros H. repeat (destruct H as [H|H]; [subst; lia|]). contradiction.
  - intros H.
    assert (C : k = 1 \/ k = 2 \/ k = 3 \/ k = 4 \/ k = 5 \/ k = 6 \/ k = 7 \/ k = 8 \/ k = 9 \/
                k = 10 \/ k = 11 \/ k = 12) by lia.
    intuition (subst; auto 13).
Qed.

Lemma tuple_iff variant : (variant = 0 \/ variant = 1)%Z -> forall n k,
  (sat_any (tuple_dir variant) [n; k] <> None <-> n = k /\ 1 <= k <= 12) /\
  (forall r, sat_any (tuple_dir variant) [n; k] = Some r -> r = [k]).
Proof.
  intros Hv n k. unfold tuple_dir, tuple_decls. rewrite (tuple_rows variant tuple_sizes n k Hv).
  destruct (existsb (fun j => (k =? j) && (n =? j)) tuple_sizes) eqn:E.
  - apply existsb_exists in E. destruct E as [j [Hj E]]. apply andb_true_iff in E.
    destruct E as [E1 E2]. apply N.eqb_eq in E1. apply N.eqb_eq in E2. subst.
    apply tuple_sizes_spec in Hj. split.
    + split; [intros _; split; [reflexivity|exact Hj] | intros _; discriminate].
    + intros r Hr. injection Hr as <-. reflexivity.
  - split; [|intros r Hr; discriminate Hr].
    split; [intros C; exfalso; apply C; reflexivity|].
    intros [-> Hk]. exfalso. apply tuple_sizes_spec in Hk.
    assert (T : existsb (fun j => (k =? j) && (k =? j)) tuple_sizes = true).
    { apply existsb_exists. exists k. split; [exact Hk|]. rewrite N.eqb_refl. reflexivity. }
    rewrite T in E. discriminate E.
Qed.

Example tuple_ex : sat_any (tuple_dir 0) [3; 3] = Some [3] /\ sat_any (tuple_dir 1) [3; 4] = None
  /\ sat_any (tuple_dir 0) [13; 13] = None /\ sat_any (tuple_dir 1) [0; 0] = None.
Proof. repeat split; reflexivity. Qed.

(* ---------------------------------------------------------------- type ascription at the use site *)
Lemma ascribe_iff l i c l' :
  ascribe (Some l) (Some (i, c)) = Some l' <-> l' = l /\ nth_error l i = Some c.
Proof.
  unfold ascribe. destruct (nth_error l i) as [x|] eqn:E.
  - destruct (N.eqb_spec x c) as [->|Hx].
    + split; [intros H; injection H as <-; auto | intros [-> _]; reflexivity].
    + split; [discriminate | intros [_ H]; injection H as H; contradiction].
  - split; [discriminate | intros [_ H]; discriminate H].
Qed.

(* ---------------------------------------------------------------- Send / Sync / Copy / Clone *)
Lemma arraytype_is_elem bits T t : arraytype_has ga_structs bits T t = elem_has t T.
Proof.
  revert t. induction bits as [|b r IH]; intros t; [reflexivity|].
  cbn [arraytype_has]. destruct T as [s y c l].
  destruct b; destruct t; unfold struct_has; cbn -[arraytype_has]; rewrite ?IH; cbn;
    destruct s, y, c, l; reflexivity.
Qed.

Lemma ga_send n T : ga_has ga_structs n T TSend = e_send T.
Proof. destruct n; unfold ga_has, struct_has; cbn; apply andb_true_r. Qed.

Lemma ga_sync n T : ga_has ga_structs n T TSync = e_sync T.
Proof. destruct n; unfold ga_has, struct_has; cbn; apply andb_true_r. Qed.

Lemma ga_clone n T : ga_has ga_structs n T TClone = e_clone T.
Proof. destruct n; unfold ga_has, struct_has; cbn; apply andb_true_r. Qed.

Lemma ga_copy_concrete bits T : ga_has ga_structs (Concrete bits) T TCopy = e_copy T.
Proof.
  unfold ga_has, struct_has. cbn -[arraytype_has]. rewrite arraytype_is_elem. cbn.
  destruct (e_copy T); reflexivity.
Qed.

Lemma ga_copy_generic wc T : ga_has ga_structs (Generic wc) T TCopy = e_copy T && wc TCopy.
Proof. unfold ga_has, struct_has. cbn. rewrite andb_true_r. reflexivity. Qed.

Lemma ga_copy_only_if n T : ga_has ga_structs n T TCopy = true -> e_copy T = true.
Proof.
  destruct n as [bits|wc]; [rewrite ga_copy_concrete; auto|].
  rewrite ga_copy_generic. intros H. apply andb_true_iff in H. tauto.
Qed.

Lemma iter_send n T : iter_has ga_structs n T TSend = e_send T.
Proof. unfold iter_has, struct_has. cbn -[ga_has]. rewrite ga_send. apply andb_true_r. Qed.

Lemma iter_sync n T : iter_has ga_structs n T TSync = e_sync T.
Proof. unfold iter_has, struct_has. cbn -[ga_has]. rewrite ga_sync. apply andb_true_r. Qed.

Lemma iter_clone n T : iter_has ga_structs n T TClone = e_clone T.
Proof. unfold iter_has, struct_has. cbn. apply andb_true_r. Qed.

Lemma iter_never_copy n T : iter_has ga_structs n T TCopy = false.
Proof. reflexivity. Qed.

(* what the structural rule alone would give, were the explicit impls absent: for a
   generic N nothing is known about N::ArrayType<T>, so GenericArray<T, N> would not be Send *)
Definition ga_no_impls : crate_structs :=
  mkStructs (cs_uterm ga_structs) (cs_even ga_structs) (cs_odd ga_structs)
            (mkS (sd_fields (cs_ga ga_structs)) []) (cs_iter ga_structs).
Lemma explicit_impl_needed T : ga_has ga_no_impls (Generic none_has) T TSend = false.
Proof. reflexivity. Qed.
(* and an impl without the `T: Send` bound would make every array Send *)
Definition ga_unbounded_send : crate_structs :=
  mkStructs (cs_uterm ga_structs) (cs_even ga_structs) (cs_odd ga_structs)
            (mkS (sd_fields (cs_ga ga_structs)) [(TSend, [])]) (cs_iter ga_structs).
Lemma unbounded_send_refuted : exists n T, e_send T = false /\ ga_has ga_unbounded_send n T TSend = true.
Proof. exists (Concrete [true]), (mkElem false false false true). split; reflexivity. Qed.

Example ga_rc_not_send : ga_has ga_structs (Concrete [true; true]) (mkElem false false false true) TSend = false
  /\ iter_has ga_structs (Concrete [true; true]) (mkElem false false false true) TSend = false
  /\ ga_has ga_structs (Concrete [true; true]) (mkElem true true true true) TCopy = true
  /\ ga_has ga_structs (Generic none_has) (mkElem true true true true) TCopy = false.
Proof. repeat split; reflexivity. Qed.

(* ---------------------------------------------------------------- lifetimes *)
Lemma all_sigs_sound : forallb sound_sig signatures = true.
Proof. vm_compute. reflexivity. Qed.

Lemma every_sig_sound s : In s signatures -> sound_sig s = true.
Proof. apply (proj1 (forallb_forall sound_sig signatures) all_sigs_sound). Qed.

Lemma sound_sig_meaning s : sound_sig s = true ->
  (forall o, In o (sg_out s) ->
     r_lt o <> LtStatic /\
     exists i, In i (sg_in s) /\ r_lt i = r_lt o /\ (r_mut o = true -> r_mut i = true)) /\
  (forall p, In p (sg_tout s) -> In p (sg_tin s)).
Proof.
  unfold sound_sig. intros H. apply andb_true_iff in H. destruct H as [H1 H2]. split.
  - intros o Ho. apply (proj1 (forallb_forall _ _) H1) in Ho. unfold out_ref_ok in Ho.
    destruct (r_lt o) as [k|] eqn:E; [|discriminate Ho]. split; [discriminate|].
    apply existsb_exists in Ho. destruct Ho as [i [Hi Hb]]. apply andb_true_iff in Hb.
    destruct Hb as [Hl Hm]. exists i. split; [exact Hi|]. split.
    + destruct (r_lt i) as [j|]; cbn in Hl; [|discriminate Hl].
      apply Nat.eqb_eq in Hl. subst. reflexivity.
    + intros Hmo. rewrite Hmo in Hm. cbn in Hm. exact Hm.
  - intros p Hp. apply (proj1 (forallb_forall _ _) H2) in Hp. apply existsb_exists in Hp.
    destruct Hp as [q [Hq E]]. apply Nat.eqb_eq in E. subst. exact Hq.
Qed.

Lemma sound_sig_complete s :
  (forall o, In o (sg_out s) ->
     r_lt o <> LtStatic /\
     exists i, In i (sg_in s) /\ r_lt i = r_lt o /\ (r_mut o = true -> r_mut i = true)) ->
  (forall p, In p (sg_tout s) -> In p (sg_tin s)) -> sound_sig s = true.
Proof.
  intros H1 H2. unfold sound_sig. apply andb_true_iff. split; apply forallb_forall.
  - intros o Ho. destruct (H1 o Ho) as [Hs [i [Hi [Hl Hm]]]]. unfold out_ref_ok.
    destruct (r_lt o) as [k|] eqn:E; [|contradiction]. apply existsb_exists. exists i.
    split; [exact Hi|]. rewrite Hl. cbn. rewrite Nat.eqb_refl. cbn.
    destruct (r_mut o); cbn; [apply Hm; reflexivity|reflexivity].
  - intros p Hp. apply existsb_exists. exists p. split; [apply H2; exact Hp|apply Nat.eqb_refl].
Qed.

Lemma lifetime_verdict_iff s v : In s signatures ->
  (lifetime_verdict s v = true <-> (v = 0 \/ v = 4)%Z).
Proof.
  intros Hs. unfold lifetime_verdict. rewrite (every_sig_sound s Hs). cbn [negb].
  destruct (Z.eqb_spec v 0) as [->|H0]; cbn; [tauto|].
  destruct (Z.eqb_spec v 4) as [->|H4]; cbn; [tauto|].
  split; [discriminate|tauto].
Qed.

(* the model discriminates: detached, 'static, shared-to-mutable and free-type-parameter signatures *)
Lemma unsound_sigs_refuted :
  sound_sig (mkSig 0 [mkRf (LtNamed 0) false] [mkRf (LtNamed 1) false] [] []) = false /\
  sound_sig (mkSig 0 [mkRf (LtNamed 0) false] [mkRf LtStatic false] [] []) = false /\
  sound_sig (mkSig 0 [mkRf (LtNamed 0) false] [mkRf (LtNamed 0) true] [] []) = false /\
  sound_sig const_transmute_sig = false.
Proof. repeat split; reflexivity. Qed.

Lemma sealed : al_supertrait_unsigned arraylength_sealing = true /\
  al_arraytype_bound_sealed arraylength_sealing = true /\ sealed_is_private arraylength_sealing = true.
Proof. repeat split; reflexivity. Qed.

Lemma roundtrip_ok : forall v, (0 <= v <= 3)%Z -> roundtrip_typechecks v = true.
Proof.
  intros v Hv. unfold roundtrip_typechecks, inverse_bound_has_equality.
  destruct ((v =? 0)%Z || (v =? 2)%Z); reflexivity.
Qed.


(* CorrC02.v -- correspondence entry point for C02 (harness/src/bin/c02.rs).

   case = kind :: ety :: sz :: N :: rest        (sz = size_of::<T>() as measured by the harness;
                                                 ety 0 u32, 1 Tr, 2 Tz, 3 (): identities of zero-sized
                                                 elements are not observable and are printed as 0)
   kind 0  views          rest = [o]
           three arrays side by side, array k holds ids 10000*k + i; the array under test is number o.
           OBS: for each of the 12 views (order of Views.all_views):
                byte offset of the view relative to the array, its length, the values read through it
   kind 1  write-through  rest = [o; A; B; i; v]
           write v at index i through view A, then OBS: 0, length of view B, the values read through B,
           all 3N cells of the three arrays;  2 when the write panics
   kind 2  reinterpretation  rest = [o; L; form; wi; wv]
           forms 0..5 = from_slice, try_from_slice, from_mut_slice, try_from_mut_slice, TryFrom<&[T]>,
           TryFrom<&mut [T]> on the slice buf[o .. o+L] of a buffer of o+L+N+4 elements (ids 500+k);
           forms 6, 7 = From<&[T;N]>, From<&mut [T;N]> on the o-th of three native arrays.
           OBS: 1 (LengthError) | 2 (length panic) | 0, byte offset of the result relative to the source,
                length of its as_slice, values read through it, and for the mutable forms the whole
                buffer after writing wv at index wi (when wi < N) through the result
   kind 3  by value        rest = [dir; base]   element i has id base + 3*i
           dir 0 from_array, 1 From<[T;N]>, 2 into_array, 3 Into<[T;N]>, 4 From<tuple>, 5 Into<tuple>
           OBS: 0, length, ids in order, number of drop/clone events during the conversion | 2 *)
From GA Require Import Base Codec Mem Views.
Local Open Scope Z_scope.

Definition enc_res (r : res Z) : Z :=
  match r with Ret x => x | Panicked => -6 | UB => -7 end.
Definition enc_cell (c : cell) : Z :=
  match c with Init x => x | Uninit => -8 end.

Definition idz (sz : nat) (x : Z) : Z := if (sz =? 0)%nat then 0 else x.

(* three arrays of N elements, array k holds 10000*k + i *)
Definition three_arrays (sz N : nat) : mem :=
  [flat_map (fun k => map (fun i => Init (idz sz (10000 * Z.of_nat k + Z.of_nat i))) (seq 0 N)) (seq 0 3)].

Definition buffer (sz len : nat) : mem :=
  [map (fun k => Init (idz sz (500 + Z.of_nat k))) (seq 0 len)].

Definition rel_bytes (sz : nat) (p base : ptr) : Z :=
  Z.of_nat (byte_off sz p) - Z.of_nat (byte_off sz base).

Definition nth_view (k : Z) : vk := nth (znat k) all_views KAsSlice.

Definition enc_view (sz : nat) (m : mem) (self : ptr) (s : slice) : list Z :=
  rel_bytes sz (sptr s) self :: Z.of_nat (slen s) :: map enc_res (view_read m s).

Definition dump (m : mem) : list Z := map enc_cell (block_cells m 0).

Definition nth_form (f : Z) : form :=
  if f =? 0 then FFromSlice else if f =? 1 then FTryFromSlice else if f =? 2 then FFromMutSlice
  else if f =? 3 then FTryFromMutSlice else if f =? 4 then FTryFrom else FTryFromMut.

Definition form_is_mut (f : Z) : bool := (f =? 2) || (f =? 3) || (f =? 5) || (f =? 7).

Definition after_ok (sz N : nat) (m : mem) (src q : ptr) (f wi wv : Z) : list Z :=
  0 :: enc_view sz m src (as_slice N q) ++
  (if form_is_mut f then
     if (znat wi <? N)%nat then
       match view_set m (as_mut_slice N q) (znat wi) (idz sz wv) with
       | Ret m' => dump m'
       | Panicked => [-6]
       | UB => [-7]
       end
     else dump m
   else []).

Definition run_c02 (case : list Z) : list Z :=
  match case with
  | 0 :: _ :: sz :: n :: o :: _ =>
    let sz := znat sz in let N := znat n in
    let m := three_arrays sz N in
    let self := padd_arr N (mkptr 0 0) (znat o) in
    flat_map (fun k => enc_view sz m self (view_of k N self)) all_views
  | 1 :: _ :: sz :: n :: o :: a :: b :: i :: v :: _ =>
    let sz := znat sz in let N := znat n in
    let m := three_arrays sz N in
    let self := padd_arr N (mkptr 0 0) (znat o) in
    match view_set m (view_of (nth_view a) N self) (znat i) (idz sz v) with
    | Ret m' =>
      let sb := view_of (nth_view b) N self in
      0 :: Z.of_nat (slen sb) :: map enc_res (view_read m' sb) ++ dump m'
    | Panicked => [2]
    | UB => [7]
    end
  | 2 :: _ :: sz :: n :: o :: l :: f :: wi :: wv :: _ =>
    let sz := znat sz in let N := znat n in let L := znat l in
    if f <? 6 then
      let src := mkptr 0 (znat o) in
      match reinterpret (nth_form f) N (mkslice src L) with
      | Ret (TOk q) => after_ok sz N (buffer sz (znat o + L + N + 4)) src q f wi wv
      | Ret TErr => [1]
      | Panicked => [2]
      | UB => [7]
      end
    else
      let src := padd_arr N (mkptr 0 0) (znat o) in
      match (if f =? 6 then from_array_ref else from_array_mut) (mkslice src (const_len N)) with
      | Ret q => after_ok sz N (three_arrays sz N) src q f wi wv
      | Panicked => [2]
      | UB => [7]
      end
  | 3 :: _ :: sz :: n :: dir :: base :: _ =>
    let sz := znat sz in let N := znat n in
    let v := map (fun i => idz sz (base + 3 * Z.of_nat i)) (seq 0 N) in
    let r := if dir =? 0 then from_array sz (const_len N) N v
             else if dir =? 1 then from_native sz N v
             else if dir =? 2 then into_array sz N (const_len N) v
             else if dir =? 3 then into_native sz N v
             else if dir =? 4 then from_tuple sz v
             else into_tuple sz v in
    match r with
    | Ret l => 0 :: zlen l :: l ++ [0]
    | Panicked => [2]
    | UB => [7]
    end
  | _ => [-1]
  end.

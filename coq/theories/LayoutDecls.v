(* LayoutDecls.v -- the declarations of /repo/src/lib.rs that determine the memory
   layout of GenericArray<T, N>, as plain data (repr attribute + ordered field
   list).  This file is meant to be REPLACED by the output of the translator
   (ga2coq, tier T1); until then it is the hand transcription of

     #[repr(C)] pub struct GenericArrayImplEven<T, U> { parent1: U, parent2: U, _marker: PhantomData<T> }
     #[repr(C)] pub struct GenericArrayImplOdd<T, U>  { parent1: U, parent2: U, data: T }
     unsafe impl ArrayLength for UTerm                      { type ArrayType<T> = [T; 0]; }
     unsafe impl<N: ArrayLength> ArrayLength for UInt<N, B0> { type ArrayType<T> = GenericArrayImplEven<T, N::ArrayType<T>>; }
     unsafe impl<N: ArrayLength> ArrayLength for UInt<N, B1> { type ArrayType<T> = GenericArrayImplOdd<T, N::ArrayType<T>>; }
     #[repr(transparent)] pub struct GenericArray<T, N: ArrayLength> { data: N::ArrayType<T> }

   Parameter numbering: structs <T, U> = (0, 1); in the ArrayType right-hand sides
   0 = T, 1 = N::ArrayType<T>; in GenericArray 0 = T, 1 = N::ArrayType<T>. *)
From GA Require Import Base Layout.
Local Open Scope Z_scope.

Definition impl_even : decl :=
  {| d_repr := ReprC; d_fields := [XParam 1; XParam 1; XPhantom (XParam 0)] |}.

Definition impl_odd : decl :=
  {| d_repr := ReprC; d_fields := [XParam 1; XParam 1; XParam 0] |}.

Definition arr_uterm : texp := XArr (XParam 0) 0.

Definition arr_b0 : struct_name * list texp := (SEven, [XParam 0; XParam 1]).

Definition arr_b1 : struct_name * list texp := (SOdd, [XParam 0; XParam 1]).

Definition generic_array_decl : decl :=
  {| d_repr := ReprTransparent; d_fields := [XParam 1] |}.

Definition crate_decls : decls :=
  {| dc_even := impl_even; dc_odd := impl_odd; dc_uterm := arr_uterm;
     dc_b0 := arr_b0; dc_b1 := arr_b1; dc_ga := generic_array_decl |}.

(* LayoutDecls.v -- the declarations of /repo/src/lib.rs that determine the memory
   layout of GenericArray<T, N>, as plain data (repr attribute + ordered field
   list).  The definitions are REGENERATED from the source on every run by the translator
   (tools/ga2coq, tier T1) into coq/gen/GenLayoutDecls.v and re-exported here; they are
   the translation of

     #[repr(C)] pub struct GenericArrayImplEven<T, U> { parent1: U, parent2: U, _marker: PhantomData<T> }
     #[repr(C)] pub struct GenericArrayImplOdd<T, U>  { parent1: U, parent2: U, data: T }
     unsafe impl ArrayLength for UTerm                      { type ArrayType<T> = [T; 0]; }
     unsafe impl<N: ArrayLength> ArrayLength for UInt<N, B0> { type ArrayType<T> = GenericArrayImplEven<T, N::ArrayType<T>>; }
     unsafe impl<N: ArrayLength> ArrayLength for UInt<N, B1> { type ArrayType<T> = GenericArrayImplOdd<T, N::ArrayType<T>>; }
     #[repr(transparent)] pub struct GenericArray<T, N: ArrayLength> { data: N::ArrayType<T> }

   Parameter numbering: structs <T, U> = (0, 1); in the ArrayType right-hand sides
   0 = T, 1 = N::ArrayType<T>; in GenericArray 0 = T, 1 = N::ArrayType<T>. *)
From GA Require Export Layout.
From GAGen Require Export GenLayoutDecls.

(* SerdeProofs.v -- lemmas about the serde hub model (Serde.v). *)
From GA Require Import Base Serde.

(* ------------------------------------------------------------------ serializer *)

Lemma ser_elems_spec : forall a out, ser_elems a out = out ++ map Elem a.
Proof.
  induction a as [|x a IH]; intros out; cbn [ser_elems map].
  - now rewrite app_nil_r.
  - rewrite IH, <- app_assoc. reflexivity.
Qed.

Lemma serialize_tokens : forall a : list Z,
  serialize a = TupleStart (zlen a) :: map Elem a ++ [TupleEnd].
Proof. intros a. unfold serialize. rewrite ser_elems_spec. reflexivity. Qed.

Lemma flat_map_encode_elems : forall enc (a : list Z),
  flat_map (encode_nsd enc) (map Elem a) = flat_map enc a.
Proof.
  induction a as [|x a IH]; cbn [map flat_map encode_nsd]; [reflexivity|]. now rewrite IH.
Qed.

Lemma bytes_no_prefix : forall (enc : Z -> list Z) (a : list Z),
  bytes_nsd enc (serialize a) = flat_map enc a.
Proof.
  intros enc a. unfold bytes_nsd. rewrite serialize_tokens.
  cbn [flat_map encode_nsd app]. rewrite flat_map_app, flat_map_encode_elems.
  cbn [flat_map encode_nsd app]. now rewrite app_nil_r.
Qed.

Example ex_ser : serialize [10; 11; 12]%Z = [TupleStart 3; Elem 10; Elem 11; Elem 12; TupleEnd]%Z.
Proof. reflexivity. Qed.
Example ex_bytes : bytes_nsd (le_bytes 2) (serialize [258; 3]%Z) = [2; 1; 3; 0]%Z.
Proof. reflexivity. Qed.

(* what a length-prefixed (sequence) encoding of the same elements would be: 8 bytes longer *)
Lemma bytes_seq_has_prefix : forall (enc : Z -> list Z) (a : list Z),
  length (bytes_nsd enc (SeqStart (zlen a) :: map Elem a ++ [SeqEnd])) =
  8 + length (bytes_nsd enc (serialize a)).
Proof.
  intros enc a. rewrite bytes_no_prefix. unfold bytes_nsd.
  cbn [flat_map encode_nsd]. rewrite app_length, flat_map_app, flat_map_encode_elems.
  cbn [flat_map encode_nsd app]. rewrite app_nil_r. reflexivity.
Qed.

Lemma tok_elems_serialize : forall a, tok_elems (serialize a) = a.
Proof.
  intros a. rewrite serialize_tokens. unfold tok_elems. cbn [flat_map app].
  rewrite flat_map_app. cbn [flat_map app]. rewrite app_nil_r.
  induction a as [|x a IH]; cbn [map flat_map app]; [reflexivity|]. now rewrite IH.
Qed.

(* ---------------------------------------------------------------- deserializer *)

Definition b_ok (b : builder) : Prop := position b = length (written b).

Lemma b_ok_new : b_ok b_new.
Proof. reflexivity. Qed.

Lemma b_ok_step : forall x b, b_ok b -> b_ok (b_incr (b_write x b)).
Proof.
  intros x b H. unfold b_ok, b_incr, b_write in *. cbn [position written].
  rewrite app_length. cbn [length]. lia.
Qed.

Lemma leave_err_ok : forall b k, b_ok b -> leave_err b k = mkO DErr k (map EDrop (written b)).
Proof.
  intros b k H. unfold leave_err, b_drop. rewrite H, Nat.leb_refl, firstn_all. reflexivity.
Qed.

Lemma finish_ok : forall n b k, length (written b) = n -> finish n b k = mkO (DOk (written b)) k [].
Proof. intros n b k H. unfold finish, b_assume_init. rewrite H, Nat.eqb_refl. reflexivity. Qed.

Lemma leading_length : forall s fuel k, length (leading s k fuel) <= fuel.
Proof.
  intros s; induction fuel as [|f IH]; intros k; cbn [leading length]; [lia|].
  destruct (items s k); cbn [length]; try lia. specialize (IH (S k)). lia.
Qed.

(* the loop: what it has written, the bookkeeping invariant, how and where it stopped *)
Lemma fill_spec : forall s slots k b, b_ok b ->
  let r := leading s k slots in
  match fill s slots k b with
  | (x, b', k') =>
    written b' = written b ++ r /\ b_ok b' /\
    match x with
    | XDone => length r = slots /\ k' = k + slots
    | XBreak => length r < slots /\ k' = S (k + length r) /\ items s (k + length r) = Nothing
    | XErr => length r < slots /\ k' = S (k + length r) /\ items s (k + length r) = ParseError
    end
  end.
Proof.
  intros s; induction slots as [|sl IH]; intros k b Hb; cbn [fill leading].
  - cbn [length]. rewrite app_nil_r. repeat split; auto; lia.
  - destruct (items s k) as [x| |] eqn:E.
    + specialize (IH (S k) (b_incr (b_write x b)) (b_ok_step x b Hb)).
      cbv zeta in IH.
      destruct (fill s sl (S k) (b_incr (b_write x b))) as [[e b'] k'].
      destruct IH as (Hw & Hok & Hx).
      cbn [written b_incr b_write] in Hw. rewrite <- app_assoc in Hw. cbn [app] in Hw.
      split; [exact Hw|]. split; [exact Hok|].
      cbn [length].
      destruct e; destruct Hx as (H1 & H2); try destruct H2 as (H2 & H3).
      * split; lia.
      * repeat split; try lia. replace (k + S (length (leading s (S k) sl))) with (S k + length (leading s (S k) sl)) by lia. exact H3.
      * repeat split; try lia. replace (k + S (length (leading s (S k) sl))) with (S k + length (leading s (S k) sl)) by lia. exact H3.
    + cbn [length]. rewrite app_nil_r, Nat.add_0_r. repeat split; auto; lia.
    + cbn [length]. rewrite app_nil_r, Nat.add_0_r. repeat split; auto; lia.
Qed.

Lemma visit_hint : forall n s, hint_rejects n (hint0 s) = true ->
  visit_seq n s = mkO DErr 0 [].
Proof. intros n s H. unfold visit_seq. now rewrite H. Qed.

Lemma visit_short : forall n s, hint_rejects n (hint0 s) = false ->
  length (leading s 0 n) < n ->
  visit_seq n s = mkO DErr (S (length (leading s 0 n))) (map EDrop (leading s 0 n)).
Proof.
  intros n s H Hl. unfold visit_seq. rewrite H.
  pose proof (fill_spec s n 0 b_new b_ok_new) as F. cbv zeta in F.
  destruct (fill s n 0 b_new) as [[e b] k]. destruct F as (Hw & Hok & Hx).
  cbn [written b_new app] in Hw.
  destruct e.
  - destruct Hx as (Hx & _). lia.
  - destruct Hx as (_ & Hk & _). cbn [Nat.add] in Hk.
    replace (position b =? n) with false.
    + rewrite leave_err_ok by exact Hok. now rewrite Hw, Hk.
    + symmetry. apply Nat.eqb_neq. rewrite Hok, Hw. lia.
  - destruct Hx as (_ & Hk & _). cbn [Nat.add] in Hk.
    rewrite leave_err_ok by exact Hok. now rewrite Hw, Hk.
Qed.

Lemma visit_full : forall n s, hint_rejects n (hint0 s) = false ->
  length (leading s 0 n) = n ->
  visit_seq n s =
    if hint_allows_probe (hint_after s n) then
      match items s n with
      | Nothing => mkO (DOk (leading s 0 n)) (S n) []
      | _ => mkO DErr (S n) (map EDrop (leading s 0 n))
      end
    else mkO (DOk (leading s 0 n)) n [].
Proof.
  intros n s H Hl. unfold visit_seq. rewrite H.
  pose proof (fill_spec s n 0 b_new b_ok_new) as F. cbv zeta in F.
  destruct (fill s n 0 b_new) as [[e b] k]. destruct F as (Hw & Hok & Hx).
  cbn [written b_new app] in Hw.
  destruct e; try (destruct Hx as (Hx & _); lia).
  destruct Hx as (_ & Hk). cbn [Nat.add] in Hk. subst k.
  replace (position b =? n) with true by (symmetry; apply Nat.eqb_eq; rewrite Hok, Hw; exact Hl).
  destruct (hint_allows_probe (hint_after s n)).
  - destruct (items s n).
    + rewrite leave_err_ok by exact Hok. now rewrite Hw.
    + rewrite leave_err_ok by exact Hok. now rewrite Hw.
    + rewrite finish_ok by (rewrite Hw; exact Hl). now rewrite Hw.
  - rewrite finish_ok by (rewrite Hw; exact Hl). now rewrite Hw.
Qed.

Lemma hint_allows_probe_false : forall h, hint_allows_probe h = false <-> h = Some 0%Z.
Proof.
  intros h; split.
  - destruct h as [[| |]|]; cbn; congruence.
  - intros ->. reflexivity.
Qed.

Lemma hint_rejects_true : forall n h, hint_rejects n h = true <-> exists v, h = Some v /\ v <> Z.of_nat n.
Proof.
  intros n h; split.
  - destruct h as [v|]; cbn [hint_rejects]; [|discriminate].
    intros H. exists v. split; [reflexivity|]. apply negb_true_iff in H. now apply Z.eqb_neq.
  - intros (v & -> & Hv). cbn [hint_rejects]. apply negb_true_iff. now apply Z.eqb_neq.
Qed.

Lemma reads_length : forall n s, length (reads n s) <= n.
Proof.
  intros n s. unfold reads. destruct (hint_rejects n (hint0 s)); cbn [length]; [lia|].
  apply leading_length.
Qed.

(* ---- the complete description of visit_seq, from which the property theorems follow ---- *)

(* acceptance: exactly when the hint does not reject, N elements come first, and the input
   ends there (said by the hint or found by the probe) *)
Lemma accept_iff : forall n s a,
  result (deserialize n s) = DOk a <->
  hint_rejects n (hint0 s) = false /\ leading s 0 n = a /\ length a = n /\ ends_at n s.
Proof.
  intros n s a. unfold deserialize, ends_at.
  destruct (hint_rejects n (hint0 s)) eqn:H.
  - rewrite visit_hint by exact H. cbn [result]. split; [discriminate|]. intros (? & _). discriminate.
  - pose proof (leading_length s n 0) as Hle.
    destruct (Nat.eq_dec (length (leading s 0 n)) n) as [Hl|Hl].
    + rewrite visit_full by assumption.
      destruct (hint_allows_probe (hint_after s n)) eqn:Hp.
      * assert (Hn0 : hint_after s n <> Some 0%Z).
        { intro Hc. apply hint_allows_probe_false in Hc. congruence. }
        destruct (items s n) eqn:Ei; cbn [result]; split; try discriminate.
        -- intros (_ & _ & _ & [Hc|Hc]); [contradiction|discriminate].
        -- intros (_ & _ & _ & [Hc|Hc]); [contradiction|discriminate].
        -- intros Ha. injection Ha as <-. auto.
        -- intros (_ & <- & _). reflexivity.
      * apply hint_allows_probe_false in Hp. cbn [result]. split.
        -- intros Ha. injection Ha as <-. auto.
        -- intros (_ & <- & _). reflexivity.
    + rewrite visit_short by (try assumption; lia). cbn [result]. split; [discriminate|].
      intros (_ & <- & Hc & _). contradiction.
Qed.

Lemma no_ub : forall n s, result (deserialize n s) <> DUB.
Proof.
  intros n s. unfold deserialize.
  destruct (hint_rejects n (hint0 s)) eqn:H.
  - rewrite visit_hint by exact H. discriminate.
  - pose proof (leading_length s n 0) as Hle.
    destruct (Nat.eq_dec (length (leading s 0 n)) n) as [Hl|Hl].
    + rewrite visit_full by assumption.
      destruct (hint_allows_probe (hint_after s n)); [destruct (items s n)|]; discriminate.
    + rewrite visit_short by (try assumption; lia). discriminate.
Qed.

(* drops: on Err exactly the elements read, each once, in one trace; on Ok none, and the array
   is exactly the N elements read in order *)
Lemma drops_spec : forall n s,
  match result (deserialize n s) with
  | DOk a => trace (deserialize n s) = [] /\ a = reads n s /\ length a = n
  | DErr => trace (deserialize n s) = map EDrop (reads n s)
  | DUB => False
  end.
Proof.
  intros n s. unfold deserialize, reads.
  destruct (hint_rejects n (hint0 s)) eqn:H.
  - rewrite visit_hint by exact H. reflexivity.
  - pose proof (leading_length s n 0) as Hle.
    destruct (Nat.eq_dec (length (leading s 0 n)) n) as [Hl|Hl].
    + rewrite visit_full by assumption.
      destruct (hint_allows_probe (hint_after s n)); [destruct (items s n)|]; cbn [result trace]; auto.
    + rewrite visit_short by (try assumption; lia). reflexivity.
Qed.

Lemma dropped_map_EDrop : forall l o, trace o = map EDrop l -> dropped o = l.
Proof.
  intros l o H. unfold dropped. rewrite H. clear H.
  induction l as [|x l IH]; cbn [map flat_map app]; [reflexivity|]. now rewrite IH.
Qed.

Lemma count_occ_NoDup_in : forall (l : list Z) x, NoDup l -> In x l -> count_occ Z.eq_dec l x = 1.
Proof.
  intros l x Hnd Hin. pose proof (proj1 (NoDup_count_occ Z.eq_dec l) Hnd x) as H1.
  pose proof (proj1 (count_occ_In Z.eq_dec l x) Hin) as H2. lia.
Qed.

Lemma drops_exactly_once : forall n s, NoDup (reads n s) ->
  result (deserialize n s) = DErr ->
  forall x, count_occ Z.eq_dec (dropped (deserialize n s)) x = (if in_dec Z.eq_dec x (reads n s) then 1 else 0).
Proof.
  intros n s Hnd He x. pose proof (drops_spec n s) as D. rewrite He in D.
  rewrite (dropped_map_EDrop _ _ D).
  destruct (in_dec Z.eq_dec x (reads n s)) as [Hin|Hin].
  - now apply count_occ_NoDup_in.
  - now apply count_occ_not_In.
Qed.

Lemma no_drops_on_ok : forall n s a, result (deserialize n s) = DOk a ->
  dropped (deserialize n s) = [] /\ a = reads n s /\ length a = n.
Proof.
  intros n s a Ha. pose proof (drops_spec n s) as D. rewrite Ha in D.
  destruct D as (D1 & D2 & D3). unfold dropped. rewrite D1. auto.
Qed.

Lemma polls_bound : forall n s, polls (deserialize n s) <= n + 1.
Proof.
  intros n s. unfold deserialize.
  destruct (hint_rejects n (hint0 s)) eqn:H.
  - rewrite visit_hint by exact H. cbn [polls]. lia.
  - pose proof (leading_length s n 0) as Hle.
    destruct (Nat.eq_dec (length (leading s 0 n)) n) as [Hl|Hl].
    + rewrite visit_full by assumption.
      destruct (hint_allows_probe (hint_after s n)); [destruct (items s n)|]; cbn [polls]; lia.
    + rewrite visit_short by (try assumption; lia). cbn [polls]. lia.
Qed.

(* ---- rejection ---- *)

Lemma not_ok_is_err : forall n s, (forall a, result (deserialize n s) <> DOk a) ->
  result (deserialize n s) = DErr.
Proof.
  intros n s H. pose proof (no_ub n s) as U.
  destruct (result (deserialize n s)) as [a| |]; [now elim (H a)|reflexivity|contradiction].
Qed.

Lemma reject_hint : forall n s v, hint0 s = Some v -> v <> Z.of_nat n ->
  deserialize n s = mkO DErr 0 [].
Proof.
  intros n s v Hh Hv. apply visit_hint. apply hint_rejects_true. eauto.
Qed.

(* the first call that does not deliver an element is call k: *)
Definition first_non_item (s : script) (k : nat) : Prop :=
  (forall j, j < k -> exists x, items s j = Item x) /\ (forall x, items s k <> Item x).

Lemma leading_all_items : forall s fuel k,
  (forall j, j < fuel -> exists x, items s (k + j) = Item x) ->
  length (leading s k fuel) = fuel.
Proof.
  intros s; induction fuel as [|f IH]; intros k H; cbn [leading]; [reflexivity|].
  destruct (H 0 ltac:(lia)) as (x & Hx). rewrite Nat.add_0_r in Hx. rewrite Hx. cbn [length].
  f_equal. apply IH. intros j Hj. destruct (H (S j) ltac:(lia)) as (y & Hy).
  exists y. now replace (S k + j) with (k + S j) by lia.
Qed.

Lemma leading_stops : forall s fuel k m, m < fuel ->
  (forall j, j < m -> exists x, items s (k + j) = Item x) ->
  (forall x, items s (k + m) <> Item x) ->
  length (leading s k fuel) = m.
Proof.
  intros s; induction fuel as [|f IH]; intros k m Hm Hall Hstop; [lia|]. cbn [leading].
  destruct m as [|m].
  - rewrite Nat.add_0_r in Hstop. destruct (items s k) as [x| |]; [now elim (Hstop x)|reflexivity|reflexivity].
  - destruct (Hall 0 ltac:(lia)) as (x & Hx). rewrite Nat.add_0_r in Hx. rewrite Hx. cbn [length].
    f_equal. apply IH; [lia| |].
    + intros j Hj. destruct (Hall (S j) ltac:(lia)) as (y & Hy). exists y.
      now replace (S k + j) with (k + S j) by lia.
    + intros y. replace (S k + m) with (k + S m) by lia. apply Hstop.
Qed.

Lemma leading_nth : forall s fuel k j x,
  nth_error (leading s k fuel) j = Some x -> items s (k + j) = Item x.
Proof.
  intros s; induction fuel as [|f IH]; intros k j x H; cbn [leading] in H.
  - destruct j; discriminate.
  - destruct (items s k) as [y| |] eqn:E; try (destruct j; discriminate).
    destruct j as [|j]; cbn [nth_error] in H.
    + injection H as ->. now rewrite Nat.add_0_r.
    + replace (k + S j) with (S k + j) by lia. now apply IH.
Qed.

Lemma leading_eq : forall s (a : list Z) k,
  (forall j x, nth_error a j = Some x -> items s (k + j) = Item x) ->
  leading s k (length a) = a.
Proof.
  intros s; induction a as [|y a IH]; intros k H; cbn [length leading]; [reflexivity|].
  pose proof (H 0 y eq_refl) as H0. rewrite Nat.add_0_r in H0. rewrite H0. f_equal.
  apply IH. intros j x Hj. replace (S k + j) with (k + S j) by lia. now apply H.
Qed.

(* fewer than N elements (the input ends, or an element fails to parse, at call k < N):
   Err after exactly k+1 calls; exactly the k elements read are dropped *)
Lemma reject_short_or_parse : forall n s k, hint_rejects n (hint0 s) = false ->
  k < n -> first_non_item s k ->
  result (deserialize n s) = DErr /\ polls (deserialize n s) = S k /\
  length (dropped (deserialize n s)) = k /\
  (forall j x, nth_error (dropped (deserialize n s)) j = Some x -> items s j = Item x).
Proof.
  intros n s k H Hk (Hall & Hstop).
  assert (Hl : length (leading s 0 n) = k) by (apply leading_stops; auto).
  unfold deserialize. rewrite visit_short by (try assumption; lia).
  cbn [result polls]. rewrite Hl.
  rewrite (dropped_map_EDrop (leading s 0 n)) by reflexivity.
  repeat split; auto.
  intros j x Hj. apply (leading_nth s n 0 j x Hj).
Qed.

(* N elements and then something that is not "nothing" (an element, or an error), while the
   hint does not claim that nothing is left: Err after N+1 calls, the N elements read are dropped *)
Lemma reject_long : forall n s, hint_rejects n (hint0 s) = false ->
  (forall j, j < n -> exists x, items s j = Item x) ->
  items s n <> Nothing -> hint_after s n <> Some 0%Z ->
  result (deserialize n s) = DErr /\ polls (deserialize n s) = S n /\
  length (dropped (deserialize n s)) = n /\
  (forall j x, nth_error (dropped (deserialize n s)) j = Some x -> items s j = Item x).
Proof.
  intros n s H Hall Hn Hh.
  assert (Hl : length (leading s 0 n) = n) by (apply leading_all_items; exact Hall).
  unfold deserialize. rewrite visit_full by assumption.
  destruct (hint_allows_probe (hint_after s n)) eqn:Hp.
  - assert (E : (match items s n with
                 | Nothing => mkO (DOk (leading s 0 n)) (S n) []
                 | _ => mkO DErr (S n) (map EDrop (leading s 0 n)) end)
                = mkO DErr (S n) (map EDrop (leading s 0 n))).
    { destruct (items s n); try reflexivity. now elim Hn. }
    rewrite E. cbn [result polls].
    rewrite (dropped_map_EDrop (leading s 0 n)) by reflexivity.
    repeat split; auto. intros j x Hj. apply (leading_nth s n 0 j x Hj).
  - apply hint_allows_probe_false in Hp. contradiction.
Qed.

(* ---- round trip ---- *)

(* a source that delivers exactly the elements of a, in order, and then ends *)
Definition delivers (s : script) (a : list Z) : Prop :=
  (hint0 s = None \/ hint0 s = Some (zlen a)) /\
  (forall j x, nth_error a j = Some x -> items s j = Item x) /\
  ends_at (length a) s.

Lemma roundtrip_general : forall s a, delivers s a ->
  result (deserialize (length a) s) = DOk a /\ trace (deserialize (length a) s) = [] /\
  polls (deserialize (length a) s) <= S (length a).
Proof.
  intros s a (Hh & Hit & Hend).
  assert (Ha : result (deserialize (length a) s) = DOk a).
  { apply accept_iff. repeat split; auto.
    - destruct Hh as [->| ->]; cbn [hint_rejects]; [reflexivity|].
      unfold zlen. now rewrite Z.eqb_refl.
    - apply leading_eq. exact Hit. }
  split; [exact Ha|]. pose proof (drops_spec (length a) s) as D. rewrite Ha in D.
  split; [tauto|]. pose proof (polls_bound (length a) s). lia.
Qed.

Lemma script_of_list_delivers : forall a hints, delivers (script_of_list a hints) a.
Proof.
  intros a hints. unfold delivers, script_of_list, ends_at. cbn [hint0 items hint_after].
  split; [destruct hints; auto|]. split.
  - intros j x Hj. now rewrite Hj.
  - destruct hints.
    + left. unfold zlen. now rewrite Z.sub_diag.
    + right. replace (nth_error a (length a)) with (@None Z); [reflexivity|].
      symmetry. apply nth_error_None. lia.
Qed.

Lemma roundtrip : forall a hints,
  result (deserialize (length a) (script_of_tokens (serialize a) hints)) = DOk a /\
  trace (deserialize (length a) (script_of_tokens (serialize a) hints)) = [].
Proof.
  intros a hints. unfold script_of_tokens. rewrite tok_elems_serialize.
  pose proof (roundtrip_general _ _ (script_of_list_delivers a hints)). tauto.
Qed.

(* ---- non-vacuity: concrete scripts, and mutants that the theorems tell apart ---- *)

Definition ex_items (l : list item) (tail : item) : nat -> item := fun k => nth k l tail.

(* three tracked elements, a source without hints *)
Definition ex_good : script := mkScript None (ex_items [Item 10; Item 11; Item 12] Nothing) (fun _ => None).
(* the second element fails to parse *)
Definition ex_parse : script := mkScript None (ex_items [Item 10; ParseError; Item 12] Nothing) (fun _ => None).
(* one element too many, and a hint that contradicts it up front but not "nothing left" afterwards *)
Definition ex_long : script := mkScript (Some 3%Z) (ex_items [Item 10; Item 11; Item 12; Item 13] Nothing) (fun _ => Some 5%Z).
(* the excluded source: says "nothing left" while holding a fourth element *)
Definition ex_liar : script := mkScript None (ex_items [Item 10; Item 11; Item 12; Item 13] Nothing) (fun _ => Some 0%Z).

Example ex_good_ok : deserialize 3 ex_good = mkO (DOk [10; 11; 12]%Z) 4 [].
Proof. reflexivity. Qed.
Example ex_good_delivers : delivers ex_good [10; 11; 12]%Z.
Proof.
  unfold delivers, ends_at. split; [now left|]. split; [|now right].
  intros [|[|[|[|j]]]] x H; cbn in H; try discriminate; injection H as <-; reflexivity.
Qed.
Example ex_parse_err : deserialize 3 ex_parse = mkO DErr 2 [EDrop 10%Z].
Proof. reflexivity. Qed.
Example ex_parse_first : first_non_item ex_parse 1.
Proof.
  split.
  - intros j Hj. assert (j = 0) as -> by lia. now exists 10%Z.
  - intros x. discriminate.
Qed.
Example ex_long_err : deserialize 3 ex_long = mkO DErr 4 [EDrop 10%Z; EDrop 11%Z; EDrop 12%Z].
Proof. reflexivity. Qed.
Example ex_long_hyps : hint_rejects 3 (hint0 ex_long) = false /\
  (forall j, j < 3 -> exists x, items ex_long j = Item x) /\
  items ex_long 3 <> Nothing /\ hint_after ex_long 3 <> Some 0%Z.
Proof.
  split; [reflexivity|]. split; [|split; discriminate].
  intros [|[|[|j]]] Hj; try lia; cbn; eauto.
Qed.
Example ex_short_hint : deserialize 3 (mkScript (Some 2%Z) (ex_items [Item 10; Item 11] Nothing) (fun _ => None))
  = mkO DErr 0 [].
Proof. reflexivity. Qed.
(* outside the claim, and indeed accepted: the surplus is not probed *)
Example ex_liar_accepted : lies_about_end 3 ex_liar /\ deserialize 3 ex_liar = mkO (DOk [10; 11; 12]%Z) 3 [].
Proof. split; [split; [reflexivity|discriminate]|reflexivity]. Qed.

Example ex_parse_nodup : NoDup (reads 3 ex_parse) /\ result (deserialize 3 ex_parse) = DErr.
Proof. split; [|reflexivity]. cbn. constructor; [intros []|constructor]. Qed.

(* without the surplus probe the over-long input is accepted: the rejection theorem is not vacuous *)
Lemma noprobe_refuted : exists n s, hint_rejects n (hint0 s) = false /\
  (forall j, j < n -> exists x, items s j = Item x) /\
  items s n <> Nothing /\ hint_after s n <> Some 0%Z /\
  result (visit_seq_noprobe n s) <> DErr.
Proof.
  exists 3, (mkScript None (ex_items [Item 10; Item 11; Item 12; Item 13] Nothing) (fun _ => None)).
  split; [reflexivity|]. split.
  - intros [|[|[|j]]] Hj; try lia; cbn; eauto.
  - repeat split; discriminate.
Qed.

(* forgetting the builder on the short path loses the elements read: the drop theorem is not vacuous *)
Lemma leak_refuted : exists n s, result (visit_seq_leak n s) = DErr /\
  trace (visit_seq_leak n s) <> map EDrop (reads n s).
Proof.
  exists 3, (mkScript None (ex_items [Item 10; Item 11] Nothing) (fun _ => None)).
  split; [reflexivity|]. discriminate.
Qed.

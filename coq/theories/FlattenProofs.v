(* FlattenProofs.v -- proofs about Flatten.v (property C11). *)
From GA Require Import Base Mem MemProofs Views ViewsProofs Flatten.

(* ---- row-major index arithmetic ------------------------------------------- *)

Lemma rowmajor_inj N i j i' j' : j < N -> j' < N -> i * N + j = i' * N + j' -> i = i' /\ j = j'.
Proof.
  intros Hj Hj' H.
  assert (i = i').
  { destruct (Nat.lt_trichotomy i i') as [L|[E|L]]; [|exact E|]; exfalso; nia. }
  subst. split; [reflexivity|lia].
Qed.

Lemma rowmajor_lt N M i j : i < M -> j < N -> i * N + j < N * M.
Proof. intros. nia. Qed.

(* ---- owned forms ----------------------------------------------------------- *)

Lemma concat_length N M a : shape N M a -> length (concat a) = N * M.
Proof.
  intros [Hl Hf]. subst M. induction Hf as [|r a Hr Hf IH]; cbn; [lia|].
  rewrite app_length, IH, Hr. lia.
Qed.

Lemma nth_error_concat N a i j : Forall (fun r => length r = N) a -> j < N ->
  nth_error (concat a) (i * N + j) = nested_nth a i j.
Proof.
  intros Hf Hj. revert i. induction Hf as [|r a Hr Hf IH]; intros i.
  - unfold nested_nth. cbn. now destruct (i * N + j), i.
  - destruct i as [|i]; cbn [concat].
    + unfold nested_nth. cbn. rewrite nth_error_app1 by lia. reflexivity.
    + unfold nested_nth. cbn [nth_error]. rewrite nth_error_app2 by (rewrite Hr; nia).
      replace (S i * N + j - length r) with (i * N + j) by (rewrite Hr; nia). apply IH.
Qed.

(* the row i of the value is exactly the cell range [i*N, (i+1)*N) *)
Lemma cells_row N (a : list (list Z)) i r : Forall (fun r => length r = N) a -> nth_error a i = Some r ->
  range (i * N) (S i * N) (concat a) = r.
Proof.
  intros Hf. revert i. induction Hf as [|r0 a Hr Hf IH]; intros i Hi; [destruct i; discriminate|].
  destruct i as [|i]; cbn [concat].
  - injection Hi as ->. unfold range.
    replace (1 * N - 0 * N) with (length r) by lia. replace (0 * N) with 0 by lia.
    cbn [skipn]. rewrite firstn_app, Nat.sub_diag, firstn_all. cbn [firstn]. apply app_nil_r.
  - cbn [nth_error] in Hi.
    assert (E : skipn (S i * N) (r0 ++ concat a) = skipn (i * N) (concat a)).
    { rewrite skipn_app. rewrite skipn_all2 by (rewrite Hr; lia). cbn [app]. f_equal. rewrite Hr. lia. }
    unfold range. rewrite E. replace (S (S i) * N - S i * N) with (S i * N - i * N) by lia.
    apply (IH i Hi).
Qed.

Lemma chunks_concat N a : Forall (fun r => length r = N) a -> chunks N (length a) (concat a) = a.
Proof.
  intros Hf. induction Hf as [|r a Hr Hf IH]; [reflexivity|].
  cbn [length chunks concat]. rewrite <- Hr at 1 3.
  rewrite firstn_app, Nat.sub_diag, firstn_all. cbn [firstn]. rewrite app_nil_r.
  rewrite skipn_app, skipn_all, Nat.sub_diag. cbn [skipn app]. now rewrite IH.
Qed.

Lemma concat_chunks N Q b : concat (chunks N Q b) = firstn (Q * N) b.
Proof.
  revert b; induction Q as [|Q IH]; intros b; [reflexivity|].
  cbn [chunks concat]. rewrite IH. cbn [Nat.mul]. now rewrite firstn_add_skip.
Qed.

Lemma chunks_shape N Q b : Q * N <= length b -> shape N Q (chunks N Q b).
Proof.
  revert b; induction Q as [|Q IH]; intros b Hb; [split; [reflexivity|constructor]|].
  cbn [chunks]. destruct (IH (skipn N b)) as [Hl Hf]; [rewrite skipn_length; lia|].
  split; [cbn; now rewrite Hl|]. constructor; [|exact Hf]. rewrite firstn_length. lia.
Qed.

Lemma quot_prod N M : 0 < N -> quot_len (prod_len N M) N = M.
Proof. intros H. unfold quot_len, prod_len. rewrite Nat.mul_comm. apply Nat.div_mul. lia. Qed.

Lemma quot_exact NM N : 0 < N -> NM mod N = 0 -> quot_len NM N * N = NM.
Proof.
  intros H Hm. unfold quot_len. pose proof (Nat.div_mod NM N ltac:(lia)). nia.
Qed.

(* C11: flatten *)
Theorem flatten_spec : forall s N M a, shape N M a ->
  exists f, flatten_owned s N M a = Ret f /\ length f = N * M /\
    (forall i j, j < N -> nth_error f (i * N + j) = nested_nth a i j) /\
    (forall i r, nth_error a i = Some r -> range (i * N) (S i * N) f = r).
Proof.
  intros s N M a Hs. exists (concat a). split; [|split; [|split]].
  - unfold flatten_owned, prod_len, cells_of_nested. apply const_transmute_eq. lia.
  - now apply concat_length.
  - intros i j Hj. apply nth_error_concat; [apply Hs|exact Hj].
  - intros i r Hi. apply cells_row; [apply Hs|exact Hi].
Qed.

(* unflatten is the exact inverse of flatten *)
Theorem unflatten_flatten : forall s N M a, shape N M a -> 0 < N ->
  rbind (flatten_owned s N M a) (unflatten_owned s (prod_len N M) N) = Ret a.
Proof.
  intros s N M a Hs HN. destruct (flatten_spec s N M a Hs) as (f & Hf & _).
  assert (Ef : f = concat a).
  { unfold flatten_owned in Hf. rewrite const_transmute_eq in Hf by (unfold prod_len; lia).
    now injection Hf as <-. }
  rewrite Hf. cbn [rbind]. unfold unflatten_owned. rewrite quot_prod by exact HN.
  rewrite const_transmute_eq by (unfold prod_len; lia). cbn [rbind].
  unfold nested_of_cells. subst f. destruct Hs as [Hl Hfa]. subst M. now rewrite chunks_concat.
Qed.

Theorem flatten_unflatten : forall s NM N b, length b = NM -> 0 < N -> NM mod N = 0 ->
  exists a, unflatten_owned s NM N b = Ret a /\ shape N (quot_len NM N) a /\
    flatten_owned s N (quot_len NM N) a = Ret b /\
    (forall i j, j < N -> nested_nth a i j = nth_error b (i * N + j)).
Proof.
  intros s NM N b Hb HN Hm. pose proof (quot_exact NM N HN Hm) as HQ.
  exists (chunks N (quot_len NM N) b).
  assert (Hsh : shape N (quot_len NM N) (chunks N (quot_len NM N) b)) by (apply chunks_shape; lia).
  assert (Hc : concat (chunks N (quot_len NM N) b) = b).
  { rewrite concat_chunks, HQ, <- Hb. apply firstn_all. }
  split; [|split; [exact Hsh|split]].
  - unfold unflatten_owned. rewrite const_transmute_eq by nia. reflexivity.
  - unfold flatten_owned, cells_of_nested, prod_len. rewrite Hc. apply const_transmute_eq. lia.
  - intros i j Hj. rewrite <- Hc at 2. symmetry. apply nth_error_concat; [apply Hsh|exact Hj].
Qed.

(* ---- outside the documented domain (NOT part of C11): N does not divide NM --- *)

(* sized elements: the size test of const_transmute differs and the owned form panics *)
Lemma unflatten_uneven_sized s NM N b : 0 < s -> 0 < N -> NM mod N <> 0 ->
  unflatten_owned s NM N b = Panicked.
Proof.
  intros Hs HN Hm. unfold unflatten_owned. rewrite const_transmute_ne; [reflexivity|].
  unfold quot_len. pose proof (Nat.div_mod NM N ltac:(lia)). nia.
Qed.

(* zero-sized elements: both sizes are 0, the test passes and the result holds only
   the first (NM / N) * N elements: the last NM mod N elements are forgotten *)
Lemma unflatten_uneven_zst NM N b : length b = NM ->
  exists a, unflatten_owned 0 NM N b = Ret a /\ concat a = firstn (quot_len NM N * N) b.
Proof.
  intros Hb. exists (chunks N (quot_len NM N) b). split.
  - unfold unflatten_owned. rewrite const_transmute_eq by lia. reflexivity.
  - apply concat_chunks.
Qed.

(* the reference forms then give a view that is shorter than the source, never longer *)
Lemma unflatten_ref_uneven_extent NM N p : 0 < N ->
  nref_extent (unflatten_ref NM N p) = NM - NM mod N /\ nref_extent (unflatten_ref NM N p) <= NM.
Proof.
  intros HN. unfold nref_extent, unflatten_ref, quot_len. cbn.
  pose proof (Nat.div_mod NM N ltac:(lia)). pose proof (Nat.mod_upper_bound NM N ltac:(lia)). nia.
Qed.

(* ---- reference forms ------------------------------------------------------- *)

Lemma nested_ptr_spec r i j :
  nested_ptr r i j =
  if (i <? nouter r) && (j <? ninner r) then Ret (padd (nptr r) (i * ninner r + j)) else Panicked.
Proof.
  unfold nested_ptr, outer_elem. destruct (i <? nouter r); cbn [rbind andb]; [|reflexivity].
  unfold elem_ptr, as_slice. cbn [slen sptr]. destruct (j <? ninner r); [|reflexivity].
  now rewrite padd_arr_padd.
Qed.

Lemma nested_ptr_in r i j : i < nouter r -> j < ninner r ->
  nested_ptr r i j = Ret (padd (nptr r) (i * ninner r + j)).
Proof.
  intros Hi Hj. rewrite nested_ptr_spec. apply Nat.ltb_lt in Hi, Hj. now rewrite Hi, Hj.
Qed.

(* flatten on references: same base, length N*M, same total extent, leaf (i,j) of
   the source is element i*N+j of the result (pointer identity) and every element
   of the result is such a leaf *)
Theorem flatten_ref_spec : forall N M self,
  let src := mknref self N M in
  aptr (flatten_ref N M self) = self /\ aptr (flatten_mut N M self) = self /\
  alen (flatten_ref N M self) = N * M /\ alen (flatten_mut N M self) = N * M /\
  aref_extent (flatten_ref N M self) = nref_extent src /\
  (forall i j, i < M -> j < N ->
     nested_ptr src i j = elem_ptr (aref_slice (flatten_ref N M self)) (i * N + j) /\
     nested_ptr src i j = Ret (padd self (i * N + j))) /\
  (forall k, k < N * M -> 0 < N /\ k = (k / N) * N + k mod N /\ k / N < M /\ k mod N < N).
Proof.
  intros N M self src.
  split; [reflexivity|]. split; [reflexivity|]. split; [reflexivity|]. split; [reflexivity|].
  split; [unfold aref_extent, nref_extent, flatten_ref, prod_len; cbn [alen nouter ninner src]; lia|].
  split.
  - intros i j Hi Hj. rewrite (nested_ptr_in src i j) by assumption.
    split; [|reflexivity]. unfold elem_ptr, aref_slice, as_slice, flatten_ref, prod_len.
    cbn [slen sptr alen aptr src nptr ninner].
    pose proof (rowmajor_lt N M i j Hi Hj) as L. apply Nat.ltb_lt in L. now rewrite L.
  - intros k Hk. assert (HN : 0 < N) by (destruct N; lia).
    split; [exact HN|]. split; [|split].
    + pose proof (Nat.div_mod k N ltac:(lia)). lia.
    + apply Nat.div_lt_upper_bound; lia.
    + apply Nat.mod_upper_bound. lia.
Qed.

Theorem unflatten_ref_spec : forall NM N self, 0 < N -> NM mod N = 0 ->
  let dst := unflatten_ref NM N self in
  nptr dst = self /\ ninner dst = N /\ nouter dst = NM / N /\
  unflatten_mut NM N self = dst /\
  nref_extent dst = NM /\
  (forall i j, i < NM / N -> j < N ->
     nested_ptr dst i j = elem_ptr (as_slice NM self) (i * N + j) /\
     nested_ptr dst i j = Ret (padd self (i * N + j))) /\
  (forall k, k < NM -> k = (k / N) * N + k mod N /\ k / N < NM / N /\ k mod N < N).
Proof.
  intros NM N self HN Hm dst. pose proof (quot_exact NM N HN Hm) as HQ. unfold quot_len in HQ.
  split; [reflexivity|]. split; [reflexivity|]. split; [reflexivity|]. split; [reflexivity|].
  split; [unfold nref_extent, dst, unflatten_ref, quot_len; cbn [nouter ninner]; exact HQ|].
  split.
  - intros i j Hi Hj.
    assert (E : nested_ptr dst i j = Ret (padd self (i * N + j))).
    { apply (nested_ptr_in dst i j); unfold dst, unflatten_ref, quot_len; cbn [nouter ninner]; assumption. }
    rewrite E. split; [|reflexivity]. unfold elem_ptr, as_slice. cbn [slen sptr].
    assert (L : i * N + j < NM) by nia. apply Nat.ltb_lt in L. now rewrite L.
  - intros k Hk. split; [|split].
    + pose proof (Nat.div_mod k N ltac:(lia)). lia.
    + apply Nat.div_lt_upper_bound; lia.
    + apply Nat.mod_upper_bound. lia.
Qed.

(* a valid nested reference is a valid flat reference to the row-major cell list, and back *)
Theorem flatten_ref_valid : forall N M self m a,
  valid_nested m (mknref self N M) a ->
  valid_ref m (aptr (flatten_ref N M self)) (alen (flatten_ref N M self)) (concat a).
Proof.
  intros N M self m a [Hs Hh]. cbn in *. split; [|exact Hh].
  unfold prod_len. now apply concat_length.
Qed.

Theorem unflatten_ref_valid : forall NM N self m b, 0 < N -> NM mod N = 0 ->
  valid_ref m self NM b ->
  valid_nested m (unflatten_ref NM N self) (chunks N (NM / N) b) /\
  concat (chunks N (NM / N) b) = b.
Proof.
  intros NM N self m b HN Hm [Hl Hh]. pose proof (quot_exact NM N HN Hm) as HQ. unfold quot_len in HQ.
  assert (Hc : concat (chunks N (NM / N) b) = b).
  { rewrite concat_chunks, HQ, <- Hl. apply firstn_all. }
  split; [|exact Hc]. split; cbn.
  - apply chunks_shape. lia.
  - unfold cells_of_nested, quot_len. now rewrite Hc.
Qed.

(* reading a leaf through the nested reference = reading the row-major cell *)
Lemma nested_get_spec m r a i j : valid_nested m r a -> i < nouter r -> j < ninner r ->
  nested_get m r i j = match nested_nth a i j with Some x => Ret x | None => UB end /\
  exists x, nested_nth a i j = Some x.
Proof.
  intros [[Hl Hf] Hh] Hi Hj. unfold nested_get. rewrite nested_ptr_in by assumption. cbn [rbind].
  destruct (nth_error_Some_lt a i) as [row Hrow]; [lia|].
  assert (Hlr : length row = ninner r).
  { rewrite Forall_forall in Hf. apply Hf. eapply nth_error_In; eauto. }
  destruct (nth_error_Some_lt row j) as [x Hx]; [lia|].
  assert (E : nested_nth a i j = Some x) by (unfold nested_nth; now rewrite Hrow).
  rewrite E. split; [|eauto]. apply Hh. unfold cells_of_nested.
  rewrite (nth_error_concat (ninner r)) by assumption. exact E.
Qed.

(* write-through, both directions, stated once over the two views of the same N*M cells:
   [nr] the nested reference, [fl] the flat one *)
Theorem regroup_write_through : forall N M self m a i j v,
  let nr := mknref self N M in
  let fl := aref_slice (flatten_mut N M self) in
  valid_nested m nr a -> i < M -> j < N ->
  exists m',
    (* the write through the flat view and through the nested view are the same write *)
    view_set m fl (i * N + j) v = Ret m' /\ nested_set m nr i j v = Ret m' /\
    (* read back through both *)
    (forall i' j', i' < M -> j' < N ->
       nested_get m' nr i' j' = if (i' =? i) && (j' =? j) then Ret v else nested_get m nr i' j') /\
    (forall k, view_get m' fl k = if k =? i * N + j then Ret v else view_get m fl k) /\
    (* nothing else changes *)
    (forall q, q <> padd self (i * N + j) -> cell_at m' q = cell_at m q).
Proof.
  intros N M self m a i j v nr fl Hv Hi Hj.
  pose proof (flatten_ref_valid N M self m a Hv) as Hflat. cbn in Hflat.
  pose proof (rowmajor_lt N M i j Hi Hj) as Hk.
  destruct (write_through KAsMutSlice KAsSlice (prod_len N M) self m (concat a) (i * N + j) v Hflat Hk)
    as (m' & Hw & Hv' & Hr & Hfr).
  exists m'. split; [exact Hw|]. split; [|split; [|split]].
  - unfold nested_set. rewrite (nested_ptr_in nr i j) by (cbn; assumption). cbn [rbind ninner nptr nr].
    unfold view_set in Hw. rewrite elem_ptr_view in Hw. unfold prod_len in Hw.
    apply Nat.ltb_lt in Hk. rewrite Hk in Hw. exact Hw.
  - intros i' j' Hi' Hj'. unfold nested_get.
    rewrite (nested_ptr_in nr i' j') by (cbn; assumption). cbn [rbind ninner nptr nr].
    pose proof (rowmajor_lt N M i' j' Hi' Hj') as Hk'.
    specialize (Hr (i' * N + j')). unfold view_get in Hr. rewrite elem_ptr_view in Hr.
    unfold prod_len in Hr. apply Nat.ltb_lt in Hk'. rewrite Hk' in Hr.
    cbn [rbind] in Hr. rewrite Hr.
    destruct (i' * N + j' =? i * N + j) eqn:E.
    + apply Nat.eqb_eq in E. destruct (rowmajor_inj N i' j' i j Hj' Hj E) as [-> ->].
      now rewrite !Nat.eqb_refl.
    + apply Nat.eqb_neq in E. destruct ((i' =? i) && (j' =? j)) eqn:E2; [|reflexivity].
      apply andb_true_iff in E2. destruct E2 as [E2 E3]. apply Nat.eqb_eq in E2, E3. subst. lia.
  - exact Hr.
  - exact Hfr.
Qed.

Example flatten_nontrivial :
  shape 2 3 [[1;2];[3;4];[5;6]]%Z /\
  flatten_owned 4 2 3 [[1;2];[3;4];[5;6]]%Z = Ret [1;2;3;4;5;6]%Z /\
  unflatten_owned 4 6 2 [1;2;3;4;5;6]%Z = Ret [[1;2];[3;4];[5;6]]%Z /\
  unflatten_owned 4 5 2 [1;2;3;4;5]%Z = Panicked.
Proof. repeat split; repeat constructor. Qed.

Example regroup_nontrivial :
  valid_nested [map Init [9;1;2;3;4;5;6]%Z] (mknref (mkptr 0 1) 2 3) [[1;2];[3;4];[5;6]]%Z.
Proof.
  split; [repeat constructor|]. cbn [nptr cells_of_nested concat app].
  apply (holds_init_block [9;1;2;3;4;5;6]%Z 1). cbn. lia.
Qed.

(* ---- the statements discriminate ------------------------------------------- *)

(* a reference impl whose Output length is N + M instead of N * M yields a view with another
   extent, reaching past the source *)
Lemma flatten_ref_sum_refuted : exists N M self m a,
  valid_nested m (mknref self N M) a /\
  aref_extent (flatten_ref_sum N M self) <> nref_extent (mknref self N M) /\
  ~ exists b, valid_ref m (aptr (flatten_ref_sum N M self)) (alen (flatten_ref_sum N M self)) b.
Proof.
  exists 1, 1, (mkptr 0 0), [[Init 5%Z]], [[5%Z]]. split; [|split].
  - split; [repeat constructor|]. intros [|i] x Hx; cbn in Hx; [|destruct i; discriminate].
    injection Hx as <-. reflexivity.
  - cbn. lia.
  - intros ([|x [|y b]] & Hl & Hh); cbn in Hl; try discriminate.
    specialize (Hh 1 y eq_refl). discriminate.
Qed.

(* in an owned form the size test of const_transmute passes exactly for the right length
   (sized elements): a wrong length expression there panics instead of regrouping *)
Lemma owned_size_test s N M K (x : list Z) : 0 < s ->
  (const_transmute (M * (N * s)) (K * s) x = Ret x <-> K = N * M) /\
  (K <> N * M -> const_transmute (M * (N * s)) (K * s) x = Panicked).
Proof.
  intros Hs. split; [split|].
  - intros H. destruct (Nat.eq_dec (M * (N * s)) (K * s)) as [E|E]; [nia|].
    rewrite const_transmute_ne in H by exact E. discriminate.
  - intros ->. apply const_transmute_eq. lia.
  - intros H. apply const_transmute_ne. nia.
Qed.

(* the &mut unflatten direction spelled out: a write of leaf (i, j) through the regrouped
   nested view is seen at flat index i*N + j of the original and nowhere else *)
Theorem unflatten_write_through : forall NM N self m b i j v,
  0 < N -> NM mod N = 0 -> valid_ref m self NM b -> i < NM / N -> j < N ->
  exists m',
    nested_set m (unflatten_mut NM N self) i j v = Ret m' /\
    nested_get m' (unflatten_mut NM N self) i j = Ret v /\
    (forall k, view_get m' (as_slice NM self) k =
               if k =? i * N + j then Ret v else view_get m (as_slice NM self) k) /\
    (forall q, q <> padd self (i * N + j) -> cell_at m' q = cell_at m q).
Proof.
  intros NM N self m b i j v HN Hm Hv Hi Hj.
  pose proof (quot_exact NM N HN Hm) as HQ. unfold quot_len in HQ.
  destruct (unflatten_ref_valid NM N self m b HN Hm Hv) as [Hn _].
  destruct (regroup_write_through N (NM / N) self m (chunks N (NM / N) b) i j v Hn Hi Hj)
    as (m' & Hw & Hs & Hr & Hf & Hfr).
  assert (E : aref_slice (flatten_mut N (NM / N) self) = as_slice NM self).
  { unfold aref_slice, flatten_mut, prod_len. cbn [alen aptr]. f_equal. lia. }
  rewrite E in Hf. exists m'. split; [exact Hs|]. split; [|split; [exact Hf|exact Hfr]].
  specialize (Hr i j Hi Hj). rewrite !Nat.eqb_refl in Hr. exact Hr.
Qed.

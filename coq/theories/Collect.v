(* Collect.v -- a small language for the collecting functions: IntrusiveArrayBuilder::extend
   (src/internal.rs), GenericArray::try_from_iter (src/lib.rs) and
   GenericArray::try_boxed_from_iter (src/impl_alloc.rs), the target of tools/ga2coq
   (coq/gen/GenCollect.v), and its interpreter over a scripted source (Builder.src).
   Definitions only.

   A function is a list of steps in source order: the size-hint arms that return Err, the
   fill (builder.extend -- whose own body is a regenerated loop: which of destination and source
   the zip polls first, and the closure statement by statement -- or Vec::extend over take(N)),
   the `if .. { return Err }` with its short-circuit condition, and the successful ending.
   The interpreter polls the script exactly when the code polls the source, keeps the
   builder's position and what has been written, and on every exit runs what the destructors
   do: the builder drops ..position of what was written, the Vec its items, a polled item
   that nobody took is dropped on the spot. *)
From Coq Require Import String.
From GA Require Import Base Builder Pipe.
Local Open Scope string_scope.

(* `(n, _) if n > N => return Err`  /  `(_, Some(n)) if n < N => return Err` *)
Inductive hint_arm : Type := HLoGt | HHiLt.

Inductive ccond : Type :=
| CNotFull                (* !builder.is_full() *)
| CLenNe                  (* v.len() != N::USIZE *)
| CNextIsSome             (* iter.next().is_some() *)
| COrElse (a b : ccond).  (* a || b, b evaluated only if a is false *)

(* the loop of extend: destination.zip(source).for_each(|(dst, src)| { body }) *)
Record extend_loop : Type := mkExtend {
  x_dest_first : bool;            (* destination.zip(source): the slot is taken before the source is polled *)
  x_dst : string; x_src : string; x_pos : string;
  x_body : list cst
}.

Inductive cstep : Type :=
| SHintReject (arms : list hint_arm)
| SBuilderExtend                      (* builder.extend(&mut iter): the regenerated extend loop *)
| SVecExtendTake                      (* v = Vec::with_capacity(N); v.extend((&mut iter).take(N)) *)
| SErrIf (c : ccond)
| SFinishOk                           (* builder.finish(); Ok(array_assume_init(array)) *)
| SFromVecOk.                         (* Ok(GenericArray::try_from_vec(v).unwrap()) *)

(* ------------------------------------------------------------------ interpretation *)

Record cstate : Type := mkC {
  k_polls : nat;            (* next() calls made so far *)
  k_written : list Z;       (* slots written / items pushed, in order *)
  k_pos : nat;              (* the builder's position (for the Vec: its length) *)
  k_ev : list ev
}.

Inductive cres : Type :=
| KGo (s : cstate)
| KDone (o : outcome) (s : cstate)
| KStuck.

Section Run.
  Variable N : nat.
  Variable Sc : src.
  Variable X : extend_loop.

  (* the closure body on one (slot, item): the item is written into the slot by dst.write(src),
     the position advanced by `*position += 1`; an item not written is dropped when the closure
     returns *)
  Fixpoint exec_extend_body (b : list cst) (y : Z) (held : bool) (st : cstate) : option cstate :=
    match b with
    | [] => Some (if held then mkC (k_polls st) (k_written st) (k_pos st) (k_ev st ++ [EDrop y]) else st)
    | CWrite d (XAtom (AVar v)) :: r =>
      if String.eqb d (x_dst X) && String.eqb v (x_src X) && held
      then exec_extend_body r y false (mkC (k_polls st) (k_written st ++ [y]) (k_pos st) (k_ev st))
      else None
    | CBump p :: r =>
      if String.eqb p (x_pos X)
      then exec_extend_body r y held (mkC (k_polls st) (k_written st) (S (k_pos st)) (k_ev st))
      else None
    | _ => None
    end.

  (* [n] = destination slots not yet visited *)
  Fixpoint extend_run (n : nat) (st : cstate) : fillres * option cstate :=
    let poll (st : cstate) (k : Z -> fillres * option cstate) (stop_none stop_panic : cstate -> fillres * option cstate) :=
        let st' := mkC (S (k_polls st)) (k_written st) (k_pos st) (k_ev st) in
        match resp Sc (k_polls st) with
        | Item y => k y
        | End => stop_none st'
        | PanicNow => stop_panic st'
        end in
    match n with
    | O =>
      if x_dest_first X then (FFull, Some st)
      else
        (* source.zip(destination): the source is polled although no slot is left; an item
           obtained that way is dropped by Zip *)
        poll st (fun y => (FFull, Some (mkC (S (k_polls st)) (k_written st) (k_pos st) (k_ev st ++ [EDrop y]))))
             (fun st' => (FFull, Some st')) (fun st' => (FPanicked, Some st'))
    | S n' =>
      poll st
        (fun y =>
           match exec_extend_body (x_body X) y true (mkC (S (k_polls st)) (k_written st) (k_pos st) (k_ev st)) with
           | Some st' => extend_run n' st'
           | None => (FEnded, None)
           end)
        (fun st' => (FEnded, Some st')) (fun st' => (FPanicked, Some st'))
    end.

  (* Vec::extend over Take: at most N items, stops at the first None; the Vec owns what it holds *)
  Fixpoint vec_extend_take (n : nat) (st : cstate) : fillres * cstate :=
    match n with
    | O => (FFull, st)
    | S n' =>
      let st1 := mkC (S (k_polls st)) (k_written st) (k_pos st) (k_ev st) in
      match resp Sc (k_polls st) with
      | Item y => vec_extend_take n' (mkC (S (k_polls st)) (k_written st ++ [y]) (S (k_pos st)) (k_ev st))
      | End => (FEnded, st1)
      | PanicNow => (FPanicked, st1)
      end
    end.

  (* the owner of the written items releases them: the builder ..position, the Vec all *)
  Definition release (st : cstate) : cstate :=
    mkC (k_polls st) (k_written st) (k_pos st) (k_ev st ++ map EDrop (firstn (k_pos st) (k_written st))).

  Inductive cval : Type := CTrue (st : cstate) | CFalse (st : cstate) | CPanic (st : cstate).

  Fixpoint ceval (c : ccond) (st : cstate) : cval :=
    match c with
    | CNotFull | CLenNe => if Nat.eqb (k_pos st) N then CFalse st else CTrue st
    | CNextIsSome =>
      let st' := mkC (S (k_polls st)) (k_written st) (k_pos st) (k_ev st) in
      match resp Sc (k_polls st) with
      | Item y => CTrue (mkC (S (k_polls st)) (k_written st) (k_pos st) (k_ev st ++ [EDrop y]))
      | End => CFalse st'
      | PanicNow => CPanic st'
      end
    | COrElse a b =>
      match ceval a st with
      | CTrue st' => CTrue st'
      | CFalse st' => ceval b st'
      | CPanic st' => CPanic st'
      end
    end.

  Definition hint_rejects (arms : list hint_arm) : bool :=
    existsb (fun a => match a with
                      | HLoGt => (Z.of_nat N <? hint_lo Sc)%Z
                      | HHiLt => match hint_hi Sc with Some u => (u <? Z.of_nat N)%Z | None => false end
                      end) arms.

  Definition exec_step (s : cstep) (st : cstate) : cres :=
    match s with
    | SHintReject arms => if hint_rejects arms then KDone Err st else KGo st
    | SBuilderExtend =>
      match extend_run N st with
      | (FPanicked, Some st') => KDone Panic (release st')
      | (_, Some st') => KGo st'
      | (_, None) => KStuck
      end
    | SVecExtendTake =>
      match vec_extend_take N st with
      | (FPanicked, st') => KDone Panic (release st')
      | (_, st') => KGo st'
      end
    | SErrIf c =>
      match ceval c st with
      | CTrue st' => KDone Err (release st')
      | CFalse st' => KGo st'
      | CPanic st' => KDone Panic (release st')
      end
    | SFinishOk | SFromVecOk => KDone (Ok (firstn (k_pos st) (k_written st))) st
    end.

  Fixpoint exec_steps (l : list cstep) (st : cstate) : cres :=
    match l with
    | [] => KStuck
    | s :: r => match exec_step s st with KGo st' => exec_steps r st' | other => other end
    end.

  Definition run_collect (l : list cstep) : option (outcome * list ev * nat) :=
    match exec_steps l (mkC 0 [] 0 []) with
    | KDone o st => Some (o, k_ev st, k_polls st)
    | _ => None
    end.
End Run.

(* Macros.v -- hub model for C20: what an invocation of arr! / box_arr! (src/arr.rs)
   denotes.  Definitions only.

   Three layers:
   1. a small term AST for macro transcribers (the right-hand sides of the
      macro_rules! arms) with metavariable occurrences and `$( ... ),*` repetition,
      matcher shapes, and [expand1] = first matching arm + substitution;
      nested macro calls (box_arr_helper!) are expanded by [resolve] under rustc's
      recursion limit;
   2. an evaluation semantics with an effect log for the few Rust forms that
      occur in the transcribers (calls and array / vec! literals evaluate their
      operands left to right, [x; n] and vec![x; n] evaluate x once, const items
      and array lengths are evaluated at compile time without effects);
   3. hub functions for the crate code the transcribers call: from_array,
      const_transmute (src/lib.rs), try_from_vec (src/impl_alloc.rs),
      __from_vec_helper (src/arr.rs).

   The caller's element expressions are OPAQUE: [User tag v c] logs [tag] when it
   is evaluated at run time and yields the value [v]; [c] says whether it is a
   constant expression (usable at compile time, where nothing is logged).

   Trusted, exercised by the correspondence: macro_rules! fragment parsing and
   hygiene, Rust's evaluation order as stated here, vec!'s clone count,
   typenum's Const<N> table ([csup]). *)
From GA Require Import Base.
Local Open Scope Z_scope.

(* ---------------------------------------------------------------- names *)
Inductive mvar := MVx | MVN | MVn | MVe.                  (* $x $N $n $e *)
Inductive fname :=
| FFromArray          (* $crate::GenericArray::from_array *)
| FConstTransmute     (* $crate::const_transmute *)
| FTryFromVec         (* $crate::GenericArray::<_, TY>::try_from_vec *)
| FFromVecHelper      (* $crate::GenericArray::__from_vec_helper *)
| FLocal.             (* the fn item declared by the enclosing LocalFn: __do_transmute *)
Inductive cname := CInputLength | CLen.                   (* __INPUT_LENGTH, __LEN *)
Inductive mname := MArr | MBoxArr | MBoxArrHelper.

Definition mvar_eqb (a b : mvar) : bool :=
  match a, b with MVx, MVx | MVN, MVN | MVn, MVn | MVe, MVe => true | _, _ => false end.
Definition cname_eqb (a b : cname) : bool :=
  match a, b with CInputLength, CInputLength | CLen, CLen => true | _, _ => false end.

(* ---------------------------------------------------------------- terms *)
Inductive term :=
(* what the caller writes *)
| User (tag v : Z) (c : bool)      (* an opaque expression *)
| TyLen (k : Z)                    (* a type-level length with <_ as Unsigned>::USIZE = k *)
| ConstPath (k : Z)                (* a path naming a `const _: usize = k` item: it parses as a
                                      type AND as an expression *)
| CfgOut (t : term)                (* #[cfg(any())] t : an expression fragment whose attribute compiles it OUT of
                                      the list position it ends up in (array / vec! literal elements) *)
(* what the transcribers are made of *)
| MV (x : mvar)                    (* $x at the current repetition depth *)
| Usize (ty : term)                (* <ty as $crate::typenum::Unsigned>::USIZE *)
| ConstLen (n : term)              (* the TYPE <Const<n> as IntoArrayLength>::ArrayLength *)
| TyParamN                         (* the type parameter N of the local fn *)
| CRef (c : cname)                 (* use of a local const item *)
| Param                            (* the parameter `arr` of the local fn *)
| UnitLit                          (* () *)
| Call (f : fname) (ty : option term) (args : tseq)   (* f::<_, ty>(args) *)
| ArrayLit (s : tseq)               (* [a, b, ...] *)
| VecLit (s : tseq)                 (* $crate::alloc::vec![a, b, ...] *)
| ArrayRepeat (x n : term)         (* [x; n] *)
| VecRepeat (x n : term)           (* $crate::alloc::vec![x; n] *)
| ConstItem (c : cname) (init body : term)            (* { const c: usize = init; body } *)
| LocalFn (isconst : bool) (plen fbody body : term)
     (* { [const] fn __do_transmute<T, N: ArrayLength>(arr: [T; plen]) -> GenericArray<T, N>
            { fbody }   body } *)
| Unwrap (t : term)                (* t.unwrap() *)
| UnsafeBlk (t : term)             (* unsafe { t }: transparent for evaluation; what matters is WHAT is inside *)
| MacroCall (m : mname) (kw : Z) (s : tseq)            (* $crate::m!(@kw s); kw = 0: no keyword *)
with tseq :=
| SNil
| SCons (t : term) (r : tseq)
| SRep (x : mvar) (body : term) (r : tseq).            (* $( body ),*  driven by $x, then r *)

Fixpoint seq_of (l : list term) : tseq :=
  match l with [] => SNil | t :: r => SCons t (seq_of r) end.

Fixpoint seq_app (a b : tseq) : tseq :=
  match a with
  | SNil => b
  | SCons t r => SCons t (seq_app r b)
  | SRep x body r => SRep x body (seq_app r b)
  end.

Fixpoint seq_len (s : tseq) : nat :=
  match s with SNil => O | SCons _ r => S (seq_len r) | SRep _ _ r => S (seq_len r) end.

(* ---------------------------------------------------------------- matching *)
Inductive fragspec := FSExpr | FSTy.
Inductive matcher :=
| MSepList (x : mvar) (fs : fragspec)                          (* $($x:fs),* $(,)* *)
| MSemi (x : mvar) (fx : fragspec) (y : mvar) (fy : fragspec)  (* $x:fx ; $y:fy *)
| MAt (kw : Z) (x : mvar) (fs : fragspec).                     (* @kw $x:fs *)

(* the token shape of an invocation *)
Inductive input :=
| InList (es : list term) (trailing : nat)   (* e0, e1, ..., ek  followed by [trailing] commas *)
| InSemi (x r : term)                        (* x ; r *)
| InAt (kw : Z) (e : term).                  (* @kw e *)

(* does the fragment parser accept the tokens of [t] as this kind of fragment?
   (a type is not an expression; a path is both; rustc commits to the first arm
   whose fragments PARSE, it does not look at what the path resolves to) *)
Definition parses_as (fs : fragspec) (t : term) : bool :=
  match fs, t with
  | FSExpr, TyLen _ => false
  | FSExpr, _ => true
  | FSTy, TyLen _ => true
  | FSTy, ConstPath _ => true
  | FSTy, _ => false
  end.

Inductive binding := One (t : term) | Many (ts : list term).
Definition bind := mvar -> option binding.
Definition no_bind : bind := fun _ => None.
Definition upd_bind (b : bind) (x : mvar) (v : binding) : bind :=
  fun y => if mvar_eqb x y then Some v else b y.

Definition match_arm (m : matcher) (i : input) : option bind :=
  match m, i with
  | MSepList x fs, InList es _ =>
      if forallb (parses_as fs) es then Some (upd_bind no_bind x (Many es)) else None
  | MSemi x fx y fy, InSemi ex ey =>
      if parses_as fx ex && parses_as fy ey
      then Some (upd_bind (upd_bind no_bind x (One ex)) y (One ey)) else None
  | MAt kw x fs, InAt kw' e =>
      if (kw =? kw') && parses_as fs e then Some (upd_bind no_bind x (One e)) else None
  | _, _ => None
  end.

(* ---------------------------------------------------------------- transcription *)
(* Substitution is total: a metavariable that is unbound or used at the wrong
   depth stays in place and is a compile error when evaluated.  The substituted
   fragment is not traversed again (an expr fragment is opaque to the macro). *)
Fixpoint subst (b : bind) (t : term) : term :=
  match t with
  | MV x => match b x with Some (One e) => e | _ => MV x end
  | Usize ty => Usize (subst b ty)
  | ConstLen n => ConstLen (subst b n)
  | Call f ty s =>
      Call f (match ty with Some u => Some (subst b u) | None => None end) (subst_seq b s)
  | ArrayLit s => ArrayLit (subst_seq b s)
  | VecLit s => VecLit (subst_seq b s)
  | ArrayRepeat x n => ArrayRepeat (subst b x) (subst b n)
  | VecRepeat x n => VecRepeat (subst b x) (subst b n)
  | ConstItem c i body => ConstItem c (subst b i) (subst b body)
  | LocalFn k p fb body => LocalFn k (subst b p) (subst b fb) (subst b body)
  | Unwrap u => Unwrap (subst b u)
  | UnsafeBlk u => UnsafeBlk (subst b u)
  | MacroCall m kw s => MacroCall m kw (subst_seq b s)
  | User _ _ _ | TyLen _ | ConstPath _ | CfgOut _ | TyParamN | CRef _ | Param | UnitLit => t
  end
with subst_seq (b : bind) (s : tseq) : tseq :=
  match s with
  | SNil => SNil
  | SCons t r => SCons (subst b t) (subst_seq b r)
  | SRep x body r =>
      match b x with
      | Some (Many es) =>
          seq_app (seq_of (map (fun e => subst (upd_bind b x (One e)) body) es)) (subst_seq b r)
      | _ => SRep x body (subst_seq b r)
      end
  end.

Record arm := mkArm { arm_matcher : matcher; arm_body : term }.

(* the declarations a run depends on: the arms of each macro in source order and
   the const-ness of the crate functions the transcribers call *)
Record decls := mkDecls { arms_of : mname -> list arm; fn_is_const : fname -> bool }.

Fixpoint first_match (l : list arm) (i : input) : option term :=
  match l with
  | [] => None
  | a :: r =>
      match match_arm (arm_matcher a) i with
      | Some b => Some (subst b (arm_body a))
      | None => first_match r i
      end
  end.

Definition expand1 (d : decls) (m : mname) (i : input) : option term :=
  first_match (arms_of d m) i.

(* tseq -> the invocation shape of a nested macro call *)
Fixpoint seq_terms (s : tseq) : option (list term) :=
  match s with
  | SNil => Some []
  | SCons t r => match seq_terms r with Some l => Some (t :: l) | None => None end
  | SRep _ _ _ => None
  end.

Definition input_of_call (kw : Z) (s : tseq) : option input :=
  match seq_terms s with
  | Some l =>
      if kw =? 0 then Some (InList l 0)
      else match l with [e] => Some (InAt kw e) | _ => None end
  | None => None
  end.

(* apply [h] to every macro call of a term (outside-in: the arguments of a call
   are tokens, they are not expanded first) *)
Fixpoint map_calls (h : mname -> Z -> tseq -> term) (t : term) : term :=
  match t with
  | MacroCall m kw s => h m kw s
  | Usize ty => Usize (map_calls h ty)
  | ConstLen n => ConstLen (map_calls h n)
  | Call f ty s =>
      Call f (match ty with Some u => Some (map_calls h u) | None => None end) (map_calls_seq h s)
  | ArrayLit s => ArrayLit (map_calls_seq h s)
  | VecLit s => VecLit (map_calls_seq h s)
  | ArrayRepeat x n => ArrayRepeat (map_calls h x) (map_calls h n)
  | VecRepeat x n => VecRepeat (map_calls h x) (map_calls h n)
  | ConstItem c i body => ConstItem c (map_calls h i) (map_calls h body)
  | LocalFn k p fb body => LocalFn k (map_calls h p) (map_calls h fb) (map_calls h body)
  | Unwrap u => Unwrap (map_calls h u)
  | UnsafeBlk u => UnsafeBlk (map_calls h u)
  | User _ _ _ | TyLen _ | ConstPath _ | CfgOut _ | MV _ | TyParamN | CRef _ | Param | UnitLit => t
  end
with map_calls_seq (h : mname -> Z -> tseq -> term) (s : tseq) : tseq :=
  match s with
  | SNil => SNil
  | SCons t r => SCons (map_calls h t) (map_calls_seq h r)
  | SRep x body r => SRep x (map_calls h body) (map_calls_seq h r)
  end.

(* expansion of nested calls; a call that no arm matches (or that is still there
   when the fuel runs out) stays and is a compile error when evaluated *)
Fixpoint resolve (d : decls) (fuel : nat) (t : term) : term :=
  match fuel with
  | O => t
  | S f =>
      map_calls (fun m kw s =>
        match input_of_call kw s with
        | Some i => match expand1 d m i with
                    | Some t' => resolve d f t'
                    | None => MacroCall m kw s
                    end
        | None => MacroCall m kw s
        end) t
  end.

Definition recursion_limit : nat := 128.     (* rustc's default #![recursion_limit] *)

Definition expand (d : decls) (m : mname) (i : input) : option term :=
  match expand1 d m i with Some t => Some (resolve d recursion_limit t) | None => None end.

(* ---------------------------------------------------------------- unsafe hygiene (static)
   [exposed inu t]: some fragment written by the CALLER (an opaque expression, a constant path, or a
   metavariable that stands for one) occurs inside an `unsafe { }` block of the transcriber ([inu] = we are
   inside one).  Such a fragment would be compiled in an unsafe context the caller did not write: unsafe
   operations in it would be accepted silently, and the caller's own `unsafe { }` would be reported as unused. *)
Fixpoint exposed (inu : bool) (t : term) : bool :=
  match t with
  | User _ _ _ | ConstPath _ | CfgOut _ | MV _ => inu
  | TyLen _ | TyParamN | CRef _ | Param | UnitLit => false
  | Usize ty => exposed inu ty
  | ConstLen n => exposed inu n
  | Call _ ty s => (match ty with Some u => exposed inu u | None => false end) || exposed_seq inu s
  | ArrayLit s | VecLit s => exposed_seq inu s
  | ArrayRepeat x n | VecRepeat x n => exposed inu x || exposed inu n
  | ConstItem _ i body => exposed inu i || exposed inu body
  (* the body of a local fn is an item: it does not inherit the unsafe context of the place it is written in *)
  | LocalFn _ p fb body => exposed inu p || exposed false fb || exposed inu body
  | Unwrap u => exposed inu u
  | UnsafeBlk u => exposed true u
  | MacroCall _ _ s => exposed_seq inu s
  end
with exposed_seq (inu : bool) (s : tseq) : bool :=
  match s with
  | SNil => false
  | SCons t r => exposed inu t || exposed_seq inu r
  | SRep _ body r => exposed inu body || exposed_seq inu r
  end.

(* ---------------------------------------------------------------- evaluation *)
Inductive value :=
| VE (v : Z)                       (* an element / usize value *)
| VUnit
| VArr (l : list value)            (* [T; len l] *)
| VVec (l : list value)            (* Vec<T> *)
| VGA (n : Z) (l : list value)     (* GenericArray<T, N>, N::USIZE = n, contents l *)
| VBox (n : Z) (l : list value)    (* Box<GenericArray<T, N>> *)
| VOk (v : value)                  (* Result::Ok *)
| VErr.                            (* Err(LengthError) *)

(* the effect log: which caller expression was evaluated, which element cloned *)
Inductive lev := LEval (tag : Z) | LClone (v : value).

Inductive cerr :=
| ENoRule          (* no rules expected this token *)
| EUnexpanded      (* metavariable / repetition / macro call left over *)
| EType            (* ill-typed (includes: expected type, found constant) *)
| ENotConst        (* not allowed in a const context *)
| ENoConstLen      (* Const<k>: IntoArrayLength is not satisfied *)
| ENotCopy.        (* [x; n] with n > 1 needs T: Copy *)

Inductive mres (A : Type) : Type :=
| Done (a : A)
| CompileError (e : cerr)
| Panic
| UBhit.
Arguments Done {A} a.
Arguments CompileError {A} e.
Arguments Panic {A}.
Arguments UBhit {A}.

Notation "'do' p <- m ; f" :=
  (match m with
   | Done p => f
   | CompileError e_ => CompileError e_
   | Panic => Panic
   | UBhit => UBhit
   end) (at level 200, p pattern, m at level 100, f at level 200, only parsing).

Inductive ctx := Runtime | Const.

(* what the invocation's surroundings fix: the element type (its size and
   whether it is Copy) and typenum's table of supported Const<k> *)
Record world := mkWorld { sz : Z; copyT : bool; csup : Z -> bool }.

Definition const_len (w : world) (k : Z) : option Z := if csup w k then Some k else None.

Definition as_int (v : value) : mres Z :=
  match v with VE k => Done k | _ => CompileError EType end.

Definition is_unit (v : value) : bool := match v with VUnit => true | _ => false end.

(* const_transmute::<[T; len l], GenericArray<T, N>> (src/lib.rs:997): panics unless the
   sizes agree, then reinterprets the bits.  The reinterpretation is the identity
   on the element list only if the lengths agree as well (for a zero-sized T the
   size test cannot tell): anything else conjures or forgets elements. *)
Definition const_transmute (w : world) (l : list value) (n : Z) : mres value :=
  if zlen l * sz w =? n * sz w
  then if zlen l =? n then Done (VGA n l) else UBhit
  else Panic.

(* try_from_vec -> try_from_boxed_slice (src/impl_alloc.rs:57): `slice.len() != N::USIZE` *)
Definition try_from_vec (n : Z) (l : list value) : value :=
  if negb (zlen l =? n) then VErr else VOk (VBox n l).

Record env := mkEnv {
  consts : cname -> option Z;
  param : option value;
  typaram : option Z;
  localfn : option (bool * Z * (ctx -> value -> Z -> list lev -> mres (value * list lev)))
}.
Definition env0 : env := mkEnv (fun _ => None) None None None.
Definition set_const (e : env) (c : cname) (k : Z) : env :=
  mkEnv (fun c' => if cname_eqb c c' then Some k else consts e c') (param e) (typaram e) (localfn e).
Definition set_call (e : env) (v : value) (n : Z) : env :=
  mkEnv (consts e) (Some v) (Some n) (localfn e).
Definition set_fn (e : env) f : env := mkEnv (consts e) (param e) (typaram e) (Some f).

Definition const_ok (cx : ctx) (fn_const : bool) : bool :=
  match cx with Runtime => true | Const => fn_const end.

(* a call of one of the functions the transcribers name, on evaluated arguments *)
Definition call (d : decls) (w : world) (cx : ctx) (e : env) (f : fname) (ty : option Z)
    (vs : list value) (lg : list lev) : mres (value * list lev) :=
  match f, ty, vs with
  | FFromArray, None, [VArr l] =>
      (* from_array<const U>(value: [T; U]) -> GenericArray<T, N>
         where Const<U>: IntoArrayLength<ArrayLength = N>  { const_transmute(value) } *)
      if const_ok cx (fn_is_const d FFromArray) then
        match const_len w (zlen l) with
        | Some n => do r <- const_transmute w l n; Done (r, lg)
        | None => CompileError ENoConstLen
        end
      else CompileError ENotConst
  | FConstTransmute, Some n, [VArr l] =>
      if const_ok cx (fn_is_const d FConstTransmute)
      then do r <- const_transmute w l n; Done (r, lg)
      else CompileError ENotConst
  | FTryFromVec, Some n, [VVec l] =>
      if const_ok cx (fn_is_const d FTryFromVec)
      then Done (try_from_vec n l, lg) else CompileError ENotConst
  | FFromVecHelper, None, [VArr us; VVec l] =>
      (* __from_vec_helper<const U>(_empty: [(); U], vec) -> Box<GenericArray<T, N>>
         where Const<U>: IntoArrayLength<ArrayLength = N>
         { GenericArray::try_from_vec(vec).unwrap_unchecked() } *)
      if const_ok cx (fn_is_const d FFromVecHelper) then
        if forallb is_unit us then
          match const_len w (zlen us) with
          | Some n => match try_from_vec n l with
                      | VOk b => Done (b, lg)
                      | _ => UBhit          (* unwrap_unchecked on Err *)
                      end
          | None => CompileError ENoConstLen
          end
        else CompileError EType
      else CompileError ENotConst
  | FLocal, Some n, [VArr l] =>
      match localfn e with
      | Some (isc, k, clo) =>
          if const_ok cx isc then
            if zlen l =? k then clo cx (VArr l) n lg else CompileError EType
          else CompileError ENotConst
      | None => CompileError EType
      end
  | _, _, _ => CompileError EType
  end.

(* vec![x; n] = from_elem(x, n): n-1 clones, the original moved in last (dropped for n = 0);
   for a Copy type the clones are not observable *)
Definition clone_events (w : world) (v : value) (k : Z) : list lev :=
  if copyT w then [] else repeat (LClone v) (Z.to_nat (k - 1)).

Fixpoint eval (d : decls) (w : world) (cx : ctx) (e : env) (t : term) (lg : list lev)
    {struct t} : mres (value * list lev) :=
  match t with
  | User tag v c =>
      match cx with
      | Runtime => Done (VE v, lg ++ [LEval tag])
      | Const => if c then Done (VE v, lg) else CompileError ENotConst
      end
  | ConstPath k => Done (VE k, lg)
  (* outside a list position an expression cannot be removed ("removing an expression is not supported in this
     position") *)
  | CfgOut _ => CompileError EType
  | TyLen _ | ConstLen _ | TyParamN => CompileError EType
  | MV _ | MacroCall _ _ _ => CompileError EUnexpanded
  | Usize ty => do k <- eval_ty d w e ty; Done (VE k, lg)
  | CRef c => match consts e c with Some k => Done (VE k, lg) | None => CompileError EType end
  | Param => match param e with Some v => Done (v, lg) | None => CompileError EType end
  | UnitLit => Done (VUnit, lg)
  | ArrayLit s => do (vs, lg1) <- eval_seq d w cx e s lg; Done (VArr vs, lg1)
  | VecLit s =>
      match cx with
      | Const => CompileError ENotConst
      | Runtime => do (vs, lg1) <- eval_seq d w cx e s lg; Done (VVec vs, lg1)
      end
  | ArrayRepeat x n =>
      (* the length operand is a const context; x is evaluated once, then copied
         (moved for a length of 0 or 1) *)
      do (nv, _) <- eval d w Const e n [];
      do k <- as_int nv;
      do (v, lg1) <- eval d w cx e x lg;
      (* a non-Copy operand is accepted for any length when it is a path to a constant
         item (each element is a fresh evaluation of the constant) *)
      if (match x with ConstPath _ => true | _ => (k <=? 1) || copyT w end)
      then Done (VArr (repeat v (Z.to_nat k)), lg1)
      else CompileError ENotCopy
  | VecRepeat x n =>
      match cx with
      | Const => CompileError ENotConst
      | Runtime =>
          do (v, lg1) <- eval d w cx e x lg;
          do (nv, lg2) <- eval d w cx e n lg1;
          do k <- as_int nv;
          Done (VVec (repeat v (Z.to_nat k)), lg2 ++ clone_events w v k)
      end
  | ConstItem c init body =>
      do (iv, _) <- eval d w Const e init [];
      do k <- as_int iv;
      eval d w cx (set_const e c k) body lg
  | LocalFn isc plen fbody body =>
      do (pv, _) <- eval d w Const e plen [];
      do k <- as_int pv;
      eval d w cx
        (set_fn e (isc, k, fun cx' argv n lg' => eval d w cx' (set_call e argv n) fbody lg'))
        body lg
  | Unwrap u =>
      match cx with
      | Const => CompileError ENotConst
      | Runtime =>
          do (v, lg1) <- eval d w cx e u lg;
          match v with VOk b => Done (b, lg1) | VErr => Panic | _ => CompileError EType end
      end
  | UnsafeBlk u => eval d w cx e u lg
  | Call f ty s =>
      do (vs, lg1) <- eval_seq d w cx e s lg;
      match ty with
      | None => call d w cx e f None vs lg1
      | Some u => do k <- eval_ty d w e u; call d w cx e f (Some k) vs lg1
      end
  end
with eval_ty (d : decls) (w : world) (e : env) (t : term) {struct t} : mres Z :=
  match t with
  | TyLen k => Done k
  | TyParamN => match typaram e with Some n => Done n | None => CompileError EType end
  | ConstLen c =>
      do (v, _) <- eval d w Const e c [];
      do k <- as_int v;
      match const_len w k with Some n => Done n | None => CompileError ENoConstLen end
  | _ => CompileError EType          (* includes ConstPath: expected type, found constant *)
  end
with eval_seq (d : decls) (w : world) (cx : ctx) (e : env) (s : tseq) (lg : list lev)
    {struct s} : mres (list value * list lev) :=
  match s with
  | SNil => Done ([], lg)
  | SCons (CfgOut _) r => eval_seq d w cx e r lg      (* the element is compiled out: not there, not evaluated *)
  | SCons t r =>
      do (v, lg1) <- eval d w cx e t lg;
      do (vs, lg2) <- eval_seq d w cx e r lg1;
      Done (v :: vs, lg2)
  | SRep _ _ _ => CompileError EUnexpanded
  end.

(* an invocation  m![ i ]  in a run-time or const position *)
Definition run (d : decls) (w : world) (cx : ctx) (m : mname) (i : input)
  : mres (value * list lev) :=
  match expand d m i with
  | Some t => eval d w cx env0 t []
  | None => CompileError ENoRule
  end.

(* ---------------------------------------------------------------- specification *)
(* the caller's expressions: (tag, value, is-constant) *)
Definition uexpr : Type := Z * Z * bool.
Definition mk_user (u : uexpr) : term := let '(t, v, c) := u in User t v c.
Definition u_tag (u : uexpr) : Z := fst (fst u).
Definition u_val (u : uexpr) : Z := snd (fst u).
Definition u_const (u : uexpr) : bool := snd u.

Definition vals (us : list uexpr) : list value := map (fun u => VE (u_val u)) us.
Definition evals (us : list uexpr) : list lev := map (fun u => LEval (u_tag u)) us.

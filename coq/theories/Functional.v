(* Functional.v -- hub model of the operations that run caller-supplied code:
   generate / map / zip / fold (src/lib.rs, src/sequence.rs, src/functional.rs,
   src/impl_alloc.rs), Clone and Default (src/impls.rs) and
   GenericArrayIter::clone (src/iter.rs).  Definitions only.

   All forms of map and zip funnel into FromIterator::from_iter over a pipeline
   whose i-th item is f applied to the i-th elements of the inputs; the model is
   therefore try_from_iter (Builder.v) over the script such a pipeline is:
     poll i < N  ->  move the i-th element out of every OWNED input (consumer
                     position / by-value iterator index advanced BEFORE the call),
                     then call f: Item (f i args), or the injected panic;
     poll i >= N ->  End, f is not called.
   The forms differ in which inputs are owned (by value, Box) or only borrowed
   (&, &mut): borrowed inputs contribute arguments but no ownership events.
   On unwinding and at the normal end every owned input drops what it still holds
   (ArrayConsumer::drop: position.. ; vec::IntoIter / GenericArrayIter: the rest). *)
From GA Require Import Base Builder Iter.

(* rows: the inputs transposed -- row i = the arguments of call i, in f's argument order
   (self's element first, then rhs's); own: which argument positions are owned *)
Definition owned_ids (own : list bool) (r : list Z) : list Z :=
  flat_map (fun p : bool * Z => if fst p then [snd p] else []) (combine own r).

Definition pipe_resp (f : nat -> list Z -> Z) (pan : option nat) (rows : list (list Z))
           (i : nat) : response :=
  match nth_error rows i with
  | Some r => if match pan with Some k => i =? k | None => false end then PanicNow else Item (f i r)
  | None => End
  end.

Definition pipe_src (f : nat -> list Z -> Z) (pan : option nat) (rows : list (list Z)) : src :=
  mkSrc (Z.of_nat (length rows)) (Some (Z.of_nat (length rows))) (pipe_resp f pan rows).

(* outcome, ownership events, call log (the rows f was called on, in call order) *)
Definition zipmap (own : list bool) (f : nat -> list Z -> Z) (pan : option nat)
           (rows : list (list Z)) : outcome * list ev * list (list Z) :=
  let N := length rows in
  let '(o, e, p) := try_from_iter N (pipe_src f pan rows) in
  let calls := Nat.min p N in
  (o,
   flat_map (fun r => map EMove (owned_ids own r)) (firstn calls rows) ++
   flat_map (fun r => map EDrop (owned_ids own r)) (skipn calls rows) ++ e,
   firstn calls rows).

(* the ids f produced in the calls that returned *)
Fixpoint produced (f : nat -> list Z -> Z) (i : nat) (rows : list (list Z)) : list Z :=
  match rows with [] => [] | r :: rest => f i r :: produced f (S i) rest end.

Definition completed (pan : option nat) (N : nat) : nat :=
  match pan with Some k => Nat.min k N | None => N end.

(* map: one input *)
Definition map_ (owned : bool) (f : nat -> list Z -> Z) (pan : option nat) (a : list Z) :=
  zipmap [owned] f pan (map (fun x => [x]) a).

(* zip: self (lhs) and rhs, f(self_i, rhs_i) *)
Definition zip_ (own_l own_r : bool) (f : nat -> list Z -> Z) (pan : option nat) (a b : list Z) :=
  zipmap [own_l; own_r] f pan (map (fun p : Z * Z => [fst p; snd p]) (combine a b)).

(* generate: builder + enumerate; f receives the index, there are no inputs *)
Definition generate_ (N : nat) (f : nat -> list Z -> Z) (pan : option nat) :=
  zipmap [] f pan (repeat [] N).

(* Clone for GenericArray = (&self).map(Clone::clone); Default = generate(|_| default) *)
Definition clone_ (cl : nat -> list Z -> Z) (pan : option nat) (a : list Z) := map_ false cl pan a.
Definition default_ (N : nat) (d : nat -> list Z -> Z) (pan : option nat) := generate_ N d pan.
(* dst.clone_from(&src) with the standard default `*self = source.clone()`: the clone is built first; only when it
   is complete are the old elements of dst dropped and replaced.  When a clone() panics dst is untouched. *)
Definition clone_from_ (dst_tracked : bool) (cl : nat -> list Z -> Z) (pan : option nat) (dst src : list Z) :=
  let '(o, e, calls) := clone_ cl pan src in
  match o with
  | Ok _ => (o, e ++ (if dst_tracked then map EDrop dst else []), calls)
  | _ => (o, e, calls)
  end.

(* fold: consumer (or by-value iterator) + accumulator threaded through f.
   acc values are opaque numbers computed by g; events only concern the elements. *)
Inductive fold_outcome : Type := FoldOk (acc : Z) | FoldPanic.

Fixpoint fold_loop (g : nat -> Z -> Z -> Z) (pan : option nat) (i : nat) (acc : Z)
         (l : list Z) : fold_outcome * nat :=
  match l with
  | [] => (FoldOk acc, i)
  | x :: rest =>
    if match pan with Some k => i =? k | None => false end then (FoldPanic, S i)
    else fold_loop g pan (S i) (g i acc x) rest
  end.

Definition fold_ (owned : bool) (g : nat -> Z -> Z -> Z) (pan : option nat) (init : Z) (a : list Z)
  : fold_outcome * list ev * list Z :=
  let '(o, calls) := fold_loop g pan 0 init a in
  (o,
   (if owned then map EMove (firstn calls a) ++ map EDrop (skipn calls a) else []),
   firstn calls a).

(* GenericArrayIter::clone: the copy is an iterator whose index_back counts the clones
   written so far, so its Drop releases them if a later clone() panics (the order after
   the fix recorded in known_findings.txt). *)
Fixpoint clone_loop (cl : nat -> Z -> Z) (pan : option nat) (i : nat) (l : list Z) (acc : list Z)
  : option (list Z) * list Z (* clones made *) :=
  match l with
  | [] => (Some acc, acc)
  | x :: rest =>
    if match pan with Some k => i =? k | None => false end then (None, acc)
    else clone_loop cl pan (S i) rest (acc ++ [cl i x])
  end.

Definition iter_clone (cl : nat -> Z -> Z) (pan : option nat) (s : it) : option it * list ev :=
  match clone_loop cl pan 0 (live s) [] with
  | (Some clones, _) => (Some (mkIt (clones ++ skipn (len s) (slots s)) 0 (length clones)), [])
  | (None, made) => (None, map EDrop made)
  end.

(* 614d235: the partially filled copy is a bare ManuallyDrop -- nothing releases the
   clones already made *)
Definition iter_clone_buggy (cl : nat -> Z -> Z) (pan : option nat) (s : it) : option it * list ev :=
  match clone_loop cl pan 0 (live s) [] with
  | (Some clones, _) => (Some (mkIt (clones ++ skipn (len s) (slots s)) 0 (length clones)), [])
  | (None, made) => (None, [])
  end.

(* iterator fold / rfold with a panicking closure: index advanced before the call;
   the iterator is dropped by unwinding *)
Definition iter_fold (g : nat -> Z -> Z -> Z) (pan : option nat) (init : Z) (s : it) :=
  fold_ true g pan init (live s).
Definition iter_rfold (g : nat -> Z -> Z -> Z) (pan : option nat) (init : Z) (s : it) :=
  fold_ true g pan init (rev (live s)).

(* CmpHash.v -- hub model for C13 (src/impls.rs: PartialEq, Eq, PartialOrd, Ord,
   Hash, Debug, Borrow, BorrowMut, AsRef, AsMut of GenericArray).  Definitions only.

   Part 1: the SPECIFICATION = what core does for slices [T]:
     ==            length test, then element-wise            (core::slice::cmp)
     partial_cmp   lexicographic over a PARTIAL element order (option comparison;
                   an incomparable pair such as NaN/x ends the comparison with None),
                   ties broken by the lengths
     cmp           lexicographic over a total element order, ties broken by lengths
     hash          Hasher::write_length_prefix(len) then Hash::hash_slice(elements)
     Debug         Formatter::debug_list().entries(..).finish() with the caller's
                   formatter (flags are handed on to every element)
   Part 2: the GenericArray impls exactly as impls.rs has them: delegations to the
     slice obtained from as_slice()/deref.
   Part 3: map lookups (HashMap: stored hash + ==; BTreeMap: cmp) by key and by
     the key's Borrow<[T]> form.
   Part 4: the element types used by the correspondence (u8, i32, f64 with NaN and
     signed zero, String, nested GenericArray<u8, U2>). *)
From GA Require Import Base.
Local Open Scope Z_scope.

(* ------------------------------------------------------------------ *)
(* Part 1: slices                                                      *)

Section SliceSpec.
  Context {T : Type}.

  (* self.iter().zip(other).all(|(x, y)| x == y) *)
  Fixpoint all2 (eqT : T -> T -> bool) (a b : list T) : bool :=
    match a, b with
    | x :: a', y :: b' => if eqT x y then all2 eqT a' b' else false
    | _, _ => true
    end.

  (* <[T] as PartialEq>::eq: `if self.len() != other.len() { return false }` first *)
  Definition slice_eq (eqT : T -> T -> bool) (a b : list T) : bool :=
    if Nat.eqb (length a) (length b) then all2 eqT a b else false.

  Definition slice_ne (eqT : T -> T -> bool) (a b : list T) : bool := negb (slice_eq eqT a b).

  (* the loop `for i in 0..min(l.len(), r.len())` of SlicePartialOrd::partial_compare:
     Some r = early `return r` on the first pair that is not Some(Equal);
     None = fell through the loop. *)
  Fixpoint pcmp_loop (pcmpT : T -> T -> option comparison) (a b : list T)
    : option (option comparison) :=
    match a, b with
    | x :: a', y :: b' =>
      match pcmpT x y with
      | Some Eq => pcmp_loop pcmpT a' b'
      | non_eq => Some non_eq
      end
    | _, _ => None
    end.

  (* ... `left.len().partial_cmp(&right.len())` after the loop *)
  Definition slice_partial_cmp (pcmpT : T -> T -> option comparison) (a b : list T)
    : option comparison :=
    match pcmp_loop pcmpT a b with
    | Some r => r
    | None => Some (Nat.compare (length a) (length b))
    end.

  Fixpoint cmp_loop (cmpT : T -> T -> comparison) (a b : list T) : option comparison :=
    match a, b with
    | x :: a', y :: b' =>
      match cmpT x y with
      | Eq => cmp_loop cmpT a' b'
      | non_eq => Some non_eq
      end
    | _, _ => None
    end.

  Definition slice_cmp (cmpT : T -> T -> comparison) (a b : list T) : comparison :=
    match cmp_loop cmpT a b with
    | Some r => r
    | None => Nat.compare (length a) (length b)
    end.

  (* the provided methods of PartialOrd *)
  Definition is_lt (o : option comparison) : bool := match o with Some Lt => true | _ => false end.
  Definition is_le (o : option comparison) : bool := match o with Some Lt | Some Eq => true | _ => false end.
  Definition is_gt (o : option comparison) : bool := match o with Some Gt => true | _ => false end.
  Definition is_ge (o : option comparison) : bool := match o with Some Gt | Some Eq => true | _ => false end.
End SliceSpec.

(* The abstract lexicographic order the loops are meant to compute (used only to
   state what the specification means; see CmpHashProofs.v). *)
Inductive lex_lt {T} (ltT eqvT : T -> T -> Prop) : list T -> list T -> Prop :=
| lex_shorter : forall y b, lex_lt ltT eqvT [] (y :: b)
| lex_here : forall x y a b, ltT x y -> lex_lt ltT eqvT (x :: a) (y :: b)
| lex_next : forall x y a b, eqvT x y -> lex_lt ltT eqvT a b -> lex_lt ltT eqvT (x :: a) (y :: b).

(* What a Hasher is fed.  The hasher is abstract: it is a function of this call
   sequence, nothing else. *)
Inductive tok : Type :=
| TLen (n : Z)                       (* Hasher::write_length_prefix(n) *)
| TCall (kind : Z) (bytes : list Z)  (* write (kind 0) / write_u8 (1) / ... / write_i32 (9) ... *)
| TStr (bytes : list Z).             (* Hasher::write_str(s) *)

(* Hash for an element type: `hash` and `hash_slice` (integers override the
   latter with ONE write of all the bytes; the provided one loops). *)
Record hasht (T : Type) : Type := Hasht { h_one : T -> list tok; h_slice : list T -> list tok }.
Arguments Hasht {T}.
Arguments h_one {T}.
Arguments h_slice {T}.

Definition provided_hash_slice {T} (one : T -> list tok) (l : list T) : list tok := flat_map one l.

(* <[T] as Hash>::hash *)
Definition slice_hash {T} (h : hasht T) (l : list T) : list tok := TLen (zlen l) :: h_slice h l.

Fixpoint listZ_eqb (a b : list Z) : bool :=
  match a, b with
  | [], [] => true
  | x :: a', y :: b' => (x =? y) && listZ_eqb a' b'
  | _, _ => false
  end.

Definition tok_eqb (s t : tok) : bool :=
  match s, t with
  | TLen n, TLen m => n =? m
  | TCall k bs, TCall k' bs' => (k =? k') && listZ_eqb bs bs'
  | TStr bs, TStr bs' => listZ_eqb bs bs'
  | _, _ => false
  end.

Fixpoint feed_eqb (a b : list tok) : bool :=
  match a, b with
  | [], [] => true
  | x :: a', y :: b' => tok_eqb x y && feed_eqb a' b'
  | _, _ => false
  end.

(* Formatting.  A string is its list of character codes.  The formatter's options:
   `#` (alternate = pretty) is the only one the list builder looks at; everything
   else (width, precision, fill, sign, zero flag) is opaque here and handed on. *)
Record fmtspec : Type := Fmt { f_alt : bool; f_rest : Z }.

(* core::fmt::builders::PadAdapter: four spaces before every line of what the
   entry writes; a fresh adapter (on_newline = true) per entry *)
Fixpoint pad_adapter (on_newline : bool) (s : list Z) : list Z :=
  match s with
  | [] => []
  | c :: r => (if on_newline then [32; 32; 32; 32] else []) ++ c :: pad_adapter (c =? 10) r
  end.

(* DebugInner::entry, not pretty: ", " between entries *)
Fixpoint plain_entries {T} (dbgT : T -> list Z) (has_fields : bool) (l : list T) : list Z :=
  match l with
  | [] => []
  | x :: r => (if has_fields then [44; 32] else []) ++ dbgT x ++ plain_entries dbgT true r
  end.

(* DebugInner::entry, pretty: "\n" before the first entry, every entry through a
   PadAdapter and followed by ",\n" (written through the same adapter) *)
Fixpoint pretty_entries {T} (dbgT : T -> list Z) (has_fields : bool) (l : list T) : list Z :=
  match l with
  | [] => []
  | x :: r => (if has_fields then [] else [10]) ++ pad_adapter true (dbgT x ++ [44; 10])
              ++ pretty_entries dbgT true r
  end.

(* <[T] as Debug>::fmt = f.debug_list().entries(self.iter()).finish() *)
Definition slice_debug {T} (dbgT : fmtspec -> T -> list Z) (f : fmtspec) (l : list T) : list Z :=
  [91] ++ (if f_alt f then pretty_entries (dbgT f) false l else plain_entries (dbgT f) false l) ++ [93].

(* ------------------------------------------------------------------ *)
(* Part 2: GenericArray<T, N> and its impls (src/impls.rs)            *)

(* The array is its N slots; N is not part of the model type: the theorems hold
   for all lengths, and two arrays "of the same type" are two arrays of equal length. *)
Record garr (T : Type) : Type := GA { storage : list T }.
Arguments GA {T}.
Arguments storage {T}.

Definition as_slice {T} (a : garr T) : list T := storage a.      (* lib.rs: from_raw_parts(self, N) *)
Definition as_mut_slice {T} (a : garr T) : list T := storage a.
Definition deref {T} (a : garr T) : list T := as_slice a.         (* lib.rs: Deref::deref *)

(* impls.rs:29  `**self == **other` *)
Definition ga_eq {T} (eqT : T -> T -> bool) (a b : garr T) : bool := slice_eq eqT (deref a) (deref b).
(* PartialEq::ne is the provided method *)
Definition ga_ne {T} (eqT : T -> T -> bool) (a b : garr T) : bool := negb (ga_eq eqT a b).
(* impls.rs:37 *)
Definition ga_partial_cmp {T} (pcmpT : T -> T -> option comparison) (a b : garr T) : option comparison :=
  slice_partial_cmp pcmpT (as_slice a) (as_slice b).
(* lt/le/gt/ge are the provided methods, derived from partial_cmp *)
Definition ga_lt {T} pcmpT (a b : garr T) : bool := is_lt (ga_partial_cmp pcmpT a b).
Definition ga_le {T} pcmpT (a b : garr T) : bool := is_le (ga_partial_cmp pcmpT a b).
Definition ga_gt {T} pcmpT (a b : garr T) : bool := is_gt (ga_partial_cmp pcmpT a b).
Definition ga_ge {T} pcmpT (a b : garr T) : bool := is_ge (ga_partial_cmp pcmpT a b).
(* impls.rs:44 *)
Definition ga_cmp {T} (cmpT : T -> T -> comparison) (a b : garr T) : comparison :=
  slice_cmp cmpT (as_slice a) (as_slice b).
(* impls.rs:51 *)
Definition ga_debug {T} (dbgT : fmtspec -> T -> list Z) (f : fmtspec) (a : garr T) : list Z :=
  slice_debug dbgT f (as_slice a).
(* impls.rs:57-83 *)
Definition ga_borrow {T} (a : garr T) : list T := as_slice a.
Definition ga_borrow_mut {T} (a : garr T) : list T := as_mut_slice a.
Definition ga_as_ref {T} (a : garr T) : list T := as_slice a.
Definition ga_as_mut {T} (a : garr T) : list T := as_mut_slice a.
(* impls.rs:85 *)
Definition ga_hash {T} (h : hasht T) (a : garr T) : list tok := slice_hash h (as_slice a).

(* A GenericArray is itself an element type (nested arrays): Hash::hash_slice is
   the provided loop. *)
Definition ga_hasht {T} (h : hasht T) : hasht (garr T) :=
  Hasht (ga_hash h) (provided_hash_slice (ga_hash h)).

(* A seeded wrong impl, to show that the theorems discriminate: element-wise
   hashing without the length prefix. *)
Definition ga_hash_noprefix {T} (h : hasht T) (a : garr T) : list tok := h_slice h (as_slice a).

(* ------------------------------------------------------------------ *)
(* Part 3: maps keyed by arrays, queried by key and by slice           *)

Section Maps.
  Context {T V : Type}.

  (* HashMap<GenericArray<T,N>, V>: an entry sits where K::hash put it (the hasher
     is a function of the feed) and is recognised by ==.  get(&K): *)
  Definition hm_get_key (eqT : T -> T -> bool) (h : hasht T) (m : list (garr T * V)) (k : garr T)
    : option (garr T * V) :=
    find (fun e => feed_eqb (ga_hash h (fst e)) (ga_hash h k) && ga_eq eqT (fst e) k) m.

  (* get::<[T]>(q): the query is hashed with <[T] as Hash>, candidates are
     compared with `stored_key.borrow() == q` using <[T] as PartialEq> *)
  Definition hm_get_slice (eqT : T -> T -> bool) (h : hasht T) (m : list (garr T * V)) (q : list T)
    : option (garr T * V) :=
    find (fun e => feed_eqb (ga_hash h (fst e)) (slice_hash h q) && slice_eq eqT (ga_borrow (fst e)) q) m.

  (* insert: an equal key keeps its place (and the old key), the value is replaced *)
  Fixpoint hm_insert (eqT : T -> T -> bool) (h : hasht T) (m : list (garr T * V)) (k : garr T) (v : V)
    : list (garr T * V) :=
    match m with
    | [] => [(k, v)]
    | e :: r =>
      if feed_eqb (ga_hash h (fst e)) (ga_hash h k) && ga_eq eqT (fst e) k
      then (fst e, v) :: r else e :: hm_insert eqT h r k v
    end.

  (* BTreeMap<GenericArray<T,N>, V>: the entry whose key compares Equal *)
  Definition bt_get_key (cmpT : T -> T -> comparison) (m : list (garr T * V)) (k : garr T)
    : option (garr T * V) :=
    find (fun e => match ga_cmp cmpT (fst e) k with Eq => true | _ => false end) m.

  Definition bt_get_slice (cmpT : T -> T -> comparison) (m : list (garr T * V)) (q : list T)
    : option (garr T * V) :=
    find (fun e => match slice_cmp cmpT (ga_borrow (fst e)) q with Eq => true | _ => false end) m.

  Fixpoint bt_insert (cmpT : T -> T -> comparison) (m : list (garr T * V)) (k : garr T) (v : V)
    : list (garr T * V) :=
    match m with
    | [] => [(k, v)]
    | e :: r =>
      match ga_cmp cmpT (fst e) k with
      | Eq => (fst e, v) :: r
      | _ => e :: bt_insert cmpT r k v
      end
    end.
End Maps.

(* ------------------------------------------------------------------ *)
(* Part 4: element types of the correspondence                         *)

(* little-endian two's-complement bytes (floor division: -1 -> 255 255 ...) *)
Fixpoint le_bytes (k : nat) (v : Z) : list Z :=
  match k with
  | O => []
  | S k' => (v mod 256) :: le_bytes k' (v / 256)
  end.

(* u8 and i32: the value is the integer *)
Definition int_eq (x y : Z) : bool := x =? y.
Definition int_pcmp (x y : Z) : option comparison := Some (x ?= y).
Definition int_cmp (x y : Z) : comparison := x ?= y.
(* write_u8(x) ; hash_slice = one write of all the bytes *)
Definition u8_hasht : hasht Z :=
  Hasht (fun x => [TCall 1 [x]]) (fun l => [TCall 0 l]).
(* write_i32(x) ; hash_slice = one write of 4*len bytes *)
Definition i32_hasht : hasht Z :=
  Hasht (fun x => [TCall 9 (le_bytes 4 x)]) (fun l => [TCall 0 (flat_map (le_bytes 4) l)]).
(* write_i8(x) ; hash_slice = one write of the bytes (two's complement) *)
Definition i8_hasht : hasht Z :=
  Hasht (fun x => [TCall 7 (le_bytes 1 x)]) (fun l => [TCall 0 (flat_map (le_bytes 1) l)]).

(* f64: FNan, or a number given by a comparison key; -0.0 and +0.0 both have key 0
   but stay different values (the flag).  IEEE: NaN is unordered with everything,
   itself included; -0.0 == +0.0. *)
Inductive f64m : Type := FNan | FNum (key : Z) (negzero : bool).
Definition f64_pcmp (x y : f64m) : option comparison :=
  match x, y with
  | FNum a _, FNum b _ => Some (a ?= b)
  | _, _ => None
  end.
Definition f64_eq (x y : f64m) : bool :=
  match x, y with
  | FNum a _, FNum b _ => a =? b
  | _, _ => false
  end.

(* String: its UTF-8 bytes.  ==, partial_cmp, cmp are those of the byte slices;
   hash is write_str *)
Definition str_eq (x y : list Z) : bool := slice_eq int_eq x y.
Definition str_cmp (x y : list Z) : comparison := slice_cmp int_cmp x y.
Definition str_pcmp (x y : list Z) : option comparison := Some (str_cmp x y).
Definition str_hasht : hasht (list Z) :=
  Hasht (fun s => [TStr s]) (provided_hash_slice (fun s => [TStr s])).

(* Kv { k: u8, v: u8 } (code 256 k + v): == compares both fields, partial_cmp / cmp only the key --
   an element type whose equality is finer than its ordering; #[derive(Hash)]: write_u8(k); write_u8(v) *)
Definition kv_eq (x y : Z) : bool := x =? y.
Definition kv_cmp (x y : Z) : comparison := (x / 256) ?= (y / 256).
Definition kv_pcmp (x y : Z) : option comparison := Some (kv_cmp x y).
Definition kv_hasht : hasht Z :=
  Hasht (fun c => [TCall 1 [c / 256]; TCall 1 [c mod 256]])
        (provided_hash_slice (fun c => [TCall 1 [c / 256]; TCall 1 [c mod 256]])).

(* To(i32): == and Ord::cmp by value (total); partial_cmp treats the value 77 like a NaN (unordered with everything,
   itself included); #[derive(Hash)]: write_i32 per element, hash_slice is the provided loop *)
Definition to_eq (x y : Z) : bool := x =? y.
Definition to_pcmp (x y : Z) : option comparison := if (x =? 77) || (y =? 77) then None else Some (x ?= y).
Definition to_cmp (x y : Z) : comparison := x ?= y.
Definition to_hasht : hasht Z :=
  Hasht (fun x => [TCall 9 (le_bytes 4 x)]) (provided_hash_slice (fun x => [TCall 9 (le_bytes 4 x)])).

(* Zn: zero-sized; == is always false and partial_cmp always None (itself included) *)
Definition zn_eq (x y : Z) : bool := false.
Definition zn_pcmp (x y : Z) : option comparison := None.

(* Wb(u8): one byte with a hand-written Hash: write_u8(x); write_u8(0xAA); hash_slice is the provided loop *)
Definition wb_hasht : hasht Z :=
  Hasht (fun x => [TCall 1 [x]; TCall 1 [170]]) (provided_hash_slice (fun x => [TCall 1 [x]; TCall 1 [170]])).

(* nested GenericArray<u8, U2> elements: the impls above, one level down *)
Definition nest_eq : garr Z -> garr Z -> bool := ga_eq int_eq.
Definition nest_pcmp : garr Z -> garr Z -> option comparison := ga_partial_cmp int_pcmp.
Definition nest_cmp : garr Z -> garr Z -> comparison := ga_cmp int_cmp.
Definition nest_hasht : hasht (garr Z) := ga_hasht u8_hasht.

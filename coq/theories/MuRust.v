(* MuRust.v -- a small deep-embedded language for the first-order method bodies that
   the translator tools/ga2coq regenerates from /repo/src/iter.rs and
   /repo/src/internal.rs on every run (coq/gen/GenIter.v), and its interpreter.
   Definitions only.  The tie theorems (theories/IterTie.v) prove that running
   the regenerated programs gives exactly the hub functions of Iter.v.

   usize values are Z; every +, - carries its overflow / underflow check as a
   distinguished failure (MUB), every get_unchecked its bounds check, so the
   tie theorems also establish that these never fire under the invariant. *)
From Coq Require Import String.
From GA Require Import Base Iter.
Local Open Scope Z_scope.

Inductive fld : Type := FIndex | FIndexBack | FPosition.

Inductive expr : Type :=
| EInt (z : Z)
| ELenN                                   (* N::USIZE *)
| EVar (x : string)
| EFld (f : fld)                          (* self.index / self.index_back / self.position *)
| EAdd (a b : expr) | ESub (a b : expr) | EMin (a b : expr)
| ELt (a b : expr) | EEq (a b : expr)
| ESome (e : expr) | ENone
| EPair (a b : expr)
| EReadAt (e : expr)                      (* ptr::read(self.array.get_unchecked(e)) *)
| ERange (a b : option expr)              (* self.array.get_unchecked[_mut](a..b) *)
| ESelfCall (m : string).                 (* self.m() *)

Inductive stmt : Type :=
| SLet (x : string) (e : expr)
| SSet (f : fld) (e : expr)
| SAddTo (f : fld) (e : expr)
| SSubFrom (f : fld) (e : expr)
| SDropInPlace (e : expr)
| SIf (c : expr) (t e : list stmt)
| SRet (e : expr).                        (* tail expression of a block *)

Inductive selfkind : Type := ByRef | ByMutRef | ByValue.

Record method : Type := mkMethod { m_self : selfkind; m_params : list string; m_body : list stmt }.

Inductive val : Type :=
| VInt (z : Z) | VBool (b : bool) | VId (x : Z) | VSome (v : val) | VNone
| VPair (a b : val) | VSlice (a b : Z) | VUnit.

(* the receiver: the array's slots (physical, as in Iter.v) and the bookkeeping fields *)
Record mst : Type := mkM { m_slots : list Z; m_index : Z; m_back : Z; m_pos : Z }.

Inductive mres (A : Type) : Type := MRet (a : A) | MPanic | MUB.
Arguments MRet {A} a.
Arguments MPanic {A}.
Arguments MUB {A}.

Definition two64 : Z := 18446744073709551616.

Definition getf (f : fld) (s : mst) : Z :=
  match f with FIndex => m_index s | FIndexBack => m_back s | FPosition => m_pos s end.
Definition setf (f : fld) (v : Z) (s : mst) : mst :=
  match f with
  | FIndex => mkM (m_slots s) v (m_back s) (m_pos s)
  | FIndexBack => mkM (m_slots s) (m_index s) v (m_pos s)
  | FPosition => mkM (m_slots s) (m_index s) (m_back s) v
  end.

Definition env := list (string * val).
Fixpoint lookup (x : string) (e : env) : option val :=
  match e with
  | [] => None
  | (y, v) :: r => if String.eqb x y then Some v else lookup x r
  end.

(* outcome of running something: result, receiver afterwards, bomb afterwards, events *)
Definition out (A : Type) : Type := (mres A * mst * option Z * list ev)%type.

Definition ret {A} (a : A) (s : mst) (b : option Z) : out A := (MRet a, s, b, []).
Definition ub {A} (s : mst) (b : option Z) : out A := (MUB, s, b, []).

Definition bind {A B} (x : out A) (f : A -> mst -> option Z -> out B) : out B :=
  match x with
  | (MRet a, s, b, e) => let '(r, s', b', e') := f a s b in (r, s', b', e ++ e')
  | (MPanic, s, b, e) => (MPanic, s, b, e)
  | (MUB, s, b, e) => (MUB, s, b, e)
  end.

Definition slen (s : mst) : Z := Z.of_nat (length (m_slots s)).

Section Interp.
  Variable table : string -> option method.

  (* fuel bounds the depth of self-calls (nth -> next, drop -> as_mut_slice, ...) *)
  Fixpoint eval (fuel : nat) (en : env) (e : expr) (s : mst) (b : option Z) {struct fuel} : out val :=
    match fuel with
    | O => ub s b
    | S fuel' =>
      let ev2 (x y : expr) (k : Z -> Z -> mst -> option Z -> out val) : out val :=
          bind (eval fuel' en x s b) (fun vx s1 b1 =>
          bind (eval fuel' en y s1 b1) (fun vy s2 b2 =>
          match vx, vy with VInt p, VInt q => k p q s2 b2 | _, _ => ub s2 b2 end)) in
      match e with
      | EInt z => ret (VInt z) s b
      | ELenN => ret (VInt (slen s)) s b
      | EVar x => match lookup x en with Some v => ret v s b | None => ub s b end
      | EFld f => ret (VInt (getf f s)) s b
      | EAdd x y => ev2 x y (fun p q s2 b2 => if p + q <? two64 then ret (VInt (p + q)) s2 b2 else ub s2 b2)
      | ESub x y => ev2 x y (fun p q s2 b2 => if q <=? p then ret (VInt (p - q)) s2 b2 else ub s2 b2)
      | EMin x y => ev2 x y (fun p q s2 b2 => ret (VInt (Z.min p q)) s2 b2)
      | ELt x y => ev2 x y (fun p q s2 b2 => ret (VBool (p <? q)) s2 b2)
      | EEq x y => ev2 x y (fun p q s2 b2 => ret (VBool (p =? q)) s2 b2)
      | ESome x => bind (eval fuel' en x s b) (fun v s1 b1 => ret (VSome v) s1 b1)
      | ENone => ret VNone s b
      | EPair x y =>
        bind (eval fuel' en x s b) (fun vx s1 b1 =>
        bind (eval fuel' en y s1 b1) (fun vy s2 b2 => ret (VPair vx vy) s2 b2))
      | EReadAt x =>
        bind (eval fuel' en x s b) (fun v s1 b1 =>
        match v with
        | VInt i =>
          if (0 <=? i) && (i <? slen s1) then
            match nth_error (m_slots s1) (Z.to_nat i) with
            | Some id => (MRet (VId id), s1, b1, [EMove id])
            | None => ub s1 b1
            end
          else ub s1 b1
        | _ => ub s1 b1
        end)
      | ERange lo hi =>
        let bound (o : option expr) (dflt : Z) (s0 : mst) (b0 : option Z) : out val :=
            match o with Some x => eval fuel' en x s0 b0 | None => ret (VInt dflt) s0 b0 end in
        bind (bound lo 0 s b) (fun vlo s1 b1 =>
        bind (bound hi (slen s1) s1 b1) (fun vhi s2 b2 =>
        match vlo, vhi with
        | VInt p, VInt q =>
          if (0 <=? p) && (p <=? q) && (q <=? slen s2) then ret (VSlice p q) s2 b2 else ub s2 b2
        | _, _ => ub s2 b2
        end))
      | ESelfCall m =>
        match table m with
        | Some me =>
          match m_self me with
          | ByValue => ub s b
          | _ => bind (exec fuel' [] (m_body me) s b)
                      (fun r s1 b1 => ret (match r with Some v => v | None => VUnit end) s1 b1)
          end
        | None => ub s b
        end
      end
    end
  with exec (fuel : nat) (en : env) (body : list stmt) (s : mst) (b : option Z) {struct fuel}
       : out (option val) :=
    match fuel with
    | O => ub s b
    | S fuel' =>
      match body with
      | [] => ret None s b
      | st :: rest =>
        let upd_f (f : fld) (x : expr) (op : Z -> Z -> option Z) : out (option val) :=
            bind (eval fuel' en x s b) (fun v s1 b1 =>
            match v with
            | VInt q => match op (getf f s1) q with
                        | Some r => exec fuel' en rest (setf f r s1) b1
                        | None => ub s1 b1
                        end
            | _ => ub s1 b1
            end) in
        match st with
        | SLet x e => bind (eval fuel' en e s b) (fun v s1 b1 => exec fuel' ((x, v) :: en) rest s1 b1)
        | SSet f e => upd_f f e (fun _ q => Some q)
        | SAddTo f e => upd_f f e (fun p q => if p + q <? two64 then Some (p + q) else None)
        | SSubFrom f e => upd_f f e (fun p q => if q <=? p then Some (p - q) else None)
        | SDropInPlace e =>
          bind (eval fuel' en e s b) (fun v s1 b1 =>
          match v with
          | VSlice p q =>
            let '(fired, b2, evs) := drop_list b1 (range (Z.to_nat p) (Z.to_nat q) (m_slots s1)) in
            if fired then (MPanic, s1, b2, evs)
            else bind (MRet tt, s1, b2, evs) (fun _ s2 b3 => exec fuel' en rest s2 b3)
          | _ => ub s1 b1
          end)
        | SIf c t e =>
          bind (eval fuel' en c s b) (fun v s1 b1 =>
          match v with
          | VBool cb =>
            bind (exec fuel' en (if cb then t else e) s1 b1) (fun r s2 b2 =>
            match r with
            | Some v => ret (Some v) s2 b2
            | None => exec fuel' en rest s2 b2
            end)
          | _ => ub s1 b1
          end)
        | SRet e => bind (eval fuel' en e s b) (fun v s1 b1 => ret (Some v) s1 b1)
        end
      end
    end.

  (* calling a method from outside: by-value receivers are dropped when the body is done
     (Drop::drop = the method named "drop"); a value already computed is abandoned if that
     drop panics *)
  Definition call (fuel : nat) (m : string) (args : list val) (s : mst) (b : option Z) : out val :=
    match table m with
    | None => ub s b
    | Some me =>
      let en := combine (m_params me) args in
      bind (exec fuel en (m_body me) s b) (fun r s1 b1 =>
      let v := match r with Some v => v | None => VUnit end in
      match m_self me with
      | ByValue =>
        match table "drop"%string with
        | Some d =>
          match exec fuel [] (m_body d) s1 b1 with
          | (MRet _, s2, b2, e2) => (MRet v, s2, b2, e2)
          | (MPanic, s2, b2, e2) =>
            (MPanic, s2, b2, match v with VSome (VId x) => [ELeak x] | _ => [] end ++ e2)
          | (MUB, s2, b2, e2) => (MUB, s2, b2, e2)
          end
        | None => ret v s1 b1
        end
      | _ => ret v s1 b1
      end)
    end.
End Interp.

(* the hub's iterator state as a receiver *)
Definition embed (s : it) : mst :=
  mkM (slots s) (Z.of_nat (index s)) (Z.of_nat (back s)) 0.
Definition unembed (s : mst) : it :=
  mkIt (m_slots s) (Z.to_nat (m_index s)) (Z.to_nat (m_back s)).

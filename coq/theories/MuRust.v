(* MuRust.v -- a small deep-embedded language for the first-order method bodies that
   the translator tools/ga2coq regenerates from /repo/src/iter.rs and
   /repo/src/internal.rs on every run (coq/gen/GenIter.v), and its interpreter.
   Definitions only.  The tie theorems (theories/IterTie.v) prove that running
   the regenerated programs gives exactly the hub functions of Iter.v.

   usize values are Z; every +, - carries its overflow / underflow check as a
   distinguished failure (MUB), every get_unchecked its bounds check, so the
   tie theorems also establish that these never fire under the invariant. *)
From Coq Require Import String.
From GA Require Import Base Iter.
Local Open Scope Z_scope.

Inductive fld : Type := FIndex | FIndexBack | FPosition.

Inductive expr : Type :=
| EInt (z : Z)
| ELenN                                   (* N::USIZE *)
| EVar (x : string)
| EFld (f : fld)                          (* self.index / self.index_back / self.position *)
| EAdd (a b : expr) | ESub (a b : expr) | EMin (a b : expr)
| ELt (a b : expr) | EEq (a b : expr)
| ESome (e : expr) | ENone
| EPair (a b : expr)
| EReadAt (e : expr)                      (* ptr::read(self.array.get_unchecked(e)) *)
| ERange (a b : option expr)              (* self.array.get_unchecked[_mut](a..b) *)
| ESelfCall (m : string).                 (* self.m() *)

Inductive stmt : Type :=
| SLet (x : string) (e : expr)
| SSet (f : fld) (e : expr)
| SAddTo (f : fld) (e : expr)
| SSubFrom (f : fld) (e : expr)
| SDropInPlace (e : expr)
| SIf (c : expr) (t e : list stmt)
| SRet (e : expr).                        (* tail expression of a block *)

Inductive selfkind : Type := ByRef | ByMutRef | ByValue.

Record method : Type := mkMethod { m_self : selfkind; m_params : list string; m_body : list stmt }.

Inductive val : Type :=
| VInt (z : Z) | VBool (b : bool) | VId (x : Z) | VSome (v : val) | VNone
| VPair (a b : val) | VSlice (a b : Z) | VUnit.

(* the receiver: the array's slots (physical, as in Iter.v) and the bookkeeping fields *)
Record mst : Type := mkM { m_slots : list Z; m_index : Z; m_back : Z; m_pos : Z }.

Inductive mres (A : Type) : Type := MRet (a : A) | MPanic | MUB.
Arguments MRet {A} a.
Arguments MPanic {A}.
Arguments MUB {A}.

Definition two64 : Z := 18446744073709551616.

Definition getf (f : fld) (s : mst) : Z :=
  match f with FIndex => m_index s | FIndexBack => m_back s | FPosition => m_pos s end.
Definition setf (f : fld) (v : Z) (s : mst) : mst :=
  match f with
  | FIndex => mkM (m_slots s) v (m_back s) (m_pos s)
  | FIndexBack => mkM (m_slots s) (m_index s) v (m_pos s)
  | FPosition => mkM (m_slots s) (m_index s) (m_back s) v
  end.

Definition env := list (string * val).
Fixpoint lookup (x : string) (e : env) : option val :=
  match e with
  | [] => None
  | (y, v) :: r => if String.eqb x y then Some v else lookup x r
  end.

(* outcome of running something: result, receiver afterwards, bomb afterwards, events *)
Definition out (A : Type) : Type := (mres A * mst * option Z * list ev)%type.

Definition ret {A} (a : A) (s : mst) (b : option Z) : out A := (MRet a, s, b, []).
Definition ub {A} (s : mst) (b : option Z) : out A := (MUB, s, b, []).

Definition bind {A B} (x : out A) (f : A -> mst -> option Z -> out B) : out B :=
  match x with
  | (MRet a, s, b, e) => let '(r, s', b', e') := f a s b in (r, s', b', e ++ e')
  | (MPanic, s, b, e) => (MPanic, s, b, e)
  | (MUB, s, b, e) => (MUB, s, b, e)
  end.

Definition slen (s : mst) : Z := Z.of_nat (length (m_slots s)).

(* Expressions and blocks are interpreted by structural recursion on the program; only
   self-calls (self.len(), self.next(), ...) go through [self_call], whose depth is bounded
   separately (call_depth below). *)
Section Interp.
  Variable self_call : string -> mst -> option Z -> out val.

  Fixpoint eval (en : env) (e : expr) (s : mst) (b : option Z) {struct e} : out val :=
    let ev2 (x y : expr) (k : Z -> Z -> mst -> option Z -> out val) : out val :=
        bind (eval en x s b) (fun vx s1 b1 =>
        bind (eval en y s1 b1) (fun vy s2 b2 =>
        match vx, vy with VInt p, VInt q => k p q s2 b2 | _, _ => ub s2 b2 end)) in
    match e with
    | EInt z => ret (VInt z) s b
    | ELenN => ret (VInt (slen s)) s b
    | EVar x => match lookup x en with Some v => ret v s b | None => ub s b end
    | EFld f => ret (VInt (getf f s)) s b
    | EAdd x y => ev2 x y (fun p q s2 b2 => if p + q <? two64 then ret (VInt (p + q)) s2 b2 else ub s2 b2)
    | ESub x y => ev2 x y (fun p q s2 b2 => if q <=? p then ret (VInt (p - q)) s2 b2 else ub s2 b2)
    | EMin x y => ev2 x y (fun p q s2 b2 => ret (VInt (Z.min p q)) s2 b2)
    | ELt x y => ev2 x y (fun p q s2 b2 => ret (VBool (p <? q)) s2 b2)
    | EEq x y => ev2 x y (fun p q s2 b2 => ret (VBool (p =? q)) s2 b2)
    | ESome x => bind (eval en x s b) (fun v s1 b1 => ret (VSome v) s1 b1)
    | ENone => ret VNone s b
    | EPair x y =>
      bind (eval en x s b) (fun vx s1 b1 =>
      bind (eval en y s1 b1) (fun vy s2 b2 => ret (VPair vx vy) s2 b2))
    | EReadAt x =>
      bind (eval en x s b) (fun v s1 b1 =>
      match v with
      | VInt i =>
        if (0 <=? i) && (i <? slen s1) then
          match nth_error (m_slots s1) (Z.to_nat i) with
          | Some id => (MRet (VId id), s1, b1, [EMove id])
          | None => ub s1 b1
          end
        else ub s1 b1
      | _ => ub s1 b1
      end)
    | ERange lo hi =>
      bind (match lo with Some x => eval en x s b | None => ret (VInt 0) s b end) (fun vlo s1 b1 =>
      bind (match hi with Some x => eval en x s1 b1 | None => ret (VInt (slen s1)) s1 b1 end)
           (fun vhi s2 b2 =>
      match vlo, vhi with
      | VInt p, VInt q =>
        if (0 <=? p) && (p <=? q) && (q <=? slen s2) then ret (VSlice p q) s2 b2 else ub s2 b2
      | _, _ => ub s2 b2
      end))
    | ESelfCall m => self_call m s b
    end.

  Definition upd_field (f : fld) (op : Z -> Z -> option Z) (v : val)
             (k : mst -> option Z -> out (option val)) (s1 : mst) (b1 : option Z) : out (option val) :=
    match v with
    | VInt q => match op (getf f s1) q with
                | Some r => k (setf f r s1) b1
                | None => ub s1 b1
                end
    | _ => ub s1 b1
    end.

  (* statements: [k] runs the rest of the enclosing block (with the environment extended by
     the lets seen so far); a block yields Some v as soon as a tail expression is reached *)
  Definition kont : Type := env -> mst -> option Z -> out (option val).

  Fixpoint exec_stmt (st : stmt) (en : env) (k : kont) (s : mst) (b : option Z) {struct st}
    : out (option val) :=
    match st with
    | SLet x e => bind (eval en e s b) (fun v s1 b1 => k ((x, v) :: en) s1 b1)
    | SSet f e => bind (eval en e s b) (fun v => upd_field f (fun _ q => Some q) v (k en))
    | SAddTo f e =>
      bind (eval en e s b)
           (fun v => upd_field f (fun p q => if p + q <? two64 then Some (p + q) else None) v (k en))
    | SSubFrom f e =>
      bind (eval en e s b)
           (fun v => upd_field f (fun p q => if q <=? p then Some (p - q) else None) v (k en))
    | SDropInPlace e =>
      bind (eval en e s b) (fun v s1 b1 =>
      match v with
      | VSlice p q =>
        let '(fired, b2, evs) := drop_list b1 (range (Z.to_nat p) (Z.to_nat q) (m_slots s1)) in
        if fired then (MPanic, s1, b2, evs)
        else bind (MRet tt, s1, b2, evs) (fun _ s2 b3 => k en s2 b3)
      | _ => ub s1 b1
      end)
    | SIf c t e =>
      let blk := fix blk (l : list stmt) (en0 : env) : mst -> option Z -> out (option val) :=
                   match l with
                   | [] => ret None
                   | x :: r => exec_stmt x en0 (fun en1 => blk r en1)
                   end in
      bind (eval en c s b) (fun v s1 b1 =>
      match v with
      | VBool cb =>
        bind (if cb then blk t en s1 b1 else blk e en s1 b1) (fun r s2 b2 =>
        match r with
        | Some v => ret (Some v) s2 b2
        | None => k en s2 b2
        end)
      | _ => ub s1 b1
      end)
    | SRet e => bind (eval en e s b) (fun v s1 b1 => ret (Some v) s1 b1)
    end.

  Fixpoint exec (en : env) (body : list stmt) : mst -> option Z -> out (option val) :=
    match body with
    | [] => ret None
    | x :: r => exec_stmt x en (fun en1 => exec en1 r)
    end.
End Interp.

Section Calls.
  Variable table : string -> option method.

  (* self-calls to by-reference methods, nested at most [d] deep *)
  Fixpoint call_depth (d : nat) (m : string) (s : mst) (b : option Z) : out val :=
    match d with
    | O => ub s b
    | S d' =>
      match table m with
      | Some me =>
        match m_self me with
        | ByValue => ub s b
        | _ => bind (exec (call_depth d') [] (m_body me) s b)
                    (fun r s1 b1 => ret (match r with Some v => v | None => VUnit end) s1 b1)
        end
      | None => ub s b
      end
    end.

  (* calling a method from outside: by-value receivers are dropped when the body is done
     (Drop::drop = the method named "drop"); a value already computed is abandoned if that
     drop panics *)
  (* what the body moved out towards the caller is abandoned (leaked) if the function
     does not return normally *)
  Definition abandon (e : list ev) : list ev :=
    map (fun x => match x with EMove y => ELeak y | o => o end) e.

  Definition call (d : nat) (m : string) (args : list val) (s : mst) (b : option Z) : out val :=
    match table m with
    | None => ub s b
    | Some me =>
      let en := combine (m_params me) args in
      match exec (call_depth d) en (m_body me) s b with
      | (MRet r, s1, b1, e1) =>
        let v := match r with Some v => v | None => VUnit end in
        match m_self me with
        | ByValue =>
          match table "drop"%string with
          | Some dm =>
            match exec (call_depth d) [] (m_body dm) s1 b1 with
            | (MRet _, s2, b2, e2) => (MRet v, s2, b2, e1 ++ e2)
            | (MPanic, s2, b2, e2) => (MPanic, s2, b2, abandon e1 ++ e2)
            | (MUB, s2, b2, e2) => (MUB, s2, b2, e1 ++ e2)
            end
          | None => (MRet v, s1, b1, e1)
          end
        | _ => (MRet v, s1, b1, e1)
        end
      | (MPanic, s1, b1, e1) => (MPanic, s1, b1, e1)
      | (MUB, s1, b1, e1) => (MUB, s1, b1, e1)
      end
    end.
End Calls.

(* the hub's iterator state as a receiver *)
Definition embed (s : it) : mst :=
  mkM (slots s) (Z.of_nat (index s)) (Z.of_nat (back s)) 0.
Definition unembed (s : mst) : it :=
  mkIt (m_slots s) (Z.to_nat (m_index s)) (Z.to_nat (m_back s)).

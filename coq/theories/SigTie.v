(* SigTie.v -- tier T1 tie for C12: the impl headers of the length-relating traits
   (where-clauses, result lengths), the struct fields and the explicit Send / Sync / Copy /
   Clone impls with their bounds, the sealing of ArrayLength and the impl_tuple! table, as
   tools/ga2coq regenerates them from /repo/src on every run (coq/gen/GenSigs.v), are the
   declarations SigDecls.v states and the C12 theorems are about. *)
From Coq Require Import String.
From GA Require Import Base TypeLevel Sigs SigDecls.
From GA Require Export SigDefs.
From GAGen Require Import GenSigs.
Local Open Scope string_scope.

Lemma tie_lengthen : gen_lengthen = [("owned", lengthen_where, [LAdd1 V0])].
Proof. reflexivity. Qed.
Lemma tie_shorten : gen_shorten = [("owned", shorten_where, [LSub1 V0])].
Proof. reflexivity. Qed.
Lemma tie_split : gen_split =
  [("owned", split_where, [V1; LDiff V0 V1]); ("ref", split_where, [V1; LDiff V0 V1]);
   ("mut", split_where, [V1; LDiff V0 V1])].
Proof. reflexivity. Qed.
Lemma tie_concat : gen_concat = [("owned", concat_where, [LSum V0 V1])].
Proof. reflexivity. Qed.
Lemma tie_remove : gen_remove = [("owned", remove_where, [LSub1 V0])].
Proof. reflexivity. Qed.
Lemma tie_flatten : gen_flatten =
  [("owned", flatten_where, [LProd V0 V1]); ("ref", flatten_where, [LProd V0 V1]);
   ("mut", flatten_where, [LProd V0 V1])].
Proof. reflexivity. Qed.
Lemma tie_unflatten : gen_unflatten =
  [("owned", unflatten_where, [LQuot V0 V1]); ("ref", unflatten_where, [LQuot V0 V1]);
   ("mut", unflatten_where, [LQuot V0 V1])].
Proof. reflexivity. Qed.

(* the declarations the theorems use are built from exactly these where-clauses / results *)
Lemma decls_use_them :
  Forall (fun d => d_where d = lengthen_where /\ d_out d = [LAdd1 V0]) lengthen_decls /\
  Forall (fun d => d_where d = shorten_where /\ d_out d = [LSub1 V0]) shorten_decls /\
  Forall (fun d => d_where d = split_where /\ d_out d = [V1; LDiff V0 V1]) split_decls /\
  Forall (fun d => d_where d = concat_where /\ d_out d = [LSum V0 V1]) concat_decls /\
  Forall (fun d => d_where d = remove_where /\ d_out d = [LSub1 V0]) remove_decls /\
  Forall (fun d => d_where d = flatten_where /\ d_out d = [LProd V0 V1]) flatten_decls /\
  Forall (fun d => d_where d = unflatten_where /\ d_out d = [LQuot V0 V1]) unflatten_decls.
Proof. repeat split; repeat constructor. Qed.

(* structs: same fields, and for every trait the same explicit impl with the same bounds,
   hence the same answer of the auto-trait / Copy / Clone model in every environment *)
Lemma tie_struct_fields :
  sd_fields gen_even = sd_fields (cs_even ga_structs) /\
  sd_fields gen_odd = sd_fields (cs_odd ga_structs) /\
  sd_fields gen_ga = sd_fields (cs_ga ga_structs) /\
  sd_fields gen_iter_struct = sd_fields (cs_iter ga_structs).
Proof. repeat split. Qed.

Lemma tie_struct_impls t :
  find_impl t (sd_impls gen_even) = find_impl t (sd_impls (cs_even ga_structs)) /\
  find_impl t (sd_impls gen_odd) = find_impl t (sd_impls (cs_odd ga_structs)) /\
  find_impl t (sd_impls gen_ga) = find_impl t (sd_impls (cs_ga ga_structs)) /\
  find_impl t (sd_impls gen_iter_struct) = find_impl t (sd_impls (cs_iter ga_structs)).
Proof. destruct t; repeat split. Qed.

Lemma tie_struct_has E t :
  struct_has gen_even E t = struct_has (cs_even ga_structs) E t /\
  struct_has gen_odd E t = struct_has (cs_odd ga_structs) E t /\
  struct_has gen_ga E t = struct_has (cs_ga ga_structs) E t /\
  struct_has gen_iter_struct E t = struct_has (cs_iter ga_structs) E t.
Proof.
  unfold struct_has. destruct (tie_struct_impls t) as (-> & -> & -> & ->).
  destruct tie_struct_fields as (-> & -> & -> & ->). repeat split.
Qed.

Lemma tie_sealing : gen_sealing = arraylength_sealing.
Proof. reflexivity. Qed.

Lemma tie_tuple_sizes : gen_tuple_sizes = tuple_sizes.
Proof. reflexivity. Qed.

(* ---- the functions whose whole body is one reinterpretation of the argument ---- *)

(* by value: the size-checked const_transmute (lib.rs:997, modelled by Views.const_transmute) *)
Lemma tie_transmutes_by_value :
  transmute_of "GenericArray::from_array" = Some ("const_transmute", "value") /\
  transmute_of "GenericArray::into_array" = Some ("const_transmute", "self") /\
  transmute_of "GenericArray::Flatten::flatten" = Some ("const_transmute", "self") /\
  transmute_of "GenericArray::Unflatten::unflatten" = Some ("const_transmute", "self").
Proof. repeat split. Qed.

(* references and slices: a plain transmute of the reference -- the same address, the length
   fixed by the where-clauses C12 is about *)
Lemma tie_transmutes_by_ref :
  transmute_of "&GenericArray::Flatten::flatten" = Some ("transmute", "self") /\
  transmute_of "&mut GenericArray::Flatten::flatten" = Some ("transmute", "self") /\
  transmute_of "&GenericArray::Unflatten::unflatten" = Some ("transmute", "self") /\
  transmute_of "&mut GenericArray::Unflatten::unflatten" = Some ("transmute", "self") /\
  transmute_of "GenericArray::from_chunks" = Some ("transmute", "chunks") /\
  transmute_of "GenericArray::from_chunks_mut" = Some ("transmute", "chunks") /\
  transmute_of "GenericArray::into_chunks" = Some ("transmute", "chunks") /\
  transmute_of "GenericArray::into_chunks_mut" = Some ("transmute", "chunks") /\
  transmute_of "GenericArray::AsRef<[T; U]>::as_ref" = Some ("transmute", "self") /\
  transmute_of "GenericArray::AsMut<[T; U]>::as_mut" = Some ("transmute", "self").
Proof. repeat split. Qed.

(* and these fourteen are all there are *)
Lemma tie_transmutes_count : length gen_transmutes = 14%nat.
Proof. reflexivity. Qed.

(* ---- which methods each trait impl defines itself (all others are the trait's defaults) ---- *)

Lemma tie_impl_count : length gen_impl_methods = 75%nat.
Proof. reflexivity. Qed.

(* ---- the bounds each trait impl places on its type parameters ---- *)

(* the "structural" traits: the array has the trait exactly when the element type has it -- nothing weaker
   (an impl that compiles for fewer element types sends method calls through Deref to the slice impl,
   which relates any two lengths) and nothing stronger *)

Lemma tie_structural_bounds :
  Forall (fun tr => bounds_of (tr ++ " for GenericArray<T,N>") = Some ["N:ArrayLength"; ("T:" ++ tr)%string])
         structural_traits.
Proof. repeat constructor. Qed.

(* the unsafe auto-trait impls and Copy carry the element bound; the by-value iterator has no impl of
   Send / Sync / Copy of its own (the auto traits follow from its fields) and is Clone for T: Clone *)

Lemma tie_marker_bounds :
  bounds_of "unsafe Send for GenericArray<T,N>" = Some ["N:ArrayLength"; "T:Send"] /\
  bounds_of "unsafe Sync for GenericArray<T,N>" = Some ["N:ArrayLength"; "T:Sync"] /\
  bounds_of "Copy for GenericArray<T,N>" = Some ["N::ArrayType<T>:Copy"; "N:ArrayLength"; "T:Copy"] /\
  bounds_of "Copy for GenericArrayImplEven<T,U>" = Some ["T:Copy"; "U:Copy"] /\
  bounds_of "Copy for GenericArrayImplOdd<T,U>" = Some ["T:Copy"; "U:Copy"] /\
  bounds_of "Clone for GenericArrayIter<T,N>" = Some ["N:ArrayLength"; "T:Clone"] /\
  filter (fun r => (mentions "Send for" (snd (fst r)) || mentions "Sync for" (snd (fst r)) || mentions "Copy for" (snd (fst r)))%bool)
         gen_impl_bounds
  = [("lib.rs", "Copy for GenericArrayImplEven<T,U>", ["T:Copy"; "U:Copy"]);
     ("lib.rs", "Copy for GenericArrayImplOdd<T,U>", ["T:Copy"; "U:Copy"]);
     ("lib.rs", "unsafe Send for GenericArray<T,N>", ["N:ArrayLength"; "T:Send"]);
     ("lib.rs", "unsafe Sync for GenericArray<T,N>", ["N:ArrayLength"; "T:Sync"]);
     ("impls.rs", "Copy for GenericArray<T,N>", ["N::ArrayType<T>:Copy"; "N:ArrayLength"; "T:Copy"])].
Proof. repeat split. Qed.

(* comparisons relate one length only: no impl header of a comparison trait names a second array type *)
Lemma tie_cmp_headers :
  map (fun r => snd (fst r))
      (filter (fun r => (mentions "PartialEq" (snd (fst r)) || mentions "PartialOrd" (snd (fst r))
                         || mentions "Ord for" (snd (fst r)) || mentions "Eq for" (snd (fst r)))%bool) gen_impl_bounds)
  = ["PartialEq for GenericArray<T,N>"; "Eq for GenericArray<T,N>"; "PartialOrd for GenericArray<T,N>"; "Ord for GenericArray<T,N>"].
Proof. reflexivity. Qed.

Lemma tie_impl_bounds_count : length gen_impl_bounds = 75%nat.
Proof. reflexivity. Qed.

(* ---- impl_tuple!: both conversions are safe destructurings -- the tuple is taken apart into the
        bindings $t.. and rebuilt as the array literal [$t..] through from_array, the array is turned
        into a native array by into_array, taken apart into the same bindings and rebuilt as the tuple:
        positions are kept by the repetition order, every element moves exactly once ---- *)
Lemma tie_tuple_bodies :
  gen_tuple_bodies =
  ("let ($ ($ t ,) *) = tuple ; GenericArray :: from_array ([$ ($ t ,) *])",
   "let [$ ($ t) ,*] = array . into_array () ; ($ ($ t ,) *)").
Proof. reflexivity. Qed.

(* ---- the inverse bounds of Lengthen / Shorten as they stand in the trait declarations ---- *)

Lemma tie_inverse_bounds :
  gen_inverse_bounds = [("Lengthen", "Longer", "Shorten", Some "Shorter"); ("Shorten", "Shorter", "Lengthen", Some "Longer")] /\
  inverse_eq_of "Lengthen" = inverse_bound_has_equality 0 /\
  inverse_eq_of "Shorten" = inverse_bound_has_equality 1.
Proof. repeat split. Qed.

(* ---- lifetimes: every safe public / trait function of GenericArray and GenericArrayIter in
        lib.rs, impls.rs, iter.rs, sequence.rs whose result carries a reference (or a
        slice iterator's lifetime), as regenerated with lifetime elision applied
        (coq/gen/GenLifetimes.v), ties each result reference to an argument reference of the
        same lifetime and at least its mutability, and never to 'static ---- *)
From GAGen Require Import GenLifetimes.

Lemma tie_lifetimes_sound_b : forallb (fun p => sound_sig (snd p)) gen_signatures = true.
Proof. vm_compute. reflexivity. Qed.

Lemma tie_lifetimes_sound : forall n s, In (n, s) gen_signatures -> sound_sig s = true.
Proof.
  intros n s H. pose proof tie_lifetimes_sound_b as Hb. rewrite forallb_forall in Hb.
  exact (Hb (n, s) H).
Qed.

(* the functions the hand-stated list SigDecls.signatures describes are all found in the source *)
Definition lifetime_names_required : list string :=
  ["GenericArray::as_slice"; "GenericArray::as_mut_slice"; "GenericArray::from_slice";
   "GenericArray::try_from_slice"; "GenericArray::from_mut_slice"; "GenericArray::try_from_mut_slice";
   "GenericArray::chunks_from_slice"; "GenericArray::chunks_from_slice_mut";
   "GenericArray::slice_from_chunks"; "GenericArray::slice_from_chunks_mut";
   "GenericArray::from_chunks"; "GenericArray::from_chunks_mut";
   "GenericArray::into_chunks"; "GenericArray::into_chunks_mut";
   "GenericArray::Deref::deref"; "GenericArray::DerefMut::deref_mut";
   "&GenericArray::IntoIterator::into_iter"; "&mut GenericArray::IntoIterator::into_iter";
   "&GenericArray::TryFrom::try_from"; "&mut GenericArray::TryFrom::try_from";
   "&GenericArray::Split::split"; "&mut GenericArray::Split::split";
   "&GenericArray::Flatten::flatten"; "&mut GenericArray::Flatten::flatten";
   "&GenericArray::Unflatten::unflatten"; "&mut GenericArray::Unflatten::unflatten";
   "GenericArray::Borrow::borrow"; "GenericArray::BorrowMut::borrow_mut";
   "GenericArray::AsRef::as_ref"; "GenericArray::AsMut::as_mut";
   "&GenericArray::From::from"; "&mut GenericArray::From::from";
   "GenericArrayIter::as_slice"; "GenericArrayIter::as_mut_slice"].

Lemma tie_lifetimes_cover :
  forallb (fun n => existsb (String.eqb n) (map fst gen_signatures)) lifetime_names_required = true.
Proof. vm_compute. reflexivity. Qed.

(* and each of them has exactly the reference shape of its hand-stated counterpart: one
   source reference, every result reference on that same lifetime with the same mutability *)
Definition single_source_shape (s : sig) : bool :=
  match sg_in s with
  | [i] => match r_lt i with
           | LtNamed _ => forallb (fun o => lifetime_eqb (r_lt o) (r_lt i) && Bool.eqb (r_mut o) (r_mut i)) (sg_out s)
           | LtStatic => false
           end
  | _ => false
  end.

Lemma tie_lifetimes_shape : forallb (fun p => single_source_shape (snd p)) gen_signatures = true.
Proof. vm_compute. reflexivity. Qed.

(* ---- thin bodies: methods whose body is one expression (coq/gen/GenSigs.v gen_thin_bodies) ---- *)

(* ---- the short multi-statement bodies (coq/gen/GenSigs.v gen_small_bodies) ---- *)

(* the builders hand the array over exactly once: the owning builder reads its array out and forgets itself
   (its Drop must not run over moved-out elements), the intrusive one forgets itself *)
Lemma tie_builder_endings :
  small_of "ArrayBuilder" "assume_init" =
    Some ["debug_assert ! (self . is_full ()) ;"; "let array = ptr :: read (& self . array) ;";
          "mem :: forget (self) ;"; "GenericArray :: assume_init (array)"] /\
  small_of "IntrusiveArrayBuilder" "finish" = Some ["debug_assert ! (self . is_full ()) ;"; "mem :: forget (self)"].
Proof. split; reflexivity. Qed.

(* const_transmute: the size test, then a by-value reinterpretation through a repr(C) union of ManuallyDrop
   fields (no reference to the argument is formed, so no alignment requirement arises, and the argument is
   not dropped) *)
Lemma tie_const_transmute_body :
  small_of "" "const_transmute" =
    Some ["if mem :: size_of :: < A > () != mem :: size_of :: < B > () { panic ! (""Size mismatch for generic_array::const_transmute"") ; }";
          "# [repr (C)] union Union < A , B > { a : ManuallyDrop < A > , b : ManuallyDrop < B > , }";
          "let a = ManuallyDrop :: new (a) ;";
          "ManuallyDrop :: into_inner (Union { a } . b)"].
Proof. reflexivity. Qed.

(* the checked reinterpretations of a slice: the length test first, then a cast of the slice's own data pointer
   (no offset, no new length): the view starts at element 0 and its extent is the type's *)
Lemma tie_slice_casts :
  small_of "GenericArray" "from_slice" =
    Some ["if slice . len () != N :: USIZE { panic ! (""slice.len() != N in GenericArray::from_slice"") ; }";
          "unsafe { & * (slice . as_ptr () as * const GenericArray < T , N >) }"] /\
  small_of "GenericArray" "try_from_slice" =
    Some ["if slice . len () != N :: USIZE { return Err (LengthError) ; }";
          "Ok (unsafe { & * (slice . as_ptr () as * const GenericArray < T , N >) })"] /\
  small_of "GenericArray" "from_mut_slice" =
    Some ["assert ! (slice . len () == N :: USIZE , ""slice.len() != N in GenericArray::from_mut_slice"") ;";
          "unsafe { & mut * (slice . as_mut_ptr () as * mut GenericArray < T , N >) }"].
Proof. repeat split. Qed.

(* GuardTieViews.v -- tier T2 tie (part of the former GuardTie.v, split so that a change of one function only reaches the
   properties whose theorems are stated over that function's regenerated guards): the four checked slice reinterpretations (C02) *)
From Coq Require Import String.
From GA Require Import Base Guards.
From GA Require Views Chunks SeqOps Builder Hex HeapOps ConstEval Serde.
From GAGen Require Import GenGuards GenConstFns.
Local Open Scope Z_scope.

Lemma of_nat_eqb a b : (Z.of_nat a =? Z.of_nat b) = Nat.eqb a b.
Proof.
  destruct (Nat.eqb_spec a b) as [->|H]; [apply Z.eqb_refl|]. apply Z.eqb_neq. lia.
Qed.

(* ---------------- C02: the four checked reinterpretations (src/lib.rs) ---------------- *)

Definition slice_env (L : nat) : genv := env1 "slice.len" (Z.of_nat L).

Lemma tie_from_slice N (s : Views.slice) :
  Views.from_slice N s =
  (if rejects from_slice_guard (slice_env (Views.slen s)) (Z.of_nat N) then Panicked else Ret (Views.sptr s)) /\
  fails_by_panic from_slice_guard = true.
Proof.
  split; [|reflexivity]. unfold Views.from_slice, rejects, from_slice_guard, slice_env, env1.
  cbn [g_kind g_cond ctest geval String.eqb Ascii.eqb Bool.eqb]. now rewrite of_nat_eqb.
Qed.

Lemma tie_try_from_slice N (s : Views.slice) :
  Views.try_from_slice N s =
  (if rejects try_from_slice_guard (slice_env (Views.slen s)) (Z.of_nat N)
   then Ret Views.TErr else Ret (Views.TOk (Views.sptr s))) /\
  fails_by_panic try_from_slice_guard = false.
Proof.
  split; [|reflexivity]. unfold Views.try_from_slice, rejects, try_from_slice_guard, slice_env, env1.
  cbn [g_kind g_cond ctest geval String.eqb Ascii.eqb Bool.eqb]. now rewrite of_nat_eqb.
Qed.

Lemma tie_from_mut_slice N (s : Views.slice) :
  Views.from_mut_slice N s =
  (if rejects from_mut_slice_guard (slice_env (Views.slen s)) (Z.of_nat N) then Panicked else Ret (Views.sptr s)) /\
  fails_by_panic from_mut_slice_guard = true.
Proof.
  split; [|reflexivity]. unfold Views.from_mut_slice, rejects, from_mut_slice_guard, slice_env, env1.
  cbn [g_kind g_cond ctest geval String.eqb Ascii.eqb Bool.eqb]. rewrite of_nat_eqb.
  now destruct (Nat.eqb (Views.slen s) N).
Qed.

Lemma tie_try_from_mut_slice N (s : Views.slice) :
  Views.try_from_mut_slice N s =
  (if rejects try_from_mut_slice_guard (slice_env (Views.slen s)) (Z.of_nat N)
   then Ret Views.TErr else Ret (Views.TOk (Views.sptr s))) /\
  fails_by_panic try_from_mut_slice_guard = false.
Proof.
  split; [|reflexivity].
  unfold Views.try_from_mut_slice, Views.from_mut_slice, rejects, try_from_mut_slice_guard, slice_env, env1.
  cbn [g_kind g_cond ctest geval String.eqb Ascii.eqb Bool.eqb]. rewrite of_nat_eqb.
  now destruct (Nat.eqb (Views.slen s) N).
Qed.

(* all four accept exactly L = N *)
Lemma guards_accept_iff L N :
  rejects from_slice_guard (slice_env L) (Z.of_nat N) = negb (Nat.eqb L N) /\
  rejects try_from_slice_guard (slice_env L) (Z.of_nat N) = negb (Nat.eqb L N) /\
  rejects from_mut_slice_guard (slice_env L) (Z.of_nat N) = negb (Nat.eqb L N) /\
  rejects try_from_mut_slice_guard (slice_env L) (Z.of_nat N) = negb (Nat.eqb L N).
Proof.
  unfold rejects, slice_env, env1.
  repeat split; cbn [g_kind g_cond ctest geval String.eqb Ascii.eqb Bool.eqb
                     from_slice_guard try_from_slice_guard from_mut_slice_guard try_from_mut_slice_guard];
    now rewrite of_nat_eqb.
Qed.


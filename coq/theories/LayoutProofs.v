(* LayoutProofs.v -- lemmas for C01: GenericArray<T, N> as declared in the crate has
   the layout of [T; N], for every element layout and every digit list. *)
From GA Require Import Base Layout LayoutDecls.
Local Open Scope Z_scope.

(* ---------------------------------------------------------------- arithmetic *)

Lemma round_up_mult x a : 0 < a -> (a | x) -> round_up x a = x.
Proof.
  intros Ha [k ->]. unfold round_up.
  replace (k * a + a - 1) with ((a - 1) + k * a) by lia.
  rewrite Z.div_add by lia. rewrite (Z.div_small (a - 1) a) by lia. lia.
Qed.

Lemma round_up_1 x : round_up x 1 = x.
Proof. unfold round_up. rewrite Z.div_1_r. lia. Qed.

Lemma val_nonneg ds : 0 <= val ds.
Proof. induction ds as [|[] ds IH]; cbn [val]; lia. Qed.

Lemma iota_app e n1 : forall base n2,
  iota e base (n1 + n2) = iota e base n1 ++ iota e (base + Z.of_nat n1 * e) n2.
Proof.
  induction n1 as [|n1 IH]; intros base n2.
  - cbn. f_equal. lia.
  - cbn [Nat.add iota app]. f_equal. rewrite IH. f_equal. f_equal. lia.
Qed.

Lemma iota_seq e n : forall base,
  iota e base n = map (fun j => base + Z.of_nat j * e) (seq 0 n).
Proof.
  induction n as [|n IH]; intros base; [reflexivity|].
  cbn [iota seq map]. f_equal; [lia|].
  rewrite IH, <- seq_shift, map_map. apply map_ext. intros j. lia.
Qed.

Lemma iota_length e n : forall base, length (iota e base n) = n.
Proof. induction n as [|n IH]; intros base; cbn; [reflexivity|]. now rewrite IH. Qed.

Lemma iota_nth_error e n : forall base i, (i < n)%nat ->
  nth_error (iota e base n) i = Some (base + Z.of_nat i * e).
Proof.
  induction n as [|n IH]; intros base i Hi; [lia|].
  destruct i as [|i]; cbn [iota nth_error]; [f_equal; lia|].
  rewrite IH by lia. f_equal. lia.
Qed.

Lemma iota_In e n : forall base o, In o (iota e base n) ->
  exists j, (j < n)%nat /\ o = base + Z.of_nat j * e.
Proof.
  induction n as [|n IH]; intros base o Hin; [destruct Hin|].
  destruct Hin as [<- | Hin].
  - exists 0%nat. split; [lia|]. lia.
  - destruct (IH _ _ Hin) as [j [Hj ->]]. exists (S j). split; [lia|]. lia.
Qed.

(* ---------------------------------------------------------------- unfolding lemmas *)

Lemma layout_struct r fs :
  layout (Struct r fs) =
  match layouts fs with Some ls => struct_layout r ls | None => None end.
Proof.
  cbn [layout].
  match goal with |- match ?g fs with _ => _ end = _ =>
    assert (E : forall l, g l = layouts l) end.
  { induction l as [|f l IH]; [reflexivity|]. cbn [layouts]. rewrite <- IH. reflexivity. }
  rewrite E. reflexivity.
Qed.

Lemma offsets_struct d r fs base :
  offsets d (Struct r fs) base =
  match layouts fs with
  | Some ls => match field_offsets r ls with
               | Some os => offsets_fields d fs os base
               | None => None end
  | None => None
  end.
Proof.
  cbn [offsets]. destruct (layouts fs) as [ls|]; [|reflexivity].
  destruct (field_offsets r ls) as [os|]; [|reflexivity].
  revert os. induction fs as [|f fs IH]; intros os; [reflexivity|].
  destruct os as [|o os]; [reflexivity|]. cbn [offsets_fields]. rewrite <- IH. reflexivity.
Qed.

Lemma count_struct d r fs : count d (Struct r fs) = count_fields d fs.
Proof.
  cbn [count]. induction fs as [|f fs IH]; [reflexivity|].
  cbn [count_fields]. rewrite <- IH. reflexivity.
Qed.

Lemma offset_at_struct d r fs base i :
  offset_at d (Struct r fs) base i =
  match layouts fs with
  | Some ls => match field_offsets r ls with
               | Some os => offset_at_fields d fs os base i
               | None => None end
  | None => None
  end.
Proof.
  cbn [offset_at]. destruct (layouts fs) as [ls|]; [|reflexivity].
  destruct (field_offsets r ls) as [os|]; [|reflexivity].
  revert os i. induction fs as [|f fs IH]; intros os i; [reflexivity|].
  destruct os as [|o os]; [reflexivity|]. cbn [offset_at_fields]. rewrite <- IH. reflexivity.
Qed.

Lemma transparent_single l : transparent_layout [l] = Some l.
Proof.
  unfold transparent_layout. cbn [filter]. destruct (is_1zst l) eqn:E; cbn [negb]; [|reflexivity].
  unfold is_1zst in E. apply andb_true_iff in E. destruct E as [E1 E2].
  apply Z.eqb_eq in E1. apply Z.eqb_eq in E2. destruct l as [s a]. cbn in E1, E2. subst. reflexivity.
Qed.

(* ---------------------------------------------------------------- the crate's types *)

(* what [storage crate_decls] and [generic_array crate_decls] evaluate to *)
Fixpoint storage_ty (T : ty) (ds : list bool) : ty :=
  match ds with
  | [] => Arr (Elem T) 0
  | b :: ds' =>
      Struct ReprC [storage_ty T ds'; storage_ty T ds'; if b then Elem T else Phantom]
  end.

Definition ga_ty (T : ty) (ds : list bool) : ty := Struct ReprTransparent [storage_ty T ds].

Lemma storage_crate T ds : storage crate_decls T ds = Some (storage_ty T ds).
Proof.
  induction ds as [|b ds IH]; [reflexivity|].
  cbn [storage]. rewrite IH. destruct b; reflexivity.
Qed.

Lemma generic_array_crate T ds : generic_array crate_decls T ds = Some (ga_ty T ds).
Proof. unfold generic_array. rewrite storage_crate. reflexivity. Qed.

(* [array_like d t a e m]: t has exactly the layout of an array of m elements of
   stride e and alignment a -- size m*e, alignment a -- and its depth-d elements sit
   at base, base+e, ..., base+(m-1)e: no padding before, between or after them. *)
Definition array_like (d : nat) (t : ty) (a e : Z) (m : nat) : Prop :=
  0 < a /\ (a | Z.of_nat m * e) /\
  layout t = Some {| sz := Z.of_nat m * e; al := a |} /\
  (forall base, offsets d (Elem t) base = Some (iota e base m)) /\
  count d (Elem t) = Z.of_nat m /\
  (forall base i, offset_at d (Elem t) base i =
                  if (0 <=? i) && (i <? Z.of_nat m) then Some (base + i * e) else None).

Lemma prim_array_like s a : 0 <= s -> 0 < a -> (a | s) -> array_like 0 (Prim s a) a s 1.
Proof.
  intros Hs Ha Hd. unfold array_like. replace (Z.of_nat 1 * s) with s by lia.
  repeat split; try assumption.
  - cbn [layout]. destruct Hd as [k ->]. rewrite Z.mod_mul by lia.
    replace (0 <=? k * a) with true by (symmetry; apply Z.leb_le; lia).
    replace (0 <? a) with true by (symmetry; apply Z.ltb_lt; lia). reflexivity.
  - intros base i. cbn [offset_at]. destruct (Z.eqb_spec i 0) as [->|Hne].
    + cbn. f_equal. lia.
    + destruct (Z.leb_spec 0 i); destruct (Z.ltb_spec i (Z.of_nat 1)); cbn [andb]; try reflexivity. lia.
Qed.

Section Storage.
  Variables (dd : nat) (T : ty) (a e : Z) (m : nat).
  Hypothesis HT : array_like dd T a e m.

  Let s := Z.of_nat m * e.

  Lemma T_layout : layout T = Some {| sz := s; al := a |}.
  Proof. apply HT. Qed.
  Lemma a_pos : 0 < a.
  Proof. apply HT. Qed.
  Lemma a_div_s : (a | s).
  Proof. apply HT. Qed.

  Lemma div_vs k : (a | k * s).
  Proof. apply Z.divide_mul_r. apply a_div_s. Qed.

  Ltac dv := first [ lia | repeat apply Z.divide_add_r;
                           first [apply Z.divide_0_r | apply div_vs | apply a_div_s] ].

  Lemma storage_layout ds :
    layout (storage_ty T ds) = Some {| sz := val ds * s; al := a |}.
  Proof.
    pose proof a_pos as Ha. pose proof a_div_s as Hd.
    induction ds as [|b ds IH].
    - cbn [storage_ty layout val]. rewrite T_layout. cbn. reflexivity.
    - cbn [storage_ty]. rewrite layout_struct. cbn [layouts]. rewrite IH.
      destruct b.
      + cbn [layout]. rewrite T_layout. cbn [struct_layout reprc_layout fold_left reprc_step sz al val].
        rewrite (round_up_mult 0 a) by dv.
        rewrite (round_up_mult (0 + val ds * s) a) by dv.
        rewrite (round_up_mult (0 + val ds * s + val ds * s) a) by dv.
        replace (Z.max (Z.max (Z.max 1 a) a) a) with a by lia.
        rewrite round_up_mult by dv. f_equal. f_equal. lia.
      + cbn [layout struct_layout reprc_layout fold_left reprc_step sz al val].
        rewrite (round_up_mult 0 a) by dv.
        rewrite (round_up_mult (0 + val ds * s) a) by dv.
        rewrite round_up_1.
        replace (Z.max (Z.max (Z.max 1 a) a) 1) with a by lia.
        rewrite round_up_mult by dv. f_equal. f_equal. lia.
  Qed.

  Lemma ga_layout ds : layout (ga_ty T ds) = Some {| sz := val ds * s; al := a |}.
  Proof.
    unfold ga_ty. rewrite layout_struct. cbn [layouts]. rewrite storage_layout.
    cbn [struct_layout]. apply transparent_single.
  Qed.

  (* field offsets inside one node: 0, (val ds)*s, 2*(val ds)*s *)
  Lemma node_field_offsets ds l3 : al l3 = a \/ al l3 = 1 ->
    reprc_offsets 0 [ {| sz := val ds * s; al := a |}; {| sz := val ds * s; al := a |}; l3 ]
    = [0; val ds * s; 2 * (val ds * s)].
  Proof.
    intros Hl3. pose proof a_pos as Ha. cbn [reprc_offsets sz al].
    rewrite (round_up_mult 0 a) by dv.
    rewrite (round_up_mult (0 + val ds * s) a) by dv.
    replace (0 + val ds * s) with (val ds * s) by lia.
    do 3 f_equal.
    destruct Hl3 as [-> | ->].
    - rewrite round_up_mult by dv. lia.
    - rewrite round_up_1. lia.
  Qed.

  Let n (ds : list bool) : nat := (Z.to_nat (val ds) * m)%nat.

  Lemma n_spec ds : Z.of_nat (n ds) * e = val ds * s.
  Proof. unfold n, s. pose proof (val_nonneg ds). rewrite Nat2Z.inj_mul, Z2Nat.id by lia. lia. Qed.

  Lemma n_cons b ds : n (b :: ds) = (n ds + (n ds + (if b then m else 0)))%nat.
  Proof.
    unfold n. cbn [val]. pose proof (val_nonneg ds).
    destruct b.
    - replace (Z.to_nat (2 * val ds + 1)) with (2 * Z.to_nat (val ds) + 1)%nat by lia. lia.
    - replace (Z.to_nat (2 * val ds + 0)) with (2 * Z.to_nat (val ds))%nat by lia. lia.
  Qed.

  Lemma storage_offsets ds : forall base,
    offsets dd (storage_ty T ds) base = Some (iota e base (n ds)).
  Proof.
    destruct HT as (Ha & Hd & HTl & HTo & HTc & HTa).
    induction ds as [|b ds IH]; intros base.
    - cbn [storage_ty offsets]. cbn [layout]. rewrite HTl. reflexivity.
    - cbn [storage_ty]. rewrite offsets_struct. cbn [layouts]. rewrite storage_layout.
      assert (E : forall x, app_opt (Some (iota e (base + 0) (n ds)))
                   (app_opt (Some (iota e (base + val ds * s) (n ds)))
                      (app_opt (Some (iota e (base + 2 * (val ds * s)) x)) (Some [])))
                 = Some (iota e base (n ds + (n ds + x)))).
      { intros x. cbn [app_opt]. rewrite app_nil_r, !iota_app. rewrite n_spec.
        f_equal. f_equal; [f_equal; lia|]. f_equal. f_equal. lia. }
      destruct b.
      + cbn [layout]. rewrite HTl. cbn [field_offsets].
        rewrite node_field_offsets by (left; reflexivity).
        cbn [offsets_fields]. rewrite !IH, HTo, n_cons. apply E.
      + cbn [layout field_offsets].
        rewrite node_field_offsets by (right; reflexivity).
        cbn [offsets_fields]. rewrite !IH, n_cons. cbn [offsets]. apply (E 0%nat).
  Qed.

  Lemma storage_count ds : count dd (storage_ty T ds) = Z.of_nat (n ds).
  Proof.
    destruct HT as (Ha & Hd & HTl & HTo & HTc & HTa).
    induction ds as [|b ds IH].
    - cbn [storage_ty count]. reflexivity.
    - cbn [storage_ty]. rewrite count_struct. cbn [count_fields]. rewrite IH, n_cons.
      destruct b; [rewrite HTc | cbn [count]]; lia.
  Qed.

  Lemma storage_offset_at ds : forall base i,
    offset_at dd (storage_ty T ds) base i =
    if (0 <=? i) && (i <? Z.of_nat (n ds)) then Some (base + i * e) else None.
  Proof.
    destruct HT as (Ha & Hd & HTl & HTo & HTc & HTa).
    induction ds as [|b ds IH]; intros base i.
    - cbn [storage_ty offset_at]. cbn [layout]. rewrite HTl. rewrite HTc.
      replace (Z.of_nat (n [])) with 0 by (unfold n; cbn [val]; lia).
      destruct (Z.leb_spec (Z.of_nat m) 0).
      + destruct (Z.leb_spec 0 i); destruct (Z.ltb_spec i 0); cbn [andb]; try reflexivity; lia.
      + destruct (Z.leb_spec 0 (i / Z.of_nat m)); destruct (Z.ltb_spec (i / Z.of_nat m) 0);
        destruct (Z.leb_spec 0 i); destruct (Z.ltb_spec i 0); cbn [andb]; try reflexivity; lia.
    - cbn [storage_ty]. rewrite offset_at_struct. cbn [layouts]. rewrite storage_layout.
      pose proof (n_spec ds) as Hn. pose proof (n_cons b ds) as Hc.
      destruct b.
      + cbn [layout]. rewrite HTl. cbn [field_offsets].
        rewrite node_field_offsets by (left; reflexivity).
        cbn [offset_at_fields]. rewrite !storage_count, HTc, !IH, HTa, Hc.
        destruct (Z.ltb_spec i (Z.of_nat (n ds))).
        { destruct (Z.leb_spec 0 i); destruct (Z.ltb_spec i (Z.of_nat (n ds + (n ds + m))));
          cbn [andb]; try reflexivity; try lia. f_equal. lia. }
        destruct (Z.ltb_spec (i - Z.of_nat (n ds)) (Z.of_nat (n ds))).
        { destruct (Z.leb_spec 0 (i - Z.of_nat (n ds))); destruct (Z.leb_spec 0 i);
          destruct (Z.ltb_spec i (Z.of_nat (n ds + (n ds + m))));
          cbn [andb]; try reflexivity; try lia. f_equal. lia. }
        destruct (Z.ltb_spec (i - Z.of_nat (n ds) - Z.of_nat (n ds)) (Z.of_nat m)).
        { destruct (Z.leb_spec 0 (i - Z.of_nat (n ds) - Z.of_nat (n ds))); destruct (Z.leb_spec 0 i);
          destruct (Z.ltb_spec i (Z.of_nat (n ds + (n ds + m))));
          cbn [andb]; try reflexivity; try lia. f_equal. lia. }
        destruct (Z.leb_spec 0 i); destruct (Z.ltb_spec i (Z.of_nat (n ds + (n ds + m))));
          cbn [andb]; try reflexivity; lia.
      + cbn [layout field_offsets].
        rewrite node_field_offsets by (right; reflexivity).
        cbn [offset_at_fields]. rewrite !storage_count, !IH, Hc. cbn [count offset_at].
        destruct (Z.ltb_spec i (Z.of_nat (n ds))).
        { destruct (Z.leb_spec 0 i); destruct (Z.ltb_spec i (Z.of_nat (n ds + (n ds + 0))));
          cbn [andb]; try reflexivity; try lia. f_equal. lia. }
        destruct (Z.ltb_spec (i - Z.of_nat (n ds)) (Z.of_nat (n ds))).
        { destruct (Z.leb_spec 0 (i - Z.of_nat (n ds))); destruct (Z.leb_spec 0 i);
          destruct (Z.ltb_spec i (Z.of_nat (n ds + (n ds + 0))));
          cbn [andb]; try reflexivity; try lia. f_equal. lia. }
        destruct (Z.ltb_spec (i - Z.of_nat (n ds) - Z.of_nat (n ds)) 0).
        { destruct (Z.leb_spec 0 i); destruct (Z.ltb_spec i (Z.of_nat (n ds + (n ds + 0))));
          cbn [andb]; try reflexivity; lia. }
        destruct (Z.leb_spec 0 i); destruct (Z.ltb_spec i (Z.of_nat (n ds + (n ds + 0))));
          cbn [andb]; try reflexivity; lia.
  Qed.

  (* closure: GenericArray<T, N> is again array-like, one level deeper *)
  Lemma ga_array_like ds : array_like (S dd) (ga_ty T ds) a e (n ds).
  Proof.
    pose proof a_pos as Ha.
    unfold array_like. rewrite n_spec. repeat split.
    - exact Ha.
    - apply div_vs.
    - apply ga_layout.
    - intros base. cbn [offsets]. unfold ga_ty. rewrite offsets_struct. cbn [layouts].
      rewrite storage_layout. cbn [field_offsets]. rewrite transparent_single. cbn [map offsets_fields].
      rewrite storage_offsets. cbn [app_opt]. rewrite app_nil_r. do 2 f_equal. lia.
    - cbn [count]. unfold ga_ty. rewrite count_struct. cbn [count_fields]. rewrite storage_count. lia.
    - intros base i. cbn [offset_at]. unfold ga_ty. rewrite offset_at_struct. cbn [layouts].
      rewrite storage_layout. cbn [field_offsets]. rewrite transparent_single. cbn [map offset_at_fields].
      rewrite storage_count, storage_offset_at.
      destruct (Z.ltb_spec i (Z.of_nat (n ds))).
      + destruct (Z.leb_spec 0 i); cbn [andb]; try reflexivity. f_equal. lia.
      + rewrite andb_false_r. reflexivity.
  Qed.
End Storage.

(* ---------------------------------------------------------------- every layout is well formed *)

Definition lay_wf (l : lay) : Prop := 0 <= sz l /\ 0 < al l /\ (al l | sz l).

Fixpoint ty_ind' (P : ty -> Prop)
    (HPrim : forall s a, P (Prim s a)) (HPh : P Phantom)
    (HElem : forall t, P t -> P (Elem t))
    (HArr : forall t n, P t -> P (Arr t n))
    (HStruct : forall r fs, Forall P fs -> P (Struct r fs)) (t : ty) : P t :=
  match t with
  | Prim s a => HPrim s a
  | Phantom => HPh
  | Elem t' => HElem t' (ty_ind' P HPrim HPh HElem HArr HStruct t')
  | Arr t' n => HArr t' n (ty_ind' P HPrim HPh HElem HArr HStruct t')
  | Struct r fs =>
      HStruct r fs
        ((fix go (fs : list ty) : Forall P fs :=
            match fs with
            | [] => Forall_nil P
            | f :: fs' => Forall_cons f (ty_ind' P HPrim HPh HElem HArr HStruct f) (go fs')
            end) fs)
  end.

Lemma round_up_ge x a : 0 < a -> x <= round_up x a.
Proof.
  intros Ha. unfold round_up.
  pose proof (Z.div_mod (x + a - 1) a ltac:(lia)) as E.
  pose proof (Z.mod_pos_bound (x + a - 1) a Ha) as B. nia.
Qed.

Lemma round_up_divide x a : (a | round_up x a).
Proof. unfold round_up. apply Z.divide_factor_r. Qed.

Lemma reprc_fold_wf ls : Forall lay_wf ls -> forall off a, 0 <= off -> 0 < a ->
  0 <= fst (fold_left reprc_step ls (off, a)) /\ 0 < snd (fold_left reprc_step ls (off, a)).
Proof.
  induction 1 as [|l ls Hl _ IH]; intros off a Ho Ha; [cbn; lia|].
  cbn [fold_left reprc_step]. destruct Hl as (H1 & H2 & _). apply IH.
  - pose proof (round_up_ge off (al l) H2). lia.
  - lia.
Qed.

Lemma reprc_layout_wf ls : Forall lay_wf ls -> lay_wf (reprc_layout ls).
Proof.
  intros H. unfold reprc_layout.
  destruct (reprc_fold_wf ls H 0 1 ltac:(lia) ltac:(lia)) as [H1 H2].
  destruct (fold_left reprc_step ls (0, 1)) as [off a]. cbn [fst snd] in *.
  unfold lay_wf. cbn [sz al]. pose proof (round_up_ge off a H2).
  split; [lia|]. split; [lia|]. apply round_up_divide.
Qed.

Lemma transparent_layout_wf ls l : Forall lay_wf ls -> transparent_layout ls = Some l -> lay_wf l.
Proof.
  intros H. unfold transparent_layout.
  assert (Hf : Forall lay_wf (filter (fun l => negb (is_1zst l)) ls)).
  { apply Forall_forall. intros x Hx. apply filter_In in Hx. destruct Hx as [Hx _].
    eapply Forall_forall in H; eauto. }
  destruct (filter (fun l => negb (is_1zst l)) ls) as [|x [|y r]]; intros E; inversion E; subst.
  - unfold lay_wf. cbn. split; [lia|]. split; [lia|]. apply Z.divide_0_r.
  - inversion Hf; assumption.
Qed.

Lemma layouts_wf fs : Forall (fun t => forall l, layout t = Some l -> lay_wf l) fs ->
  forall ls, layouts fs = Some ls -> Forall lay_wf ls.
Proof.
  induction 1 as [|f fs Hf _ IH]; intros ls E; cbn [layouts] in E.
  - inversion E. constructor.
  - destruct (layout f) as [l|] eqn:El; [|discriminate].
    destruct (layouts fs) as [ls'|]; [|discriminate]. inversion E; subst.
    constructor; [apply Hf; reflexivity | apply IH; reflexivity].
Qed.

(* every type that has a layout has size >= 0, alignment > 0 and size a multiple of
   the alignment -- so the side conditions of the main theorems hold for EVERY
   element type with a layout, not only for primitives *)
Lemma layout_wf t : forall l, layout t = Some l -> lay_wf l.
Proof.
  induction t as [s a | | t IH | t n IH | r fs IH] using ty_ind'; intros l E.
  - cbn [layout] in E.
    destruct (Z.leb_spec 0 s); destruct (Z.ltb_spec 0 a); destruct (Z.eqb_spec (s mod a) 0);
      cbn [andb] in E; try discriminate.
    inversion E; subst. unfold lay_wf. cbn [sz al]. split; [lia|]. split; [lia|].
    apply Z.mod_divide; lia.
  - inversion E; subst. unfold lay_wf. cbn. split; [lia|]. split; [lia|]. apply Z.divide_0_r.
  - apply IH. exact E.
  - cbn [layout] in E. destruct (Z.ltb_spec n 0); [discriminate|].
    destruct (layout t) as [l'|]; [|discriminate]. inversion E; subst.
    destruct (IH l' eq_refl) as (H1 & H2 & H3). unfold lay_wf. cbn [sz al].
    split; [nia|]. split; [lia|]. apply Z.divide_mul_r. exact H3.
  - rewrite layout_struct in E. destruct (layouts fs) as [ls|] eqn:Els; [|discriminate].
    pose proof (layouts_wf fs IH ls Els) as Hls.
    destruct r; cbn [struct_layout] in E.
    + inversion E; subst. apply reprc_layout_wf. exact Hls.
    + eapply transparent_layout_wf; eauto.
    + discriminate.
Qed.

Lemma any_array_like T l : layout T = Some l -> array_like 0 T (al l) (sz l) 1.
Proof.
  intros E. destruct (layout_wf T l E) as (H1 & H2 & H3).
  unfold array_like. replace (Z.of_nat 1 * sz l) with (sz l) by lia.
  repeat split; try assumption.
  - rewrite E. destruct l; reflexivity.
  - intros base i. cbn [offset_at]. destruct (Z.eqb_spec i 0) as [->|Hne].
    + cbn. f_equal. lia.
    + destruct (Z.leb_spec 0 i); destruct (Z.ltb_spec i (Z.of_nat 1)); cbn [andb]; try reflexivity. lia.
Qed.

(* ---------------------------------------------------------------- placeholders *)

(* size and alignment are compositional: replacing a type argument by any type of the
   same layout does not change the layout of the instantiated declaration -- for ANY
   declarations D, not only the crate's *)
Definition leq (t t' : ty) : Prop := layout t = layout t'.

Inductive orel {A} (R : A -> A -> Prop) : option A -> option A -> Prop :=
| orel_none : orel R None None
| orel_some x y : R x y -> orel R (Some x) (Some y).

Lemma ph_opt_leq t : leq t (ph_opt (layout t)).
Proof.
  unfold leq. destruct (layout t) as [l|] eqn:E; cbn [ph_opt layout]; [|reflexivity].
  destruct (layout_wf t l E) as (H1 & H2 & [k H3]).
  replace (0 <=? sz l) with true by (symmetry; apply Z.leb_le; lia).
  replace (0 <? al l) with true by (symmetry; apply Z.ltb_lt; lia).
  rewrite H3, Z.mod_mul by lia. cbn. rewrite <- H3. destruct l; reflexivity.
Qed.

Lemma inst_leq x : forall args args', Forall2 leq args args' ->
  orel leq (inst args x) (inst args' x).
Proof.
  induction x as [i | x IH | x IH n | | s a]; intros args args' H; cbn [inst].
  - revert i. induction H as [|t t' l l' Ht _ IH]; intros [|i]; cbn [nth_error];
      try constructor; auto.
  - constructor. reflexivity.
  - destruct (IH _ _ H) as [|t t' Ht]; constructor.
    unfold leq in *. cbn [layout]. rewrite Ht. reflexivity.
  - constructor. reflexivity.
  - constructor. reflexivity.
Qed.

Lemma inst_list_leq xs : forall args args', Forall2 leq args args' ->
  orel (Forall2 leq) (inst_list args xs) (inst_list args' xs).
Proof.
  induction xs as [|x xs IH]; intros args args' H; cbn [inst_list].
  - constructor. constructor.
  - destruct (inst_leq x _ _ H) as [|t t' Ht]; [constructor|].
    destruct (IH _ _ H) as [|ts ts' Hts]; constructor. constructor; assumption.
Qed.

Lemma layouts_leq fs fs' : Forall2 leq fs fs' -> layouts fs = layouts fs'.
Proof.
  induction 1 as [|t t' l l' Ht _ IH]; [reflexivity|].
  cbn [layouts]. unfold leq in Ht. rewrite Ht, IH. reflexivity.
Qed.

Lemma inst_decl_leq d args args' : Forall2 leq args args' ->
  orel leq (inst_decl args d) (inst_decl args' d).
Proof.
  intros H. unfold inst_decl.
  destruct (inst_list_leq (d_fields d) _ _ H) as [|fs fs' Hfs]; constructor.
  unfold leq. rewrite !layout_struct, (layouts_leq _ _ Hfs). reflexivity.
Qed.

Lemma node_leq D T U U' b : leq U U' -> orel leq (node D T U b) (node D T U' b).
Proof.
  intros H. unfold node. destruct (if b then dc_b1 D else dc_b0 D) as [name targs].
  assert (H2 : Forall2 leq [Elem T; U] [Elem T; U']).
  { constructor; [reflexivity|]. constructor; [exact H|constructor]. }
  destruct (inst_list_leq targs _ _ H2) as [|args args' Ha]; [constructor|].
  apply inst_decl_leq. exact Ha.
Qed.

Lemma storage_ph_leq D T ds : orel leq (storage D T ds) (storage_ph D T ds).
Proof.
  induction ds as [|b ds IH]; cbn [storage storage_ph].
  - destruct (inst [Elem T] (dc_uterm D)); constructor. reflexivity.
  - destruct IH as [|U U' HU]; [constructor|].
    apply node_leq. unfold leq in *. rewrite HU. apply ph_opt_leq.
Qed.

Lemma lay_of_orel o o' : orel leq o o' -> lay_of o = lay_of o'.
Proof. intros [|t t' H]; cbn [lay_of]; [reflexivity|]. unfold leq in H. rewrite H. reflexivity. Qed.

(* the linear-time evaluation computes the layout of the real type *)
Theorem generic_array_ph_ok : forall D T ds,
  lay_of (generic_array D T ds) = lay_of (generic_array_ph D T ds).
Proof.
  intros D T ds. apply lay_of_orel. unfold generic_array, generic_array_ph.
  destruct (storage_ph_leq D T ds) as [|U U' HU]; [constructor|].
  unfold wrap. apply inst_decl_leq.
  constructor; [reflexivity|]. constructor; [|constructor].
  unfold leq in *. rewrite HU. apply ph_opt_leq.
Qed.

(* ---------------------------------------------------------------- the property statements *)

Definition elems (s : Z) (n : Z) : list Z := map (fun i => Z.of_nat i * s) (seq 0 (Z.to_nat n)).

Lemma elems_iota s n : elems s n = iota s 0 (Z.to_nat n).
Proof. unfold elems. rewrite iota_seq. apply map_ext. intros j. lia. Qed.

(* size and alignment: those of [T; N], for every element type with a layout and
   every digit list *)
Theorem layout_eq_native : forall (T : ty) (l : lay) (ds : list bool),
  layout T = Some l ->
  exists G, generic_array crate_decls T ds = Some G /\
            layout G = Some {| sz := val ds * sz l; al := al l |} /\
            layout G = layout (Arr T (val ds)).
Proof.
  intros T l ds E. exists (ga_ty T ds). split; [apply generic_array_crate|].
  pose proof (ga_layout 0 T (al l) (sz l) 1 (any_array_like T l E) ds) as H.
  replace (Z.of_nat 1 * sz l) with (sz l) in H by lia.
  split; [exact H|]. rewrite H. cbn [layout]. rewrite E.
  pose proof (val_nonneg ds). destruct (Z.ltb_spec (val ds) 0); [lia|reflexivity].
Qed.

(* the same for the primitive element layouts, with the side conditions spelled out *)
Theorem layout_eq_native_prim : forall (s a : Z) (ds : list bool),
  0 <= s -> 0 < a -> (a | s) ->
  exists G, generic_array crate_decls (Prim s a) ds = Some G /\
            layout G = Some {| sz := val ds * s; al := a |} /\
            layout G = layout (Arr (Prim s a) (val ds)).
Proof.
  intros s a ds Hs Ha Hd.
  destruct (prim_array_like s a Hs Ha Hd) as (_ & _ & E & _).
  replace (Z.of_nat 1 * s) with s in E by lia.
  apply (layout_eq_native (Prim s a) {| sz := s; al := a |} ds E).
Qed.

(* element offsets: 0, s, 2s, ..., (N-1)s -- no padding, in order, N of them *)
Theorem offsets_eq_native : forall (T : ty) (l : lay) (ds : list bool),
  layout T = Some l ->
  exists G, generic_array crate_decls T ds = Some G /\
            offsets 0 G 0 = Some (elems (sz l) (val ds)) /\
            count 0 G = val ds.
Proof.
  intros T l ds E. exists (ga_ty T ds). split; [apply generic_array_crate|].
  destruct (ga_array_like 0 T (al l) (sz l) 1 (any_array_like T l E) ds) as (_ & _ & _ & Ho & Hc & _).
  pose proof (val_nonneg ds).
  split.
  - specialize (Ho 0). cbn [offsets] in Ho. rewrite Ho. unfold elems.
    rewrite iota_seq, Nat.mul_1_r. f_equal.
  - cbn [count] in Hc. rewrite Hc. lia.
Qed.

(* element i is at byte offset i*s; there is no element i outside 0 <= i < N.
   (Indexed form: does not enumerate, so it also serves lengths like 2^62.) *)
Theorem offset_at_eq_native : forall (T : ty) (l : lay) (ds : list bool) (i : Z),
  layout T = Some l ->
  exists G, generic_array crate_decls T ds = Some G /\
            offset_at 0 G 0 i = if (0 <=? i) && (i <? val ds) then Some (i * sz l) else None.
Proof.
  intros T l ds i E. exists (ga_ty T ds). split; [apply generic_array_crate|].
  destruct (ga_array_like 0 T (al l) (sz l) 1 (any_array_like T l E) ds) as (_ & _ & _ & _ & _ & Ha).
  pose proof (val_nonneg ds).
  specialize (Ha 0 i). cbn [offset_at] in Ha. rewrite Ha.
  replace (Z.of_nat (Z.to_nat (val ds) * 1)) with (val ds) by lia. reflexivity.
Qed.

(* nothing outside the array: every element lies inside [0, N*s) *)
Theorem elements_in_bounds : forall (T : ty) (l : lay) (ds : list bool),
  layout T = Some l ->
  exists G os, generic_array crate_decls T ds = Some G /\ offsets 0 G 0 = Some os /\
    layout G = Some {| sz := val ds * sz l; al := al l |} /\
    length os = Z.to_nat (val ds) /\
    (forall o, In o os -> 0 <= o /\ o + sz l <= val ds * sz l) /\
    (forall i j oi oj, nth_error os i = Some oi -> nth_error os j = Some oj -> (i < j)%nat ->
                       oi + sz l <= oj).
Proof.
  intros T l ds E.
  destruct (layout_wf T l E) as (Hs & _ & _).
  destruct (offsets_eq_native T l ds E) as (G & HG & Ho & _).
  destruct (layout_eq_native T l ds E) as (G' & HG' & Hl & _).
  rewrite HG in HG'. inversion HG'; subst G'.
  exists G, (elems (sz l) (val ds)). pose proof (val_nonneg ds) as Hv.
  repeat split; try assumption.
  - unfold elems. rewrite map_length, seq_length. reflexivity.
  - unfold elems in H. apply in_map_iff in H. destruct H as [j [<- Hj]].
    apply in_seq in Hj. nia.
  - unfold elems in H. apply in_map_iff in H. destruct H as [j [<- Hj]].
    apply in_seq in Hj. nia.
  - intros i j oi oj Hi Hj Hij. rewrite elems_iota in Hi, Hj.
    assert (Li : (i < Z.to_nat (val ds))%nat).
    { rewrite <- (iota_length (sz l) (Z.to_nat (val ds)) 0). apply nth_error_Some. rewrite Hi. discriminate. }
    assert (Lj : (j < Z.to_nat (val ds))%nat).
    { rewrite <- (iota_length (sz l) (Z.to_nat (val ds)) 0). apply nth_error_Some. rewrite Hj. discriminate. }
    rewrite iota_nth_error in Hi by exact Li. rewrite iota_nth_error in Hj by exact Lj.
    inversion Hi; inversion Hj; subst. nia.
Qed.

(* the native array [T; n] in the model: n elements at base, base+s, ... *)
Lemma arr_offsets T l n : layout T = Some l -> 0 <= n -> forall base,
  offsets 0 (Arr (Elem T) n) base = Some (iota (sz l) base (Z.to_nat n)).
Proof.
  intros E Hn base. cbn [offsets layout]. rewrite E.
  destruct (Z.ltb_spec n 0); [lia|].
  generalize (Z.to_nat n) as k. intros k. revert base.
  induction k as [|k IH]; intros base; [reflexivity|].
  rewrite IH. reflexivity.
Qed.

(* GenericArray<T, N> and [T; N] agree on everything the model computes: size,
   alignment, and the offsets of the elements *)
Theorem same_as_native : forall (T : ty) (l : lay) (ds : list bool),
  layout T = Some l ->
  exists G, generic_array crate_decls T ds = Some G /\
            layout G = layout (Arr (Elem T) (val ds)) /\
            offsets 0 G 0 = offsets 0 (Arr (Elem T) (val ds)) 0 /\
            count 0 G = count 0 (Arr (Elem T) (val ds)).
Proof.
  intros T l ds E.
  destruct (offsets_eq_native T l ds E) as (G & HG & Ho & Hc).
  destruct (layout_eq_native T l ds E) as (G' & HG' & _ & Hl).
  rewrite HG in HG'. inversion HG'; subst G'.
  exists G. split; [exact HG|]. split; [exact Hl|]. split.
  - rewrite Ho, (arr_offsets T l (val ds) E (val_nonneg ds)), elems_iota. reflexivity.
  - rewrite Hc. cbn [count]. lia.
Qed.

(* closure under nesting: an array of arrays is laid out as the flat array *)
Theorem nested_flat : forall (T : ty) (l : lay) (ds1 ds2 : list bool),
  layout T = Some l ->
  exists G1 G2, generic_array crate_decls T ds1 = Some G1 /\
                generic_array crate_decls G1 ds2 = Some G2 /\
    layout G2 = Some {| sz := val ds2 * val ds1 * sz l; al := al l |} /\
    offsets 0 G2 0 = Some (elems (val ds1 * sz l) (val ds2)) /\
    offsets 1 G2 0 = Some (elems (sz l) (val ds2 * val ds1)) /\
    count 1 G2 = val ds2 * val ds1 /\
    forall i, offset_at 1 G2 0 i =
              if (0 <=? i) && (i <? val ds2 * val ds1) then Some (i * sz l) else None.
Proof.
  intros T l ds1 ds2 E.
  exists (ga_ty T ds1), (ga_ty (ga_ty T ds1) ds2).
  split; [apply generic_array_crate|]. split; [apply generic_array_crate|].
  pose proof (ga_array_like 0 T (al l) (sz l) 1 (any_array_like T l E) ds1) as H1.
  pose proof (ga_array_like 1 _ _ _ _ H1 ds2) as (_ & _ & Hl2 & Ho2 & Hc2 & Ha2).
  pose proof (val_nonneg ds1) as V1. pose proof (val_nonneg ds2) as V2.
  set (n1 := (Z.to_nat (val ds1) * 1)%nat) in *.
  assert (N1 : Z.of_nat n1 = val ds1) by (unfold n1; lia).
  assert (N2 : Z.of_nat (Z.to_nat (val ds2) * n1) = val ds2 * val ds1)
    by (rewrite Nat2Z.inj_mul, N1; lia).
  split; [rewrite Hl2; f_equal; f_equal; rewrite N2; reflexivity|].
  split.
  { destruct H1 as (_ & _ & Hl1 & _).
    destruct (offsets_eq_native (ga_ty T ds1) _ ds2 Hl1) as (G & HG & Ho & _).
    rewrite generic_array_crate in HG. inversion HG; subst G. rewrite Ho. cbn [sz].
    rewrite N1. reflexivity. }
  split.
  { specialize (Ho2 0). cbn [offsets] in Ho2. cbn [offsets]. rewrite Ho2. unfold elems.
    rewrite iota_seq. f_equal.
    replace (Z.to_nat (val ds2 * val ds1)) with (Z.to_nat (val ds2) * n1)%nat by lia. reflexivity. }
  split.
  { cbn [count] in Hc2. cbn [count]. rewrite Hc2. exact N2. }
  intros i. specialize (Ha2 0 i). cbn [offset_at] in Ha2. cbn [offset_at]. rewrite Ha2, N2. reflexivity.
Qed.

Theorem closure : forall (d : nat) (T : ty) (a e : Z) (m : nat) (ds : list bool),
  array_like d T a e m ->
  generic_array crate_decls T ds = Some (ga_ty T ds) /\
  array_like (S d) (ga_ty T ds) a e (Z.to_nat (val ds) * m).
Proof.
  intros d T a e m ds H. split; [apply generic_array_crate | exact (ga_array_like d T a e m H ds)].
Qed.

(* const_transmute refuses exactly the size mismatches *)
Theorem const_transmute_guard : forall sa sb, const_transmute_panics sa sb = false <-> sa = sb.
Proof.
  intros sa sb. unfold const_transmute_panics. rewrite negb_false_iff. apply Z.eqb_eq.
Qed.

(* ---------------------------------------------------------------- negative controls *)

(* base case () instead of [T; 0]: the empty array loses T's alignment *)
Definition decls_unit_base : decls :=
  {| dc_even := impl_even; dc_odd := impl_odd; dc_uterm := XUnit;
     dc_b0 := arr_b0; dc_b1 := arr_b1; dc_ga := generic_array_decl |}.

Lemma unit_base_refuted :
  exists s a ds G, 0 <= s /\ 0 < a /\ (a | s) /\
    generic_array decls_unit_base (Prim s a) ds = Some G /\
    layout G = Some {| sz := 0; al := 1 |} /\
    layout (Arr (Prim s a) (val ds)) = Some {| sz := 0; al := 8 |}.
Proof.
  exists 8, 8, [], (Struct ReprTransparent [Prim 0 1]).
  split; [lia|]. split; [lia|]. split; [exists 1; lia|].
  split; [reflexivity|]. split; reflexivity.
Qed.

(* ... and so does every non-normalised zero and nothing else: the defect is confined
   to one digit pattern family, exactly what sampling (T, N) pairs misses *)
Lemma unit_base_even_refuted :
  exists G, generic_array decls_unit_base (Prim 8 8) [false; false] = Some G /\
            layout G = Some {| sz := 0; al := 1 |}.
Proof. eexists. split; reflexivity. Qed.

(* a marker field that is not a 1-ZST pads small element types *)
Definition decls_sized_marker : decls :=
  {| dc_even := {| d_repr := ReprC; d_fields := [XParam 1; XParam 1; XArr (XPrim 2 2) 0] |};
     dc_odd := impl_odd; dc_uterm := arr_uterm;
     dc_b0 := arr_b0; dc_b1 := arr_b1; dc_ga := generic_array_decl |}.

Lemma sized_marker_refuted :
  exists G, generic_array decls_sized_marker (Prim 1 1) [false; true; false; true] = Some G /\
            layout G = Some {| sz := 12; al := 2 |} /\
            layout (Arr (Prim 1 1) (val [false; true; false; true])) = Some {| sz := 10; al := 1 |} /\
            offsets 0 G 0 = Some [0; 1; 2; 3; 4; 6; 7; 8; 9; 10].
Proof. eexists. split; [reflexivity|]. split; [reflexivity|]. split; reflexivity. Qed.

(* without repr(C) on the node structs nothing is guaranteed for any N written with
   at least one digit; without repr(transparent) on the wrapper, for no N at all *)
Definition decls_rust_nodes : decls :=
  {| dc_even := {| d_repr := ReprRust; d_fields := d_fields impl_even |};
     dc_odd := {| d_repr := ReprRust; d_fields := d_fields impl_odd |};
     dc_uterm := arr_uterm; dc_b0 := arr_b0; dc_b1 := arr_b1; dc_ga := generic_array_decl |}.

Definition decls_rust_wrapper : decls :=
  {| dc_even := impl_even; dc_odd := impl_odd; dc_uterm := arr_uterm;
     dc_b0 := arr_b0; dc_b1 := arr_b1;
     dc_ga := {| d_repr := ReprRust; d_fields := d_fields generic_array_decl |} |}.

Lemma rust_nodes_refuted : forall T b ds G,
  generic_array decls_rust_nodes T (b :: ds) = Some G -> layout G = None.
Proof.
  intros T b ds G. unfold generic_array. cbn [storage].
  destruct (storage decls_rust_nodes T ds) as [U|]; [|discriminate].
  destruct b; cbn; intros E; inversion E; subst; rewrite !layout_struct; cbn [layouts];
    rewrite layout_struct; destruct (layouts _); reflexivity.
Qed.

Lemma rust_wrapper_refuted : forall T ds G,
  generic_array decls_rust_wrapper T ds = Some G -> layout G = None.
Proof.
  intros T ds G. unfold generic_array.
  destruct (storage decls_rust_wrapper T ds) as [U|]; [|discriminate].
  cbn. intros E. inversion E; subst. rewrite layout_struct. destruct (layouts _); reflexivity.
Qed.

(* ---------------------------------------------------------------- non-vacuity *)

(* a padded tuple (u8, u32): size 8, alignment 4; N = 5 = UInt<UInt<UInt<UTerm,B1>,B0>,B1> *)
Example layout_example :
  option_map layout (generic_array crate_decls (Prim 8 4) [true; false; true])
  = Some (Some {| sz := 40; al := 4 |}).
Proof. reflexivity. Qed.

Example offsets_example :
  match generic_array crate_decls (Prim 8 4) [true; false; true] with
  | Some G => offsets 0 G 0 | None => None end = Some [0; 8; 16; 24; 32].
Proof. reflexivity. Qed.

(* non-normalised 3 = 0b011 with a leading zero digit, zero-sized element aligned 64 *)
Example zst_example :
  match generic_array crate_decls (Prim 0 64) [true; true; false] with
  | Some G => (layout G, offsets 0 G 0, offset_at 0 G 0 2, offset_at 0 G 0 3) | None => (None, None, None, None) end
  = (Some {| sz := 0; al := 64 |}, Some [0; 0; 0], Some 0, None).
Proof. reflexivity. Qed.

(* GenericArray<GenericArray<u16, U3>, U2>: 6 u16 at 0, 2, ..., 10 *)
Example nested_example :
  match generic_array crate_decls (Prim 2 2) [true; true] with
  | Some G1 => match generic_array crate_decls G1 [false; true] with
               | Some G2 => (layout G2, offsets 0 G2 0, offsets 1 G2 0)
               | None => (None, None, None) end
  | None => (None, None, None) end
  = (Some {| sz := 12; al := 2 |}, Some [0; 6], Some [0; 2; 4; 6; 8; 10]).
Proof. reflexivity. Qed.

Example array_like_example : array_like 0 (Prim 8 4) 4 8 1.
Proof. apply prim_array_like; [lia | lia | exists 2; lia]. Qed.

Example layout_wf_example : lay_wf {| sz := 8; al := 4 |} /\ layout (Prim 8 4) = Some {| sz := 8; al := 4 |}.
Proof. split; [|reflexivity]. unfold lay_wf. cbn. split; [lia|]. split; [lia|]. exists 2. lia. Qed.

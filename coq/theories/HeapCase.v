(* HeapCase.v -- the case encoding shared by the C15 and C16 correspondence entry
   points (harness/src/heap_common.rs runs the same cases on the real crate).
   case = [op; kind; N; L; spare; pan; fail; aux]
     op    0 TryFrom<Vec> for GenericArray   1 into_boxed_slice      2 into_vec
           3 try_from_boxed_slice             4 try_from_vec          5 default_boxed
           6 boxed generate                   7 try_boxed_from_iter   8 TryFrom<Box<[T]>> for GenericArray
           9 From<GenericArray> for Box<[T]> 10 From<GenericArray> for Vec
          11 Box<GenericArray>::into_iter (aux items taken, then dropped)
          12 boxed collect                   13 box_arr![a, b, ..]   14 box_arr![x; N]
          15 boxed map                       16 boxed zip            17 boxed map to another element type
     kind  0 tracked 8-byte element (8, 8), 1 tracked zero-sized element (0, 1), 2 a plain 4-byte element (4, 4) whose Default is stateful (the k-th call yields k)
     N     the type-level length; L the length of the runtime source (Vec, boxed slice, item count)
     spare unused capacity of a source Vec
     pan   -1, or the index of the closure call / source poll / default() call that panics
     fail  -1, or the index of the allocation call of the run that returns null
     aux   ops 7, 12: size hint (0 exact, 1 absent); op 11: items taken
   identities: source i, second zip operand 2000 + i, generated 1000 + i, defaults 4000 + i
   (u32: 0), mapped x + 5000, zipped x + y + 7000, repeated value 2999 with clones 3000 + i
   (u32: copies 2999). *)
From GA Require Import Base Codec Builder Functional Alloc HeapOps.
Local Open Scope Z_scope.

Definition kind_elt (kind : Z) : elt :=
  if kind =? 0 then mkElt 8 8 else if kind =? 1 then mkElt 0 1 else mkElt 4 4.
(* op 17 maps tracked -> u32, zero-sized -> tracked, u32 -> zero-sized *)
Definition other_kind (kind : Z) : Z :=
  if kind =? 0 then 2 else if kind =? 1 then 0 else 1.

Definition ids (base : Z) (n : nat) : list Z := map (fun i => base + Z.of_nat i) (seq 0 n).

Definition opt_idx (z : Z) : option nat := if z <? 0 then None else Some (znat z).

Definition script (L : nat) (pan : option nat) (i : nat) : response :=
  if match pan with Some k => Nat.eqb i k | None => false end then PanicNow
  else if Nat.ltb i L then Item (Z.of_nat i) else End.

Definition script_src (L : nat) (pan : option nat) (hint : Z) : src :=
  if hint =? 0 then mkSrc (Z.of_nat L) (Some (Z.of_nat L)) (script L pan)
  else mkSrc 0 None (script L pan).

Definition decode (case : list Z) : option (elt * Z * scn * (nat -> bool)) :=
  match case with
  | [op; kind; n; l; spare; pan; fail; aux] =>
    let T := kind_elt kind in
    let N := znat n in
    let L := znat l in
    let p := opt_idx pan in
    let src := ids 0 L in
    let gen := fun (i : nat) (_ : list Z) => 1000 + Z.of_nat i in
    let dflt := fun (i : nat) (_ : list Z) => if kind =? 2 then Z.of_nat i else 4000 + Z.of_nat i in
    let mapf := fun (_ : nat) (r : list Z) => fold_right Z.add 5000 r in
    let zipf := fun (_ : nat) (r : list Z) => fold_right Z.add 7000 r in
    let sc :=
      if op =? 0 then Some (SVecToArray N src spare)
      else if op =? 1 then Some (SIntoBoxedSlice (ids 0 N))
      else if op =? 2 then Some (SIntoVec (ids 0 N))
      else if op =? 3 then Some (STryFromBoxedSlice N src)
      else if op =? 4 then Some (STryFromVec N src spare)
      else if op =? 5 then Some (SDefaultBoxed N dflt p)
      else if op =? 6 then Some (SGenerate N gen p)
      else if op =? 7 then Some (STryBoxedFromIter N (script_src L p aux))
      else if op =? 8 then Some (SBoxedSliceToArray N src)
      else if op =? 9 then Some (SArrayToBoxedSlice (ids 0 N))
      else if op =? 10 then Some (SArrayToVec (ids 0 N))
      else if op =? 11 then Some (SBoxedIntoIter (ids 0 N) (znat aux))
      else if op =? 12 then Some (SBoxedFromIter N (script_src L p aux))
      else if op =? 13 then Some (SBoxArrList (ids 0 N))
      else if op =? 14 then Some (SBoxArrRepeat 2999 N (fun i => if kind =? 2 then 2999 else 3000 + Z.of_nat i))
      else if op =? 15 then Some (SBoxedMap T mapf p (ids 0 N))
      else if op =? 16 then Some (SBoxedZip T T zipf p (ids 0 N) (ids 2000 N))
      else if op =? 17 then Some (SBoxedMap (kind_elt (other_kind kind)) mapf p (ids 0 N))
      (* 18: boxed zip with a right operand of the OTHER element kind (identities 2000..) *)
      else if op =? 18 then Some (SBoxedZip (kind_elt (other_kind kind)) T zipf p (ids 0 N) (ids 2000 N))
      else None in
    match sc with
    | Some s => Some (T, (if op =? 17 then other_kind kind else kind), s,
                      fun j => if fail <? 0 then false else Nat.eqb j (znat fail))
    | None => None
    end
  | _ => None
  end.

Definition code_num (c : rcode) : Z :=
  match c with ROk => 0 | RLenErr => 1 | RPanic => 2 | RLenPanic => 3 | RAllocErr => 4 | RUB => 5 end.

(* what the harness can see of a list of identities of element kind [kind]: zero-sized
   elements have no identity (only their number), u32 has no destructor *)
Definition canon (kind : Z) (l : list Z) : list Z :=
  if kind =? 1 then map (fun _ => 0) l else l.
(* dropped identities: inputs (< 5000) are of kind [kind], outputs of map / zip (>= 5000) of
   kind [okind] *)
Definition canon_drops3 (kind rkind okind : Z) (l : list Z) : list Z :=
  sortZ (flat_map (fun x => let k := if x <? 2000 then kind else if x <? 5000 then rkind else okind in
                            if k =? 2 then [] else if k =? 1 then [0] else [x]) l).
Definition canon_drops (kind okind : Z) (l : list Z) : list Z := canon_drops3 kind kind okind l.
(* the kind of the identities 2000.. (right operand of a zip) *)
Definition right_kind (case : list Z) : Z :=
  if nth 0 case 0 =? 18 then other_kind (nth 1 case 0) else nth 1 case 0.

(* tolerant replay: the allocator observables of a trace *)
Record tally : Type := mkTally {
  t_heap : heap; t_alloc : Z; t_dealloc : Z; t_realloc : Z; t_zero : Z; t_mis : Z; t_sizes : list Z
}.

Definition layout_eqb (a b : Z * Z) : bool := (fst a =? fst b) && (snd a =? snd b).

Definition tally_ev (t : tally) (e : aev) : tally :=
  match e with
  | EAlloc b sz al =>
    mkTally ((b, (sz, al)) :: t_heap t) (t_alloc t + 1) (t_dealloc t) (t_realloc t)
            (t_zero t + (if sz <=? 0 then 1 else 0)) (t_mis t) (sz :: t_sizes t)
  | EDealloc b sz al =>
    mkTally (hdel b (t_heap t)) (t_alloc t) (t_dealloc t + 1) (t_realloc t) (t_zero t)
            (t_mis t + match hfind b (t_heap t) with
                       | Some l => if layout_eqb l (sz, al) then 0 else 1
                       | None => 1
                       end) (t_sizes t)
  | ERealloc b osz al nsz b' =>
    mkTally ((b', (nsz, al)) :: hdel b (t_heap t)) (t_alloc t) (t_dealloc t) (t_realloc t + 1)
            (t_zero t + (if nsz <=? 0 then 1 else 0))
            (t_mis t + match hfind b (t_heap t) with
                       | Some l => if layout_eqb l (osz, al) then 0 else 1
                       | None => 1
                       end) (nsz :: t_sizes t)
  | EAllocFail sz al =>
    mkTally (t_heap t) (t_alloc t) (t_dealloc t) (t_realloc t)
            (t_zero t + (if sz <=? 0 then 1 else 0)) (t_mis t) (t_sizes t)
  | ENullDeref => t
  end.

Definition tally_of (tr : list aev) : tally := fold_left tally_ev tr (mkTally [] 0 0 0 0 0 []).

(* IterProofs.v -- the by-value iterator refines a double-ended queue (C06),
   for every state satisfying the bookkeeping invariant, every operation and
   argument, every length; lifted to all finite histories. *)
From GA Require Import Base Iter.

Lemma live_next s : Inv s -> index s < back s ->
  exists x, nth_error (slots s) (index s) = Some x /\
            live s = x :: live (set_index s (S (index s))).
Proof.
  intros [Hi Hb] Hlt.
  destruct (nth_error_Some_lt (slots s) (index s)) as [x Hx]; [lia|].
  exists x; split; [exact Hx|]. unfold live; cbn. now apply range_cons.
Qed.

Lemma live_next_back s : Inv s -> index s < back s ->
  exists x, nth_error (slots s) (back s - 1) = Some x /\
            live s = live (set_back s (back s - 1)) ++ [x].
Proof.
  intros [Hi Hb] Hlt.
  destruct (nth_error_Some_lt (slots s) (back s - 1)) as [x Hx]; [lia|].
  exists x; split; [exact Hx|]. unfold live; cbn. now apply range_snoc.
Qed.

Lemma live_length s : Inv s -> length (live s) = len s.
Proof. intros [Hi Hb]. unfold live, len. now apply range_length. Qed.

Lemma live_empty s : back s <= index s -> live s = [].
Proof. intros H. unfold live. now apply range_nil. Qed.

Lemma Inv_into_iter a : Inv (into_iter a).
Proof. unfold Inv; cbn; lia. Qed.

Lemma live_into_iter a : live (into_iter a) = a.
Proof. unfold live; cbn. apply range_all. Qed.

(* skipping k elements at the front *)
Lemma live_skip_front s k : Inv s -> k <= len s ->
  live s = range (index s) (index s + k) (slots s) ++ live (set_index s (index s + k)) /\
  live (set_index s (index s + k)) = skipn k (live s).
Proof.
  intros [Hi Hb] Hk. unfold len in Hk. unfold live; cbn [slots index back set_index].
  split.
  - apply range_split; lia.
  - unfold range. rewrite skipn_firstn_comm, skipn_skipn. f_equal; [lia|f_equal; lia].
Qed.

Lemma live_skip_back s k : Inv s -> k <= len s ->
  live s = live (set_back s (back s - k)) ++ range (back s - k) (back s) (slots s) /\
  live (set_back s (back s - k)) = firstn (len s - k) (live s).
Proof.
  intros [Hi Hb] Hk. unfold len in *. unfold live; cbn [slots index back set_back].
  split.
  - apply range_split; lia.
  - unfold range. rewrite firstn_firstn. f_equal. lia.
Qed.

Lemma clampn_le n m : clampn n m <= m.
Proof. unfold clampn. lia. Qed.

Lemma clampn_spec n m : (0 <= n)%Z ->
  clampn n m = Nat.min (Z.to_nat n) m.
Proof. intros H. unfold clampn. lia. Qed.

(* ---------- single operations ---------- *)

Lemma next_refines s : Inv s ->
  let '(r, s', _) := next s in
  r = Ret (fst (q_next (live s))) /\ live s' = snd (q_next (live s)) /\ Inv s'.
Proof.
  intros HI. unfold next. destruct (index s <? back s) eqn:E.
  - apply Nat.ltb_lt in E. destruct (live_next s HI E) as [x [Hx Hl]].
    rewrite Hx, Hl. cbn. repeat split; destruct HI; unfold Inv; cbn; lia.
  - apply Nat.ltb_ge in E. rewrite (live_empty s E). cbn. auto.
Qed.

Lemma q_next_back_snoc q x : q_next_back (q ++ [x]) = (Some x, q).
Proof. unfold q_next_back. rewrite rev_app_distr. cbn. now rewrite rev_involutive. Qed.

Lemma next_back_refines s : Inv s ->
  let '(r, s', _) := next_back s in
  r = Ret (fst (q_next_back (live s))) /\ live s' = snd (q_next_back (live s)) /\ Inv s'.
Proof.
  intros HI. unfold next_back. destruct (index s <? back s) eqn:E.
  - apply Nat.ltb_lt in E. destruct (live_next_back s HI E) as [x [Hx Hl]].
    rewrite Hx, Hl, q_next_back_snoc. cbn.
    repeat split; destruct HI; unfold Inv; cbn; lia.
  - apply Nat.ltb_ge in E. rewrite (live_empty s E). cbn. auto.
Qed.

Lemma fires_None l : fires None l = false.
Proof. reflexivity. Qed.

Lemma Inv_set_index s i : Inv s -> index s <= i <= back s -> Inv (set_index s i).
Proof. unfold Inv; cbn; lia. Qed.

Lemma Inv_set_back s b : Inv s -> index s <= b <= back s -> Inv (set_back s b).
Proof. unfold Inv; cbn; lia. Qed.

Lemma nth_refines s n : Inv s -> (0 <= n)%Z ->
  let '(r, s', _, _) := nth_ None s n in
  r = Ret (fst (q_nth (live s) (Z.to_nat n))) /\
  live s' = snd (q_nth (live s) (Z.to_nat n)) /\ Inv s'.
Proof.
  intros HI Hn. unfold nth_, drop_list. rewrite fires_None.
  pose proof (clampn_le n (len s)) as Hk. set (k := clampn n (len s)) in *.
  destruct (live_skip_front s k HI Hk) as [_ Hskip].
  assert (HI1 : Inv (set_index s (index s + k))).
  { apply Inv_set_index; [exact HI|]. unfold len in Hk. destruct HI. lia. }
  pose proof (next_refines _ HI1) as Hnext.
  destruct (next (set_index s (index s + k))) as [[r s2] e2].
  destruct Hnext as (Hr & Hl & HI2). rewrite Hskip in Hr, Hl.
  assert (Heq : skipn k (live s) = skipn (Z.to_nat n) (live s)).
  { unfold k. rewrite clampn_spec by exact Hn.
    destruct (Nat.le_ge_cases (Z.to_nat n) (len s)) as [H|H].
    - now rewrite Nat.min_l.
    - rewrite Nat.min_r by exact H.
      rewrite !skipn_all2; [reflexivity| |]; rewrite live_length; auto. }
  unfold q_nth. rewrite <- Heq. auto.
Qed.

Lemma nth_back_refines s n : Inv s -> (0 <= n)%Z ->
  let '(r, s', _, _) := nth_back_ None s n in
  r = Ret (fst (q_nth_back (live s) (Z.to_nat n))) /\
  live s' = snd (q_nth_back (live s) (Z.to_nat n)) /\ Inv s'.
Proof.
  intros HI Hn. unfold nth_back_, drop_list. rewrite fires_None.
  pose proof (clampn_le n (len s)) as Hk. set (k := clampn n (len s)) in *.
  destruct (live_skip_back s k HI Hk) as [_ Hskip].
  assert (HI1 : Inv (set_back s (back s - k))).
  { apply Inv_set_back; [exact HI|]. unfold len in Hk. destruct HI. lia. }
  pose proof (next_back_refines _ HI1) as Hnext.
  destruct (next_back (set_back s (back s - k))) as [[r s2] e2].
  destruct Hnext as (Hr & Hl & HI2). rewrite Hskip in Hr, Hl.
  assert (Heq : firstn (len s - k) (live s) = firstn (length (live s) - Z.to_nat n) (live s)).
  { rewrite live_length by exact HI. unfold k. rewrite clampn_spec by exact Hn.
    f_equal. lia. }
  unfold q_nth_back. rewrite <- Heq. auto.
Qed.

Lemma nth_error_upd_range {A} (l : list A) a b i v : a + i < b -> b <= length l ->
  range a b (upd (a + i) v l) = upd i v (range a b l).
Proof.
  revert a b i. induction l as [|x l IH]; intros a b i Hlt Hb; cbn in Hb; [lia|].
  destruct a as [|a].
  - cbn [Nat.add]. unfold range. rewrite Nat.sub_0_r. cbn [skipn].
    destruct b as [|b]; [lia|]. destruct i as [|i]; cbn; [reflexivity|].
    f_equal. specialize (IH 0 b i). unfold range in IH. rewrite Nat.sub_0_r in IH.
    cbn [skipn Nat.add] in IH. apply IH; lia.
  - cbn [Nat.add upd]. destruct b as [|b]; [lia|].
    unfold range. cbn [skipn]. replace (S b - S a) with (b - a) by lia.
    apply (IH a b i); lia.
Qed.

Lemma write_refines s i v : Inv s ->
  let '(r, s') := write s i v in
  (if i <? length (live s) then r = Ret tt /\ live s' = upd i v (live s)
   else r = Panicked /\ s' = s) /\ Inv s'.
Proof.
  intros HI. unfold write. rewrite live_length by exact HI.
  destruct (i <? len s) eqn:E.
  - apply Nat.ltb_lt in E. unfold len in E. destruct HI as [Hi Hb]. split; [split; [reflexivity|]|].
    + unfold live; cbn. apply nth_error_upd_range; lia.
    + unfold Inv; cbn. rewrite upd_length. lia.
  - auto.
Qed.

(* clone: compacted to the front, same remaining elements (f = identity here;
   the general statement is over any f) *)
Lemma clone_live f s : Inv s -> live (clone_it f s) = map f (live s) /\ Inv (clone_it f s).
Proof.
  intros HI. pose proof (live_length s HI) as Hl.
  unfold clone_it, live at 1; cbn [slots index back]. split.
  - unfold range. rewrite Nat.sub_0_r. cbn [skipn].
    rewrite firstn_app, map_length, Hl, Nat.sub_diag. cbn [firstn].
    rewrite app_nil_r, firstn_all2; [reflexivity|]. rewrite map_length, Hl. lia.
  - unfold Inv; cbn. rewrite app_length, map_length, Hl, skipn_length.
    destruct HI as [Hi Hb]. unfold len. lia.
Qed.

Lemma map_id_eq (l : list Z) : map (fun x => x) l = l.
Proof. apply map_id. Qed.

Lemma drop_list_None l : drop_list None l = (false, None, map EDrop l).
Proof. reflexivity. Qed.

(* ---------- one step of any history ---------- *)

Theorem step_gen_refines f s o : Inv s ->
  (match o with ONth n | ONthBack n => (0 <= n)%Z | _ => True end) ->
  let '(v, s') := step_gen f s o in
  v = fst (q_step_gen f (live s) o) /\ live s' = snd (q_step_gen f (live s) o) /\ Inv s'.
Proof.
  intros HI Harg. destruct o; cbn [step_gen q_step_gen].
  - pose proof (next_refines s HI) as H. destruct (next s) as [[r s'] e].
    destruct H as (-> & Hl & HI'). destruct (q_next (live s)); cbn in *. auto.
  - pose proof (next_back_refines s HI) as H. destruct (next_back s) as [[r s'] e].
    destruct H as (-> & Hl & HI'). destruct (q_next_back (live s)); cbn in *. auto.
  - pose proof (nth_refines s n HI Harg) as H. destruct (nth_ None s n) as [[[r s'] b] e].
    destruct H as (-> & Hl & HI'). destruct (q_nth (live s) (Z.to_nat n)); cbn in *. auto.
  - pose proof (nth_back_refines s n HI Harg) as H.
    destruct (nth_back_ None s n) as [[[r s'] b] e].
    destruct H as (-> & Hl & HI'). destruct (q_nth_back (live s) (Z.to_nat n)); cbn in *. auto.
  - rewrite live_length by exact HI. auto.
  - rewrite live_length by exact HI. auto.
  - auto.
  - pose proof (write_refines s i v HI) as H. destruct (write s i v) as [r s'].
    destruct H as [H HI']. destruct (i <? length (live s)).
    + destruct H as [-> Hl]. auto.
    + destruct H as [-> ->]. auto.
  - destruct (clone_live f s HI) as [Hl _]. unfold as_slice. rewrite Hl. auto.
  - destruct (clone_live f s HI) as [Hl HI']. rewrite Hl. auto.
  - destruct (clone_live f s HI) as [Hl _]. unfold fold_visit. rewrite Hl. auto.
  - destruct (clone_live f s HI) as [Hl _]. unfold rfold_visit. rewrite Hl. auto.
  - destruct (clone_live f s HI) as [Hl HIc].
    unfold count_, drop_it. rewrite drop_list_None.
    rewrite <- (live_length _ HIc), Hl, map_length. auto.
  - destruct (clone_live f s HI) as [Hl HIc].
    unfold last_. pose proof (next_back_refines _ HIc) as H.
    destruct (next_back (clone_it f s)) as [[r s1] e1].
    destruct H as (-> & _ & _). unfold drop_it. rewrite drop_list_None.
    rewrite Hl. auto.
  - auto.
Qed.

Theorem step_refines s o : Inv s ->
  (match o with ONth n | ONthBack n => (0 <= n)%Z | _ => True end) ->
  let '(v, s') := step s o in
  v = fst (q_step (live s) o) /\ live s' = snd (q_step (live s) o) /\ Inv s'.
Proof. exact (step_gen_refines (fun x => x) s o). Qed.

Definition args_ok (o : op) : Prop :=
  match o with ONth n | ONthBack n => (0 <= n)%Z | _ => True end.

(* every finite history from every state satisfying the invariant, for every Clone function *)
Theorem run_gen_refines f ops : forall s, Inv s -> Forall args_ok ops ->
  run_gen f s ops = q_run_gen f (live s) ops.
Proof.
  induction ops as [|o ops IH]; intros s HI Hargs; [reflexivity|].
  inversion Hargs as [|? ? Ho Hrest]; subst.
  cbn [run_gen q_run_gen]. pose proof (step_gen_refines f s o HI Ho) as H.
  destruct (step_gen f s o) as [v s']. destruct (q_step_gen f (live s) o) as [v' q'].
  cbn in H. destruct H as (-> & Hl & HI'). rewrite <- Hl. f_equal. now apply IH.
Qed.

Theorem run_refines ops : forall s, Inv s -> Forall args_ok ops ->
  run s ops = q_run (live s) ops.
Proof. exact (run_gen_refines (fun x => x) ops). Qed.

(* from into_iter: the queue initialised with the array's elements *)
Theorem history_gen_refines f a ops : Forall args_ok ops ->
  run_gen f (into_iter a) ops = q_run_gen f a ops.
Proof.
  intros H. rewrite run_gen_refines by (auto using Inv_into_iter). now rewrite live_into_iter.
Qed.

Theorem history_refines a ops : Forall args_ok ops ->
  run (into_iter a) ops = q_run a ops.
Proof. exact (history_gen_refines (fun x => x) a ops). Qed.

(* the invariant and the contiguity of what is left: the remaining elements are
   always a contiguous sub-range of the original slots (never overlap / skip) *)
Theorem step_inv s o : Inv s -> args_ok o -> Inv (snd (step s o)).
Proof.
  intros HI Ho. pose proof (step_refines s o HI Ho) as H. destruct (step s o). cbn. tauto.
Qed.

(* ---------- queue-level corollaries: fused, len, no UB ---------- *)

Lemma q_fused o : match o with
                  | ONext | ONextBack | ONth _ | ONthBack _ => q_step [] o = (VOpt None, [])
                  | _ => True end.
Proof.
  destruct o; cbn; auto.
  all: unfold q_nth; try rewrite skipn_nil; reflexivity.
Qed.

Theorem fused s o : Inv s -> args_ok o -> live s = [] ->
  match o with
  | ONext | ONextBack | ONth _ | ONthBack _ =>
      fst (step s o) = VOpt None /\ live (snd (step s o)) = []
  | _ => True end.
Proof.
  intros HI Ho He. pose proof (step_refines s o HI Ho) as H. pose proof (q_fused o) as Hq.
  destruct (step s o) as [v s']. rewrite He in H.
  destruct o; auto; rewrite Hq in H; cbn in *; destruct H as (-> & -> & _); auto.
Qed.

Theorem len_is_remaining s : Inv s -> len s = length (live s).
Proof. intros H. now rewrite live_length. Qed.

(* nth with n >= len empties the iterator *)
Theorem nth_overshoot s n : Inv s -> (Z.of_nat (len s) <= n)%Z ->
  let '(r, s', _, _) := nth_ None s n in r = Ret None /\ live s' = [].
Proof.
  intros HI Hn. pose proof (nth_refines s n HI ltac:(lia)) as H.
  destruct (nth_ None s n) as [[[r s'] b] e]. destruct H as (-> & -> & _).
  unfold q_nth. rewrite skipn_all2 by (rewrite live_length by exact HI; lia). auto.
Qed.

(* no operation on a state satisfying the invariant is UB (reads stay inside
   the live range) *)
Theorem step_no_ub s o : Inv s -> args_ok o -> fst (step s o) <> VUB.
Proof.
  intros HI Ho. pose proof (step_refines s o HI Ho) as H. destruct (step s o) as [v s'].
  destruct H as (-> & _). cbn [fst].
  unfold q_step. destruct o; cbn [q_step_gen fst]; try discriminate.
  - destruct (q_next (live s)); discriminate.
  - destruct (q_next_back (live s)); discriminate.
  - destruct (q_nth (live s) (Z.to_nat n)); discriminate.
  - destruct (q_nth_back (live s) (Z.to_nat n)); discriminate.
  - destruct (i <? length (live s)); discriminate.
Qed.

(* non-vacuity: a concrete mid-iteration state satisfies the hypotheses *)
Example inv_example : Inv (mkIt [10; 20; 30; 40; 50]%Z 1 4) /\
  run (mkIt [10; 20; 30; 40; 50]%Z 1 4) [ONth 1; ONextBack; OLen; ONext]
  = [VOpt (Some 30%Z); VOpt (Some 40%Z); VNum 0; VOpt None].
Proof. split; [unfold Inv; cbn; lia|reflexivity]. Qed.

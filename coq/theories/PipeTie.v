(* PipeTie.v -- tier T3 tie for the closure-running bodies of src/lib.rs: the programs
   tools/ga2coq regenerates from generate / map / fold / inverted_zip / inverted_zip2
   (coq/gen/GenPipe.v), executed by the position-tracking interpreter of Pipe.v, give the
   list-level meaning Functional.v states (and C04 / C08 prove theorems about), for every
   input, every caller function and every panic point. *)
From Coq Require Import String Lia Permutation.
From GA Require Import Base Builder BuilderProofs Functional FunctionalProofs Pipe.
From GAGen Require Import GenPipe.
Section Generic.
  Variable args : list (list Z).
  Variable so : bool.
  Variable f : nat -> list Z -> Z.
  Variable g : nat -> Z -> Z -> Z.
  Variable pan : option nat.
  Variable P : pipe.
  Variable rows : list (list Z).
  Variable own : list bool.

  Definition posvec (i : nat) : list (string * nat) := map (fun p => (fst p, i)) (init_pos args P).

  (* no source of this pipe walks backwards (those start at the length, not at 0) *)
  Definition no_back : bool :=
    forallb (fun s => match snd s with KIterBack _ _ => false | _ => true end) (p_srcs P).
  Hypothesis Hnb : no_back = true.

  Definition res (i : nat) (row : list Z) : sres :=
    if is_pan pan i then RPanic else RItem (f i row).

  (* one call of the closure from a state whose positions all equal the index: the caller's
     function is called on that row, having been handed exactly the owned elements of the
     row, and every position is advanced -- also when the call panics *)
  Definition good : Prop :=
    forall i st row, nth_error rows i = Some row -> s_pos st = posvec i -> length (s_calls st) = i ->
      step args so f g pan P i st =
      (res i row, mkP (posvec (S i)) (s_ev st ++ map EMove (owned_ids own row)) (s_calls st ++ [row])
                      (s_written st) (s_acc st)).

  Hypothesis Hgood : good.

  Lemma firstn_S_nth {A} (l : list A) : forall i x, nth_error l i = Some x -> firstn (S i) l = firstn i l ++ [x].
  Proof.
    induction l as [|y l IH]; intros [|i] x H; cbn in *; try discriminate.
    - now injection H as ->.
    - f_equal. now apply IH.
  Qed.

  Lemma moves_app o a b : moves o (a ++ b) = moves o a ++ moves o b.
  Proof. unfold moves. apply flat_map_app. Qed.

  Lemma init_pos_zero : posvec 0 = init_pos args P.
  Proof.
    unfold posvec, init_pos. unfold no_back in Hnb. induction (p_srcs P) as [|[n k] l IH]; [reflexivity|].
    cbn [forallb] in Hnb. apply andb_prop in Hnb. destruct Hnb as [Hk Hl].
    cbn [flat_map]. rewrite map_app, (IH Hl). f_equal. destruct k; try reflexivity. discriminate.
  Qed.

  Lemma state_nice init : forall i, i <= length rows ->
    let st := state_before args so f g pan P init i in
    s_pos st = posvec i /\ s_ev st = moves own (firstn i rows) /\ s_calls st = firstn i rows /\
    s_written st = [] /\ s_acc st = init.
  Proof.
    induction i as [|i IH]; intros Hi.
    - cbn. rewrite init_pos_zero. repeat split; reflexivity.
    - cbn [state_before]. destruct IH as (Hp & He & Hc & Hw & Ha); [lia|].
      destruct (nth_error rows i) as [row|] eqn:Hrow; [|apply nth_error_None in Hrow; lia].
      rewrite (Hgood i _ row Hrow Hp) by (rewrite Hc, firstn_length; lia).
      cbn [snd s_pos s_ev s_calls s_written s_acc].
      rewrite (firstn_S_nth rows i row Hrow), moves_app, He, Hc, Hw, Ha.
      repeat split; try reflexivity. unfold moves. cbn [flat_map]. now rewrite app_nil_r.
  Qed.

  Lemma response_agrees N i : N = length rows ->
    pipe_response args so f g pan P N i = pipe_resp f pan rows i.
  Proof.
    intros ->. unfold pipe_response, pipe_resp.
    destruct (Nat.ltb_spec i (length rows)) as [Hlt|Hge].
    - destruct (nth_error rows i) as [row|] eqn:Hrow; [|apply nth_error_None in Hrow; lia].
      destruct (state_nice 0%Z i) as (Hp & He & Hc & _); [lia|].
      rewrite (Hgood i _ row Hrow Hp) by (rewrite Hc, firstn_length; lia).
      cbn [fst]. unfold res, is_pan. destruct pan as [k|]; [|reflexivity].
      destruct (Nat.eqb i k); reflexivity.
    - assert (nth_error rows i = None) as -> by (apply nth_error_None; lia). reflexivity.
  Qed.

  Lemma try_from_iter_ext N rs1 rs2 lo hi : (forall i, rs1 i = rs2 i) ->
    try_from_iter N (mkSrc lo hi rs1) = try_from_iter N (mkSrc lo hi rs2).
  Proof.
    intros H. unfold try_from_iter, precheck_reject. cbn [hint_lo hint_hi resp].
    assert (Hf : forall n i acc, fill n rs1 i acc = fill n rs2 i acc).
    { induction n as [|n IH]; intros i acc; cbn [fill]; [reflexivity|]. rewrite H.
      destruct (rs2 i); try reflexivity. apply IH. }
    rewrite Hf. destruct (fill N rs2 0 []) as [[[] built] p]; try reflexivity. now rewrite H.
  Qed.

  (* the whole from_iter run, in the closed form of FunctionalProofs.zipmap_spec *)
  Theorem from_iter_run :
    run_from_iter args so f g pan P (length rows) =
    let '(o, e, p) := try_from_iter (length rows) (pipe_src f pan rows) in
    let calls := Nat.min p (length rows) in
    (o, moves own (firstn calls rows),
     teardown args so P (state_before args so f g pan P 0%Z calls) calls, e, firstn calls rows).
  Proof.
    unfold run_from_iter.
    rewrite (try_from_iter_ext _ _ (pipe_resp f pan rows)) by (intros i; now apply response_agrees).
    change (mkSrc (Z.of_nat (length rows)) (Some (Z.of_nat (length rows))) (pipe_resp f pan rows))
      with (pipe_src f pan rows).
    destruct (try_from_iter (length rows) (pipe_src f pan rows)) as [[o e] p].
    destruct (state_nice 0%Z (Nat.min p (length rows))) as (_ & He & Hc & _); [lia|].
    cbv zeta. now rewrite He, Hc.
  Qed.

  (* positions at the end: all equal to the number of calls made *)
  Lemma final_positions calls : calls <= length rows ->
    s_pos (state_before args so f g pan P 0%Z calls) = posvec calls.
  Proof. intros H. now destruct (state_nice 0%Z calls H). Qed.
End Generic.

Local Open Scope string_scope.

Section Programs.
  Variable f : nat -> list Z -> Z.
  Variable g : nat -> Z -> Z -> Z.
  Variable pan : option nat.

  Definition pipe_of (F : fnprog) (nd : nat -> bool) : pipe := select nd F.

  Lemma nb_of (F : fnprog) nd :
    match F with
    | FPipe p => no_back p
    | FIfNeedsDrop _ t e => no_back t && no_back e
    end = true -> no_back (pipe_of F nd) = true.
  Proof.
    destruct F as [p|c t e]; cbn; [easy|]. intros H. apply andb_prop in H. destruct H. now destruct (nd_eval nd c).
  Qed.

  (* symbolic execution of one closure call from a state whose positions equal the index *)
  Ltac pipe_step Hp Hl :=
    unfold posvec in Hp; cbn in Hp;
    unfold step, pipe_of, select; cbn; unfold arg_elem; cbn;
    repeat (rewrite ?Hp; match goal with H : nth_error _ _ = Some _ |- _ => rewrite H end; cbn);
    rewrite ?Hp; cbn; rewrite ?Z.eqb_refl, ?Hl; unfold res;
    match goal with |- context [is_pan ?p ?k] => destruct (is_pan p k) | _ => idtac end;
    cbn; rewrite ?Z.eqb_refl; unfold leave; cbn; rewrite ?app_nil_r; try reflexivity.

  Lemma map_good a so nd : good [a] so f g pan (pipe_of gen_map nd) (map (fun x => [x]) a) [true].
  Proof.
    intros i st row Hrow Hp Hl. rewrite nth_error_map in Hrow.
    destruct (nth_error a i) as [x|] eqn:Hx; [|discriminate]. injection Hrow as <-.
    pipe_step Hp Hl.
  Qed.

  Definition flat5 (r : outcome * list ev * list ev * list ev * list (list Z)) : outcome * list ev * list (list Z) :=
    let '(o, m, t, e, c) := r in (o, (m ++ t ++ e)%list, c).

  Lemma drops_single l : flat_map (fun r => map EDrop (owned_ids [true] r)) (map (fun x => [x]) l) = map EDrop l.
  Proof. induction l as [|x l IH]; [reflexivity|]. cbn [map flat_map]. rewrite IH. reflexivity. Qed.

  Lemma skipn_map {A B} (h : A -> B) : forall n l, skipn n (map h l) = map h (skipn n l).
  Proof. induction n as [|n IH]; intros [|x l]; cbn; try reflexivity. apply IH. Qed.

  (* GenericArray::map as it stands in src/lib.rs = Functional.map_ with an owned input *)
  Theorem tie_map a so nd :
    flat5 (run_from_iter [a] so f g pan (pipe_of gen_map nd) (length a)) = map_ true f pan a.
  Proof.
    pose proof (from_iter_run [a] so f g pan _ _ _ (nb_of gen_map nd eq_refl) (map_good a so nd)) as H.
    rewrite map_length in H. rewrite H. unfold map_, zipmap. rewrite map_length.
    destruct (try_from_iter (length a) (pipe_src f pan (map (fun x => [x]) a))) as [[o e] p].
    cbv zeta. unfold flat5. f_equal. f_equal. f_equal. f_equal.
    unfold teardown. cbn [pipe_of select gen_map p_srcs rev app flat_map snd nth_error].
    rewrite (final_positions [a] so f g pan _ _ _ (nb_of gen_map nd eq_refl) (map_good a so nd)) by (rewrite map_length; lia).
    cbn. rewrite app_nil_r, skipn_map, drops_single. reflexivity.
  Qed.

  (* the pipeline result up to the order in which the leftover inputs are dropped (the
     consumers drop one after the other, the list-level statement goes row by row) *)
  Definition agrees (r : outcome * list ev * list ev * list ev * list (list Z))
             (h : outcome * list ev * list (list Z)) : Prop :=
    let '(o, m, t, e, c) := r in
    exists t', h = (o, (m ++ t' ++ e)%list, c) /\ Permutation t t'.

  Definition zrows (a b : list Z) : list (list Z) := map (fun p : Z * Z => [fst p; snd p]) (combine a b).

  Lemma nth_combine {A B} : forall (a : list A) (b : list B) i p,
    nth_error (combine a b) i = Some p -> nth_error a i = Some (fst p) /\ nth_error b i = Some (snd p).
  Proof.
    induction a as [|x a IH]; intros [|y b] [|i] p H; cbn in *; try discriminate.
    - injection H as <-. split; reflexivity.
    - now apply IH.
  Qed.

  Lemma skipn_combine {A B} : forall n (a : list A) (b : list B),
    skipn n (combine a b) = combine (skipn n a) (skipn n b).
  Proof.
    induction n as [|n IH]; intros [|x a] [|y b]; cbn; try reflexivity.
    - now destruct (skipn n a).
    - apply IH.
  Qed.

  Lemma drops_pairs : forall a b, length a = length b ->
    Permutation (map EDrop b ++ map EDrop a)%list
                (flat_map (fun r => map EDrop (owned_ids [true; true] r)) (zrows a b)).
  Proof.
    induction a as [|x a IH]; intros [|y b] H; cbn in *; try discriminate; [constructor|].
    injection H as H. specialize (IH b H).
    apply Permutation_trans with (EDrop x :: EDrop y :: (map EDrop b ++ map EDrop a)%list).
    - apply Permutation_trans with (EDrop y :: EDrop x :: (map EDrop b ++ map EDrop a)%list); [|constructor].
      constructor. apply Permutation_sym, Permutation_middle.
    - do 2 constructor. exact IH.
  Qed.

  Lemma zip_good a b so nd : nd_eval nd (NdOr (NdArg 0) (NdArg 1)) = true ->
    good [b; a] so f g pan (pipe_of gen_inverted_zip nd) (zrows a b) [true; true].
  Proof.
    intros Hnd i st row Hrow Hp Hl. unfold zrows in Hrow. rewrite nth_error_map in Hrow.
    destruct (nth_error (combine a b) i) as [[x y]|] eqn:Hxy; [|discriminate]. injection Hrow as <-.
    apply nth_combine in Hxy. destruct Hxy as [Hx Hy]. cbn [fst snd] in *.
    unfold pipe_of, gen_inverted_zip, select in *. rewrite Hnd in *. pipe_step Hp Hl.
  Qed.

  Lemma zrows_length a b : length a = length b -> length (zrows a b) = length a.
  Proof. intros H. unfold zrows. rewrite map_length, combine_length. lia. Qed.

  (* inverted_zip with both arrays owned, in the branch taken when an element type has drop
     glue: rhs.inverted_zip(self, f) is what GenericArray::zip runs *)
  Theorem tie_zip a b so nd : length a = length b ->
    nd_eval nd (NdOr (NdArg 0) (NdArg 1)) = true ->
    agrees (run_from_iter [b; a] so f g pan (pipe_of gen_inverted_zip nd) (length a))
           (zip_ true true f pan a b).
  Proof.
    intros Hlen Hnd.
    pose proof (from_iter_run [b; a] so f g pan _ _ _ (nb_of gen_inverted_zip nd eq_refl) (zip_good a b so nd Hnd)) as H.
    rewrite (zrows_length a b Hlen) in H. rewrite H. unfold zip_, zipmap. fold (zrows a b).
    rewrite (zrows_length a b Hlen).
    destruct (try_from_iter (length a) (pipe_src f pan (zrows a b))) as [[o e] p].
    cbv zeta. unfold agrees. eexists. split; [reflexivity|].
    unfold teardown.
    rewrite (final_positions [b; a] so f g pan _ _ _ (nb_of gen_inverted_zip nd eq_refl) (zip_good a b so nd Hnd)) by (rewrite zrows_length by exact Hlen; lia).
    unfold pipe_of, gen_inverted_zip, select. rewrite Hnd. cbn. rewrite app_nil_r.
    unfold zrows. rewrite skipn_map, skipn_combine. apply drops_pairs.
    rewrite !skipn_length. lia.
  Qed.

  (* ---- inverted_zip2: self is an owned array (argument 0), lhs any sequence iterated by value
          (argument 1): owned items (Box / array) or lent ones (&, &mut) ---- *)
  Lemma zip2_good a b so nd : nd_eval nd (NdArg 0) = true ->
    good [b; a] so f g pan (pipe_of gen_inverted_zip2 nd) (zrows a b) [so; true].
  Proof.
    intros Hnd i st row Hrow Hp Hl. unfold zrows in Hrow. rewrite nth_error_map in Hrow.
    destruct (nth_error (combine a b) i) as [[x y]|] eqn:Hxy; [|discriminate]. injection Hrow as <-.
    apply nth_combine in Hxy. destruct Hxy as [Hx Hy]. cbn [fst snd] in *.
    unfold pipe_of, gen_inverted_zip2, select in *. rewrite Hnd in *.
    destruct so; pipe_step Hp Hl.
  Qed.

  Lemma drops_pairs_lr : forall a b, length a = length b ->
    Permutation (map EDrop a ++ map EDrop b)%list
                (flat_map (fun r => map EDrop (owned_ids [true; true] r)) (zrows a b)).
  Proof.
    intros a b H. eapply Permutation_trans; [apply Permutation_app_comm|]. now apply drops_pairs.
  Qed.

  Lemma drops_right_only : forall a b, length a = length b ->
    flat_map (fun r => map EDrop (owned_ids [false; true] r)) (zrows a b) = map EDrop b.
  Proof.
    induction a as [|x a IH]; intros [|y b] H; cbn in *; try discriminate; [reflexivity|].
    injection H as H. now rewrite <- (IH b H).
  Qed.

  Theorem tie_zip2 a b so nd : length a = length b -> nd_eval nd (NdArg 0) = true ->
    agrees (run_from_iter [b; a] so f g pan (pipe_of gen_inverted_zip2 nd) (length a))
           (zip_ so true f pan a b).
  Proof.
    intros Hlen Hnd.
    pose proof (from_iter_run [b; a] so f g pan _ _ _ (nb_of gen_inverted_zip2 nd eq_refl) (zip2_good a b so nd Hnd)) as H.
    rewrite (zrows_length a b Hlen) in H. rewrite H. unfold zip_, zipmap. fold (zrows a b).
    rewrite (zrows_length a b Hlen).
    destruct (try_from_iter (length a) (pipe_src f pan (zrows a b))) as [[o e] p].
    cbv zeta. unfold agrees. eexists. split; [reflexivity|].
    unfold teardown.
    rewrite (final_positions [b; a] so f g pan _ _ _ (nb_of gen_inverted_zip2 nd eq_refl) (zip2_good a b so nd Hnd)) by (rewrite zrows_length by exact Hlen; lia).
    unfold pipe_of, gen_inverted_zip2, select. rewrite Hnd. cbn.
    unfold zrows. rewrite skipn_map, skipn_combine. fold (zrows (skipn (Nat.min p (length a)) a) (skipn (Nat.min p (length a)) b)).
    assert (Hl' : length (skipn (Nat.min p (length a)) a) = length (skipn (Nat.min p (length a)) b))
      by (rewrite !skipn_length; lia).
    destruct so; cbn; rewrite ?app_nil_r.
    - now apply drops_pairs_lr.
    - rewrite drops_right_only by exact Hl'. apply Permutation_refl.
  Qed.

  (* ---- the trait-default GenericSequence::inverted_zip (src/sequence.rs): lhs is an owned array
          (argument 1, behind an ArrayConsumer), self any sequence iterated by value (argument 0):
          owned.zip(&rhs, f) and owned.zip(&mut rhs, f) run this body ---- *)
  Lemma dzip_good a b so nd :
    good [b; a] so f g pan (pipe_of gen_default_inverted_zip nd) (zrows a b) [true; so].
  Proof.
    intros i st row Hrow Hp Hl. unfold zrows in Hrow. rewrite nth_error_map in Hrow.
    destruct (nth_error (combine a b) i) as [[x y]|] eqn:Hxy; [|discriminate]. injection Hrow as <-.
    apply nth_combine in Hxy. destruct Hxy as [Hx Hy]. cbn [fst snd] in *.
    destruct so; pipe_step Hp Hl.
    all: destruct (Z.eqb_spec x y) as [->|Hne]; cbn; rewrite ?Z.eqb_refl, ?app_nil_r; reflexivity.
  Qed.

  Lemma drops_left_only : forall a b, length a = length b ->
    flat_map (fun r => map EDrop (owned_ids [true; false] r)) (zrows a b) = map EDrop a.
  Proof.
    induction a as [|x a IH]; intros [|y b] H; cbn in *; try discriminate; [reflexivity|].
    injection H as H. now rewrite <- (IH b H).
  Qed.

  Theorem tie_default_zip a b so nd : length a = length b ->
    agrees (run_from_iter [b; a] so f g pan (pipe_of gen_default_inverted_zip nd) (length a))
           (zip_ true so f pan a b).
  Proof.
    intros Hlen.
    pose proof (from_iter_run [b; a] so f g pan _ _ _ (nb_of gen_default_inverted_zip nd eq_refl) (dzip_good a b so nd)) as H.
    rewrite (zrows_length a b Hlen) in H. rewrite H. unfold zip_, zipmap. fold (zrows a b).
    rewrite (zrows_length a b Hlen).
    destruct (try_from_iter (length a) (pipe_src f pan (zrows a b))) as [[o e] p].
    cbv zeta. unfold agrees. eexists. split; [reflexivity|].
    unfold teardown.
    rewrite (final_positions [b; a] so f g pan _ _ _ (nb_of gen_default_inverted_zip nd eq_refl) (dzip_good a b so nd)) by (rewrite zrows_length by exact Hlen; lia).
    unfold pipe_of, gen_default_inverted_zip, select. cbn.
    unfold zrows. rewrite skipn_map, skipn_combine. fold (zrows (skipn (Nat.min p (length a)) a) (skipn (Nat.min p (length a)) b)).
    assert (Hl' : length (skipn (Nat.min p (length a)) a) = length (skipn (Nat.min p (length a)) b))
      by (rewrite !skipn_length; lia).
    destruct so; cbn; rewrite ?app_nil_r.
    - now apply drops_pairs.
    - rewrite drops_left_only by exact Hl'. apply Permutation_refl.
  Qed.

  (* ---- the branches taken when no element type involved has drop glue: the arrays are
          ManuallyDrop'd and read slot by slot; the caller's function is called on the same
          rows in the same order and the result is the same; this function drops nothing
          of `self` (there is nothing to drop) ---- *)
  Lemma zip_nodrop_good a b so nd : nd_eval nd (NdOr (NdArg 0) (NdArg 1)) = false ->
    good [b; a] so f g pan (pipe_of gen_inverted_zip nd) (zrows a b) [true; true].
  Proof.
    intros Hnd i st row Hrow Hp Hl. unfold zrows in Hrow. rewrite nth_error_map in Hrow.
    destruct (nth_error (combine a b) i) as [[x y]|] eqn:Hxy; [|discriminate]. injection Hrow as <-.
    apply nth_combine in Hxy. destruct Hxy as [Hx Hy]. cbn [fst snd] in *.
    unfold pipe_of, gen_inverted_zip, select in *. rewrite Hnd in *. pipe_step Hp Hl.
  Qed.

  Theorem tie_zip_nodrop a b so nd : length a = length b ->
    nd_eval nd (NdOr (NdArg 0) (NdArg 1)) = false ->
    let '(o, m, t, e, c) := run_from_iter [b; a] so f g pan (pipe_of gen_inverted_zip nd) (length a) in
    t = [] /\ exists t', zip_ true true f pan a b = (o, (m ++ t' ++ e)%list, c).
  Proof.
    intros Hlen Hnd.
    pose proof (from_iter_run [b; a] so f g pan _ _ _ (nb_of gen_inverted_zip nd eq_refl) (zip_nodrop_good a b so nd Hnd)) as H.
    rewrite (zrows_length a b Hlen) in H. rewrite H. unfold zip_, zipmap. fold (zrows a b).
    rewrite (zrows_length a b Hlen).
    destruct (try_from_iter (length a) (pipe_src f pan (zrows a b))) as [[o e] p].
    cbv zeta. split; [|eexists; reflexivity].
    unfold teardown, pipe_of, gen_inverted_zip, select. rewrite Hnd. reflexivity.
  Qed.

  Lemma zip2_nodrop_good a b so nd : nd_eval nd (NdArg 0) = false ->
    good [b; a] so f g pan (pipe_of gen_inverted_zip2 nd) (zrows a b) [so; true].
  Proof.
    intros Hnd i st row Hrow Hp Hl. unfold zrows in Hrow. rewrite nth_error_map in Hrow.
    destruct (nth_error (combine a b) i) as [[x y]|] eqn:Hxy; [|discriminate]. injection Hrow as <-.
    apply nth_combine in Hxy. destruct Hxy as [Hx Hy]. cbn [fst snd] in *.
    unfold pipe_of, gen_inverted_zip2, select in *. rewrite Hnd in *.
    destruct so; pipe_step Hp Hl.
  Qed.

  Theorem tie_zip2_nodrop a b so nd : length a = length b -> nd_eval nd (NdArg 0) = false ->
    let '(o, m, t, e, c) := run_from_iter [b; a] so f g pan (pipe_of gen_inverted_zip2 nd) (length a) in
    t = (if so then map EDrop (skipn (length c) a) else []) /\
    exists t', zip_ so true f pan a b = (o, (m ++ t' ++ e)%list, c).
  Proof.
    intros Hlen Hnd.
    pose proof (from_iter_run [b; a] so f g pan _ _ _ (nb_of gen_inverted_zip2 nd eq_refl) (zip2_nodrop_good a b so nd Hnd)) as H.
    rewrite (zrows_length a b Hlen) in H. rewrite H. unfold zip_, zipmap. fold (zrows a b).
    rewrite (zrows_length a b Hlen).
    destruct (try_from_iter (length a) (pipe_src f pan (zrows a b))) as [[o e] p].
    cbv zeta. split; [|eexists; reflexivity].
    unfold teardown, pipe_of, gen_inverted_zip2, select. rewrite Hnd. cbn.
    rewrite firstn_length, zrows_length by exact Hlen.
    replace (Nat.min (Nat.min p (length a)) (length a)) with (Nat.min p (length a)) by lia.
    destruct so; cbn; rewrite ?app_nil_r; reflexivity.
  Qed.

  (* ---- fold: one consumer, the accumulator threaded through the caller's function ---- *)
  Lemma fold_step a so nd i st x : nth_error a i = Some x ->
    s_pos st = posvec [a] (pipe_of gen_fold nd) i -> length (s_calls st) = i ->
    step [a] so f g pan (pipe_of gen_fold nd) i st =
    ((if is_pan pan i then RPanic else RUnit),
     mkP [("position", S i)] (s_ev st ++ [EMove x]) (s_calls st ++ [[x]]) (s_written st)
         (if is_pan pan i then s_acc st else g i (s_acc st) x)).
  Proof. intros Hx Hp Hl. pipe_step Hp Hl. Qed.

  Definition fold_ok_b (o : fold_outcome) : bool := match o with FoldOk _ => true | FoldPanic => false end.

  Lemma fold_loop_ge : forall l i acc o c, fold_loop g pan i acc l = (o, c) -> i <= c.
  Proof.
    induction l as [|y l IHl]; intros i acc o c H; cbn in H.
    - injection H as _ <-. lia.
    - destruct (match pan with Some k => Nat.eqb i k | None => false end).
      + injection H as _ <-. lia.
      + apply IHl in H. lia.
  Qed.

  Lemma fold_run_spec a so nd : forall l i st,
    (forall j x, nth_error l j = Some x -> nth_error a (i + j) = Some x) ->
    s_pos st = posvec [a] (pipe_of gen_fold nd) i -> length (s_calls st) = i ->
    let '(o, c) := fold_loop g pan i (s_acc st) l in
    exists st', fold_run [a] so f g pan (pipe_of gen_fold nd) (length l) i st = (fold_ok_b o, st', c) /\
      s_pos st' = [("position", c)] /\
      s_ev st' = (s_ev st ++ map EMove (firstn (c - i) l))%list /\
      s_calls st' = (s_calls st ++ map (fun x => [x]) (firstn (c - i) l))%list /\
      (forall acc', o = FoldOk acc' -> s_acc st' = acc').
  Proof.
    induction l as [|x l IH]; intros i st Hl Hp Hc.
    - cbn. exists st. rewrite Nat.sub_diag. cbn. rewrite !app_nil_r. repeat split; try reflexivity.
      + exact Hp.
      + now intros acc' [= <-].
    - cbn [fold_loop length fold_run].
      assert (Hx : nth_error a i = Some x) by (rewrite <- (Nat.add_0_r i); apply Hl; reflexivity).
      rewrite (fold_step a so nd i st x Hx Hp Hc).
      change (match pan with Some k => Nat.eqb i k | None => false end) with (is_pan pan i).
      destruct (is_pan pan i) eqn:Hpan.
      + eexists. split; [reflexivity|]. replace (S i - i) with 1 by lia. cbn.
        repeat split; try reflexivity. intros acc' H; discriminate.
      + specialize (IH (S i) (mkP [("position", S i)] (s_ev st ++ [EMove x]) (s_calls st ++ [[x]]) (s_written st) (g i (s_acc st) x))).
        cbn [s_acc s_pos s_calls s_ev] in IH.
        destruct (fold_loop g pan (S i) (g i (s_acc st) x) l) as [o c] eqn:Hloop.
        destruct IH as (st' & Hrun & Hp' & He' & Hc' & Ha').
        * intros j y Hy. replace (S i + j) with (i + S j) by lia. now apply Hl.
        * reflexivity.
        * rewrite app_length. cbn. lia.
        * exists st'. split; [exact Hrun|].
          assert (Hci : S i <= c) by (eapply fold_loop_ge; exact Hloop).
          replace (c - i) with (S (c - S i)) by lia. cbn [firstn map].
          rewrite He', Hc', <- !app_assoc. cbn. repeat split; try reflexivity; assumption.
  Qed.

  Theorem tie_fold a so nd init :
    let '(o, m, t, c) := run_fold [a] so f g pan (pipe_of gen_fold nd) (length a) init in
    (o, (m ++ t)%list, List.concat c) = fold_ true g pan init a.
  Proof.
    unfold run_fold, fold_.
    pose proof (fold_run_spec a so nd a 0 (init_state [a] (pipe_of gen_fold nd) init)) as H.
    cbn [s_acc init_state] in H.
    destruct (fold_loop g pan 0 init a) as [o c] eqn:Hloop.
    destruct H as (st' & Hrun & Hp' & He' & Hc' & Ha'); [intros j x Hj; exact Hj|reflexivity|reflexivity|].
    rewrite Hrun. rewrite Nat.sub_0_r in *. cbn [s_ev s_calls init_state app] in He', Hc'.
    rewrite He', Hc'. unfold teardown. cbn. rewrite Hp'. cbn. rewrite app_nil_r.
    f_equal; [f_equal|].
    - destruct o as [acc'|]; cbn; [|reflexivity]. now rewrite (Ha' acc' eq_refl).
    - clear. induction (firstn c a) as [|x l IH]; [reflexivity|]. cbn. now rewrite IH.
  Qed.

  (* ---- GenericArrayIter::fold (src/iter.rs): the live window consumed from the front, the
          iterator's own index as the position; on unwinding the iterator's Drop releases the rest ---- *)
  Lemma it_fold_step a so nd i st x : nth_error a i = Some x ->
    s_pos st = posvec [a] (pipe_of gen_iter_fold nd) i -> length (s_calls st) = i ->
    step [a] so f g pan (pipe_of gen_iter_fold nd) i st =
    ((if is_pan pan i then RPanic else RUnit),
     mkP [("index", S i)] (s_ev st ++ [EMove x]) (s_calls st ++ [[x]]) (s_written st)
         (if is_pan pan i then s_acc st else g i (s_acc st) x)).
  Proof. intros Hx Hp Hl. pipe_step Hp Hl. Qed.

  Lemma it_fold_run_spec a so nd : forall l i st,
    (forall j x, nth_error l j = Some x -> nth_error a (i + j) = Some x) ->
    s_pos st = posvec [a] (pipe_of gen_iter_fold nd) i -> length (s_calls st) = i ->
    let '(o, c) := fold_loop g pan i (s_acc st) l in
    exists st', fold_run [a] so f g pan (pipe_of gen_iter_fold nd) (length l) i st = (fold_ok_b o, st', c) /\
      s_pos st' = [("index", c)] /\
      s_ev st' = (s_ev st ++ map EMove (firstn (c - i) l))%list /\
      s_calls st' = (s_calls st ++ map (fun x => [x]) (firstn (c - i) l))%list /\
      (forall acc', o = FoldOk acc' -> s_acc st' = acc').
  Proof.
    induction l as [|x l IH]; intros i st Hl Hp Hc.
    - cbn. exists st. rewrite Nat.sub_diag. cbn. rewrite !app_nil_r. repeat split; try reflexivity.
      + exact Hp.
      + now intros acc' [= <-].
    - cbn [fold_loop length fold_run].
      assert (Hx : nth_error a i = Some x) by (rewrite <- (Nat.add_0_r i); apply Hl; reflexivity).
      rewrite (it_fold_step a so nd i st x Hx Hp Hc).
      change (match pan with Some k => Nat.eqb i k | None => false end) with (is_pan pan i).
      destruct (is_pan pan i) eqn:Hpan.
      + eexists. split; [reflexivity|]. replace (S i - i) with 1 by lia. cbn.
        repeat split; try reflexivity. intros acc' H; discriminate.
      + specialize (IH (S i) (mkP [("index", S i)] (s_ev st ++ [EMove x]) (s_calls st ++ [[x]]) (s_written st) (g i (s_acc st) x))).
        cbn [s_acc s_pos s_calls s_ev] in IH.
        destruct (fold_loop g pan (S i) (g i (s_acc st) x) l) as [o c] eqn:Hloop.
        destruct IH as (st' & Hrun & Hp' & He' & Hc' & Ha').
        * intros j y Hy. replace (S i + j) with (i + S j) by lia. now apply Hl.
        * reflexivity.
        * rewrite app_length. cbn. lia.
        * exists st'. split; [exact Hrun|].
          assert (Hci : S i <= c) by (eapply fold_loop_ge; exact Hloop).
          replace (c - i) with (S (c - S i)) by lia. cbn [firstn map].
          rewrite He', Hc', <- !app_assoc. cbn. repeat split; try reflexivity; assumption.
  Qed.

  Theorem tie_iter_fold a so nd init :
    let '(o, m, t, c) := run_fold [a] so f g pan (pipe_of gen_iter_fold nd) (length a) init in
    (o, (m ++ t)%list, List.concat c) = fold_ true g pan init a.
  Proof.
    unfold run_fold, fold_.
    pose proof (it_fold_run_spec a so nd a 0 (init_state [a] (pipe_of gen_iter_fold nd) init)) as H.
    cbn [s_acc init_state] in H.
    destruct (fold_loop g pan 0 init a) as [o c] eqn:Hloop.
    destruct H as (st' & Hrun & Hp' & He' & Hc' & Ha'); [intros j x Hj; exact Hj|reflexivity|reflexivity|].
    rewrite Hrun. rewrite Nat.sub_0_r in *. cbn [s_ev s_calls init_state app] in He', Hc'.
    rewrite He', Hc'. unfold teardown. cbn. rewrite Hp'. cbn. rewrite app_nil_r.
    f_equal; [f_equal|].
    - destruct o as [acc'|]; cbn; [|reflexivity]. now rewrite (Ha' acc' eq_refl).
    - clear. induction (firstn c a) as [|x l IH]; [reflexivity|]. cbn. now rewrite IH.
  Qed.

  (* ---- GenericArrayIter::rfold: the live window consumed from the back; the position is the
          iterator's index_back, decremented before the caller's function is called ---- *)
  Local Arguments Nat.ltb : simpl never.

  Lemma it_rfold_step a so nd i st x : i < length a -> nth_error a (length a - 1 - i) = Some x ->
    s_pos st = [("index_back", length a - i)] -> length (s_calls st) = i ->
    step [a] so f g pan (pipe_of gen_iter_rfold nd) i st =
    ((if is_pan pan i then RPanic else RUnit),
     mkP [("index_back", length a - S i)] (s_ev st ++ [EMove x]) (s_calls st ++ [[x]]) (s_written st)
         (if is_pan pan i then s_acc st else g i (s_acc st) x)).
  Proof.
    intros Hi Hx Hp Hl.
    unfold step, pipe_of, select; cbn; unfold arg_elem; cbn.
    destruct (Nat.ltb_spec i (length a)) as [_|]; [|lia]. cbn. rewrite Hx. cbn. rewrite Hp. cbn.
    replace (length a - i) with (S (length a - S i)) by lia. cbn.
    rewrite ?Z.eqb_refl, Hl.
    destruct (is_pan pan i); cbn; rewrite ?Z.eqb_refl; unfold leave; cbn; rewrite ?app_nil_r; reflexivity.
  Qed.

  Lemma it_rfold_run_spec a so nd : forall l i st,
    (forall j x, nth_error l j = Some x -> i + j < length a /\ nth_error a (length a - 1 - (i + j)) = Some x) ->
    s_pos st = [("index_back", length a - i)] -> length (s_calls st) = i ->
    let '(o, c) := fold_loop g pan i (s_acc st) l in
    exists st', fold_run [a] so f g pan (pipe_of gen_iter_rfold nd) (length l) i st = (fold_ok_b o, st', c) /\
      s_pos st' = [("index_back", length a - c)] /\
      s_ev st' = (s_ev st ++ map EMove (firstn (c - i) l))%list /\
      s_calls st' = (s_calls st ++ map (fun x => [x]) (firstn (c - i) l))%list /\
      (forall acc', o = FoldOk acc' -> s_acc st' = acc').
  Proof.
    induction l as [|x l IH]; intros i st Hl Hp Hc.
    - cbn. exists st. rewrite Nat.sub_diag. cbn. rewrite !app_nil_r. repeat split; try reflexivity.
      + exact Hp.
      + now intros acc' [= <-].
    - cbn [fold_loop length fold_run].
      destruct (Hl 0 x eq_refl) as [Hi Hx]. rewrite Nat.add_0_r in Hi, Hx.
      rewrite (it_rfold_step a so nd i st x Hi Hx Hp Hc).
      change (match pan with Some k => Nat.eqb i k | None => false end) with (is_pan pan i).
      destruct (is_pan pan i) eqn:Hpan.
      + eexists. split; [reflexivity|]. replace (S i - i) with 1 by lia. cbn.
        repeat split; try reflexivity. intros acc' H; discriminate.
      + specialize (IH (S i) (mkP [("index_back", length a - S i)] (s_ev st ++ [EMove x]) (s_calls st ++ [[x]]) (s_written st) (g i (s_acc st) x))).
        cbn [s_acc s_pos s_calls s_ev] in IH.
        destruct (fold_loop g pan (S i) (g i (s_acc st) x) l) as [o c] eqn:Hloop.
        destruct IH as (st' & Hrun & Hp' & He' & Hc' & Ha').
        * intros j y Hy. replace (S i + j) with (i + S j) by lia. now apply Hl.
        * reflexivity.
        * rewrite app_length. cbn. lia.
        * exists st'. split; [exact Hrun|].
          assert (Hci : S i <= c) by (eapply fold_loop_ge; exact Hloop).
          replace (c - i) with (S (c - S i)) by lia. cbn [firstn map].
          rewrite He', Hc', <- !app_assoc. cbn. repeat split; try reflexivity; assumption.
  Qed.

  Lemma nth_error_rev {A} (l : list A) j x : nth_error (rev l) j = Some x ->
    j < length l /\ nth_error l (length l - 1 - j) = Some x.
  Proof.
    intros H. assert (Hj : j < length l).
    { rewrite <- rev_length. apply nth_error_Some. congruence. }
    split; [exact Hj|].
    pose proof (nth_error_nth _ _ x H) as Hn. rewrite rev_nth in Hn by exact Hj.
    rewrite (nth_error_nth' l x) by lia. f_equal.
    replace (length l - 1 - j) with (length l - S j) by lia. exact Hn.
  Qed.

  Lemma fold_loop_le : forall l i acc o c, fold_loop g pan i acc l = (o, c) -> c <= i + length l.
  Proof.
    induction l as [|y l IHl]; intros i acc o c H; cbn in H.
    - injection H as _ <-. cbn. lia.
    - destruct (match pan with Some k => Nat.eqb i k | None => false end).
      + injection H as _ <-. cbn. lia.
      + apply IHl in H. cbn. lia.
  Qed.

  (* what rfold releases when the iterator is dropped by unwinding is the unvisited front part *)
  Theorem tie_iter_rfold a so nd init :
    let '(o, m, t, c) := run_fold [a] so f g pan (pipe_of gen_iter_rfold nd) (length a) init in
    exists t', fold_ true g pan init (rev a) = (o, (m ++ t')%list, List.concat c) /\ Permutation t t'.
  Proof.
    unfold run_fold, fold_.
    pose proof (it_rfold_run_spec a so nd (rev a) 0 (init_state [a] (pipe_of gen_iter_rfold nd) init)) as H.
    cbn [s_acc init_state] in H.
    destruct (fold_loop g pan 0 init (rev a)) as [o c] eqn:Hloop.
    destruct H as (st' & Hrun & Hp' & He' & Hc' & Ha').
    - intros j x Hj. cbn. now apply nth_error_rev.
    - cbn. now rewrite Nat.sub_0_r.
    - reflexivity.
    - rewrite rev_length in Hrun. rewrite Hrun. rewrite Nat.sub_0_r in *.
      cbn [s_ev s_calls init_state app] in He', Hc'. rewrite He', Hc'.
      eexists. split.
      + f_equal; [f_equal|].
        * destruct o as [acc'|]; cbn; [|reflexivity]. now rewrite (Ha' acc' eq_refl).
        * clear. induction (firstn c (rev a)) as [|x l IH]; [reflexivity|]. cbn. f_equal. exact IH.
      + unfold teardown. cbn. rewrite Hp'. cbn. rewrite app_nil_r.
        assert (Hc_le : c <= length a).
        { pose proof (fold_loop_le _ _ _ _ _ Hloop) as H0. rewrite rev_length in H0. lia. }
        apply Permutation_map.
        rewrite skipn_rev.
        apply Permutation_rev.
  Qed.

  (* ---- GenericArrayIter::clone (src/iter.rs): the new iterator's slots zipped with the live window of
          `self` (borrowed); each clone is written, then the NEW iterator's index_back advanced, so that
          its Drop releases exactly the clones made when a later clone() panics.  The caller's function
          here is T::clone: cl j x = f j [x]. ---- *)
  Definition cl_of (j : nat) (x : Z) : Z := f j [x].

  Lemma clone_step nd a i st x : nth_error a i = Some x ->
    s_pos st = [("index_back", i)] -> length (s_calls st) = i ->
    step [a] false f g pan (pipe_of gen_iter_clone nd) i st =
    if is_pan pan i
    then (RPanic, mkP [("index_back", i)] (s_ev st) (s_calls st ++ [[x]]) (s_written st) (s_acc st))
    else (RUnit, mkP [("index_back", S i)] (s_ev st) (s_calls st ++ [[x]]) (s_written st ++ [cl_of i x]) (s_acc st)).
  Proof.
    intros Hx Hp Hl.
    unfold step, pipe_of, select; cbn; unfold arg_elem; cbn. rewrite Hx. cbn. rewrite Hp. cbn. rewrite Hl.
    destruct (is_pan pan i); cbn; unfold leave; cbn; rewrite ?app_nil_r; reflexivity.
  Qed.

  Lemma clone_run_spec nd a : forall l i st,
    (forall j x, nth_error l j = Some x -> nth_error a (i + j) = Some x) ->
    s_pos st = [("index_back", i)] -> length (s_calls st) = i -> length (s_written st) = i ->
    match clone_loop cl_of pan i l (s_written st) with
    | (Some all, _) =>
      fold_run [a] false f g pan (pipe_of gen_iter_clone nd) (length l) i st =
      (true, mkP [("index_back", i + length l)] (s_ev st) (s_calls st ++ map (fun x => [x]) l) all (s_acc st), i + length l)
    | (None, made) =>
      exists k st', fold_run [a] false f g pan (pipe_of gen_iter_clone nd) (length l) i st = (false, st', S k) /\
        s_pos st' = [("index_back", k)] /\ s_written st' = made /\ length made = k /\ s_ev st' = s_ev st /\
        s_calls st' = (s_calls st ++ map (fun x => [x]) (firstn (S (k - i)) l))%list /\ i <= k
    end.
  Proof.
    induction l as [|x l IH]; intros i st Hl Hp Hc Hw.
    - cbn. rewrite Nat.add_0_r, app_nil_r. rewrite <- Hp. now destruct st.
    - cbn [clone_loop length fold_run].
      assert (Hx : nth_error a i = Some x) by (rewrite <- (Nat.add_0_r i); apply Hl; reflexivity).
      rewrite (clone_step nd a i st x Hx Hp Hc).
      change (match pan with Some k => Nat.eqb i k | None => false end) with (is_pan pan i).
      destruct (is_pan pan i) eqn:Hpan.
      + exists i. eexists. split; [reflexivity|]. cbn. rewrite Nat.sub_diag. cbn. repeat split; try reflexivity; try assumption; try lia.
      + specialize (IH (S i) (mkP [("index_back", S i)] (s_ev st) (s_calls st ++ [[x]]) (s_written st ++ [cl_of i x]) (s_acc st))).
        cbn [s_pos s_calls s_written s_ev s_acc] in IH.
        unfold cl_of at 1 in IH. fold (cl_of i x) in IH.
        destruct (clone_loop cl_of pan (S i) l (s_written st ++ [cl_of i x])) as [[all|] made] eqn:Hloop.
        * rewrite IH; try reflexivity.
          -- rewrite <- !app_assoc. cbn. replace (i + S (length l)) with (S (i + length l)) by lia. reflexivity.
          -- intros j y Hy. replace (S i + j) with (i + S j) by lia. now apply Hl.
          -- rewrite app_length. cbn. lia.
          -- rewrite app_length. cbn. lia.
        * destruct IH as (k & st' & Hrun & Hp' & Hw' & Hlen & He' & Hc' & Hik); try reflexivity.
          -- intros j y Hy. replace (S i + j) with (i + S j) by lia. now apply Hl.
          -- rewrite app_length. cbn. lia.
          -- rewrite app_length. cbn. lia.
          -- exists k, st'. split; [exact Hrun|]. repeat split; try assumption; try lia.
             replace (k - i) with (S (k - S i)) by lia. cbn [firstn map]. rewrite Hc', <- app_assoc. reflexivity.
  Qed.

  Theorem tie_iter_clone nd a :
    match clone_loop cl_of pan 0 a [] with
    | (Some clones, _) =>
      run_for_each [a] false f g pan (pipe_of gen_iter_clone nd) (length a) =
      (Ok clones, [], [], [], map (fun x => [x]) a)
    | (None, made) =>
      exists c, run_for_each [a] false f g pan (pipe_of gen_iter_clone nd) (length a) =
                (Panic, [], [], map EDrop made, c)
    end.
  Proof.
    pose proof (clone_run_spec nd a a 0 (init_state [a] (pipe_of gen_iter_clone nd) 0%Z)) as H.
    cbn [s_written init_state] in H.
    destruct (clone_loop cl_of pan 0 a []) as [[clones|] made] eqn:Hloop.
    - unfold run_for_each. rewrite H; try reflexivity. intros j x Hj. exact Hj.
    - destruct H as (k & st' & Hrun & Hp' & Hw' & Hlen & He' & Hc' & _); try reflexivity.
      { intros j x Hj. exact Hj. }
      exists (s_calls st'). unfold run_for_each. rewrite Hrun.
      assert (Ht : teardown [a] false (pipe_of gen_iter_clone nd) st' (S k) = []) by reflexivity.
      assert (Hb : builder_teardown (pipe_of gen_iter_clone nd) st' = map EDrop made).
      { unfold builder_teardown. cbn. rewrite Hp'. cbn. rewrite Hw', app_nil_r, firstn_all2 by lia. reflexivity. }
      rewrite He', Ht, Hb. reflexivity.
  Qed.

  (* ---- generate: enumerate + the builder's destination slots; `dst.write(f(i)); *position += 1` ---- *)
  Lemma gen_step so nd i st :
    s_pos st = posvec [] (pipe_of gen_generate nd) i -> length (s_calls st) = i ->
    step [] so f g pan (pipe_of gen_generate nd) i st =
    if is_pan pan i
    then (RPanic, mkP [("position", i)] (s_ev st) (s_calls st ++ [[]]) (s_written st) (s_acc st))
    else (RUnit, mkP [("position", S i)] (s_ev st) (s_calls st ++ [[]]) (s_written st ++ [f i []]) (s_acc st)).
  Proof. intros Hp Hl. pipe_step Hp Hl. Qed.

  Lemma produced_repeat_S i n : produced f i (repeat [] (S n)) = f i [] :: produced f (S i) (repeat [] n).
  Proof. reflexivity. Qed.

  Lemma gen_run_ok so nd : forall n i st,
    (forall j, i <= j < i + n -> is_pan pan j = false) ->
    s_pos st = posvec [] (pipe_of gen_generate nd) i -> length (s_calls st) = i ->
    fold_run [] so f g pan (pipe_of gen_generate nd) n i st =
    (true, mkP [("position", i + n)] (s_ev st) (s_calls st ++ repeat [] n)
               (s_written st ++ produced f i (repeat [] n)) (s_acc st), i + n).
  Proof.
    induction n as [|n IH]; intros i st Hno Hp Hl.
    - cbn. rewrite Nat.add_0_r, !app_nil_r. unfold posvec in Hp. cbn in Hp. rewrite <- Hp. now destruct st.
    - cbn [fold_run]. rewrite (gen_step so nd i st Hp Hl). rewrite Hno by lia.
      rewrite IH.
      + cbn [s_ev s_calls s_written s_acc]. rewrite <- !app_assoc. cbn [app repeat].
        cbn [produced]. replace (S i + n) with (i + S n) by lia. reflexivity.
      + intros j Hj. apply Hno. lia.
      + reflexivity.
      + cbn. rewrite app_length. cbn. lia.
  Qed.

  Lemma gen_run_panic so nd : forall d n i st k,
    k = i + d -> d < n -> is_pan pan k = true -> (forall j, i <= j < k -> is_pan pan j = false) ->
    s_pos st = posvec [] (pipe_of gen_generate nd) i -> length (s_calls st) = i ->
    fold_run [] so f g pan (pipe_of gen_generate nd) n i st =
    (false, mkP [("position", k)] (s_ev st) (s_calls st ++ repeat [] (S d))
                (s_written st ++ produced f i (repeat [] d)) (s_acc st), S k).
  Proof.
    induction d as [|d IH]; intros n i st k Hk Hd Hpan Hno Hp Hl; (destruct n as [|n]; [lia|]).
    - rewrite Nat.add_0_r in Hk. subst k. cbn [fold_run]. rewrite (gen_step so nd i st Hp Hl), Hpan.
      cbn. now rewrite app_nil_r.
    - cbn [fold_run]. rewrite (gen_step so nd i st Hp Hl). rewrite Hno by lia.
      rewrite (IH n (S i) _ k); try lia; try assumption; try reflexivity.
      + cbn [s_ev s_calls s_written s_acc]. rewrite <- !app_assoc. cbn [app repeat].
        cbn [produced]. reflexivity.
      + intros j Hj. apply Hno. lia.
      + cbn. rewrite app_length. cbn. lia.
  Qed.

  Lemma moves_nil rows : moves [] rows = [].
  Proof. unfold moves. induction rows as [|r rows IH]; [reflexivity|]. cbn. exact IH. Qed.
  Lemma drops_nil rows : drops [] rows = [].
  Proof. unfold drops. induction rows as [|r rows IH]; [reflexivity|]. cbn. exact IH. Qed.

  Lemma firstn_repeat {A} (x : A) : forall k n, k <= n -> firstn k (repeat x n) = repeat x k.
  Proof. induction k as [|k IH]; intros [|n] H; cbn; try reflexivity; try lia. f_equal. apply IH. lia. Qed.

  Theorem tie_generate so nd N :
    flat5 (run_for_each [] so f g pan (pipe_of gen_generate nd) N) = generate_ N f pan.
  Proof.
    unfold generate_. rewrite zipmap_spec. rewrite repeat_length. unfold run_for_each.
    assert (Hok : (forall j, j < N -> is_pan pan j = false) ->
      flat5 (let '(ok, st, calls) := fold_run [] so f g pan (pipe_of gen_generate nd) N 0 (init_state [] (pipe_of gen_generate nd) 0%Z) in
             if ok then (Ok (s_written st), s_ev st, teardown [] so (pipe_of gen_generate nd) st calls, [], s_calls st)
             else (Panic, s_ev st, teardown [] so (pipe_of gen_generate nd) st calls,
                   builder_teardown (pipe_of gen_generate nd) st, s_calls st)) =
      (Ok (produced f 0 (repeat [] N)), moves [] (repeat [] N), repeat [] N)).
    { intros Hno. rewrite (gen_run_ok so nd N 0 (init_state [] (pipe_of gen_generate nd) 0%Z) (fun j Hj => Hno j (proj2 Hj)) (eq_sym (init_pos_zero [] _ (nb_of gen_generate nd eq_refl))) eq_refl).
      cbn. now rewrite moves_nil. }
    assert (Hcase : (exists k, pan = Some k /\ k < N) \/ (forall j, j < N -> is_pan pan j = false)).
    { unfold is_pan. destruct pan as [k|]; [|right; reflexivity].
      destruct (Nat.ltb_spec k N) as [Hlt|Hge]; [left; eauto|right]. intros j Hj. apply Nat.eqb_neq. lia. }
    destruct Hcase as [(k & Ek & Hlt)|Hno].
    - rewrite (gen_run_panic so nd k N 0 (init_state [] (pipe_of gen_generate nd) 0%Z) k eq_refl Hlt).
      + rewrite Ek. destruct (Nat.ltb_spec k N) as [_|]; [|lia].
        rewrite moves_nil, drops_nil, !firstn_repeat by lia.
        cbn. rewrite firstn_all2 by (rewrite produced_length, repeat_length; lia).
        rewrite app_nil_r. reflexivity.
      + unfold is_pan. rewrite Ek. apply Nat.eqb_refl.
      + intros j Hj. unfold is_pan. rewrite Ek. apply Nat.eqb_neq. lia.
      + exact (eq_sym (init_pos_zero [] _ (nb_of gen_generate nd eq_refl))).
      + reflexivity.
    - rewrite (Hok Hno). unfold is_pan in Hno. destruct pan as [k|]; [|reflexivity].
      destruct (Nat.ltb_spec k N) as [Hlt|]; [|reflexivity].
      specialize (Hno k Hlt). rewrite Nat.eqb_refl in Hno. discriminate.
  Qed.
  (* ---- the trait defaults (src/functional.rs map / fold, src/sequence.rs inverted_zip2): what `&GenericArray`,
          `&mut GenericArray` and every other sequence run.  `self` is iterated by value; whether its items
          are owned (so = true) or lent (a by-reference sequence, so = false) is the caller's choice ---- *)
  Lemma dmap_good a so nd : good [a] so f g pan (pipe_of gen_default_map nd) (map (fun x => [x]) a) [so].
  Proof.
    intros i st row Hrow Hp Hl. rewrite nth_error_map in Hrow.
    destruct (nth_error a i) as [x|] eqn:Hx; [|discriminate]. injection Hrow as <-.
    destruct so; pipe_step Hp Hl.
  Qed.

  Lemma drops_single_so so l :
    flat_map (fun r => map EDrop (owned_ids [so] r)) (map (fun x => [x]) l) = if so then map EDrop l else [].
  Proof. induction l as [|x l IH]; [now destruct so|]. cbn [map flat_map]. rewrite IH. now destruct so. Qed.

  Theorem tie_default_map a so nd :
    flat5 (run_from_iter [a] so f g pan (pipe_of gen_default_map nd) (length a)) = map_ so f pan a.
  Proof.
    pose proof (from_iter_run [a] so f g pan _ _ _ (nb_of gen_default_map nd eq_refl) (dmap_good a so nd)) as H.
    rewrite map_length in H. rewrite H. unfold map_, zipmap. rewrite map_length.
    destruct (try_from_iter (length a) (pipe_src f pan (map (fun x => [x]) a))) as [[o e] p].
    cbv zeta. unfold flat5. f_equal. f_equal. f_equal. f_equal.
    unfold teardown. cbn [pipe_of select gen_default_map p_srcs rev app flat_map snd nth_error].
    rewrite skipn_map, drops_single_so. destruct so; cbn; now rewrite ?app_nil_r.
  Qed.

  Lemma dzip2_good a b so nd :
    good [b; a] so f g pan (pipe_of gen_default_inverted_zip2 nd) (zrows a b) [so; so].
  Proof.
    intros i st row Hrow Hp Hl. unfold zrows in Hrow. rewrite nth_error_map in Hrow.
    destruct (nth_error (combine a b) i) as [[x y]|] eqn:Hxy; [|discriminate]. injection Hrow as <-.
    apply nth_combine in Hxy. destruct Hxy as [Hx Hy]. cbn [fst snd] in *.
    destruct so; pipe_step Hp Hl.
    all: destruct (Z.eqb_spec x y) as [->|Hne]; cbn; rewrite ?Z.eqb_refl, ?app_nil_r; reflexivity.
  Qed.

  Lemma drops_none : forall a b,
    flat_map (fun r => map EDrop (owned_ids [false; false] r)) (zrows a b) = [].
  Proof. induction a as [|x a IH]; intros [|y b]; cbn; try reflexivity. apply IH. Qed.

  (* inverted_zip2's default: both sequences iterated by value, f(lhs_i, self_i) *)
  Theorem tie_default_zip2 a b so nd : length a = length b ->
    agrees (run_from_iter [b; a] so f g pan (pipe_of gen_default_inverted_zip2 nd) (length a))
           (zip_ so so f pan a b).
  Proof.
    intros Hlen.
    pose proof (from_iter_run [b; a] so f g pan _ _ _ (nb_of gen_default_inverted_zip2 nd eq_refl) (dzip2_good a b so nd)) as H.
    rewrite (zrows_length a b Hlen) in H. rewrite H. unfold zip_, zipmap. fold (zrows a b).
    rewrite (zrows_length a b Hlen).
    destruct (try_from_iter (length a) (pipe_src f pan (zrows a b))) as [[o e] p].
    cbv zeta. unfold agrees. eexists. split; [reflexivity|].
    unfold teardown. unfold pipe_of, gen_default_inverted_zip2, select. cbn.
    unfold zrows. rewrite skipn_map, skipn_combine. fold (zrows (skipn (Nat.min p (length a)) a) (skipn (Nat.min p (length a)) b)).
    assert (Hl' : length (skipn (Nat.min p (length a)) a) = length (skipn (Nat.min p (length a)) b))
      by (rewrite !skipn_length; lia).
    destruct so; cbn; rewrite ?app_nil_r.
    - now apply drops_pairs.
    - rewrite drops_none. apply Permutation_refl.
  Qed.

  (* fold's default: self.into_iter().fold(init, f) *)
  Lemma dfold_step a so nd i st x : nth_error a i = Some x -> length (s_calls st) = i ->
    step [a] so f g pan (pipe_of gen_default_fold nd) i st =
    ((if is_pan pan i then RPanic else RUnit),
     mkP (s_pos st) (s_ev st ++ (if so then [EMove x] else [])) (s_calls st ++ [[x]]) (s_written st)
         (if is_pan pan i then s_acc st else g i (s_acc st) x)).
  Proof.
    intros Hx Hl. unfold step, pipe_of, select; cbn; unfold arg_elem; cbn. rewrite Hx.
    destruct so; cbn; rewrite ?Z.eqb_refl, ?Hl; unfold is_pan;
      destruct (match pan with Some p => Nat.eqb i p | None => false end);
      cbn; rewrite ?Z.eqb_refl; unfold leave; cbn; rewrite ?app_nil_r; destruct st; reflexivity.
  Qed.

  Lemma dfold_run_spec a so nd : forall l i st,
    (forall j x, nth_error l j = Some x -> nth_error a (i + j) = Some x) ->
    length (s_calls st) = i ->
    let '(o, c) := fold_loop g pan i (s_acc st) l in
    exists st', fold_run [a] so f g pan (pipe_of gen_default_fold nd) (length l) i st = (fold_ok_b o, st', c) /\
      s_ev st' = (s_ev st ++ (if so then map EMove (firstn (c - i) l) else []))%list /\
      s_calls st' = (s_calls st ++ map (fun x => [x]) (firstn (c - i) l))%list /\
      (forall acc', o = FoldOk acc' -> s_acc st' = acc').
  Proof.
    induction l as [|x l IH]; intros i st Hl Hc.
    - cbn. exists st. rewrite Nat.sub_diag. cbn. destruct so; rewrite !app_nil_r; repeat split; try reflexivity.
      all: now intros acc' [= <-].
    - cbn [fold_loop length fold_run].
      assert (Hx : nth_error a i = Some x) by (rewrite <- (Nat.add_0_r i); apply Hl; reflexivity).
      rewrite (dfold_step a so nd i st x Hx Hc).
      change (match pan with Some k => Nat.eqb i k | None => false end) with (is_pan pan i).
      destruct (is_pan pan i) eqn:Hpan.
      + eexists. split; [reflexivity|]. replace (S i - i) with 1 by lia. cbn.
        destruct so; repeat split; try reflexivity; intros acc' H; discriminate.
      + specialize (IH (S i) (mkP (s_pos st) (s_ev st ++ (if so then [EMove x] else [])) (s_calls st ++ [[x]]) (s_written st) (g i (s_acc st) x))).
        cbn [s_acc s_pos s_calls s_ev] in IH.
        destruct (fold_loop g pan (S i) (g i (s_acc st) x) l) as [o c] eqn:Hloop.
        destruct IH as (st' & Hrun & He' & Hc' & Ha').
        * intros j y Hy. replace (S i + j) with (i + S j) by lia. now apply Hl.
        * rewrite app_length. cbn. lia.
        * exists st'. split; [exact Hrun|].
          assert (Hci : S i <= c) by (eapply fold_loop_ge; exact Hloop).
          replace (c - i) with (S (c - S i)) by lia. cbn [firstn map].
          rewrite He', Hc', <- !app_assoc. cbn. destruct so; repeat split; try reflexivity; assumption.
  Qed.

  Theorem tie_default_fold a so nd init :
    let '(o, m, t, c) := run_fold [a] so f g pan (pipe_of gen_default_fold nd) (length a) init in
    (o, (m ++ t)%list, List.concat c) = fold_ so g pan init a.
  Proof.
    unfold run_fold, fold_.
    pose proof (dfold_run_spec a so nd a 0 (init_state [a] (pipe_of gen_default_fold nd) init)) as H.
    cbn [s_acc init_state] in H.
    destruct (fold_loop g pan 0 init a) as [o c] eqn:Hloop.
    destruct H as (st' & Hrun & He' & Hc' & Ha'); [intros j x Hj; exact Hj|reflexivity|].
    rewrite Hrun. rewrite Nat.sub_0_r in *. cbn [s_ev s_calls init_state app] in He', Hc'.
    rewrite He', Hc'. unfold teardown. cbn.
    f_equal; [f_equal|].
    - destruct o as [acc'|]; cbn; [|reflexivity]. now rewrite (Ha' acc' eq_refl).
    - destruct so; cbn; now rewrite ?app_nil_r.
    - clear. induction (firstn c a) as [|x l IH]; [reflexivity|]. cbn. now rewrite IH.
  Qed.

  (* zip is the inverted zip of its second argument, with `self` and `f` handed over unchanged, in
     GenericArray's own impl and in the trait default *)
  Lemma tie_zip_delegations :
    gen_zip_delegations =
    [("lib.rs", "rhs", "inverted_zip", ["self"; "f"]); ("functional.rs", "rhs", "inverted_zip2", ["self"; "f"])].
  Proof. reflexivity. Qed.
End Programs.

(* the boxed generate of src/impl_alloc.rs runs the same closure over the same builder *)
Lemma boxed_generate_same_loop : gen_boxed_generate = gen_generate.
Proof. reflexivity. Qed.

(* ---- composed with FunctionalProofs: what the REGENERATED bodies guarantee ---- *)

Lemma flat5_agrees f pan r own rows : flat5 r = zipmap own f pan rows -> agrees r (zipmap own f pan rows).
Proof.
  destruct r as [[[[o m] t] e] c]. cbn. intros H. exists t. split; [now rewrite H|apply Permutation_refl].
Qed.

(* C04: whatever call panics, every element of every owned input and every value the caller's
   function returned is released exactly once: moved into the caller's function, dropped by the
   crate, or part of the returned array *)
Lemma agrees_accounted f pan r own rows : agrees r (zipmap own f pan rows) ->
  let '(o, m, t, e, c) := r in
  Permutation (flat_map (owned_ids own) rows ++ produced f 0 (firstn (completed pan (length rows)) rows))%list
              (releases (m ++ t ++ e) ++ match o with Ok a => a | _ => [] end)%list.
Proof.
  destruct r as [[[[o m] t] e] c]. cbn. intros (t' & H & Hperm).
  pose proof (zipmap_accounted own f pan rows) as Hacc. rewrite H in Hacc. rewrite Hacc.
  apply Permutation_app_tail. rewrite !releases_app.
  apply Permutation_app_head, Permutation_app_tail.
  clear - Hperm. induction Hperm as [| x l l' _ IH | x y l | l l' l'' _ IH1 _ IH2].
  - constructor.
  - destruct x; cbn; try exact IH; now constructor.
  - destruct x, y; cbn; try apply Permutation_refl; try constructor; try apply Permutation_refl.
  - eapply Permutation_trans; eassumption.
Qed.

(* C08: without a panic the caller's function is called exactly once per index, in ascending
   order, on the elements at that index, and slot i of the result is what call i returned *)
Lemma agrees_ok f r own rows : agrees r (zipmap own f None rows) ->
  let '(o, m, t, e, c) := r in o = Ok (produced f 0 rows) /\ c = rows.
Proof.
  destruct r as [[[[o m] t] e] c]. cbn. intros (t' & H & Hperm). rewrite zipmap_ok in H.
  injection H as <- Hm <-. split; reflexivity.
Qed.

Section Composed.
  Variable f : nat -> list Z -> Z.
  Variable g : nat -> Z -> Z -> Z.

  (* map *)
  Theorem src_map_accounted pan a so nd :
    let '(o, m, t, e, c) := run_from_iter [a] so f g pan (pipe_of gen_map nd) (length a) in
    Permutation (a ++ produced f 0 (firstn (completed pan (length a)) (map (fun x => [x]) a)))%list
                (releases (m ++ t ++ e) ++ match o with Ok r => r | _ => [] end)%list.
  Proof.
    pose proof (agrees_accounted f pan _ [true] (map (fun x => [x]) a)
                  (flat5_agrees f pan _ _ _ (tie_map f g pan a so nd))) as H.
    destruct (run_from_iter [a] so f g pan (pipe_of gen_map nd) (length a)) as [[[[o m] t] e] c].
    rewrite map_length in H.
    replace (flat_map (owned_ids [true]) (map (fun x => [x]) a)) with a in H; [exact H|].
    clear. induction a as [|x a IH]; [reflexivity|]. cbn. now rewrite <- IH.
  Qed.

  Theorem src_map_in_order a so nd :
    let '(o, m, t, e, c) := run_from_iter [a] so f g None (pipe_of gen_map nd) (length a) in
    o = Ok (produced f 0 (map (fun x => [x]) a)) /\ c = map (fun x => [x]) a.
  Proof.
    exact (agrees_ok f _ [true] _ (flat5_agrees f None _ _ _ (tie_map f g None a so nd))).
  Qed.

  Lemma owned_zrows : forall a b, length a = length b ->
    Permutation (flat_map (owned_ids [true; true]) (zrows a b)) (a ++ b)%list.
  Proof.
    induction a as [|x a IH]; intros [|y b] H; cbn in *; try discriminate; [constructor|].
    injection H as H. constructor. eapply Permutation_trans; [|apply Permutation_middle].
    constructor. now apply IH.
  Qed.

  (* zip of two owned arrays *)
  Theorem src_zip_accounted pan a b so nd : length a = length b ->
    nd_eval nd (NdOr (NdArg 0) (NdArg 1)) = true ->
    let '(o, m, t, e, c) := run_from_iter [b; a] so f g pan (pipe_of gen_inverted_zip nd) (length a) in
    Permutation (a ++ b ++ produced f 0 (firstn (completed pan (length a)) (zrows a b)))%list
                (releases (m ++ t ++ e) ++ match o with Ok r => r | _ => [] end)%list.
  Proof.
    intros Hlen Hnd.
    pose proof (agrees_accounted f pan _ [true; true] (zrows a b) (tie_zip f g pan a b so nd Hlen Hnd)) as H.
    destruct (run_from_iter [b; a] so f g pan (pipe_of gen_inverted_zip nd) (length a)) as [[[[o m] t] e] c].
    rewrite (zrows_length a b Hlen) in H.
    eapply Permutation_trans; [|exact H]. rewrite app_assoc.
    apply Permutation_app_tail, Permutation_sym. now apply owned_zrows.
  Qed.

  Theorem src_zip_in_order a b so nd : length a = length b ->
    nd_eval nd (NdOr (NdArg 0) (NdArg 1)) = true ->
    let '(o, m, t, e, c) := run_from_iter [b; a] so f g None (pipe_of gen_inverted_zip nd) (length a) in
    o = Ok (produced f 0 (zrows a b)) /\ c = zrows a b.
  Proof.
    intros Hlen Hnd. exact (agrees_ok f _ [true; true] _ (tie_zip f g None a b so nd Hlen Hnd)).
  Qed.

  (* fold: every element of the owned array is released exactly once, whatever call panics *)
  Theorem src_fold_accounted pan a so nd init :
    let '(o, m, t, c) := run_fold [a] so f g pan (pipe_of gen_fold nd) (length a) init in
    releases (m ++ t) = a.
  Proof.
    pose proof (tie_fold f g pan a so nd init) as H.
    destruct (run_fold [a] so f g pan (pipe_of gen_fold nd) (length a) init) as [[[o m] t] c].
    pose proof (fold_accounted true g pan init a) as Hacc. rewrite <- H in Hacc. exact Hacc.
  Qed.

  Theorem src_fold_in_order a so nd init :
    let '(o, m, t, c) := run_fold [a] so f g None (pipe_of gen_fold nd) (length a) init in
    o = FoldOk (fold_acc g 0 init a) /\ List.concat c = a.
  Proof.
    pose proof (tie_fold f g None a so nd init) as H.
    destruct (run_fold [a] so f g None (pipe_of gen_fold nd) (length a) init) as [[[o m] t] c].
    rewrite fold_ok in H. injection H as -> _ ->. split; reflexivity.
  Qed.

  (* generate (stack and boxed): the values produced before a panic are dropped, nothing else *)
  Theorem src_generate_spec pan so nd N :
    flat5 (run_for_each [] so f g pan (pipe_of gen_generate nd) N) = generate_ N f pan /\
    flat5 (run_for_each [] so f g pan (pipe_of gen_boxed_generate nd) N) = generate_ N f pan.
  Proof. rewrite boxed_generate_same_loop. split; apply tie_generate. Qed.

  (* ---- the trait defaults (by-reference and other sequences) ---- *)
  Theorem src_default_map_in_order a so nd :
    let '(o, m, t, e, c) := run_from_iter [a] so f g None (pipe_of gen_default_map nd) (length a) in
    o = Ok (produced f 0 (map (fun x => [x]) a)) /\ c = map (fun x => [x]) a.
  Proof.
    exact (agrees_ok f _ [so] _ (flat5_agrees f None _ _ _ (tie_default_map f g None a so nd))).
  Qed.

  Theorem src_default_zip2_in_order a b so nd : length a = length b ->
    let '(o, m, t, e, c) := run_from_iter [b; a] so f g None (pipe_of gen_default_inverted_zip2 nd) (length a) in
    o = Ok (produced f 0 (zrows a b)) /\ c = zrows a b.
  Proof.
    intros Hlen. exact (agrees_ok f _ [so; so] _ (tie_default_zip2 f g None a b so nd Hlen)).
  Qed.

  Theorem src_default_fold_in_order a so nd init :
    let '(o, m, t, c) := run_fold [a] so f g None (pipe_of gen_default_fold nd) (length a) init in
    o = FoldOk (fold_acc g 0 init a) /\ List.concat c = a.
  Proof.
    pose proof (tie_default_fold f g None a so nd init) as H.
    destruct (run_fold [a] so f g None (pipe_of gen_default_fold nd) (length a) init) as [[[o m] t] c].
    rewrite fold_ok in H. injection H as -> _ ->. split; reflexivity.
  Qed.

  (* a lent sequence is never moved from or dropped by fold, whatever call panics *)
  Theorem src_default_fold_lent_untouched pan a nd init :
    let '(o, m, t, c) := run_fold [a] false f g pan (pipe_of gen_default_fold nd) (length a) init in
    (m ++ t)%list = [].
  Proof.
    pose proof (tie_default_fold f g pan a false nd init) as H.
    destruct (run_fold [a] false f g pan (pipe_of gen_default_fold nd) (length a) init) as [[[o m] t] c].
    unfold fold_ in H. destruct (fold_loop g pan 0 init a) as [o' calls]. now injection H as _ -> _.
  Qed.
  (* ---- GenericArrayIter's own fold / rfold / clone (src/iter.rs), panic-free: every remaining element is
          visited exactly once, front to back (fold) / back to front (rfold); the clone holds the images of
          exactly the remaining elements, in order, and the original is untouched ---- *)
  Theorem src_iter_fold_in_order a so nd init :
    let '(o, m, t, c) := run_fold [a] so f g None (pipe_of gen_iter_fold nd) (length a) init in
    o = FoldOk (fold_acc g 0 init a) /\ List.concat c = a /\ (m ++ t)%list = map EMove a.
  Proof.
    pose proof (tie_iter_fold f g None a so nd init) as H.
    destruct (run_fold [a] so f g None (pipe_of gen_iter_fold nd) (length a) init) as [[[o m] t] c].
    rewrite fold_ok in H. injection H as -> -> ->. repeat split; reflexivity.
  Qed.

  Theorem src_iter_rfold_in_order a so nd init :
    let '(o, m, t, c) := run_fold [a] so f g None (pipe_of gen_iter_rfold nd) (length a) init in
    o = FoldOk (fold_acc g 0 init (rev a)) /\ List.concat c = rev a.
  Proof.
    pose proof (tie_iter_rfold f g None a so nd init) as H.
    destruct (run_fold [a] so f g None (pipe_of gen_iter_rfold nd) (length a) init) as [[[o m] t] c].
    destruct H as (t' & H & _). rewrite fold_ok in H. injection H as <- _ <-. split; reflexivity.
  Qed.

  Theorem src_iter_clone_all nd a :
    run_for_each [a] false f g None (pipe_of gen_iter_clone nd) (length a) =
    (Ok (clones_of (fun j x => f j [x]) 0 a), [], [], [], map (fun x => [x]) a).
  Proof.
    pose proof (tie_iter_clone f g None nd a) as H.
    rewrite clone_loop_ok in H by (intros j Hj; reflexivity). exact H.
  Qed.
End Composed.

(* how generate obtains its destination and hands it back: on the stack an uninitialised array and
   array_assume_init; in the boxed form Box::new_uninit -- so that a zero-sized array requests nothing,
   a failed allocation goes through handle_alloc_error and the Box<MaybeUninit<..>> frees the block
   when the caller's function panics (HeapOps.boxed_generate: box_new_uninit .. std_free) -- and
   Box::from_raw of the same pointer *)
Lemma tie_generate_frames :
  gen_generate_frame = ("GenericArray::uninit", "IntrusiveArrayBuilder::array_assume_init(array)") /\
  gen_boxed_generate_frame = ("Box::new_uninit", "Box::from_raw(Box::into_raw(..).cast())").
Proof. split; reflexivity. Qed.

(* GuardTieSerde.v -- tier T2 tie (part of the former GuardTie.v, split so that a change of one function only reaches the
   properties whose theorems are stated over that function's regenerated guards): visit_seq checks and tuple lengths (C17) *)
From Coq Require Import String.
From GA Require Import Base Guards.
From GA Require Views Chunks SeqOps Builder Hex HeapOps ConstEval Serde.
From GAGen Require Import GenGuards GenConstFns.
Local Open Scope Z_scope.

Lemma of_nat_eqb a b : (Z.of_nat a =? Z.of_nat b) = Nat.eqb a b.
Proof.
  destruct (Nat.eqb_spec a b) as [->|H]; [apply Z.eqb_refl|]. apply Z.eqb_neq. lia.
Qed.

(* ---------------- C17: the checks of visit_seq and the tuple length (src/impl_serde.rs) ---------------- *)

Lemma tie_serde_hint n (h : option Z) :
  Serde.hint_rejects n h =
  match h with Some v => ctest (env1 "hint" v) (Z.of_nat n) serde_hint_guard | None => false end.
Proof. destruct h; reflexivity. Qed.

Lemma tie_serde_full (pos n : nat) :
  Nat.eqb pos n = ctest (env1 "position" (Z.of_nat pos)) (Z.of_nat n) serde_full_test.
Proof. cbn. now rewrite of_nat_eqb. Qed.

Lemma tie_serde_probe (h : option Z) :
  serde_probe_guard = ("!="%string, 0) /\
  Serde.hint_allows_probe h = match h with Some v => negb (v =? snd serde_probe_guard) | None => true end.
Proof. split; [reflexivity|]. destruct h as [[| |]|]; reflexivity. Qed.

Lemma tie_serde_tuple_len : serde_tuple_lens = [("serialize_tuple"%string, GN); ("deserialize_tuple"%string, GN)].
Proof. reflexivity. Qed.


(* HeapConvProofs.v -- C15: what each conversion of src/impl_alloc.rs / box_arr! returns
   (contents and order), when the fallible ones succeed (exactly when the source length
   is N; otherwise LengthError and every source element dropped exactly once), and that
   the O(1) ones hand over the same block without any allocator event.
   All statements are about the operation started in an ARBITRARY state st. *)
From GA Require Import Base Builder BuilderProofs Functional FunctionalProofs Alloc HeapOps.
Local Open Scope Z_scope.

(* a Vec / box that owns a buffer of non-zero size has a block *)
Definition vec_wf (T : elt) (v : hvec) : Prop :=
  vlen v <= vcap v /\ (bytes T (vcap v) <> 0 -> exists b, vblk v = Some b).
Definition box_wf (T : elt) (b : hbox) : Prop :=
  bytes T (blen b) <> 0 -> exists i, bblk b = Some i.

(* "nothing happened": no allocator event, no element event, no fresh identity used *)
Definition untouched (st st' : ast) : Prop := st' = st.
(* "only these element events and these allocator events were added" *)
Definition added (st st' : ast) (a : list aev) (e : list ev) : Prop :=
  atr st' = atr st ++ a /\ etr st' = etr st ++ e.

Section Conv.
Variable fails : nat -> bool.

Ltac ex := repeat progress unfold vec_to_array, into_boxed_slice, into_vec, try_from_boxed_slice,
  try_from_vec, vec_into_boxed_slice, boxed_slice_to_array, array_to_boxed_slice, array_to_vec,
  boxed_into_iter, vec_from_box, box_new, vec_drop, box_drop, std_alloc, std_free, std_realloc, raw_alloc,
  bind, ret, stop, emitA, emitE, vlen, blen, added, untouched;
  cbn [vblk vcap vel bblk bel next nallocs atr etr].
Ltac brk := match goal with |- context [if ?c then _ else _] => destruct c eqn:? end.
Ltac nh :=
  repeat match goal with
  | H : negb _ = true |- _ => apply negb_true_iff in H
  | H : negb _ = false |- _ => apply negb_false_iff in H
  | H : _ && _ = true |- _ => apply andb_true_iff in H; destruct H
  | H : _ && _ = false |- _ => apply andb_false_iff in H; destruct H
  | H : (_ =? _) = true |- _ => apply Z.eqb_eq in H
  | H : (_ =? _) = false |- _ => apply Z.eqb_neq in H
  | H : (_ <? _) = true |- _ => apply Z.ltb_lt in H
  | H : (_ <? _) = false |- _ => apply Z.ltb_ge in H
  end.

(* ------------------------------------------------ the O(1) conversions *)
(* into_boxed_slice: same block, same elements in the same order, state untouched *)
Theorem into_boxed_slice_spec (b : hbox) st :
  into_boxed_slice b st = (MRet (mkBox (bblk b) (bel b)), st).
Proof. reflexivity. Qed.

(* into_vec: same block, same elements, capacity = length, state untouched *)
Theorem into_vec_spec (b : hbox) st :
  into_vec b st = (MRet (mkVec (bblk b) (blen b) (bel b)), st).
Proof. reflexivity. Qed.

(* try_from_boxed_slice, length N: same block, same elements, state untouched *)
Theorem try_from_boxed_slice_ok T N (s : hbox) st : blen s = Z.of_nat N ->
  try_from_boxed_slice T N s st = (MRet (Some (mkBox (bblk s) (bel s))), st).
Proof.
  intros H. unfold try_from_boxed_slice. rewrite H, Z.eqb_refl. reflexivity.
Qed.

(* any other length: LengthError, every element of the source dropped exactly once (one
   EDrop each, in order), and its block released with the layout of a slice of that length *)
Theorem try_from_boxed_slice_err T N (s : hbox) st : blen s <> Z.of_nat N -> box_wf T s ->
  exists st', try_from_boxed_slice T N s st = (MRet None, st') /\
    added st st' (if bytes T (blen s) =? 0 then []
                  else match bblk s with Some i => [EDealloc i (bytes T (blen s)) (eal T)] | None => [] end)
              (map EDrop (bel s)).
Proof.
  intros H Hw. unfold try_from_boxed_slice. apply Z.eqb_neq in H. rewrite H. cbn [negb].
  ex. destruct (bytes T (zlen (bel s)) =? 0) eqn:E.
  - eexists. split; [reflexivity|]. cbn. now rewrite app_nil_r.
  - apply Z.eqb_neq in E. destruct (Hw E) as [i Hi]. unfold blen in Hi. rewrite Hi.
    eexists. split; [reflexivity|]. cbn. split; reflexivity.
Qed.

Theorem try_from_boxed_slice_ok_iff T N (s : hbox) st : box_wf T s ->
  (exists b st', try_from_boxed_slice T N s st = (MRet (Some b), st')) <-> blen s = Z.of_nat N.
Proof.
  intros Hw. split.
  - intros (b & st' & H). destruct (Z.eq_dec (blen s) (Z.of_nat N)) as [E|E]; [exact E|].
    destruct (try_from_boxed_slice_err T N s st E Hw) as (st'' & H' & _). congruence.
  - intros E. do 2 eexists. now apply try_from_boxed_slice_ok.
Qed.

(* try_from_vec with length N and no spare capacity (or zero-sized elements): the same block,
   the same elements, zero allocator events -- the state is untouched *)
Theorem try_from_vec_o1 T N (v : hvec) st : vlen v = Z.of_nat N ->
  vlen v = vcap v \/ esz T = 0 ->
  try_from_vec fails T N v st = (MRet (Some (mkBox (vblk v) (vel v))), st).
Proof.
  intros Hl Hc. unfold try_from_vec, vec_into_boxed_slice.
  assert (E : (vlen v <? vcap v) && negb (bytes T (vcap v) =? 0) = false).
  { destruct Hc as [Hc|Hc].
    - rewrite <- Hc, Z.ltb_irrefl. reflexivity.
    - unfold bytes. rewrite Hc, Z.mul_0_r. cbn. apply andb_false_r. }
  rewrite E. unfold bind, ret. cbn [fst snd].
  rewrite (try_from_boxed_slice_ok T N (mkBox (vblk v) (vel v)) st Hl). reflexivity.
Qed.

(* try_from_vec in general (allocator not failing): Ok exactly for length N; the elements are
   the source's in order and no element is dropped; otherwise LengthError and every source
   element dropped exactly once *)
Theorem try_from_vec_spec T N (v : hvec) st : vec_wf T v -> elt_ok T ->
  fails (nallocs st) = false ->
  exists r st', try_from_vec fails T N v st = (MRet r, st') /\
    if vlen v =? Z.of_nat N
    then (exists b, r = Some b /\ bel b = vel v) /\ etr st' = etr st
    else r = None /\ etr st' = etr st ++ map EDrop (vel v).
Proof.
  intros [Hle Hw] [Hs Ha] Hf. destruct v as [blk cap els]. destruct st as [nx na tr er].
  unfold vlen in *. cbn [vblk vcap vel nallocs] in *.
  assert (Hblk : blk = None -> bytes T cap = 0).
  { intros ->. destruct (Z.eq_dec (bytes T cap) 0) as [E|E]; [exact E|].
    destruct (Hw E) as [i Hi]. discriminate Hi. }
  pose proof (Zle_0_nat (length els)) as Hnn. unfold zlen in *.
  ex. destruct blk as [i|].
  - repeat (brk; ex; cbn [negb]); rewrite ?Hf; ex; nh; unfold bytes, zlen in *;
      try solve [exfalso; nia];
      try (do 2 eexists; split; [reflexivity|]; cbn; rewrite ?app_nil_r; eauto).
  - specialize (Hblk eq_refl).
    repeat (brk; ex; cbn [negb]); rewrite ?Hf; ex; nh; unfold bytes, zlen in *;
      try solve [exfalso; nia];
      try (do 2 eexists; split; [reflexivity|]; cbn; rewrite ?app_nil_r; eauto).
Qed.

Corollary try_from_vec_ok_iff T N (v : hvec) st : vec_wf T v -> elt_ok T ->
  fails (nallocs st) = false ->
  (exists b st', try_from_vec fails T N v st = (MRet (Some b), st')) <-> vlen v = Z.of_nat N.
Proof.
  intros Hw HT Hf. destruct (try_from_vec_spec T N v st Hw HT Hf) as (r & st' & E & H).
  destruct (vlen v =? Z.of_nat N) eqn:El.
  - apply Z.eqb_eq in El. split; [auto|]. intros _. destruct H as [(b & -> & _) _]. eauto.
  - apply Z.eqb_neq in El. destruct H as [-> _]. split; [|contradiction].
    intros (b & st'' & E'). congruence.
Qed.

(* ------------------------------------------------ heap -> stack *)
(* impl TryFrom<Vec<T>> for GenericArray<T, N> (never allocates) *)
Theorem vec_to_array_spec T N (v : hvec) st : vec_wf T v ->
  exists r st', vec_to_array T N v st = (MRet r, st') /\
    if vlen v =? Z.of_nat N
    then r = Some (vel v) /\ etr st' = etr st
    else r = None /\ etr st' = etr st ++ map EDrop (vel v).
Proof.
  intros [Hle Hw]. unfold vec_to_array. ex.
  destruct (zlen (vel v) =? Z.of_nat N) eqn:E; cbn [negb]; ex.
  - destruct (bytes T (vcap v) =? 0) eqn:E2; ex.
    + do 2 eexists. split; [reflexivity|]. split; reflexivity.
    + apply Z.eqb_neq in E2. destruct (Hw E2) as [i ->]. do 2 eexists. split; [reflexivity|]. split; reflexivity.
  - destruct (bytes T (vcap v) =? 0) eqn:E2; ex.
    + do 2 eexists. split; [reflexivity|]. split; reflexivity.
    + apply Z.eqb_neq in E2. destruct (Hw E2) as [i ->]. do 2 eexists. split; [reflexivity|]. split; reflexivity.
Qed.

Lemma box_vec_wf T (s : hbox) : box_wf T s -> vec_wf T (vec_from_box s).
Proof. intros H. split; [unfold vlen, vec_from_box, blen; cbn; lia|exact H]. Qed.

(* impl TryFrom<Box<[T]>> for GenericArray<T, N> *)
Theorem boxed_slice_to_array_spec T N (s : hbox) st : box_wf T s ->
  exists r st', boxed_slice_to_array T N s st = (MRet r, st') /\
    if blen s =? Z.of_nat N
    then r = Some (bel s) /\ etr st' = etr st
    else r = None /\ etr st' = etr st ++ map EDrop (bel s).
Proof.
  intros Hw. unfold boxed_slice_to_array. apply (vec_to_array_spec T N (vec_from_box s) st).
  now apply box_vec_wf.
Qed.

(* ------------------------------------------------ stack -> heap *)
(* From<GenericArray<T, N>> for Box<[T]> / Vec<T>: the elements in order, one block of
   exactly N * size bytes (none when that is zero), no element event *)
Theorem array_to_boxed_slice_spec T (a : list Z) st : fails (nallocs st) = false ->
  exists b st', array_to_boxed_slice fails T a st = (MRet b, st') /\ bel b = a /\
    etr st' = etr st /\
    atr st' = atr st ++ (if bytes T (zlen a) =? 0 then [] else [EAlloc (next st) (bytes T (zlen a)) (eal T)]) /\
    bblk b = (if bytes T (zlen a) =? 0 then None else Some (next st)).
Proof.
  intros Hf. unfold array_to_boxed_slice. ex. destruct (bytes T (zlen a) =? 0) eqn:E; ex.
  - do 2 eexists. split; [reflexivity|]. cbn. rewrite app_nil_r. auto.
  - rewrite Hf. do 2 eexists. split; [reflexivity|]. cbn. auto.
Qed.

Theorem array_to_vec_spec T (a : list Z) st : fails (nallocs st) = false ->
  exists v st', array_to_vec fails T a st = (MRet v, st') /\ vel v = a /\ vcap v = zlen a /\
    etr st' = etr st.
Proof.
  intros Hf. destruct (array_to_boxed_slice_spec T a st Hf) as (b & st' & E & Hb & He & _).
  unfold array_to_vec, bind. rewrite E. unfold ret. do 2 eexists. split; [reflexivity|].
  cbn. unfold blen. rewrite Hb. auto.
Qed.

(* IntoIterator for Box<GenericArray<T, N>>: the items come out in order; what the caller
   does not take is dropped exactly once by the iterator *)
Theorem boxed_into_iter_spec T (b : hbox) k st : box_wf T b ->
  exists st', boxed_into_iter T b k st = (MRet (firstn k (bel b)), st') /\
    etr st' = etr st ++ map EDrop (skipn k (bel b)).
Proof.
  intros Hw. unfold boxed_into_iter. ex. destruct (bytes T (zlen (bel b)) =? 0) eqn:E; ex.
  - eexists. split; reflexivity.
  - apply Z.eqb_neq in E. destruct (Hw E) as [i ->]. eexists. split; reflexivity.
Qed.

(* ------------------------------------------------ constructors: contents *)
(* boxed generate / default_boxed: element i is f i, for every N *)
Ltac plumb := cbv beta iota zeta delta [bind ret stop emitE emitA std_alloc raw_alloc std_free
  std_realloc box_new_uninit vec_with_capacity try_from_vec vec_into_boxed_slice try_from_boxed_slice
  box_drop vlen blen vblk vcap vel bblk bel next nallocs atr etr].

Theorem boxed_generate_contents T N f pan st b st' :
  boxed_generate fails T N f pan st = (MRet b, st') ->
  bel b = produced f 0 (repeat [] N) /\ length (bel b) = N.
Proof.
  unfold boxed_generate, generate_. rewrite zipmap_spec.
  assert (Hp : length (produced f 0 (repeat [] N)) = N) by (rewrite produced_length; apply repeat_length).
  destruct st as [nx na tr er].
  destruct pan as [k|]; [destruct (k <? length (repeat [] N))%nat|];
    plumb; repeat (brk; plumb); try discriminate;
    intros H; inversion H; subst; cbn; auto.
Qed.

(* try_boxed_from_iter: Ok only for exactly N items then the end, element i = i-th item *)
Theorem try_boxed_from_iter_contents T N s st b st' :
  HeapOps.try_boxed_from_iter fails T N s st = (MRet (Some b), st') ->
  exact_source N s (bel b) /\ precheck_reject N s = false.
Proof.
  unfold HeapOps.try_boxed_from_iter.
  destruct (precheck_reject N s) eqn:Ep; [discriminate|].
  destruct (Builder.try_boxed_from_iter N s) as [[o e] p] eqn:E.
  unfold Builder.try_boxed_from_iter in E. destruct st as [nx na tr er].
  destruct o as [built| |].
  - apply ok_only_exact in E. destruct E as (Hex & _).
    plumb; repeat (brk; plumb); try discriminate;
      intros H; inversion H; subst; cbn; auto.
  - plumb; repeat (brk; plumb); discriminate.
  - plumb; repeat (brk; plumb); discriminate.
Qed.

(* box_arr![a, b, ..]: the listed values in order; box_arr![x; N]: N - 1 clones then x *)
Theorem box_arr_list_contents T l st b st' :
  box_arr_list fails T l st = (MRet b, st') -> bel b = l.
Proof.
  unfold box_arr_list, vec_lit, box_new, vec_from_box. destruct st as [nx na tr er].
  destruct l as [|x l]; plumb; repeat (brk; plumb); try discriminate;
    intros H; inversion H; subst; cbn; auto.
Qed.

Theorem box_arr_repeat_contents T x N cl st b st' :
  box_arr_repeat fails T x N cl st = (MRet b, st') ->
  bel b = match N with O => [] | S m => map cl (seq 0 m) ++ [x] end.
Proof.
  unfold box_arr_repeat, vec_from_elem. destruct st as [nx na tr er].
  destruct N as [|m]; plumb; repeat (brk; plumb); try discriminate;
    intros H; inversion H; subst; cbn; auto.
Qed.

(* boxed map / zip: element i is f applied to the i-th element(s) *)
Theorem boxed_map_contents T U f pan (src : hbox) st b st' :
  boxed_map fails T U f pan src st = (MRet b, st') ->
  bel b = produced f 0 (map (fun x => [x]) (bel src)).
Proof.
  destruct src as [[sb|] sl]; cbn [bel].
  all: unfold boxed_map, boxed_pipeline, map_; cbn [bel]; rewrite zipmap_spec; destruct st as [nx na tr er];
    (destruct pan as [k|]; [destruct (k <? length (map (fun x => [x]) sl))%nat|]);
    plumb; repeat (brk; plumb); try discriminate;
    intros H; inversion H; subst; cbn; auto.
Qed.

Theorem boxed_zip_contents T B U f pan (l r : hbox) st b st' :
  boxed_zip fails T B U f pan l r st = (MRet b, st') ->
  bel b = produced f 0 (map (fun p : Z * Z => [fst p; snd p]) (combine (bel l) (bel r))).
Proof.
  destruct l as [[lb|] ll]; destruct r as [[rb|] rl]; cbn [bel].
  all: unfold boxed_zip, boxed_pipeline, zip_; cbn [bel]; rewrite zipmap_spec; destruct st as [nx na tr er];
    (destruct pan as [k|];
      [destruct (k <? length (map (fun p : Z * Z => [fst p; snd p]) (combine ll rl)))%nat|]);
    plumb; repeat (brk; plumb); try discriminate;
    intros H; inversion H; subst; cbn; auto.
Qed.

End Conv.

(* non-vacuity: a source with spare capacity and the wrong length, from a non-trivial state *)
Example try_from_vec_err_example :
  let st := mkAst 3 1 [EAlloc 2 48 8] [] in
  let v := mkVec (Some 2%nat) 6 [10; 11; 12] in
  vec_wf (mkElt 8 8) v /\
  try_from_vec (fun _ => false) (mkElt 8 8) 2 v st =
  (MRet None, mkAst 4 2 [EAlloc 2 48 8; ERealloc 2 48 8 24 3; EDealloc 3 24 8]
                    [EDrop 10; EDrop 11; EDrop 12]).
Proof.
  split; [split; [unfold vlen; cbn; lia|intros _; cbn; eauto]|reflexivity].
Qed.

Example try_from_vec_o1_example :
  let st := mkAst 3 1 [EAlloc 2 24 8] [] in
  try_from_vec (fun _ => false) (mkElt 8 8) 3 (mkVec (Some 2%nat) 3 [10; 11; 12]) st =
  (MRet (Some (mkBox (Some 2%nat) [10; 11; 12])), st).
Proof. reflexivity. Qed.

(* a boxed slice one element too long: LengthError, the three elements dropped once each,
   the block released with the layout of a 3-element slice *)
Example try_from_boxed_slice_err_example :
  let st := mkAst 6 2 [EAlloc 5 12 4] [EDrop 99] in
  let s := mkBox (Some 5%nat) [20; 21; 22] in
  box_wf (mkElt 4 4) s /\ blen s <> Z.of_nat 2 /\
  try_from_boxed_slice (mkElt 4 4) 2 s st =
  (MRet None, mkAst 6 2 [EAlloc 5 12 4; EDealloc 5 12 4] [EDrop 99; EDrop 20; EDrop 21; EDrop 22]).
Proof.
  split; [intros _; cbn; eauto|]. split; [unfold blen; cbn; lia|reflexivity].
Qed.

(* zero-sized elements: a Vec of 3 with "capacity" 7 converts with no allocator event *)
Example try_from_vec_zst_example :
  let st := mkAst 0 0 [] [] in
  try_from_vec (fun _ => true) (mkElt 0 1) 3 (mkVec None 7 [1; 2; 3]) st =
  (MRet (Some (mkBox None [1; 2; 3])), st).
Proof. reflexivity. Qed.

(* boxed generate, N = 3, generator panics at call 1: the element built is dropped, the
   block is released, the panic propagates *)
Example boxed_generate_panic_example :
  boxed_generate (fun _ => false) (mkElt 8 8) 3 (fun i _ => 1000 + Z.of_nat i) (Some 1%nat)
                 (mkAst 0 0 [] []) =
  (MPanic, mkAst 1 1 [EAlloc 0 24 8; EDealloc 0 24 8] [EDrop 1000]).
Proof. reflexivity. Qed.

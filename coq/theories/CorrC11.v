(* CorrC11.v -- correspondence entry point for C11 (harness/src/bin/c11.rs).

   case = [op; ety; sz; A; B; wi; wv]     (sz = size_of::<T>() measured by the harness; ety 0 u32,
                                           1 Tr, 2 Tz: zero-sized identities are printed as 0,
                                           3 Tb: a one-byte element with a destructor, identities mod 256,
                                           4 Tri: 12 plain bytes)
   op 0/1/2  flatten owned / & / &mut of an M-array of N-arrays, (N, M) = (A, B); leaf (i, j) has id 1000*i + j
   op 3/4/5  unflatten owned / & / &mut of an NM-array into N-arrays, (NM, N) = (A, B); element k has id 7*k + 3
   OBS owned flatten  : 0, length, ids in order, number of drop/clone events | 2 (size-test panic)
       owned unflatten: 0, number of rows, then per row its length and ids, then the event count | 2
       reference forms: 0, byte offset of the result relative to the source, total byte extent of the
                        result, its length(s) (flat: len; nested: outer, inner), the ids read through it
                        (row by row); for &mut additionally the SOURCE read through its own type after
                        writing wv through the regrouped view at flat index wi (when wi is in range) *)
From GA Require Import Base Codec Mem Views Flatten.
Local Open Scope Z_scope.

Definition enc_res (r : res Z) : Z :=
  match r with Ret x => x | Panicked => -6 | UB => -7 end.

Definition idz (sz : nat) (ety : Z) (x : Z) : Z := if (sz =? 0)%nat then 0 else if ety =? 3 then x mod 256 else x.

Definition nested_val (sz : nat) (ety : Z) (N M : nat) : list (list Z) :=
  map (fun i => map (fun j => idz sz ety (1000 * Z.of_nat i + Z.of_nat j)) (seq 0 N)) (seq 0 M).
Definition flat_val (sz : nat) (ety : Z) (NM : nat) : list Z :=
  map (fun k => idz sz ety (7 * Z.of_nat k + 3)) (seq 0 NM).

(* the source object sits at element offset 2 of its block, between foreign cells *)
Definition base : ptr := mkptr 0 2.
Definition mem_of (cells : list Z) : mem := [map Init ([99; 98] ++ cells ++ [97])].

Definition rel_bytes (sz : nat) (p q : ptr) : Z :=
  Z.of_nat (byte_off sz p) - Z.of_nat (byte_off sz q).

Definition enc_rows (rows : list (list (res Z))) : list Z := flat_map (map enc_res) rows.

Definition run_c11 (case : list Z) : list Z :=
  match case with
  | op :: ety :: sz :: a :: b :: wi :: wv :: _ =>
    let sz := znat sz in let A := znat a in let B := znat b in let wi := znat wi in
    if op =? 0 then
      match flatten_owned sz A B (nested_val sz ety A B) with
      | Ret f => 0 :: zlen f :: f ++ [0]
      | Panicked => [2]
      | UB => [7]
      end
    else if op =? 3 then
      match unflatten_owned sz A B (flat_val sz ety A) with
      | Ret rows => 0 :: zlen rows :: flat_map (fun r => zlen r :: r) rows ++ [0]
      | Panicked => [2]
      | UB => [7]
      end
    else if (op =? 1) || (op =? 2) then
      let N := A in let M := B in
      let m := mem_of (cells_of_nested (nested_val sz ety N M)) in
      let src := mknref base N M in
      let r := if op =? 1 then flatten_ref N M base else flatten_mut N M base in
      0 :: rel_bytes sz (aptr r) base :: Z.of_nat (aref_extent r * sz) :: Z.of_nat (alen r)
        :: map enc_res (view_read m (aref_slice r)) ++
      (if op =? 2 then
         match (if (wi <? alen r)%nat then view_set m (aref_slice r) wi (idz sz ety wv) else Ret m) with
         | Ret m' => enc_rows (nested_read m' src)
         | Panicked => [-6]
         | UB => [-7]
         end
       else [])
    else
      let NM := A in let N := B in
      let m := mem_of (flat_val sz ety NM) in
      let r := if op =? 4 then unflatten_ref NM N base else unflatten_mut NM N base in
      0 :: rel_bytes sz (nptr r) base :: Z.of_nat (nref_extent r * sz) :: Z.of_nat (nouter r)
        :: Z.of_nat (ninner r) :: enc_rows (nested_read m r) ++
      (if op =? 5 then
         match (if (wi <? nref_extent r)%nat then nested_set m r (wi / N)%nat (wi mod N)%nat (idz sz ety wv) else Ret m) with
         | Ret m' => map enc_res (view_read m' (as_slice NM base))
         | Panicked => [-6]
         | UB => [-7]
         end
       else [])
  | _ => [-1]
  end.

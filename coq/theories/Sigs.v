(* Sigs.v -- auto-trait / Copy / Clone model and lifetime model of signatures (C12).
   Definitions only; the crate's declarations they are applied to are data in
   SigDecls.v.

   Auto traits.  A struct is Send (Sync) iff all its fields are, unless an
   explicit impl of that trait exists for it, whose bounds then decide.  Copy and
   Clone are never structural: they hold iff an impl exists and its bounds hold.
   The element type T is abstract: four booleans.  The length N is either a
   concrete typenum integer (its binary digits, least significant first: the
   ArrayLength impls recurse on UInt<N, B0> / UInt<N, B1> / UTerm) or a generic
   parameter, in which case `N::ArrayType<T>` is an opaque projection about which
   only the caller's where-clauses say anything.

   Lifetimes.  A signature after elision lists the references among its inputs
   and outputs with their lifetime names and mutability, and the type parameters
   that occur in inputs and outputs.  [sound_sig]: every output reference carries
   the lifetime of an input reference, a mutable output that of a mutable input,
   no output is 'static or carries a lifetime that is absent from the inputs,
   and every type parameter of the output occurs in the inputs (a value of type
   T can only come out as T: no lifetime hidden inside T is changed). *)
From GA Require Import Base.

Inductive atrait : Type := TSend | TSync | TCopy | TClone.

Definition atrait_eqb (a b : atrait) : bool :=
  match a, b with
  | TSend, TSend | TSync, TSync | TCopy, TCopy | TClone, TClone => true
  | _, _ => false
  end.

Record elem : Type := mkElem { e_send : bool; e_sync : bool; e_copy : bool; e_clone : bool }.

Definition elem_has (t : atrait) (T : elem) : bool :=
  match t with TSend => e_send T | TSync => e_sync T | TCopy => e_copy T | TClone => e_clone T end.

(* field types occurring in the crate's structs *)
Inductive fty : Type :=
| FT                        (* the element type parameter T *)
| FUsize
| FPhantomT                 (* PhantomData<T> *)
| FArr0T                    (* [T; 0] *)
| FParent                   (* the type parameter U of GenericArrayImplEven/Odd<T, U> *)
| FArrayType                (* N::ArrayType<T> *)
| FManuallyDrop (f : fty)
| FGenericArray.            (* GenericArray<T, N> *)

Inductive bound : Type :=
| BT (t : atrait)           (* T: t *)
| BParent (t : atrait)      (* U: t *)
| BArrayType (t : atrait).  (* N::ArrayType<T>: t *)

Record sdecl : Type := mkS {
  sd_fields : list fty;
  sd_impls : list (atrait * list bound)     (* explicit impls: trait, bounds of the impl header *)
}.

Record env : Type := mkEnv {
  en_T : elem;
  en_parent : atrait -> bool;
  en_at : atrait -> bool;
  en_ga : atrait -> bool
}.

Definition is_auto (t : atrait) : bool := match t with TSend | TSync => true | _ => false end.

Fixpoint field_has (E : env) (t : atrait) (f : fty) : bool :=
  match f with
  | FT => elem_has t (en_T E)
  | FUsize => true
  | FPhantomT => if is_auto t then elem_has t (en_T E) else true   (* PhantomData<T>: Copy + Clone for every T *)
  | FArr0T => elem_has t (en_T E)                                   (* [T; 0] has a trait iff T has *)
  | FParent => en_parent E t
  | FArrayType => en_at E t
  | FManuallyDrop g => field_has E t g
  | FGenericArray => en_ga E t
  end.

Definition bound_holds (E : env) (b : bound) : bool :=
  match b with
  | BT t => elem_has t (en_T E)
  | BParent t => en_parent E t
  | BArrayType t => en_at E t
  end.

Fixpoint find_impl (t : atrait) (l : list (atrait * list bound)) : option (list bound) :=
  match l with
  | [] => None
  | (t', bs) :: r => if atrait_eqb t t' then Some bs else find_impl t r
  end.

Definition struct_has (d : sdecl) (E : env) (t : atrait) : bool :=
  match find_impl t (sd_impls d) with
  | Some bs => forallb (bound_holds E) bs
  | None => is_auto t && forallb (field_has E t) (sd_fields d)
  end.

(* the structs of the crate that matter here *)
Record crate_structs : Type := mkStructs {
  cs_uterm : fty;            (* <UTerm as ArrayLength>::ArrayType<T> *)
  cs_even : sdecl;           (* GenericArrayImplEven<T, U>  = <UInt<N, B0>>::ArrayType<T>, U = N::ArrayType<T> *)
  cs_odd : sdecl;            (* GenericArrayImplOdd<T, U>   = <UInt<N, B1>>::ArrayType<T> *)
  cs_ga : sdecl;             (* GenericArray<T, N> *)
  cs_iter : sdecl            (* GenericArrayIter<T, N> *)
}.

Definition none_has : atrait -> bool := fun _ => false.

(* N::ArrayType<T> for a concrete N given by its binary digits, least significant first *)
Fixpoint arraytype_has (C : crate_structs) (bits : list bool) (T : elem) (t : atrait) : bool :=
  match bits with
  | [] => field_has (mkEnv T none_has none_has none_has) t (cs_uterm C)
  | b :: r =>
    struct_has (if b then cs_odd C else cs_even C)
               (mkEnv T (arraytype_has C r T) none_has none_has) t
  end.

Inductive nshape : Type :=
| Concrete (bits : list bool)
| Generic (wc : atrait -> bool).   (* where-clauses of the caller on N::ArrayType<T> *)

Definition at_of (C : crate_structs) (n : nshape) (T : elem) : atrait -> bool :=
  match n with Concrete bits => arraytype_has C bits T | Generic wc => wc end.

Definition ga_has (C : crate_structs) (n : nshape) (T : elem) (t : atrait) : bool :=
  struct_has (cs_ga C) (mkEnv T none_has (at_of C n T) none_has) t.

Definition iter_has (C : crate_structs) (n : nshape) (T : elem) (t : atrait) : bool :=
  struct_has (cs_iter C) (mkEnv T none_has (at_of C n T) (ga_has C n T)) t.

(* how ArrayLength is closed to outside implementations *)
Record sealing : Type := mkSealing {
  al_supertrait_unsigned : bool;     (* typenum::Unsigned is itself sealed by typenum *)
  al_arraytype_bound_sealed : bool;
  sealed_is_private : bool
}.

(* ---------------------------------------------------------------- lifetimes *)

Inductive lifetime : Type := LtNamed (i : nat) | LtStatic.

Definition lifetime_eqb (a b : lifetime) : bool :=
  match a, b with
  | LtNamed i, LtNamed j => Nat.eqb i j
  | LtStatic, LtStatic => true
  | _, _ => false
  end.

Record rf : Type := mkRf { r_lt : lifetime; r_mut : bool }.

Record sig : Type := mkSig {
  sg_id : Z;                 (* shared with the harness *)
  sg_in : list rf;           (* references among the arguments (including self) *)
  sg_out : list rf;          (* references in the return type / associated output type *)
  sg_tin : list nat;         (* type parameters occurring in the arguments *)
  sg_tout : list nat         (* type parameters occurring in the return type *)
}.

Definition out_ref_ok (ins : list rf) (o : rf) : bool :=
  match r_lt o with
  | LtStatic => false
  | LtNamed _ =>
    existsb (fun i => lifetime_eqb (r_lt i) (r_lt o) && implb (r_mut o) (r_mut i)) ins
  end.

Definition sound_sig (s : sig) : bool :=
  forallb (out_ref_ok (sg_in s)) (sg_out s) &&
  forallb (fun p => existsb (Nat.eqb p) (sg_tin s)) (sg_tout s).

(* Programs over a signature, as generated by the harness (variant numbers shared):
     0  use the result while the source is alive                      -- always fine
     1  use the result after the source went out of scope
     2  mutate the source (shared result) / call again (mutable result) while the result is in use
     3  move the source away while the result is in use
     4  the harmless twin of 2: two shared results together / two mutable results one after the other
     5  require the result to be 'static
   1, 2, 3 and 5 are errors exactly when the result is tied to the source. *)
Definition lifetime_verdict (s : sig) (variant : Z) : bool :=
  if ((variant =? 0) || (variant =? 4))%Z then true else negb (sound_sig s).

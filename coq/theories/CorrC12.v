(* CorrC12.v -- correspondence entry point for C12 (harness/src/bin/c12.rs).
   case: [op; variant; a; b; ci; c]
     op 1..13   a use of a length-relating operation (codes / variants: SigDecls.v):
                a, b = the lengths at the use site (b unused for one-parameter headers),
                ci >= 0: the program ascribes length c to the ci-th result type; ci = -1: inferred
                obs: 1 :: result lengths   (accepted)   |   0   (type error)
     op 20, 21  `GenericArray<T, N>` resp. `GenericArrayIter<T, N>` required to have trait
                variant (0 Send, 1 Sync, 2 Copy, 3 Clone); a = the traits of T as bits
                (1 Send, 2 Sync, 4 Copy, 8 Clone); b = 0: N generic, 1: N generic and the caller
                states `where N::ArrayType<T>: Copy`, 2 + n: N = Un.   obs: 1 | 0
     op 30      borrow program `variant`... over signature a:  [30; a; variant]   obs: 1 | 0
     op 50      code generic over S: Lengthen<u8> / Shorten<u8> whose result type is S after a round
                trip: variant 0 append+pop_back, 2 prepend+pop_front, 1 pop_back+append,
                3 pop_front+prepend, called at length a.   obs: 1 | 0
                variants 4..8: a caller generic over Concat (4 over the trait, 5 over both lengths), Split (6),
                Remove (7), Flatten (8) that states exactly the bounds the declarations ask for; 9 / 10: remove / split from a caller
                generic over the lengths that states the bounds of the impls
     op 9 variant 7: a GenericArray compared (==) with a NATIVE array of a different length: no such comparison
                is declared, rejected (the harness samples a <> b only: a same-length impl would be harmless)
     op 40      implementing ArrayLength outside the crate: variant 0 with a foreign ArrayType,
                1 with the crate's own (public, hidden) ImplEven type; 2: a plain generic use *)
From GA Require Import Base Codec TypeLevel Sigs SigDecls.
From Coq Require Import NArith.
Local Open Scope Z_scope.

Definition decls_of (op variant : Z) : list decl :=
  filter (fun d => (d_op d =? op) && (d_variant d =? variant)) all_decls.

Definition run_len (op variant a b ci c : Z) : list Z :=
  match decls_of op variant with
  | [] => [-1]
  | (d :: _) as ds =>
    let v := match d_arity d with 1%nat => [Z.to_N a] | _ => [Z.to_N a; Z.to_N b] end in
    let claim := if ci <? 0 then None else Some (Z.to_nat ci, Z.to_N c) in
    match ascribe (sat_any ds v) claim with
    | Some l => 1 :: map Z.of_N l
    | None => [0]
    end
  end.

Fixpoint pos_bits (p : positive) : list bool :=
  match p with xH => [true] | xO q => false :: pos_bits q | xI q => true :: pos_bits q end.
Definition bits_of (n : Z) : list bool :=
  match n with Zpos p => pos_bits p | _ => [] end.

Definition elem_of (bits : Z) : elem :=
  mkElem (Z.testbit bits 0) (Z.testbit bits 1) (Z.testbit bits 2) (Z.testbit bits 3).

Definition trait_of (t : Z) : option atrait :=
  if t =? 0 then Some TSend else if t =? 1 then Some TSync
  else if t =? 2 then Some TCopy else if t =? 3 then Some TClone else None.

Definition shape_of (b : Z) : nshape :=
  if b =? 0 then Generic none_has
  else if b =? 1 then Generic (fun t => atrait_eqb t TCopy)
  else Concrete (bits_of (b - 2)).

Definition run_auto (op t a b : Z) : list Z :=
  match trait_of t with
  | None => [-1]
  | Some tr =>
    [enc_bool ((if op =? 20 then ga_has else iter_has) ga_structs (shape_of b) (elem_of a) tr)]
  end.

Definition run_lt (id variant : Z) : list Z :=
  match filter (fun s => sg_id s =? id) signatures with
  | s :: _ => [enc_bool (lifetime_verdict s variant)]
  | [] => [-1]
  end.

Definition run_seal (variant : Z) : list Z :=
  let S := arraylength_sealing in
  if variant =? 0 then
    [enc_bool (negb (al_supertrait_unsigned S || (al_arraytype_bound_sealed S && sealed_is_private S)))]
  else if variant =? 1 then [enc_bool (negb (al_supertrait_unsigned S))]
  else [1].

Definition run_c12 (case : list Z) : list Z :=
  match case with
  | [op; variant; a; b; ci; c] =>
    if (op =? 9) && (variant =? 7) then [enc_bool false]
    else if (1 <=? op) && (op <=? 13) then run_len op variant a b ci c
    else if (op =? 20) || (op =? 21) then run_auto op variant a b
    else if op =? 30 then run_lt a variant
    else if op =? 40 then run_seal variant
    else if (op =? 50) && (4 <=? variant) then [enc_bool (generic_caller_typechecks variant)]
    else if op =? 50 then [enc_bool (roundtrip_typechecks variant)]
    else [-1]
  | _ => [-1]
  end.

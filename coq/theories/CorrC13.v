(* CorrC13.v -- correspondence entry point for C13: decode a case, run the hub model
   (CmpHash.v), encode the observables exactly as harness/src/bin/c13.rs prints them.

   Element codes.  ty 0 = u8, 1 = i32: the value.  ty 2 = f64: 1000 = NaN,
   1001 = -0.0, any other c = the number c/2.  ty 3 = String: the bytes as base-256
   digits after a leading 1 ("" = 1, "a" = 353).  ty 4 = GenericArray<u8,U2>: 256*x+y.
   ty 5 = Kv {k, v}: 256*k+v, equal on both fields, ordered by the key alone.
   ty 9 = Zn: zero-sized, == always false, partial_cmp always None (comparison part only).
   ty 8 = To(i32): the value; == and cmp by value (total), partial_cmp with 77 as a NaN; hashed as write_i32 per element.
   ty 7 = Wb(u8): the value; hand-written Hash: write_u8(x); write_u8(170) (hash_slice: the provided loop).
   ty 6 = i8: the value (signed order; hashed as write_i8 / one write of the bytes).

   pair case    0 ty n a_0..a_{n-1} b_0..b_{n-1}
     OBS  eq ne pcmp lt le gt ge 1  cmp hmA hmB hmShort hmLong btA btB btShort btLong 1
          pcmp/cmp: 0 None 1 Less 2 Equal 3 Greater; lookups in the map {a->1, b->2}
          through &[T]: 0 = None, else the value; Short = a[..n-1] (-1 when n = 0),
          Long = a ++ b; f64 (no Ord/Hash): cmp and the eight lookups are -1.
          The two constants 1 are the flags "the array's impls agreed with the slice".
   single case  1 ty n k (leaf_j r_{j,0} .. r_{j,5})_{j<k} a_0..a_{n-1}
          r_{j,i} = len chars.. : Debug of leaf j alone under format i
          (0 {:?} 1 {:#?} 2 {:5?} 3 {:.2?} 4 {:08.3?} 5 {:#7.1?}); an input of the model
     OBS  borrow_len as_ref_len borrow_mut_len as_mut_len 1
          ncalls (kind nbytes bytes..)*  1        (hasher calls; f64: -1 1)
          (len chars..) for the six formats  1 *)
From GA Require Import Base Codec CmpHash.
Local Open Scope Z_scope.

Definition enc_pcmp (o : option comparison) : Z :=
  match o with None => 0 | Some Lt => 1 | Some Eq => 2 | Some Gt => 3 end.
Definition enc_cmp (c : comparison) : Z := enc_pcmp (Some c).

(* ---- element decoding ---- *)
Definition dec_f64 (c : Z) : f64m :=
  if c =? 1000 then FNan else if c =? 1001 then FNum 0 true else FNum c false.

Fixpoint dec_str (fuel : nat) (c : Z) (acc : list Z) : list Z :=
  match fuel with
  | O => acc
  | S f => if c <=? 1 then acc else dec_str f (c / 256) ((c mod 256) :: acc)
  end.

Definition dec_nest (c : Z) : garr Z := GA [c / 256; c mod 256].

(* ---- hasher call stream ---- *)
Definition enc_call (kind : Z) (bs : list Z) : list Z := kind :: zlen bs :: bs.
Definition enc_tok (t : tok) : list Z * Z :=
  match t with
  | TLen n => (enc_call 6 (le_bytes 8 n), 1)                 (* provided: write_usize *)
  | TCall k bs => (enc_call k bs, 1)
  | TStr bs => (enc_call 0 bs ++ enc_call 1 [255], 2)        (* provided: write(bytes); write_u8(0xff) *)
  end.
Definition enc_feed (l : list tok) : list Z :=
  fold_right (fun t acc => snd (enc_tok t) + acc) 0 l :: flat_map (fun t => fst (enc_tok t)) l.

Definition enc_get {K} (o : option (K * Z)) : Z := match o with None => 0 | Some e => snd e end.

(* ---- pair cases ---- *)
Definition cmp_part {T} (eqT : T -> T -> bool) (cmpT : T -> T -> comparison) (h : hasht T)
  (a b : list T) : list Z :=
  let n := length a in
  let hm := hm_insert eqT h (hm_insert eqT h [] (GA a) 1) (GA b) 2 in
  let bt := bt_insert cmpT (bt_insert cmpT [] (GA a) 1) (GA b) 2 in
  let short := firstn (n - 1) a in
  let long := a ++ b in
  [ enc_cmp (ga_cmp cmpT (GA a) (GA b));
    enc_get (hm_get_slice eqT h hm a); enc_get (hm_get_slice eqT h hm b);
    (if Nat.eqb n 0 then -1 else enc_get (hm_get_slice eqT h hm short));
    enc_get (hm_get_slice eqT h hm long);
    enc_get (bt_get_slice cmpT bt a); enc_get (bt_get_slice cmpT bt b);
    (if Nat.eqb n 0 then -1 else enc_get (bt_get_slice cmpT bt short));
    enc_get (bt_get_slice cmpT bt long); 1 ].

Definition no_ord_part : list Z := [-1; -1; -1; -1; -1; -1; -1; -1; -1; 1].

Definition pair_obs {T} (eqT : T -> T -> bool) (pcmpT : T -> T -> option comparison)
  (a b : list T) : list Z :=
  let A := GA a in let B := GA b in
  [ enc_bool (ga_eq eqT A B); enc_bool (ga_ne eqT A B); enc_pcmp (ga_partial_cmp pcmpT A B);
    enc_bool (ga_lt pcmpT A B); enc_bool (ga_le pcmpT A B);
    enc_bool (ga_gt pcmpT A B); enc_bool (ga_ge pcmpT A B); 1 ].

Definition run_pair (ty : Z) (a b : list Z) : list Z :=
  match ty with
  | 0 => pair_obs int_eq int_pcmp a b ++ cmp_part int_eq int_cmp u8_hasht a b
  | 1 => pair_obs int_eq int_pcmp a b ++ cmp_part int_eq int_cmp i32_hasht a b
  | 2 => pair_obs f64_eq f64_pcmp (map dec_f64 a) (map dec_f64 b) ++ no_ord_part
  | 3 => let a' := map (fun c => dec_str 40 c []) a in let b' := map (fun c => dec_str 40 c []) b in
         pair_obs str_eq str_pcmp a' b' ++ cmp_part str_eq str_cmp str_hasht a' b'
  | 4 => let a' := map dec_nest a in let b' := map dec_nest b in
         pair_obs nest_eq nest_pcmp a' b' ++ cmp_part nest_eq nest_cmp nest_hasht a' b'
  | 5 => pair_obs kv_eq kv_pcmp a b ++ cmp_part kv_eq kv_cmp kv_hasht a b
  | 6 => pair_obs int_eq int_pcmp a b ++ cmp_part int_eq int_cmp i8_hasht a b
  | 7 => pair_obs int_eq int_pcmp a b ++ cmp_part int_eq int_cmp wb_hasht a b
  | 8 => pair_obs to_eq to_pcmp a b ++ cmp_part to_eq to_cmp to_hasht a b
  | 9 => pair_obs zn_eq zn_pcmp a b ++ no_ord_part
  | _ => [-2]
  end.

(* ---- single cases ---- *)
Fixpoint dec_renders (nf : nat) (l : list Z) : list (list Z) * list Z :=
  match nf with
  | O => ([], l)
  | S nf' =>
    match l with
    | len :: r =>
      let '(s, r1) := take_list (znat len) r in
      let '(rs, r2) := dec_renders nf' r1 in (s :: rs, r2)
    | [] => ([], [])
    end
  end.

Fixpoint dec_table (k : nat) (l : list Z) : list (Z * list (list Z)) * list Z :=
  match k with
  | O => ([], l)
  | S k' =>
    match l with
    | code :: r =>
      let '(rs, r1) := dec_renders 6 r in
      let '(t, r2) := dec_table k' r1 in ((code, rs) :: t, r2)
    | [] => ([], [])
    end
  end.

(* Debug of a leaf: looked up in the table the case carries; a leaf or format
   missing from the table shows as the impossible character -7 *)
Definition leaf_dbg (table : list (Z * list (list Z))) (f : fmtspec) (code : Z) : list Z :=
  match find (fun e => fst e =? code) table with
  | Some e => match nth_error (snd e) (znat (f_rest f)) with Some s => s | None => [-7] end
  | None => [-7]
  end.

Definition fmts : list fmtspec :=
  [Fmt false 0; Fmt true 1; Fmt false 2; Fmt false 3; Fmt false 4; Fmt true 5].

Definition enc_strs (l : list (list Z)) : list Z := flat_map (fun s => zlen s :: s) l.

Definition single_obs {T} (h : option (hasht T)) (dbgT : fmtspec -> T -> list Z) (a : list T) : list Z :=
  let A := GA a in
  [ zlen (ga_borrow A); zlen (ga_as_ref A); zlen (ga_borrow_mut A); zlen (ga_as_mut A); 1 ]
  ++ (match h with Some h => enc_feed (ga_hash h A) | None => [-1] end) ++ [1]
  ++ enc_strs (map (fun f => ga_debug dbgT f A) fmts) ++ [1].

Definition enc_str (s : list Z) : Z := fold_left (fun acc b => acc * 256 + b) s 1.

Definition run_single (ty : Z) (table : list (Z * list (list Z))) (a : list Z) : list Z :=
  let leaf := leaf_dbg table in
  match ty with
  | 0 => single_obs (Some u8_hasht) leaf a
  | 1 => single_obs (Some i32_hasht) leaf a
  | 2 => single_obs None leaf a   (* Debug of an f64 leaf: through the table only *)
  | 3 => single_obs (Some str_hasht) (fun f s => leaf f (enc_str s)) (map (fun c => dec_str 40 c []) a)
  | 4 => single_obs (Some nest_hasht) (ga_debug leaf) (map dec_nest a)
  | 5 => single_obs (Some kv_hasht) leaf a
  | 6 => single_obs (Some i8_hasht) leaf a
  | 7 => single_obs (Some wb_hasht) leaf a
  | 8 => single_obs (Some to_hasht) leaf a
  | 9 => single_obs None leaf a
  | _ => [-2]
  end.

Definition run_c13 (case : list Z) : list Z :=
  match case with
  | 0 :: ty :: n :: rest =>
    let '(a, r1) := take_list (znat n) rest in
    let '(b, _) := take_list (znat n) r1 in
    run_pair ty a b
  | 1 :: ty :: n :: k :: rest =>
    let '(table, r1) := dec_table (znat k) rest in
    let '(a, _) := take_list (znat n) r1 in
    run_single ty table a
  | _ => [-3]
  end.

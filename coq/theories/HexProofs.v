(* HexProofs.v -- proofs about the hub model of src/hex.rs (Hex.v). *)
From GA Require Import Base Hex.
Local Open Scope Z_scope.

(* ------------------------------------------------------------ list facts *)

Lemma Forall_firstn {A} (P : A -> Prop) n l : Forall P l -> Forall P (firstn n l).
Proof.
  intros H; revert n; induction H as [|x l Hx Hl IH]; intros [|n]; cbn; auto.
Qed.

Lemma Forall_skipn {A} (P : A -> Prop) n l : Forall P l -> Forall P (skipn n l).
Proof.
  intros H; revert n; induction H as [|x l Hx Hl IH]; intros [|n]; cbn; auto.
Qed.

Lemma Forall_repeat {A} (P : A -> Prop) x n : P x -> Forall P (repeat x n).
Proof. intros H; induction n; cbn; auto. Qed.

Lemma firstn_len_app {A} (l1 l2 : list A) n : n = length l1 -> firstn n (l1 ++ l2) = l1.
Proof.
  intros ->. induction l1 as [|x l1 IH]; cbn; [now destruct l2|now rewrite IH].
Qed.

Lemma firstn_min_l {A} (l : list A) (a b : nat) : (a <= b)%nat ->
  firstn a (firstn b l) = firstn a l.
Proof. intros H. rewrite firstn_firstn. now rewrite Nat.min_l. Qed.

(* the first d elements of a ++ b, cut the way the chunk loop cuts them *)
Lemma firstn_split_min {A} (a b : list A) (d : nat) :
  firstn d (a ++ b) =
  firstn (Nat.min (length a) d) a ++ firstn (d - Nat.min (length a) d) b.
Proof.
  rewrite firstn_app. destruct (le_lt_dec (length a) d) as [Hle|Hlt].
  - rewrite Nat.min_l by lia. rewrite firstn_all. now rewrite (firstn_all2 a) by lia.
  - rewrite Nat.min_r by lia. replace (d - length a)%nat with 0%nat by lia.
    now replace (d - d)%nat with 0%nat by lia.
Qed.

(* ---------------------------------------------------------------- digits *)

Lemma shiftr4 c : Z.shiftr c 4 = c / 16.
Proof. rewrite Z.shiftr_div_pow2 by lia. reflexivity. Qed.

Lemma land15 c : Z.land c 15 = c mod 16.
Proof. exact (Z.land_ones c 4 ltac:(lia)). Qed.

Lemma shiftr1 d : Z.shiftr d 1 = d / 2.
Proof. rewrite Z.shiftr_div_pow2 by lia. reflexivity. Qed.

Lemma land1 d : Z.land d 1 = d mod 2.
Proof. exact (Z.land_ones d 1 ltac:(lia)). Qed.

Lemma byte_nibbles c : byte c -> 0 <= c / 16 < 16 /\ 0 <= c mod 16 < 16.
Proof.
  unfold byte; intros H. split.
  - split; [apply Z.div_pos; lia | apply Z.div_lt_upper_bound; lia].
  - apply Z.mod_pos_bound; lia.
Qed.

(* the table lookup is the arithmetic digit, and is always in bounds for a nibble *)
Lemma alpha_digit upper n : 0 <= n < 16 -> alpha upper n = Some (digit upper n).
Proof.
  intros H.
  assert (Hc : n = 0 \/ n = 1 \/ n = 2 \/ n = 3 \/ n = 4 \/ n = 5 \/ n = 6 \/ n = 7 \/
               n = 8 \/ n = 9 \/ n = 10 \/ n = 11 \/ n = 12 \/ n = 13 \/ n = 14 \/ n = 15) by lia.
  destruct upper;
    repeat (destruct Hc as [->|Hc]; [reflexivity|]); subst; reflexivity.
Qed.

Lemma digit_is_hex upper n : 0 <= n < 16 -> is_hex_digit upper (digit upper n).
Proof.
  intros H. unfold is_hex_digit, digit.
  destruct (Z.ltb_spec n 10); [left; lia|right; destruct upper; lia].
Qed.

Lemma hex_digit_ascii upper c : is_hex_digit upper c -> ascii c.
Proof. unfold is_hex_digit, ascii. destruct upper; lia. Qed.

Lemma asciib_true c : ascii c -> asciib c = true.
Proof.
  unfold ascii, asciib; intros H. apply andb_true_iff; split; [apply Z.leb_le|apply Z.ltb_lt]; lia.
Qed.

Lemma forallb_asciib l : Forall ascii l -> forallb asciib l = true.
Proof. induction 1 as [|x l Hx Hl IH]; cbn; [reflexivity|]. now rewrite asciib_true, IH. Qed.

(* ------------------------------------------------------------ hex_string *)

Lemma hex_string_cons upper b l : hex_string upper (b :: l) =
  digit upper (b / 16) :: digit upper (b mod 16) :: hex_string upper l.
Proof. reflexivity. Qed.

Lemma hex_string_length upper l : length (hex_string upper l) = (2 * length l)%nat.
Proof.
  induction l as [|b l IH]; [reflexivity|]. rewrite hex_string_cons. cbn [length]. rewrite IH. lia.
Qed.

Lemma hex_string_app upper l1 l2 :
  hex_string upper (l1 ++ l2) = hex_string upper l1 ++ hex_string upper l2.
Proof. apply flat_map_app. Qed.

Lemma hex_string_firstn upper k l :
  hex_string upper (firstn k l) = firstn (2 * k) (hex_string upper l).
Proof.
  revert l; induction k as [|k IH]; intros l; [reflexivity|].
  replace (2 * S k)%nat with (S (S (2 * k))) by lia.
  destruct l as [|b l]; [reflexivity|].
  cbn [firstn]. rewrite !hex_string_cons. cbn [firstn]. now rewrite IH.
Qed.

Lemma hex_string_digits upper l : Forall byte l -> Forall (is_hex_digit upper) (hex_string upper l).
Proof.
  induction 1 as [|b l Hb Hl IH]; [constructor|]. rewrite hex_string_cons.
  destruct (byte_nibbles b Hb) as [H1 H2].
  constructor; [now apply digit_is_hex|]. constructor; [now apply digit_is_hex|exact IH].
Qed.

Lemma hex_digits_ascii upper l : Forall (is_hex_digit upper) l -> Forall ascii l.
Proof. intros H. eapply Forall_impl; [|exact H]. apply hex_digit_ascii. Qed.

(* index-wise reading of the specification: character 2i is the high nibble of
   byte i, character 2i+1 its low nibble *)
Lemma hex_string_nth upper l i b : nth_error l i = Some b ->
  nth_error (hex_string upper l) (2 * i) = Some (digit upper (b / 16)) /\
  nth_error (hex_string upper l) (2 * i + 1) = Some (digit upper (b mod 16)).
Proof.
  revert i; induction l as [|x l IH]; intros i Hi; [destruct i; discriminate|].
  rewrite hex_string_cons. destruct i as [|i]; cbn in Hi.
  - injection Hi as ->. split; reflexivity.
  - replace (2 * S i)%nat with (S (S (2 * i))) by lia. cbn [nth_error Nat.add].
    apply IH. exact Hi.
Qed.

(* if the first 2k bytes of r are the digits of the first k bytes of arr, then
   cutting r at d <= 2k characters is cutting the digit string of the whole arr *)
Lemma cut_prefix upper (r arr : list Z) (d k : nat) :
  firstn (2 * k) r = hex_string upper (firstn k arr) -> (d <= 2 * k)%nat ->
  firstn d r = firstn d (hex_string upper arr).
Proof.
  intros H Hd. rewrite <- (firstn_min_l r d (2 * k)) by exact Hd.
  rewrite H, hex_string_firstn. now apply firstn_min_l.
Qed.

(* ------------------------------------------------ the table fallback encoder *)

Lemma enc_loop_ok upper src : Forall byte src -> forall dst,
  (2 * length src <= length dst)%nat ->
  enc_loop upper src dst = Ret (hex_string upper src ++ skipn (2 * length src) dst).
Proof.
  induction 1 as [|c src Hc Hs IH]; intros dst Hl.
  - reflexivity.
  - cbn [length] in Hl.
    replace (2 * length (c :: src))%nat with (S (S (2 * length src))) by (cbn [length]; lia).
    destruct dst as [|d0 [|d1 dst]]; cbn [length] in Hl; try lia.
    cbn [enc_loop]. rewrite shiftr4, land15.
    destruct (byte_nibbles c Hc) as [H1 H2].
    rewrite !alpha_digit by assumption. rewrite IH by lia.
    rewrite hex_string_cons. reflexivity.
Qed.

Theorem fallback_contract : enc_contract hex_encode_fallback.
Proof.
  intros upper src dst Hb Hl Ha. unfold hex_encode_fallback, zlen in *.
  destruct (Z.ltb_spec (Z.of_nat (length dst)) (Z.of_nat (length src) * 2)) as [Hlt|_]; [lia|].
  rewrite enc_loop_ok by (assumption || lia).
  eexists; split; [reflexivity|]. split; [|split].
  - rewrite app_length, hex_string_length, skipn_length. lia.
  - apply firstn_len_app. now rewrite hex_string_length.
  - apply Forall_app; split.
    + eapply hex_digits_ascii, hex_string_digits; exact Hb.
    + now apply Forall_skipn.
Qed.

(* --------------------------------------------------- the integer arithmetic *)

Definition prec_ok (prec : option Z) : Prop :=
  match prec with Some p => 0 <= p | None => True end.

Lemma max_digits_bounds n prec : 0 <= n -> prec_ok prec ->
  0 <= max_digits_of n prec <= 2 * n /\
  max_digits_of n prec = match prec with Some p => Z.min p (2 * n) | None => 2 * n end.
Proof.
  intros Hn Hp. unfold max_digits_of. destruct prec as [p|]; cbn in Hp; [|lia].
  destruct (Z.ltb_spec p (n * 2)); lia.
Qed.

(* max_bytes = ceil(max_digits / 2) *)
Lemma max_bytes_ceil d : 0 <= d ->
  d <= 2 * max_bytes_of d <= d + 1 /\ 0 <= max_bytes_of d.
Proof.
  intros Hd. unfold max_bytes_of. rewrite shiftr1, land1.
  pose proof (Z.div_mod d 2 ltac:(lia)) as H1.
  pose proof (Z.mod_pos_bound d 2 ltac:(lia)) as H2. lia.
Qed.

(* the unreachable_unchecked at src/hex.rs:72 is unreachable, &arr[..max_bytes] is in
   bounds, and the max_bytes input bytes cover the max_digits digits *)
Theorem max_bytes_le_N n prec : 0 <= n -> prec_ok prec ->
  let d := max_digits_of n prec in
  0 <= d <= 2 * n /\ 0 <= max_bytes_of d <= n /\ d <= 2 * max_bytes_of d <= d + 1.
Proof.
  intros Hn Hp d. destruct (max_digits_bounds n prec Hn Hp) as [Hd _]. fold d in Hd.
  destruct (max_bytes_ceil d ltac:(lia)) as [H1 H2]. lia.
Qed.

Lemma hex_spec_max_digits upper arr prec : prec_ok prec ->
  hex_spec upper arr prec =
  firstn (Z.to_nat (max_digits_of (zlen arr) prec)) (hex_string upper arr).
Proof.
  intros Hp. pose proof (max_digits_bounds (zlen arr) prec ltac:(unfold zlen; lia) Hp) as [_ ->].
  destruct prec as [p|]; cbn [hex_spec]; [reflexivity|].
  rewrite firstn_all2; [reflexivity|]. rewrite hex_string_length. unfold zlen. lia.
Qed.

(* ------------------------------------------------------ the formatter model *)

Lemma write_unchecked_ok upper out buf n : 0 <= n <= zlen buf ->
  Forall (is_hex_digit upper) (firstn (Z.to_nat n) buf) ->
  write_unchecked out buf n = Ret (out ++ firstn (Z.to_nat n) buf).
Proof.
  intros Hn Hd. unfold write_unchecked.
  destruct (Z.ltb_spec n 0); [lia|]. destruct (Z.ltb_spec (zlen buf) n); [lia|]. cbn [orb].
  rewrite forallb_asciib; [reflexivity|]. eapply hex_digits_ascii; exact Hd.
Qed.

Section WithEncoder.
  (* the encoder behind hex_encode: the table fallback, or faster_hex (an oracle) *)
  Variable enc : encoder.
  Hypothesis enc_ok : enc_contract enc.

  Lemma hex_encode_ok upper src dst :
    Forall byte src -> (2 * length src <= length dst)%nat -> Forall ascii dst ->
    exists r, hex_encode enc upper src dst = Ret r /\ length r = length dst /\
              firstn (2 * length src) r = hex_string upper src /\ Forall ascii r.
  Proof.
    intros Hb Hl Ha. unfold hex_encode.
    destruct (Z.ltb_spec (zlen dst) (zlen src * 2)) as [Hlt|_]; [unfold zlen in Hlt; lia|].
    apply enc_ok; [assumption|unfold zlen; lia|assumption].
  Qed.

  (* The loop invariant of the third strategy, by induction over the chunks: from ANY
     point of the loop -- remaining input l, buffer of at least 2K bytes with whatever
     (ASCII) content earlier iterations left in it, remaining digit budget d >= 0,
     output so far out -- the loop appends exactly the first d digits of l.  In
     particular [digits_left -= n] never underflows (that would be Panicked) and
     get_unchecked(..n) stays inside the buffer (that would be UB). *)
  Lemma hex_chunks_ok upper (K : nat) : (0 < K)%nat ->
    forall fuel l buf d out,
      (length l <= fuel)%nat -> Forall byte l ->
      (2 * K <= length buf)%nat -> Forall ascii buf -> 0 <= d ->
      hex_chunks enc upper (chunks_fuel fuel K l) buf d out =
      Ret (out ++ firstn (Z.to_nat d) (hex_string upper l)).
  Proof.
    intros HK. induction fuel as [|fuel IH]; intros l buf d out Hf Hb Hbuf Ha Hd.
    - destruct l; [|cbn in Hf; lia]. cbn. now rewrite firstn_nil, app_nil_r.
    - destruct l as [|x l'].
      { cbn. now rewrite firstn_nil, app_nil_r. }
      cbn [chunks_fuel]. remember (x :: l') as l eqn:El.
      set (chunk := firstn K l). set (rest := skipn K l).
      assert (Hcl : length chunk = Nat.min K (length l)) by apply firstn_length.
      assert (Hlpos : (0 < length l)%nat) by (subst l; cbn; lia).
      cbn [hex_chunks].
      destruct (hex_encode_ok upper chunk buf) as (r & Hr & Hrl & Hpre & Hra);
        [now apply Forall_firstn|lia|assumption|].
      rewrite Hr.
      set (n := Z.min (zlen chunk * 2) d).
      assert (Hn : Z.to_nat n = Nat.min (length (hex_string upper chunk)) (Z.to_nat d))
        by (rewrite hex_string_length; unfold n, zlen; lia).
      assert (Hpiece : firstn (Z.to_nat n) r = firstn (Z.to_nat n) (hex_string upper chunk)).
      { rewrite <- Hpre. symmetry. apply firstn_min_l.
        rewrite Hn, hex_string_length. lia. }
      rewrite (write_unchecked_ok upper).
      + destruct (Z.ltb_spec d n) as [Hlt|_]; [unfold n in Hlt; lia|].
        rewrite IH.
        * f_equal. rewrite <- app_assoc. f_equal.
          rewrite <- (firstn_skipn K l) at 1. fold chunk rest.
          rewrite hex_string_app, firstn_split_min, Hpiece, Hn. f_equal. f_equal.
          unfold n, zlen in *. rewrite hex_string_length. lia.
        * unfold rest. rewrite skipn_length. lia.
        * now apply Forall_skipn.
        * lia.
        * assumption.
        * unfold n; lia.
      + unfold n, zlen. lia.
      + rewrite Hpiece. apply Forall_firstn, hex_string_digits. now apply Forall_firstn.
  Qed.

  (* MAIN: for every byte list of every length, both cases, every precision *)
  Theorem generic_hex_correct upper arr prec :
    Forall byte arr -> 2 * zlen arr < 2 ^ 64 -> prec_ok prec ->
    generic_hex enc upper arr prec = Ret (hex_spec upper arr prec).
  Proof.
    intros Hb Hsz Hp. rewrite (hex_spec_max_digits upper arr prec Hp).
    unfold generic_hex. set (n := zlen arr) in *.
    assert (Hn0 : 0 <= n) by (unfold n, zlen; lia).
    destruct (Z.leb_spec usize_max1 (n * 2)) as [Hov|_]; [unfold usize_max1 in Hov; lia|].
    pose proof (max_bytes_le_N n prec Hn0 Hp) as Hm. cbv zeta in Hm.
    set (d := max_digits_of n prec) in *. set (mb := max_bytes_of d) in *.
    destruct Hm as (Hd & Hmb & Hceil).
    destruct (Z.ltb_spec n mb) as [Hbad|_]; [lia|].
    destruct (Z.ltb_spec mb 0) as [Hbad|_]; [lia|].
    set (input := firstn (Z.to_nat mb) arr).
    assert (Hil : length input = Z.to_nat mb)
      by (unfold input; rewrite firstn_length; unfold n, zlen in *; lia).
    destruct (Z.leb_spec n 1024) as [Hsmall|Hlarge].
    - set (buf := repeat 0 (Z.to_nat (n + n))).
      assert (Hbl : length buf = (2 * length arr)%nat)
        by (unfold buf; rewrite repeat_length; unfold n, zlen; lia).
      assert (Hba : Forall ascii buf) by (apply Forall_repeat; unfold ascii; lia).
      assert (Hcut : exists r,
        (if n <? 16 then hex_encode_fallback upper arr buf else hex_encode enc upper input buf) = Ret r /\
        length r = length buf /\
        firstn (Z.to_nat d) r = firstn (Z.to_nat d) (hex_string upper arr)).
      { destruct (n <? 16).
        - destruct (fallback_contract upper arr buf) as (r & Hr & Hrl & Hpre & _);
            [assumption|unfold zlen; lia|assumption|].
          exists r. split; [exact Hr|]. split; [exact Hrl|].
          apply (cut_prefix upper r arr _ (length arr)); [now rewrite firstn_all|].
          unfold n, zlen in *; lia.
        - destruct (hex_encode_ok upper input buf) as (r & Hr & Hrl & Hpre & _);
            [now apply Forall_firstn|unfold n, zlen in *; lia|assumption|].
          exists r. split; [exact Hr|]. split; [exact Hrl|].
          apply (cut_prefix upper r arr _ (Z.to_nat mb)); [fold input; rewrite <- Hil; exact Hpre|lia]. }
      destruct Hcut as (r & -> & Hrl & Hpre).
      rewrite (write_unchecked_ok upper).
      + now rewrite Hpre.
      + unfold zlen. rewrite Hrl, Hbl. unfold n, zlen in *. lia.
      + rewrite Hpre. apply Forall_firstn. now apply hex_string_digits.
    - unfold chunks. rewrite hex_chunks_ok.
      + cbn [app]. f_equal. unfold input. rewrite hex_string_firstn. apply firstn_min_l. lia.
      + lia.
      + lia.
      + now apply Forall_firstn.
      + rewrite repeat_length. lia.
      + apply Forall_repeat. unfold ascii; lia.
      + lia.
  Qed.
End WithEncoder.

(* ------------------------------------------------------------ corollaries *)

Theorem generic_hex_fallback_correct upper arr prec :
  Forall byte arr -> 2 * zlen arr < 2 ^ 64 -> prec_ok prec ->
  generic_hex_fallback upper arr prec = Ret (hex_spec upper arr prec).
Proof. apply generic_hex_correct. exact fallback_contract. Qed.

(* the output does not depend on which encoder is compiled in *)
Theorem feature_independent (enc1 enc2 : encoder) upper arr prec :
  enc_contract enc1 -> enc_contract enc2 ->
  Forall byte arr -> 2 * zlen arr < 2 ^ 64 -> prec_ok prec ->
  generic_hex enc1 upper arr prec = generic_hex enc2 upper arr prec.
Proof.
  intros H1 H2 Hb Hs Hp. now rewrite !generic_hex_correct.
Qed.

(* An encoder that is undefined behaviour on every call outside the contract's
   precondition (destination shorter than 2|src|, source not bytes, destination not
   valid ASCII).  Swapping it in changes nothing: generic_hex never makes such a
   call, so unwrap_unchecked never sees Err and the fallback's unreachable_unchecked
   is never reached. *)
Definition byteb (b : Z) : bool := (0 <=? b) && (b <? 256).
Definition guarded (enc : encoder) : encoder := fun upper src dst =>
  if (zlen dst <? zlen src * 2) || negb (forallb byteb src) || negb (forallb asciib dst)
  then UB else enc upper src dst.

Lemma forallb_byteb l : Forall byte l -> forallb byteb l = true.
Proof.
  induction 1 as [|x l Hx Hl IH]; cbn; [reflexivity|]. rewrite IH.
  unfold byte in Hx. unfold byteb.
  destruct (Z.leb_spec 0 x); [|lia]. destruct (Z.ltb_spec x 256); [reflexivity|lia].
Qed.

Lemma guarded_contract enc : enc_contract enc -> enc_contract (guarded enc).
Proof.
  intros H upper src dst Hb Hl Ha. unfold guarded.
  destruct (Z.ltb_spec (zlen dst) (zlen src * 2)); [lia|].
  rewrite forallb_byteb, forallb_asciib by assumption. cbn [negb orb]. now apply H.
Qed.

Theorem encoder_calls_in_contract enc upper arr prec :
  enc_contract enc -> Forall byte arr -> 2 * zlen arr < 2 ^ 64 -> prec_ok prec ->
  generic_hex (guarded enc) upper arr prec = generic_hex enc upper arr prec /\
  generic_hex enc upper arr prec <> UB /\ generic_hex enc upper arr prec <> Panicked.
Proof.
  intros H Hb Hs Hp. rewrite (generic_hex_correct (guarded enc)); auto using guarded_contract.
  rewrite (generic_hex_correct enc); auto. repeat split; discriminate.
Qed.

(* only ASCII hexadecimal digits of the requested case are ever written *)
Theorem hex_spec_digits upper arr prec : Forall byte arr ->
  Forall (is_hex_digit upper) (hex_spec upper arr prec).
Proof.
  intros Hb. destruct prec; cbn [hex_spec]; [apply Forall_firstn|]; now apply hex_string_digits.
Qed.

Theorem output_hex_digits enc upper arr prec out :
  enc_contract enc -> Forall byte arr -> 2 * zlen arr < 2 ^ 64 -> prec_ok prec ->
  generic_hex enc upper arr prec = Ret out ->
  Forall (is_hex_digit upper) out /\ Forall ascii out.
Proof.
  intros H Hb Hs Hp Ho. rewrite generic_hex_correct in Ho by assumption.
  injection Ho as <-. split; [|eapply hex_digits_ascii]; now apply hex_spec_digits.
Qed.

Theorem hex_spec_length upper arr prec : prec_ok prec ->
  zlen (hex_spec upper arr prec) =
  match prec with Some p => Z.min p (2 * zlen arr) | None => 2 * zlen arr end.
Proof.
  intros Hp. unfold zlen. destruct prec as [p|]; cbn [hex_spec].
  - rewrite firstn_length, hex_string_length. cbn in Hp. unfold zlen. lia.
  - rewrite hex_string_length. lia.
Qed.

(* character k of the output (k < min p 2N): the high nibble of byte k/2 for even k,
   its low nibble for odd k -- so an odd precision ends on a high nibble *)
Theorem hex_spec_nth upper arr prec i b : prec_ok prec ->
  nth_error arr i = Some b ->
  (Z.of_nat (2 * i) < zlen (hex_spec upper arr prec) ->
     nth_error (hex_spec upper arr prec) (2 * i) = Some (digit upper (b / 16))) /\
  (Z.of_nat (2 * i + 1) < zlen (hex_spec upper arr prec) ->
     nth_error (hex_spec upper arr prec) (2 * i + 1) = Some (digit upper (b mod 16))).
Proof.
  intros Hp Hi. destruct (hex_string_nth upper arr i b Hi) as [H1 H2].
  rewrite (hex_spec_max_digits upper arr prec Hp). unfold zlen.
  set (m := Z.to_nat (max_digits_of (Z.of_nat (length arr)) prec)).
  split; intros Hlt; rewrite firstn_length in Hlt.
  - rewrite <- H1. rewrite <- (firstn_skipn m (hex_string upper arr)) at 2.
    rewrite nth_error_app1; [reflexivity|]. rewrite firstn_length. lia.
  - rewrite <- H2. rewrite <- (firstn_skipn m (hex_string upper arr)) at 2.
    rewrite nth_error_app1; [reflexivity|]. rewrite firstn_length. lia.
Qed.

(* ------------------------------------------------- non-vacuity / examples *)

(* the doc example of src/hex.rs: arr![10u8, 20, 30] prints "0a141e" *)
Example ex_doc : generic_hex_fallback false [10; 20; 30] None = Ret [48; 97; 49; 52; 49; 101].
Proof. reflexivity. Qed.

(* odd precision ends on a high nibble; upper case *)
Example ex_odd : generic_hex_fallback true [171; 205; 239] (Some 3) = Ret [65; 66; 67].
Proof. reflexivity. Qed.

Example ex_hyps : Forall byte [171; 205; 239] /\ 2 * zlen [171; 205; 239] < 2 ^ 64 /\ prec_ok (Some 3).
Proof. repeat split; try (cbn; lia). repeat constructor; unfold byte; lia. Qed.

(* an encoder that is UB outside the precondition still meets the contract: the
   hypothesis of the main theorem is satisfiable by the strictest encoder *)
Example ex_guarded : enc_contract (guarded hex_encode_fallback).
Proof. apply guarded_contract, fallback_contract. Qed.

(* the chunk-loop invariant's hypotheses hold in a state with a dirty reused buffer:
   K = 2, five bytes left, buffer full of stale 'F's, budget 7 (odd), output so far "c" *)
Example ex_chunk_loop :
  hex_chunks hex_encode_fallback false (chunks_fuel 5 2 [1; 2; 3; 4; 255]) [70; 70; 70; 70] 7 [99]
  = Ret ([99] ++ firstn 7 (hex_string false [1; 2; 3; 4; 255])) /\
  Forall ascii [70; 70; 70; 70] /\ Forall byte [1; 2; 3; 4; 255].
Proof.
  split; [reflexivity|]. split; repeat constructor; unfold ascii, byte; lia.
Qed.

(* the theorems discriminate: the usual slips, as mutants of the model pieces *)
Example mutant_nibble_order : [digit false (171 mod 16); digit false (171 / 16)] <> hex2 false 171.
Proof. cbv. discriminate. Qed.

Example mutant_max_bytes_floor : (* max_bytes = max_digits >> 1 loses the last digit of an odd precision *)
  2 * Z.shiftr 3 1 < 3.
Proof. cbv. reflexivity. Qed.

(* mutant of the chunk loop that forgets [digits_left -= n]: refuted by a 3-byte input
   with chunk size 1 and precision 3 (prints 5 characters instead of 3) *)
Fixpoint hex_chunks_nodec (enc : encoder) (upper : bool) (cs : list (list Z))
         (buf : list Z) (digits_left : Z) (out : list Z) : res (list Z) :=
  match cs with
  | [] => Ret out
  | chunk :: cs' =>
    match hex_encode enc upper chunk buf with
    | Ret buf' =>
      let n := Z.min (zlen chunk * 2) digits_left in
      match write_unchecked out buf' n with
      | Ret out' => hex_chunks_nodec enc upper cs' buf' digits_left out'
      | e => e
      end
    | e => e
    end
  end.

Example mutant_nodec_refuted :
  hex_chunks_nodec hex_encode_fallback false (chunks_fuel 3 1 [1; 2; 3]) [0; 0] 3 []
  <> Ret (firstn 3 (hex_string false [1; 2; 3])).
Proof. vm_compute. discriminate. Qed.

(* GuardTieCollect.v -- tier T2 tie (part of the former GuardTie.v, split so that a change of one function only reaches the
   properties whose theorems are stated over that function's regenerated guards): the size-hint pre-checks of try_from_iter (C07) *)
From Coq Require Import String.
From GA Require Import Base Guards.
From GA Require Views Chunks SeqOps Builder Hex HeapOps ConstEval Serde.
From GAGen Require Import GenGuards GenConstFns.
Local Open Scope Z_scope.

Lemma of_nat_eqb a b : (Z.of_nat a =? Z.of_nat b) = Nat.eqb a b.
Proof.
  destruct (Nat.eqb_spec a b) as [->|H]; [apply Z.eqb_refl|]. apply Z.eqb_neq. lia.
Qed.

(* ---------------- C07: the size-hint pre-checks of try_from_iter ---------------- *)

Definition precheck_of (checks : list (string * gcond)) (lo : Z) (hi : option Z) (N : Z) : bool :=
  existsb (fun c : string * gcond =>
             if String.eqb (fst c) "lo" then ctest (env1 "lo" lo) N (snd c)
             else match hi with Some h => ctest (env1 "hi" h) N (snd c) | None => false end) checks.

Lemma tie_prechecks N (s : Builder.src) :
  Builder.precheck_reject N s =
  precheck_of try_from_iter_prechecks (Builder.hint_lo s) (Builder.hint_hi s) (Z.of_nat N).
Proof.
  unfold Builder.precheck_reject, precheck_of. cbn. destruct (Builder.hint_hi s); cbn; now rewrite ?orb_false_r.
Qed.


(* CorrC106.v -- second correspondence entry for C06: element type without drop glue whose
   Clone::clone is observable (adds 2^20 to the value); harness: c06 --elem cn *)
From GA Require Import Base Codec Iter CorrC06.
Local Open Scope Z_scope.

Definition run_c106 (case : list Z) : list Z :=
  match case with
  | n :: rest =>
    let '(vals, opsz) := take_list (znat n) rest in
    flat_map enc_out (run_gen (fun x => x + 1048576) (into_iter vals) (decode_ops (length opsz) opsz))
  | [] => []
  end.

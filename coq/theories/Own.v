(* Own.v -- hub model of ownership histories (C03): a pool of objects (stack arrays,
   by-value iterators, boxed arrays, Vecs, boxed slices, caller-held elements) and
   the operations that move elements into, between and out of GenericArrays,
   chained: outputs of one operation are inputs of the next.  Definitions only.

   The list-level meaning of every operation is used here; the low-level models
   justify it: Iter.v/IterProofs.v (iterator = queue), Functional.v (map/zip/fold
   through consumer/builder), SeqOps (pointer programs = list functions), Flatten,
   HeapOps.  Panic-free histories only (C04/C05 cover panics). *)
From GA Require Import Base Iter.

Inductive obj : Type :=
| OArr (l : list Z)        (* GenericArray<T, N> by value, N = length l *)
| OIter (s : it)           (* GenericArrayIter *)
| OBoxArr (l : list Z)     (* Box<GenericArray<T, N>> *)
| OVec (l : list Z)        (* Vec<T> *)
| OBoxSlice (l : list Z)   (* Box<[T]> *)
| OElem (x : Z).           (* one element held by the caller *)

Record pool : Type := mkPool { objs : list (option obj); next_id : Z }.

Definition obj_ids (o : obj) : list Z :=
  match o with
  | OArr l | OBoxArr l | OVec l | OBoxSlice l => l
  | OIter s => live s
  | OElem x => [x]
  end.

Definition slot_ids (o : option obj) : list Z :=
  match o with Some x => obj_ids x | None => [] end.

Definition pool_ids (p : pool) : list Z := flat_map slot_ids (objs p).

Inductive pop : Type :=
| PGenerate (n : nat)              (* GenericArray::generate(|_| fresh) *)
| PCollect (i : nat)               (* Vec -> array through FromIterator *)
| PIntoIter (i : nat)
| PNext (i : nat) | PNextBack (i : nat) | PNth (i : nat) (n : Z) | PNthBack (i : nat) (n : Z)
| PCloneIter (i : nat) | PCloneArr (i : nat)
| PDrop (i : nat)
| PMap (i : nat) | PZip (i j : nat) | PFold (i : nat)
| PIterFold (i : nat) | PIterRfold (i : nat) | PCount (i : nat) | PLast (i : nat)
| PAppend (i j : nat) | PPrepend (i j : nat) | PPopBack (i : nat) | PPopFront (i : nat)
| PSplit (i k : nat) | PConcat (i j : nat) | PRemove (i idx : nat) | PSwapRemove (i idx : nat)
| PFlatten2 (i j : nat) | PUnflatten (i n : nat)
| PNative (i : nat) | PTuple (i : nat)
| PToVec (i : nat) | PVecToArr (i : nat) | PToBox (i : nat) | PBoxIntoVec (i : nat)
| PBoxIntoSlice (i : nat) | PSliceToBox (i : nat) | PVecToBox (i : nat) | PBoxIter (i : nat)
| PUnbox (i : nat)
| PObserve (i : nat)
| PTryCollect (i n : nat)         (* GenericArray::<T, n>::try_from_iter(vec.into_iter().filter(..)): Ok only for n = len,
                                     otherwise LengthError and every element of the Vec is dropped *)
| PTryCollectBoxed (i n : nat).   (* the same through try_boxed_from_iter *)

(* slot access *)
Definition get (p : pool) (i : nat) : option obj :=
  match nth_error (objs p) i with Some (Some o) => Some o | _ => None end.

Definition clear (i : nat) (l : list (option obj)) : list (option obj) := upd i None l.

(* the result of one operation: new pool, what was dropped, what was created, what was observed *)
Record stepres : Type := mkStep { sp : pool; sdropped : list Z; snew : list Z; sobs : list Z; svalid : bool }.

Definition fresh (p : pool) (n : nat) : list Z := map (fun k => (next_id p + Z.of_nat k)%Z) (seq 0 n).

Definition invalid (p : pool) : stepres := mkStep p [] [] [] false.

(* consume slots [is], append objects [news], create [created] fresh ids, drop [dropped] *)
Definition finish (p : pool) (consumed : list nat) (news : list obj) (ncreated : nat)
           (dropped : list Z) (observed : list Z) : stepres :=
  mkStep (mkPool (fold_right clear (objs p) consumed ++ map Some news)
                 (next_id p + Z.of_nat ncreated)%Z)
         dropped (fresh p ncreated) observed true.

(* Vec::swap_remove / remove at the list level *)
Definition list_remove (idx : nat) (l : list Z) : list Z := firstn idx l ++ skipn (S idx) l.
Definition list_swap_remove (idx : nat) (l : list Z) : list Z :=
  match nth_error l (length l - 1) with
  | Some lastx => if idx =? length l - 1 then firstn idx l
                  else firstn idx l ++ [lastx] ++ firstn (length l - 1 - S idx) (skipn (S idx) l)
  | None => l
  end.

Fixpoint chunks (n : nat) (fuel : nat) (l : list Z) : list (list Z) :=
  match fuel with
  | O => []
  | S f => match l with [] => [] | _ => firstn n l :: chunks n f (skipn n l) end
  end.

Definition edrops (e : list ev) : list Z :=
  flat_map (fun x => match x with EDrop i => [i] | _ => [] end) e.

Definition step (p : pool) (o : pop) : stepres :=
  match o with
  | PGenerate n => finish p [] [OArr (fresh p n)] n [] []
  | PCollect i =>
    match get p i with Some (OVec l) => finish p [i] [OArr l] 0 [] [] | _ => invalid p end
  | PIntoIter i =>
    match get p i with Some (OArr l) => finish p [i] [OIter (into_iter l)] 0 [] [] | _ => invalid p end
  | PNext i =>
    match get p i with
    | Some (OIter s) =>
      match next s with
      | (Ret (Some x), s', _) => finish p [i] [OIter s'; OElem x] 0 [] []
      | (Ret None, s', _) => finish p [i] [OIter s'] 0 [] []
      | _ => invalid p
      end
    | _ => invalid p end
  | PNextBack i =>
    match get p i with
    | Some (OIter s) =>
      match next_back s with
      | (Ret (Some x), s', _) => finish p [i] [OIter s'; OElem x] 0 [] []
      | (Ret None, s', _) => finish p [i] [OIter s'] 0 [] []
      | _ => invalid p
      end
    | _ => invalid p end
  | PNth i n =>
    match get p i with
    | Some (OIter s) =>
      match nth_ None s n with
      | (Ret (Some x), s', _, e) => finish p [i] [OIter s'; OElem x] 0 (edrops e) []
      | (Ret None, s', _, e) => finish p [i] [OIter s'] 0 (edrops e) []
      | _ => invalid p
      end
    | _ => invalid p end
  | PNthBack i n =>
    match get p i with
    | Some (OIter s) =>
      match nth_back_ None s n with
      | (Ret (Some x), s', _, e) => finish p [i] [OIter s'; OElem x] 0 (edrops e) []
      | (Ret None, s', _, e) => finish p [i] [OIter s'] 0 (edrops e) []
      | _ => invalid p
      end
    | _ => invalid p end
  | PCloneIter i =>
    match get p i with
    | Some (OIter s) =>
      let n := length (live s) in
      finish p [] [OIter (mkIt (fresh p n ++ skipn (len s) (slots s)) 0 n)] n [] []
    | _ => invalid p end
  | PCloneArr i =>
    match get p i with
    | Some (OArr l) => finish p [] [OArr (fresh p (length l))] (length l) [] []
    | _ => invalid p end
  | PDrop i =>
    match get p i with Some ob => finish p [i] [] 0 (obj_ids ob) [] | None => invalid p end
  | PMap i =>   (* the closure consumes (drops) its argument and returns a fresh value *)
    match get p i with
    | Some (OArr l) => finish p [i] [OArr (fresh p (length l))] (length l) l []
    | _ => invalid p end
  | PZip i j =>
    match get p i, get p j with
    | Some (OArr l), Some (OArr m) =>
      if (length l =? length m) && negb (i =? j)
      then finish p [i; j] [OArr (fresh p (length l))] (length l) (l ++ m) []
      else invalid p
    | _, _ => invalid p end
  | PFold i =>
    match get p i with Some (OArr l) => finish p [i] [] 0 l [] | _ => invalid p end
  | PIterFold i | PIterRfold i | PCount i =>
    match get p i with Some (OIter s) => finish p [i] [] 0 (live s) [] | _ => invalid p end
  | PLast i =>
    match get p i with
    | Some (OIter s) =>
      match rev (live s) with
      | [] => finish p [i] [] 0 [] []
      | x :: r => finish p [i] [OElem x] 0 (rev r) []
      end
    | _ => invalid p end
  | PAppend i j =>
    match get p i, get p j with
    | Some (OArr l), Some (OElem x) => finish p [i; j] [OArr (l ++ [x])] 0 [] []
    | _, _ => invalid p end
  | PPrepend i j =>
    match get p i, get p j with
    | Some (OArr l), Some (OElem x) => finish p [i; j] [OArr (x :: l)] 0 [] []
    | _, _ => invalid p end
  | PPopBack i =>
    match get p i with
    | Some (OArr l) =>
      match rev l with
      | [] => invalid p
      | x :: r => finish p [i] [OArr (rev r); OElem x] 0 [] []
      end
    | _ => invalid p end
  | PPopFront i =>
    match get p i with
    | Some (OArr (x :: r)) => finish p [i] [OElem x; OArr r] 0 [] []
    | _ => invalid p end
  | PSplit i k =>
    match get p i with
    | Some (OArr l) =>
      if k <=? length l then finish p [i] [OArr (firstn k l); OArr (skipn k l)] 0 [] [] else invalid p
    | _ => invalid p end
  | PConcat i j =>
    match get p i, get p j with
    | Some (OArr l), Some (OArr m) =>
      if negb (i =? j) then finish p [i; j] [OArr (l ++ m)] 0 [] [] else invalid p
    | _, _ => invalid p end
  | PRemove i idx =>
    match get p i with
    | Some (OArr l) =>
      match nth_error l idx with
      | Some x => finish p [i] [OElem x; OArr (list_remove idx l)] 0 [] []
      | None => invalid p
      end
    | _ => invalid p end
  | PSwapRemove i idx =>
    match get p i with
    | Some (OArr l) =>
      match nth_error l idx with
      | Some x => finish p [i] [OElem x; OArr (list_swap_remove idx l)] 0 [] []
      | None => invalid p
      end
    | _ => invalid p end
  | PFlatten2 i j =>
    match get p i, get p j with
    | Some (OArr l), Some (OArr m) =>
      if (length l =? length m) && negb (i =? j) then finish p [i; j] [OArr (l ++ m)] 0 [] []
      else invalid p
    | _, _ => invalid p end
  | PUnflatten i n =>
    match get p i with
    | Some (OArr l) =>
      if (0 <? n) && (length l mod n =? 0)
      then finish p [i] (map OArr (chunks n (length l) l)) 0 [] []
      else invalid p
    | _ => invalid p end
  | PNative i | PTuple i =>
    match get p i with Some (OArr l) => finish p [i] [OArr l] 0 [] [] | _ => invalid p end
  | PToVec i =>
    match get p i with Some (OArr l) => finish p [i] [OVec l] 0 [] [] | _ => invalid p end
  | PVecToArr i =>
    match get p i with Some (OVec l) => finish p [i] [OArr l] 0 [] [] | _ => invalid p end
  | PToBox i =>
    match get p i with Some (OArr l) => finish p [i] [OBoxArr l] 0 [] [] | _ => invalid p end
  | PBoxIntoVec i | PBoxIter i =>
    match get p i with Some (OBoxArr l) => finish p [i] [OVec l] 0 [] [] | _ => invalid p end
  | PBoxIntoSlice i =>
    match get p i with Some (OBoxArr l) => finish p [i] [OBoxSlice l] 0 [] [] | _ => invalid p end
  | PSliceToBox i =>
    match get p i with Some (OBoxSlice l) => finish p [i] [OBoxArr l] 0 [] [] | _ => invalid p end
  | PVecToBox i =>
    match get p i with Some (OVec l) => finish p [i] [OBoxArr l] 0 [] [] | _ => invalid p end
  | PUnbox i =>
    match get p i with Some (OBoxArr l) => finish p [i] [OArr l] 0 [] [] | _ => invalid p end
  | PObserve i =>
    match get p i with Some ob => mkStep p [] [] (obj_ids ob) true | None => invalid p end
  | PTryCollect i n =>
    match get p i with
    | Some (OVec l) => if n =? length l then finish p [i] [OArr l] 0 [] [] else finish p [i] [] 0 l []
    | _ => invalid p end
  | PTryCollectBoxed i n =>
    match get p i with
    | Some (OVec l) => if n =? length l then finish p [i] [OBoxArr l] 0 [] [] else finish p [i] [] 0 l []
    | _ => invalid p end
  end.

(* a history: per step what was dropped / created / observed; at the end everything left is dropped *)
Fixpoint prun (p : pool) (ops : list pop) : list stepres * pool :=
  match ops with
  | [] => ([], p)
  | o :: r => let s := step p o in let '(rs, p') := prun (sp s) r in (s :: rs, p')
  end.

Definition all_dropped (rs : list stepres) (final : pool) : list Z :=
  flat_map sdropped rs ++ pool_ids final.
Definition all_created (rs : list stepres) : list Z := flat_map snew rs.

Definition empty_pool (first_id : Z) : pool := mkPool [] first_id.

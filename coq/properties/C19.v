(* C19 -- zeroize and const-default reach every one of the N elements.
   Statements only; proofs in theories/ZeroDefaultProofs.v.  A length is its
   type-level digit list ds (outermost = least significant digit first, any depth,
   leading zero digits allowed), N = val ds; the element type is arbitrary
   (zero : A -> A its Zeroize, d : A its ConstDefault::DEFAULT). *)
From GA Require Import Base ZeroDefault ZeroDefaultProofs.

(* every length has a digit list (typenum's normalised one), so "all ds" = "all N" *)
Theorem C19_all_lengths : forall n : nat, exists ds, val ds = n.
Proof. exact every_length_has_digits. Qed.

Theorem C19_normalised_digits : forall n : N, val (N_digits n) = N.to_nat n.
Proof. exact val_N_digits. Qed.

(* the storage type fixes the number of slots: any value of
   <ds as ArrayLength>::ArrayType<T> has exactly N leaves *)
Theorem C19_shape_count : forall (A : Type) ds (t : tree A),
  has_shape ds t = true -> length (leaves t) = val ds.
Proof. exact (@shape_count). Qed.

(* const default: the value built by the three ConstDefault impls, seen through the
   slice view, is N copies of d -- no slot skipped or counted twice, any shape *)
Theorem C19_const_default : forall (A : Type) ds (d : A),
  const_default_elems ds d = Some (repeat d (val ds)).
Proof. exact (@const_default_all_slots). Qed.

Theorem C19_const_default_every_slot : forall (A : Type) ds (d : A),
  exists l, const_default_elems ds d = Some l /\ length l = val ds /\
            forall i, nth_error l i = if i <? val ds then Some d else None.
Proof. exact (@const_default_every_slot). Qed.

Theorem C19_const_default_shape : forall (A : Type) ds (d : A),
  exists t, const_default_arr ds d = Some t /\ has_shape ds t = true.
Proof. exact (@const_default_well_shaped). Qed.

Theorem C19_const_default_leading_zeros : forall (A : Type) ds (d : A) k,
  const_default_elems (ds ++ repeat false k) d = const_default_elems ds d.
Proof. exact (@const_default_leading_zeros). Qed.

(* ... and equals Default::default() = generate(|_| d), element-wise *)
Theorem C19_const_default_is_default : forall ds (d : Z),
  const_default_elems ds d = default_elems (val ds) d.
Proof. exact const_default_is_default. Qed.

(* every prior content of length N is the view of some storage of the type *)
Theorem C19_any_prior_contents : forall (A : Type) ds (l : list A), length l = val ds ->
  exists t, fill ds l = Some (t, []) /\ has_shape ds t = true /\ leaves t = l.
Proof. exact (@any_contents_have_storage). Qed.

(* zeroize: on ANY storage of the type (hence any prior content), every element is
   replaced by its zeroized value, the storage keeps its type, nothing is UB *)
Theorem C19_zeroize : forall (A : Type) (zero : A -> A) ds (t : tree A),
  has_shape ds t = true ->
  exists t', zeroize_arr zero ds t = Ret t' /\ has_shape ds t' = true /\
             leaves t' = map zero (leaves t).
Proof. exact (@zeroize_arr_spec). Qed.

Theorem C19_zeroize_const : forall (A : Type) (zero : A -> A) z ds (t : tree A),
  (forall x, zero x = z) -> has_shape ds t = true ->
  exists t', zeroize_arr zero ds t = Ret t' /\ has_shape ds t' = true /\
             leaves t' = repeat z (val ds).
Proof. exact (@zeroize_arr_const). Qed.

(* the loop over the mutable slice view, cell by cell *)
Theorem C19_zeroize_slice : forall (A : Type) (zero : A -> A) (a : list A),
  exists a', zeroize_slice zero a = Ret a' /\ length a' = length a /\
             forall i, nth_error a' i = option_map zero (nth_error a i).
Proof. exact (@zeroize_slice_every_cell). Qed.

Theorem C19_zeroize_after_const_default : forall (A : Type) (zero : A -> A) ds (d : A),
  exists t t', const_default_arr ds d = Some t /\ zeroize_arr zero ds t = Ret t' /\
               leaves t' = repeat (zero d) (val ds).
Proof. exact (@zeroize_after_const_default). Qed.

(* ---- tie to the current source (tools/ga2coq, coq/gen/GenDeleg.v): the bodies of the trait
        impls as they stand in the source now are the delegations the model implements ---- *)
From Coq Require Import String.
From GA Require Import Deleg.
From GAGen Require Import GenDeleg.
Local Open Scope string_scope.
Theorem C19_source_zeroize :
  lookup "Zeroize::zeroize" gen_delegations = Some (DEach (VAsMutSlice "self") "zeroize").
Proof. reflexivity. Qed.

(* ---- T1: which trait methods are implemented (coq/gen/GenSigs.v gen_impl_methods) ---- *)
From Coq Require Import String.
From GA Require Import SigDefs.
From GAGen Require Import GenSigs.
Local Open Scope string_scope.

(* Zeroize defines zeroize; ConstDefault is implemented for the two storage nodes and the wrapper by their DEFAULT constants (regenerated) *)
Theorem C19_source_impl_methods :
  methods_of "Zeroize for GenericArray<T,N>" = Some ["zeroize"] /\
  methods_of "ConstDefault for GenericArrayImplEven<T,U>" = Some ["DEFAULT"] /\
  methods_of "ConstDefault for GenericArrayImplOdd<T,U>" = Some ["DEFAULT"] /\
  methods_of "ConstDefault for GenericArray<T,U>" = Some ["DEFAULT"].
Proof. repeat split. Qed.


(* ---- T1: the one-expression bodies this property's code consists of besides the modelled core, as they stand
        in the source now (coq/gen/GenSigs.v gen_thin_bodies) ---- *)
From Coq Require Import String.
From GA Require Import SigDefs.
From GAGen Require Import GenSigs.
Local Open Scope string_scope.

Theorem C19_source_thin_bodies :
  thin_of "Zeroize for GenericArray<T,N>" "zeroize" = Some "self . as_mut_slice () . iter_mut () . zeroize ()" /\
  thin_of "GenericArray<T,U>" "const_default" = Some "Self :: DEFAULT".
Proof. repeat split. Qed.

(* ---- T2: the bounds of the trait impls this property's operations come from, as they stand in the source now
        (coq/gen/GenSigs.v gen_impl_bounds): code that is generic over the lengths / element type and states
        exactly these bounds can call them ---- *)
From Coq Require Import String.
From GA Require Import SigDefs.
From GAGen Require Import GenSigs.
Local Open Scope string_scope.

Theorem C19_source_impl_bounds :
  bounds_of "Zeroize for GenericArray<T,N>" = Some ["N:ArrayLength"; "T:Zeroize"] /\
  bounds_of "ConstDefault for GenericArrayImplEven<T,U>" = Some ["U:ConstDefault"] /\
  bounds_of "ConstDefault for GenericArrayImplOdd<T,U>" = Some ["T:ConstDefault"; "U:ConstDefault"] /\
  bounds_of "ConstDefault for GenericArray<T,U>" = Some ["U::ArrayType<T>:ConstDefault"; "U:ArrayLength"].
Proof. repeat split. Qed.

(* ---- T1: the signature of the inherent const_default (coq/gen/GenSigs.v gen_fn_sigs): a `pub const fn` of the block
        `impl<T, U> GenericArray<T, U> where T: ConstDefault, Self: ConstDefault` -- a caller generic over T and the
        length states exactly these two bounds ---- *)
From Coq Require Import String.
From GA Require Import SigDefs.
From GAGen Require Import GenSigs.
Local Open Scope string_scope.

Theorem C19_source_signatures :
  sig_of "GenericArray<T,U> where Self:ConstDefault,T:ConstDefault,U:ArrayLength" "const_default" = Some "pub const fn const_default () -> Self".
Proof. repeat split. Qed.

(* C06 -- the by-value iterator behaves as a double-ended, exact-size, fused queue.
   Only statements closed by [exact]; proofs live in theories/IterProofs.v. *)
From Coq Require Import String.
From GA Require Import Base Iter IterProofs MuRust IterTie.
From GAGen Require Import GenIter.

(* every finite history of operations on into_iter(a) returns exactly what the
   double-ended queue initialised with a returns, for every length *)
Theorem C06_history : forall (a : list Z) (ops : list op),
  Forall args_ok ops -> run (into_iter a) ops = q_run a ops.
Proof. exact history_refines. Qed.

(* the same for element types whose Clone::clone is any function f of the element
   (the clone operations then yield the images under f) *)
Theorem C06_history_any_clone : forall (f : Z -> Z) (a : list Z) (ops : list op),
  Forall args_ok ops -> run_gen f (into_iter a) ops = q_run_gen f a ops.
Proof. exact history_gen_refines. Qed.

(* one step from ANY state satisfying the bookkeeping invariant: output, remaining
   elements and invariant (remaining elements = a contiguous range of the slots:
   front and back consumption never overlap or skip) *)
Theorem C06_step : forall s o, Inv s -> args_ok o ->
  let '(v, s') := step s o in
  v = fst (q_step (live s) o) /\ live s' = snd (q_step (live s) o) /\ Inv s'.
Proof. exact step_refines. Qed.

Theorem C06_len : forall s, Inv s -> len s = length (live s).
Proof. exact len_is_remaining. Qed.

Theorem C06_fused : forall s o, Inv s -> args_ok o -> live s = [] ->
  match o with
  | ONext | ONextBack | ONth _ | ONthBack _ =>
      fst (step s o) = VOpt None /\ live (snd (step s o)) = []
  | _ => True end.
Proof. exact fused. Qed.

Theorem C06_clone : forall f s, Inv s ->
  live (clone_it f s) = map f (live s) /\ Inv (clone_it f s).
Proof. exact clone_live. Qed.

Theorem C06_nth_overshoot : forall s n, Inv s -> (Z.of_nat (len s) <= n)%Z ->
  let '(r, s', _, _) := nth_ None s n in r = Ret None /\ live s' = [].
Proof. exact nth_overshoot. Qed.

Theorem C06_no_ub : forall s o, Inv s -> args_ok o -> fst (step s o) <> VUB.
Proof. exact step_no_ub. Qed.

(* ---- tie to the current source (regenerated on every run by tools/ga2coq) ----
   the method bodies of /repo/src/iter.rs, as translated into coq/gen/GenIter.v, compute
   exactly the hub functions that the refinement theorems above are about; in particular no
   index arithmetic under- or overflows and every get_unchecked is in bounds (the
   interpreter would answer MUB) *)
Theorem C06_source_next : forall s b, Inv s -> bounded s ->
  call iter_table DEPTH "next" [] (embed s) b = lift3 (next s) b.
Proof. exact tie_next. Qed.

Theorem C06_source_next_back : forall s b, Inv s -> bounded s ->
  call iter_table DEPTH "next_back" [] (embed s) b = lift3 (next_back s) b.
Proof. exact tie_next_back. Qed.

Theorem C06_source_nth : forall s b n, Inv s -> bounded s -> (0 <= n < two64)%Z ->
  call iter_table DEPTH "nth" [VInt n] (embed s) b = lift4 (nth_ b s n).
Proof. exact tie_nth. Qed.

Theorem C06_source_nth_back : forall s b n, Inv s -> bounded s -> (0 <= n < two64)%Z ->
  call iter_table DEPTH "nth_back" [VInt n] (embed s) b = lift4 (nth_back_ b s n).
Proof. exact tie_nth_back. Qed.

Theorem C06_source_len : forall s b, Inv s -> bounded s ->
  call iter_table DEPTH "len" [] (embed s) b = (MRet (VInt (Z.of_nat (len s))), embed s, b, []).
Proof. exact tie_len. Qed.

Theorem C06_source_size_hint : forall s b, Inv s -> bounded s ->
  call iter_table DEPTH "size_hint" [] (embed s) b =
  (MRet (VPair (VInt (Z.of_nat (len s))) (VSome (VInt (Z.of_nat (len s))))), embed s, b, []).
Proof. exact tie_size_hint. Qed.

Theorem C06_source_as_slice : forall s b, Inv s -> bounded s ->
  call iter_table DEPTH "as_slice" [] (embed s) b =
  (MRet (VSlice (Z.of_nat (index s)) (Z.of_nat (back s))), embed s, b, []) /\
  call iter_table DEPTH "as_mut_slice" [] (embed s) b =
  (MRet (VSlice (Z.of_nat (index s)) (Z.of_nat (back s))), embed s, b, []).
Proof. exact tie_as_slice. Qed.

Theorem C06_source_into_iter : into_iter_init = [(FIndex, EInt 0); (FIndexBack, ELenN)].
Proof. exact tie_into_iter. Qed.

(* ---- T1: which trait methods are implemented (coq/gen/GenSigs.v gen_impl_methods) ---- *)
From Coq Require Import String.
From GA Require Import SigDefs.
From GAGen Require Import GenSigs.
Local Open Scope string_scope.

(* the Iterator / DoubleEndedIterator / ExactSizeIterator methods GenericArrayIter defines itself (regenerated, coq/gen/GenSigs.v): every other method -- advance_by, try_fold, position, .. -- is the standard library's default, built on these *)
Theorem C06_source_iterator_methods :
  methods_of "Iterator for GenericArrayIter<T,N>" = Some ["next"; "fold"; "size_hint"; "count"; "nth"; "last"] /\
  methods_of "DoubleEndedIterator for GenericArrayIter<T,N>" = Some ["next_back"; "rfold"; "nth_back"] /\
  methods_of "ExactSizeIterator for GenericArrayIter<T,N>" = Some ["len"] /\
  methods_of "FusedIterator for GenericArrayIter<T,N>" = Some [] /\
  methods_of "Clone for GenericArrayIter<T,N>" = Some ["clone"] /\
  methods_of "Drop for GenericArrayIter<T,N>" = Some ["drop"] /\
  methods_of "IntoIterator for GenericArray<T,N>" = Some ["into_iter"].
Proof. repeat split. Qed.


(* ---- T1: the one-expression bodies this property's code consists of besides the modelled core, as they stand
        in the source now (coq/gen/GenSigs.v gen_thin_bodies) ---- *)
From Coq Require Import String.
From GA Require Import SigDefs.
From GAGen Require Import GenSigs.
Local Open Scope string_scope.

Theorem C06_source_thin_bodies :
  thin_of "GenericArrayIter<T,N>" "as_slice" = Some "unsafe { self . array . get_unchecked (self . index .. self . index_back) }" /\
  thin_of "GenericArrayIter<T,N>" "as_mut_slice" = Some "unsafe { self . array . get_unchecked_mut (self . index .. self . index_back) }" /\
  thin_of "IntoIterator for GenericArray<T,N>" "into_iter" = Some "GenericArrayIter { array : ManuallyDrop :: new (self) , index : 0 , index_back : N :: USIZE , }" /\
  thin_of "fmt::Debug for GenericArrayIter<T,N>" "fmt" = Some "f . debug_tuple (""GenericArrayIter"") . field (& self . as_slice ()) . finish ()" /\
  thin_of "Iterator for GenericArrayIter<T,N>" "count" = Some "self . len ()" /\
  thin_of "Iterator for GenericArrayIter<T,N>" "last" = Some "self . next_back ()" /\
  thin_of "DoubleEndedIterator for GenericArrayIter<T,N>" "next_back" = Some "if self . index < self . index_back { self . index_back -= 1 ; unsafe { Some (ptr :: read (self . array . get_unchecked (self . index_back))) } } else { None }" /\
  thin_of "ExactSizeIterator for GenericArrayIter<T,N>" "len" = Some "self . index_back - self . index".
Proof. repeat split. Qed.

(* ---- T2: the bounds of the trait impls this property's operations come from, as they stand in the source now
        (coq/gen/GenSigs.v gen_impl_bounds): code that is generic over the lengths / element type and states
        exactly these bounds can call them ---- *)
From Coq Require Import String.
From GA Require Import SigDefs.
From GAGen Require Import GenSigs.
Local Open Scope string_scope.

Theorem C06_source_impl_bounds :
  bounds_of "IntoIterator for GenericArray<T,N>" = Some ["N:ArrayLength"] /\
  bounds_of "fmt::Debug for GenericArrayIter<T,N>" = Some ["N:ArrayLength"; "T:fmt::Debug"] /\
  bounds_of "Drop for GenericArrayIter<T,N>" = Some ["N:ArrayLength"] /\
  bounds_of "Clone for GenericArrayIter<T,N>" = Some ["N:ArrayLength"; "T:Clone"] /\
  bounds_of "Iterator for GenericArrayIter<T,N>" = Some ["N:ArrayLength"] /\
  bounds_of "DoubleEndedIterator for GenericArrayIter<T,N>" = Some ["N:ArrayLength"] /\
  bounds_of "ExactSizeIterator for GenericArrayIter<T,N>" = Some ["N:ArrayLength"] /\
  bounds_of "FusedIterator for GenericArrayIter<T,N>" = Some ["N:ArrayLength"].
Proof. repeat split. Qed.

(* ---- T3: fold, rfold and clone of GenericArrayIter as they stand in src/iter.rs (regenerated: coq/gen/GenPipe.v
        gen_iter_fold / gen_iter_rfold / gen_iter_clone, interpreted by Pipe.v).  [a] is the window of elements still
        to come.  fold visits exactly these, once each, front to back, and hands each of them to the caller's function;
        rfold visits them back to front; a clone holds the images of exactly these elements under Clone::clone, in
        order, and nothing of the original is moved or dropped -- for every length, every element type. ---- *)
From GA Require Import Builder Functional FunctionalProofs Pipe PipeTie.
From GAGen Require Import GenPipe.

Theorem C06_source_iter_fold : forall f g a so nd init,
  let '(o, m, t, c) := run_fold [a] so f g None (pipe_of gen_iter_fold nd) (List.length a) init in
  o = FoldOk (fold_acc g 0 init a) /\ List.concat c = a /\ (m ++ t)%list = map EMove a.
Proof. exact src_iter_fold_in_order. Qed.

Theorem C06_source_iter_rfold : forall f g a so nd init,
  let '(o, m, t, c) := run_fold [a] so f g None (pipe_of gen_iter_rfold nd) (List.length a) init in
  o = FoldOk (fold_acc g 0 init (rev a)) /\ List.concat c = rev a.
Proof. exact src_iter_rfold_in_order. Qed.

Theorem C06_source_iter_clone : forall f g nd a,
  run_for_each [a] false f g None (pipe_of gen_iter_clone nd) (List.length a) =
  (Ok (clones_of (fun j x => f j [x]) 0 a), [], [], [], map (fun x => [x]) a).
Proof. exact src_iter_clone_all. Qed.

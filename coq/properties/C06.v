(* C06 -- the by-value iterator behaves as a double-ended, exact-size, fused queue.
   Only statements closed by [exact]; proofs live in theories/IterProofs.v. *)
From GA Require Import Base Iter IterProofs.

(* every finite history of operations on into_iter(a) returns exactly what the
   double-ended queue initialised with a returns, for every length *)
Theorem C06_history : forall (a : list Z) (ops : list op),
  Forall args_ok ops -> run (into_iter a) ops = q_run a ops.
Proof. exact history_refines. Qed.

(* one step from ANY state satisfying the bookkeeping invariant: output, remaining
   elements and invariant (remaining elements = a contiguous range of the slots:
   front and back consumption never overlap or skip) *)
Theorem C06_step : forall s o, Inv s -> args_ok o ->
  let '(v, s') := step s o in
  v = fst (q_step (live s) o) /\ live s' = snd (q_step (live s) o) /\ Inv s'.
Proof. exact step_refines. Qed.

Theorem C06_len : forall s, Inv s -> len s = length (live s).
Proof. exact len_is_remaining. Qed.

Theorem C06_fused : forall s o, Inv s -> args_ok o -> live s = [] ->
  match o with
  | ONext | ONextBack | ONth _ | ONthBack _ =>
      fst (step s o) = VOpt None /\ live (snd (step s o)) = []
  | _ => True end.
Proof. exact fused. Qed.

Theorem C06_clone : forall f s, Inv s ->
  live (clone_it f s) = map f (live s) /\ Inv (clone_it f s).
Proof. exact clone_live. Qed.

Theorem C06_nth_overshoot : forall s n, Inv s -> (Z.of_nat (len s) <= n)%Z ->
  let '(r, s', _, _) := nth_ None s n in r = Ret None /\ live s' = [].
Proof. exact nth_overshoot. Qed.

Theorem C06_no_ub : forall s o, Inv s -> args_ok o -> fst (step s o) <> VUB.
Proof. exact step_no_ub. Qed.

(* C09 -- lengthen / shorten / split / concat / remove equal the corresponding Vec
   operations.  Statements only; proofs in theories/SeqOpsProofs.v.
   Every operation below is the crate's pointer program over the checked
   element-granular memory of SeqOps.v (a failed access is the outcome [Fault]);
   a result [(Ok r, [])] therefore says: r is returned, every read was in bounds and
   initialised, every write in bounds, and no destructor ran. *)
From Coq Require Import Permutation.
From GA Require Import Base SeqOps SeqOpsProofs.

(* append = Vec::push, prepend = Vec::insert(0, _), concat = Vec::extend: every length *)
Theorem C09_append : forall l x, append l x = (Ok (l ++ [x]), []).
Proof. exact append_spec. Qed.

Theorem C09_prepend : forall l x, prepend l x = (Ok (x :: l), []).
Proof. exact prepend_spec. Qed.

Theorem C09_concat : forall l m, concat l m = (Ok (l ++ m), []).
Proof. exact concat_spec. Qed.

(* pop_back = Vec::pop, pop_front = Vec::remove(0): every non-empty array; N = 0 has no impl *)
Theorem C09_pop_back : forall l x, pop_back (l ++ [x]) = (Ok (l, x), []).
Proof. exact pop_back_spec. Qed.

Theorem C09_pop_front : forall l x, pop_front (x :: l) = (Ok (x, l), []).
Proof. exact pop_front_spec. Qed.

Theorem C09_pop_back_vec : forall l r, vec_pop l = Some r -> pop_back l = (Ok r, []).
Proof. exact pop_back_vec. Qed.

Theorem C09_pop_front_vec : forall l r, vec_pop_front l = Some r -> pop_front l = (Ok r, []).
Proof. exact pop_front_vec. Qed.

Theorem C09_pop_empty : pop_back [] = (NoInst, []) /\ pop_front [] = (NoInst, []).
Proof. exact pop_empty. Qed.

(* split at K = split_at(K), for every K <= N (K = 0 and K = N included); K > N does not compile *)
Theorem C09_split : forall K l, K <= length l -> split K l = (Ok (firstn K l, skipn K l), []).
Proof. exact split_spec. Qed.

Theorem C09_split_no_inst : forall K l, length l < K -> split K l = (NoInst, []).
Proof. exact split_no_inst. Qed.

Theorem C09_split_concat_inverse : forall K l, K <= length l ->
  forall h t, split K l = (Ok (h, t), []) -> concat h t = (Ok l, []).
Proof. exact split_concat_inverse. Qed.

(* remove(i) = Vec::remove(i), swap_remove(i) = Vec::swap_remove(i), for every i < N *)
Theorem C09_remove : forall l idx, (0 <= idx < zlen l)%Z ->
  exists r, vec_remove (Z.to_nat idx) l = Some r /\ remove idx l = (Ok r, []).
Proof. exact remove_in_range. Qed.

Theorem C09_swap_remove : forall l idx, (0 <= idx < zlen l)%Z ->
  exists r, vec_swap_remove (Z.to_nat idx) l = Some r /\ swap_remove idx l = (Ok r, []).
Proof. exact swap_remove_in_range. Qed.

Theorem C09_remove_unchecked : forall l idx, (0 <= idx < zlen l)%Z ->
  exists r, vec_remove (Z.to_nat idx) l = Some r /\ remove_unchecked idx l = Ok r.
Proof. exact remove_unchecked_spec. Qed.

Theorem C09_swap_remove_unchecked : forall l idx, (0 <= idx < zlen l)%Z ->
  exists r, vec_swap_remove (Z.to_nat idx) l = Some r /\ swap_remove_unchecked idx l = Ok r.
Proof. exact swap_remove_unchecked_spec. Qed.

(* i >= N (any usize, usize::MAX included): the bounds panic, and the destructor trace is
   exactly one drop per element of the array *)
Theorem C09_remove_out_of_range : forall l idx, l <> [] -> (zlen l <= idx)%Z ->
  remove idx l = (PanicBounds, map EDrop l).
Proof. exact remove_out_of_range. Qed.

Theorem C09_swap_remove_out_of_range : forall l idx, l <> [] -> (zlen l <= idx)%Z ->
  swap_remove idx l = (PanicBounds, map EDrop l).
Proof. exact swap_remove_out_of_range. Qed.

Theorem C09_out_of_range_drops_all : forall l idx, l <> [] -> (zlen l <= idx)%Z ->
  releases (snd (remove idx l)) = l /\ releases (snd (swap_remove idx l)) = l.
Proof. exact out_of_range_drops_all. Qed.

(* N = 0: Sub1<U0> does not exist, there is no Remove impl *)
Theorem C09_remove_empty : forall idx,
  remove idx [] = (NoInst, []) /\ swap_remove idx [] = (NoInst, []).
Proof. exact remove_empty. Qed.

(* no access fails, on any input the code accepts or rejects: in particular no
   "read one element past the array, then discard it" *)
Theorem C09_no_access_fails :
  (forall l x, fst (append l x) <> Fault) /\
  (forall l x, fst (prepend l x) <> Fault) /\
  (forall l, fst (pop_back l) <> Fault) /\
  (forall l, fst (pop_front l) <> Fault) /\
  (forall K l, fst (split K l) <> Fault) /\
  (forall l m, fst (concat l m) <> Fault) /\
  (forall l idx, (0 <= idx)%Z -> fst (remove idx l) <> Fault) /\
  (forall l idx, (0 <= idx)%Z -> fst (swap_remove idx l) <> Fault) /\
  (forall l idx, (0 <= idx < zlen l)%Z -> remove_unchecked idx l <> Fault) /\
  (forall l idx, (0 <= idx < zlen l)%Z -> swap_remove_unchecked idx l <> Fault).
Proof. exact no_access_fails. Qed.

(* ownership: the removed value plus the shortened array is a permutation of the input
   (every source cell moved out exactly once: no duplication, no loss), no destructor runs *)
Theorem C09_remove_moves_each_once : forall l idx x rest e, (0 <= idx)%Z ->
  remove idx l = (Ok (x, rest), e) -> Permutation (x :: rest) l /\ e = [].
Proof. exact remove_moves_each_once. Qed.

Theorem C09_swap_remove_moves_each_once : forall l idx x rest e, (0 <= idx)%Z ->
  swap_remove idx l = (Ok (x, rest), e) -> Permutation (x :: rest) l /\ e = [].
Proof. exact swap_remove_moves_each_once. Qed.

Theorem C09_shorten_split_conserve :
  (forall l init x e, pop_back l = (Ok (init, x), e) -> init ++ [x] = l /\ e = []) /\
  (forall l x tail e, pop_front l = (Ok (x, tail), e) -> x :: tail = l /\ e = []) /\
  (forall K l h t e, split K l = (Ok (h, t), e) -> h ++ t = l /\ e = []).
Proof. exact shorten_split_conserve. Qed.

(* the copy count N - idx - 1 does not underflow under the bounds assert -- and would without it *)
Theorem C09_remove_count : forall N idx, (0 <= idx < N)%Z ->
  remove_count N idx = Some (N - idx - 1)%Z /\ (0 <= N - idx - 1)%Z.
Proof. exact remove_count_ok. Qed.

Theorem C09_remove_count_underflow : forall N idx, (N <= idx)%Z -> remove_count N idx = None.
Proof. exact remove_count_underflow. Qed.

(* by-reference split: the halves start at the source's first element, are adjacent
   (hence disjoint) and cover it ... *)
Theorem C09_split_ref : forall N K, K <= N -> split_ref N K = Ok ((0, K), (K, N - K)).
Proof. exact split_ref_spec. Qed.

Theorem C09_split_ref_geometry : forall N K h t, split_ref N K = Ok (h, t) ->
  fst h = 0 /\ snd h = K /\ fst h + snd h = fst t /\ fst t + snd t = N /\ K <= N.
Proof. exact split_ref_geometry. Qed.

(* ... they show the source's own cells (split_ref has no memory effect: nothing is copied) ... *)
Theorem C09_split_ref_contents : forall K l h t, split_ref (length l) K = Ok (h, t) ->
  view_read (of_list l) h = Some (firstn K l) /\ view_read (of_list l) t = Some (skipn K l).
Proof. exact split_ref_contents. Qed.

(* ... and the two exclusive references do not interfere *)
Theorem C09_split_ref_frame : forall K l h t hs ts, split_ref (length l) K = Ok (h, t) ->
  length hs = K -> length ts = length l - K ->
  exists b1, view_write (of_list l) h hs = Some b1 /\
             view_read b1 t = Some (skipn K l) /\
             view_write b1 t ts = Some (of_list (hs ++ ts)).
Proof. exact split_ref_frame. Qed.

(* ---- tie to the current source: regenerated on every run by tools/ga2coq (coq/gen) ---- *)
From Coq Require Import String.
From GA Require Import Guards GuardTieRemove.
From GAGen Require Import GenGuards GenConstFns.
Local Open Scope Z_scope.

(* remove / swap_remove as they stand in src/sequence.rs now: the bounds assert lets exactly
   idx < N through (panicking otherwise) and the shift count is N - idx - 1 *)
Theorem C09_source_remove_guard : forall idx N,
  rejects remove_guard (env1 "idx" idx) N = negb (idx <? N) /\ fails_by_panic remove_guard = true /\
  rejects swap_remove_guard (env1 "idx" idx) N = negb (idx <? N) /\ fails_by_panic swap_remove_guard = true.
Proof. exact tie_remove_guard. Qed.

Theorem C09_source_remove_count : forall idx N,
  SeqOps.remove_count N idx =
  (if (idx <=? N) && (1 <=? N - idx) then Some (geval (env1 "idx" idx) N remove_copy_count) else None).
Proof. exact tie_remove_count. Qed.

(* ---- tier T3: the BODIES of append / prepend / pop_back / pop_front / split (owned, &, &mut) /
   concat / remove_unchecked / swap_remove_unchecked / remove / swap_remove as tools/ga2coq
   regenerates them from src/sequence.rs on every run (coq/gen/GenSeq.v: typed straight-line
   pointer programs, every `as _` resolved from the declared types), run by the interpreter of
   PtrProg.v over the bounds- and initialisation-checked memory, ARE the hub functions the
   theorems above are about ... ---- *)
From GA Require Import PtrProg PtrTie.
From GAGen Require Import GenSeq.
Import Coq.Lists.List GA.SeqOps.   (* append, concat, length: the sequence operations, not the string ones *)
Local Open Scope nat_scope.
Local Open Scope string_scope.

Theorem C09_source_prog_lengthen : forall l x k,
  run gen_append (Datatypes.length l) k [("self", VArr l); ("last", VElem x)] = rmap (fun r => [VArr r]) (append l x) /\
  run gen_prepend (Datatypes.length l) k [("self", VArr l); ("first", VElem x)] = rmap (fun r => [VArr r]) (prepend l x).
Proof. exact (fun l x k => conj (tie_append l x k) (tie_prepend l x k)). Qed.

Theorem C09_source_prog_shorten : forall l k,
  run gen_pop_back (Datatypes.length l) k [("self", VArr l)] = rmap (fun p => [VArr (fst p); VElem (snd p)]) (pop_back l) /\
  run gen_pop_front (Datatypes.length l) k [("self", VArr l)] = rmap (fun p => [VElem (fst p); VArr (snd p)]) (pop_front l).
Proof. exact (fun l k => conj (tie_pop_back l k) (tie_pop_front l k)). Qed.

Theorem C09_source_prog_split : forall K l,
  run gen_split (Datatypes.length l) K [("self", VArr l)] = rmap (fun p => [VArr (fst p); VArr (snd p)]) (split K l) /\
  run gen_split_ref (Datatypes.length l) K [("self", VArr l)] =
    (omap (fun p => [VView (fst p); VView (snd p)]) (split_ref (Datatypes.length l) K), []) /\
  run gen_split_mut (Datatypes.length l) K [("self", VArr l)] =
    (omap (fun p => [VView (fst p); VView (snd p)]) (split_ref (Datatypes.length l) K), []).
Proof. exact (fun K l => conj (tie_split K l) (conj (tie_split_ref K l) (tie_split_mut K l))). Qed.

Theorem C09_source_prog_concat : forall l m,
  run gen_concat (Datatypes.length l) (Datatypes.length m) [("self", VArr l); ("rest", VArr m)] = rmap (fun r => [VArr r]) (concat l m).
Proof. exact tie_concat. Qed.

Theorem C09_source_prog_remove_unchecked : forall idx l k, (0 <= idx)%Z ->
  run gen_remove_unchecked (Datatypes.length l) k [("self", VArr l); ("idx", VUsize idx)] =
    (omap rm_out (remove_unchecked idx l), []) /\
  run gen_swap_remove_unchecked (Datatypes.length l) k [("self", VArr l); ("idx", VUsize idx)] =
    (omap rm_out (swap_remove_unchecked idx l), []).
Proof. exact (fun idx l k H => conj (tie_remove_unchecked idx l k H) (tie_swap_remove_unchecked idx l k H)). Qed.

Theorem C09_source_prog_remove : forall idx l k, (0 <= idx)%Z ->
  run_tail gen_remove "remove_unchecked" gen_remove_unchecked (Datatypes.length l) k
    [("self", VArr l); ("idx", VUsize idx)] = rmap rm_out (remove idx l) /\
  run_tail gen_swap_remove "swap_remove_unchecked" gen_swap_remove_unchecked (Datatypes.length l) k
    [("self", VArr l); ("idx", VUsize idx)] = rmap rm_out (swap_remove idx l).
Proof. exact (fun idx l k H => conj (tie_remove idx l k H) (tie_swap_remove idx l k H)). Qed.

(* ... so the regenerated programs themselves compute the Vec operations, for every array,
   element and position: *)
Theorem C09_source_append_is_push : forall l x k,
  run gen_append (Datatypes.length l) k [("self", VArr l); ("last", VElem x)] = (Ok [VArr (l ++ [x])], []).
Proof. exact src_append. Qed.

Theorem C09_source_prepend_is_insert0 : forall l x k,
  run gen_prepend (Datatypes.length l) k [("self", VArr l); ("first", VElem x)] = (Ok [VArr (x :: l)], []).
Proof. exact src_prepend. Qed.

Theorem C09_source_concat_is_extend : forall l m,
  run gen_concat (Datatypes.length l) (Datatypes.length m) [("self", VArr l); ("rest", VArr m)] = (Ok [VArr (l ++ m)], []).
Proof. exact src_concat. Qed.

Theorem C09_source_pop_back_is_pop : forall l x k,
  run gen_pop_back (Datatypes.length (l ++ [x])) k [("self", VArr (l ++ [x]))] = (Ok [VArr l; VElem x], []).
Proof. exact src_pop_back. Qed.

Theorem C09_source_pop_front_is_remove0 : forall l x k,
  run gen_pop_front (Datatypes.length (x :: l)) k [("self", VArr (x :: l))] = (Ok [VElem x; VArr l], []).
Proof. exact src_pop_front. Qed.

Theorem C09_source_split_is_split_off : forall K l, K <= Datatypes.length l ->
  run gen_split (Datatypes.length l) K [("self", VArr l)] = (Ok [VArr (firstn K l); VArr (skipn K l)], []).
Proof. exact src_split. Qed.

Theorem C09_source_split_ref_views : forall K l, K <= Datatypes.length l ->
  run gen_split_ref (Datatypes.length l) K [("self", VArr l)] = (Ok [VView (0, K); VView (K, Datatypes.length l - K)], []) /\
  run gen_split_mut (Datatypes.length l) K [("self", VArr l)] = (Ok [VView (0, K); VView (K, Datatypes.length l - K)], []).
Proof. exact src_split_ref. Qed.

Theorem C09_source_remove_is_vec_remove : forall l idx k, (0 <= idx < zlen l)%Z ->
  exists r, vec_remove (Z.to_nat idx) l = Some r /\
  run_tail gen_remove "remove_unchecked" gen_remove_unchecked (Datatypes.length l) k
    [("self", VArr l); ("idx", VUsize idx)] = (Ok (rm_out r), []).
Proof. exact src_remove. Qed.

Theorem C09_source_swap_remove_is_vec_swap_remove : forall l idx k, (0 <= idx < zlen l)%Z ->
  exists r, vec_swap_remove (Z.to_nat idx) l = Some r /\
  run_tail gen_swap_remove "swap_remove_unchecked" gen_swap_remove_unchecked (Datatypes.length l) k
    [("self", VArr l); ("idx", VUsize idx)] = (Ok (rm_out r), []).
Proof. exact src_swap_remove. Qed.

Theorem C09_source_out_of_range_panics_dropping_all : forall l idx k, l <> [] -> (zlen l <= idx)%Z ->
  run_tail gen_remove "remove_unchecked" gen_remove_unchecked (Datatypes.length l) k
    [("self", VArr l); ("idx", VUsize idx)] = (PanicBounds, map EDrop l) /\
  run_tail gen_swap_remove "swap_remove_unchecked" gen_swap_remove_unchecked (Datatypes.length l) k
    [("self", VArr l); ("idx", VUsize idx)] = (PanicBounds, map EDrop l).
Proof. exact src_remove_out_of_range. Qed.

(* ---- T1: which trait methods are implemented (coq/gen/GenSigs.v gen_impl_methods) ---- *)
From Coq Require Import String.
From GA Require Import SigDefs.
From GAGen Require Import GenSigs.
Local Open Scope string_scope.

(* the sequence-trait methods the array defines itself (regenerated): remove and swap_remove are the trait's provided methods (assert + unchecked form) *)
Theorem C09_source_impl_methods :
  methods_of "Lengthen<T> for GenericArray<T,N>" = Some ["append"; "prepend"] /\
  methods_of "Shorten<T> for GenericArray<T,N>" = Some ["pop_back"; "pop_front"] /\
  methods_of "Split<T,K> for GenericArray<T,N>" = Some ["split"] /\
  methods_of "Concat<T,M> for GenericArray<T,N>" = Some ["concat"] /\
  methods_of "Remove<T,N> for GenericArray<T,N>" = Some ["remove_unchecked"; "swap_remove_unchecked"].
Proof. repeat split. Qed.


(* ---- T2: the bounds of the trait impls this property's operations come from, as they stand in the source now
        (coq/gen/GenSigs.v gen_impl_bounds): code that is generic over the lengths / element type and states
        exactly these bounds can call them ---- *)
From Coq Require Import String.
From GA Require Import SigDefs.
From GAGen Require Import GenSigs.
Local Open Scope string_scope.

Theorem C09_source_impl_bounds :
  bounds_of "unsafe Lengthen<T> for GenericArray<T,N>" = Some ["Add1<N>:ArrayLength"; "Add1<N>:Sub<B1,Output=N>"; "N:Add<B1>"; "N:ArrayLength"; "Sub1<Add1<N>>:ArrayLength"] /\
  bounds_of "unsafe Shorten<T> for GenericArray<T,N>" = Some ["Add1<Sub1<N>>:ArrayLength"; "N:ArrayLength"; "N:Sub<B1>"; "Sub1<N>:Add<B1,Output=N>"; "Sub1<N>:ArrayLength"] /\
  bounds_of "unsafe Split<T,K> for GenericArray<T,N>" = Some ["Diff<N,K>:ArrayLength"; "K:ArrayLength"; "N:ArrayLength"; "N:Sub<K>"] /\
  bounds_of "unsafe Split<T,K> for &GenericArray<T,N>" = Some ["Diff<N,K>:ArrayLength"; "K:ArrayLength"; "N:ArrayLength"; "N:Sub<K>"] /\
  bounds_of "unsafe Split<T,K> for &mutGenericArray<T,N>" = Some ["Diff<N,K>:ArrayLength"; "K:ArrayLength"; "N:ArrayLength"; "N:Sub<K>"] /\
  bounds_of "unsafe Concat<T,M> for GenericArray<T,N>" = Some ["M:ArrayLength"; "N:Add<M>"; "N:ArrayLength"; "Sum<N,M>:ArrayLength"] /\
  bounds_of "unsafe Remove<T,N> for GenericArray<T,N>" = Some ["N:ArrayLength"; "N:Sub<B1>"; "Sub1<N>:ArrayLength"].
Proof. repeat split. Qed.

(* ---- T1: what the traits of this property declare in the source now (coq/gen/GenSigs.v gen_trait_headers):
        supertraits, parameter bounds, associated types with their bounds and method signatures -- code generic over one of
        these traits can state exactly these bounds and rely on exactly these result types ---- *)
From Coq Require Import String.
From GA Require Import SigDefs.
From GAGen Require Import GenSigs.
Local Open Scope string_scope.

Theorem C09_source_trait_headers :
  trait_header_of "pub unsafe trait Lengthen<T>" = Some ["Self:GenericSequence<T>"; "Self:Sized"; "fn append (self , last : T) -> Self :: Longer"; "fn prepend (self , first : T) -> Self :: Longer"; "type Longer:Shorten<T,Shorter=Self>"] /\
  trait_header_of "pub unsafe trait Shorten<T>" = Some ["Self:GenericSequence<T>"; "Self:Sized"; "fn pop_back (self) -> (Self :: Shorter , T)"; "fn pop_front (self) -> (T , Self :: Shorter)"; "type Shorter:Lengthen<T,Longer=Self>"] /\
  trait_header_of "pub unsafe trait Split<T,K>" = Some ["K:ArrayLength"; "Self:GenericSequence<T>"; "fn split (self) -> (Self :: First , Self :: Second)"; "type First:GenericSequence<T>"; "type Second:GenericSequence<T>"] /\
  trait_header_of "pub unsafe trait Concat<T,M>" = Some ["M:ArrayLength"; "Self:GenericSequence<T>"; "fn concat (self , rest : Self :: Rest) -> Self :: Output"; "type Output:GenericSequence<T>"; "type Rest:GenericSequence<T,Length=M>"] /\
  trait_header_of "pub unsafe trait Remove<T,N>" = Some ["N:ArrayLength"; "Self:GenericSequence<T>"; "fn remove (self , idx : usize) -> (T , Self :: Output) {default}"; "fn swap_remove (self , idx : usize) -> (T , Self :: Output) {default}"; "type Output:GenericSequence<T>"; "unsafe fn remove_unchecked (self , idx : usize) -> (T , Self :: Output)"; "unsafe fn swap_remove_unchecked (self , idx : usize) -> (T , Self :: Output)"].
Proof. repeat split. Qed.

(* C13 -- comparison, hashing and Debug of GenericArray agree with the slice of the
   same elements; a key is found in a map through its Borrow<[T]> form.
   Only statements closed by [exact]; proofs live in theories/CmpHashProofs.v.
   [storage a] = the elements of the array a (any length); the element type is any
   type T with its own ==, partial_cmp (PARTIAL: option comparison), cmp, hash
   feed and Debug function. *)
From GA Require Import Base CmpHash CmpHashProofs.

(* ---- the impls of src/impls.rs return what the slice specification returns ---- *)

Theorem C13_eq : forall T (eqT : T -> T -> bool) (a b : garr T),
  ga_eq eqT a b = slice_eq eqT (storage a) (storage b) /\
  ga_ne eqT a b = slice_ne eqT (storage a) (storage b).
Proof. exact @ga_eq_slice. Qed.

Theorem C13_partial_cmp : forall T (pcmpT : T -> T -> option comparison) (a b : garr T),
  ga_partial_cmp pcmpT a b = slice_partial_cmp pcmpT (storage a) (storage b) /\
  ga_lt pcmpT a b = is_lt (slice_partial_cmp pcmpT (storage a) (storage b)) /\
  ga_le pcmpT a b = is_le (slice_partial_cmp pcmpT (storage a) (storage b)) /\
  ga_gt pcmpT a b = is_gt (slice_partial_cmp pcmpT (storage a) (storage b)) /\
  ga_ge pcmpT a b = is_ge (slice_partial_cmp pcmpT (storage a) (storage b)).
Proof. exact @ga_partial_cmp_slice. Qed.

Theorem C13_cmp : forall T (cmpT : T -> T -> comparison) (a b : garr T),
  ga_cmp cmpT a b = slice_cmp cmpT (storage a) (storage b).
Proof. exact @ga_cmp_slice. Qed.

(* the hasher receives exactly the calls the slice makes: length prefix, then hash_slice *)
Theorem C13_hash : forall T (h : hasht T) (a : garr T),
  ga_hash h a = slice_hash h (storage a).
Proof. exact @ga_hash_slice. Qed.

(* under any format flags *)
Theorem C13_debug : forall T (dbgT : fmtspec -> T -> list Z) (f : fmtspec) (a : garr T),
  ga_debug dbgT f a = slice_debug dbgT f (storage a).
Proof. exact @ga_debug_slice. Qed.

Theorem C13_views : forall T (a : garr T),
  ga_borrow a = storage a /\ ga_borrow_mut a = storage a /\
  ga_as_ref a = storage a /\ ga_as_mut a = storage a /\ deref a = storage a.
Proof. exact @ga_views. Qed.

(* ---- consequently: lookups through the Borrow<[T]> form ---- *)

(* HashMap (entries placed by the key's own hash feed, recognised by ==): querying by
   the slice k.borrow() -- hashed and compared as a SLICE -- is querying by k *)
Theorem C13_lookup_hash : forall T V (eqT : T -> T -> bool) (h : hasht T) (m : list (garr T * V)) (k : garr T),
  hm_get_slice eqT h m (ga_borrow k) = hm_get_key eqT h m k.
Proof. exact @hm_lookup_borrow. Qed.

Theorem C13_lookup_ord : forall T V (cmpT : T -> T -> comparison) (m : list (garr T * V)) (k : garr T),
  bt_get_slice cmpT m (ga_borrow k) = bt_get_key cmpT m k.
Proof. exact @bt_lookup_borrow. Qed.

(* a key that is in the map is found through its slice form (Eq contract on its elements) *)
Theorem C13_found_hash : forall T V (eqT : T -> T -> bool) (h : hasht T) (m : list (garr T * V)) k v,
  Forall (fun x => eqT x x = true) (storage k) -> In (k, v) m ->
  exists e, hm_get_slice eqT h m (ga_borrow k) = Some e /\ ga_eq eqT (fst e) k = true.
Proof. exact @hm_found. Qed.

Theorem C13_found_ord : forall T V (cmpT : T -> T -> comparison) (m : list (garr T * V)) k v,
  slice_cmp cmpT (storage k) (storage k) = Eq -> In (k, v) m ->
  exists e, bt_get_slice cmpT m (ga_borrow k) = Some e /\ ga_cmp cmpT (fst e) k = Eq.
Proof. exact @bt_found. Qed.

(* insert(k, v) then get(k.borrow()) yields v *)
Theorem C13_insert_get_hash : forall T V (eqT : T -> T -> bool) (h : hasht T) (m : list (garr T * V)) k (v : V),
  Forall (fun x => eqT x x = true) (storage k) ->
  exists k', hm_get_slice eqT h (hm_insert eqT h m k v) (ga_borrow k) = Some (k', v)
             /\ ga_eq eqT k' k = true.
Proof. exact @hm_insert_get. Qed.

Theorem C13_insert_get_ord : forall T V (cmpT : T -> T -> comparison) (m : list (garr T * V)) k (v : V),
  slice_cmp cmpT (storage k) (storage k) = Eq ->
  exists k', bt_get_slice cmpT (bt_insert cmpT m k v) (ga_borrow k) = Some (k', v)
             /\ ga_cmp cmpT k' k = Eq.
Proof. exact @bt_insert_get. Qed.

(* ---- what the slice specification means ---- *)

Theorem C13_spec_eq : forall T (eqT : T -> T -> bool) (a b : list T),
  slice_eq eqT a b = true <-> Forall2 (fun x y => eqT x y = true) a b.
Proof. exact @slice_eq_Forall2. Qed.

(* an array containing an element that is not equal to itself (NaN) is not equal to itself *)
Theorem C13_spec_eq_irrefl : forall T (eqT : T -> T -> bool) (a : list T) x,
  In x a -> eqT x x = false -> slice_eq eqT a a = false.
Proof. exact @slice_eq_irrefl. Qed.

(* lexicographic: after element-wise Equal prefixes the first pair that is not Some Equal
   decides -- including None for an incomparable pair -- whatever follows *)
Theorem C13_spec_first_difference : forall T (pcmpT : T -> T -> option comparison) p q x y r r',
  Forall2 (EqR pcmpT) p q -> pcmpT x y <> Some Eq ->
  slice_partial_cmp pcmpT (p ++ x :: r) (q ++ y :: r') = pcmpT x y.
Proof. exact @pcmp_first_difference. Qed.

(* the general slice rule: a proper prefix is Less; element-wise Equal is Equal *)
Theorem C13_spec_prefix : forall T (pcmpT : T -> T -> option comparison) p q z r,
  Forall2 (EqR pcmpT) p q ->
  slice_partial_cmp pcmpT p (q ++ z :: r) = Some Lt /\
  slice_partial_cmp pcmpT (p ++ z :: r) q = Some Gt /\
  slice_partial_cmp pcmpT p q = Some Eq.
Proof.
  exact (fun T pcmpT p q z r H =>
    conj (pcmp_prefix_lt pcmpT p q z r H)
      (conj (pcmp_prefix_gt pcmpT p q z r H) (pcmp_all_equal pcmpT p q H))).
Qed.

(* every pair of slices has one of the four shapes, so the two theorems above
   determine partial_cmp completely *)
Theorem C13_spec_shapes : forall T (pcmpT : T -> T -> option comparison) (a b : list T),
  exists p q, Forall2 (EqR pcmpT) p q /\
    ((a = p /\ b = q) \/
     (a = p /\ exists y r, b = q ++ y :: r) \/
     (b = q /\ exists x r, a = p ++ x :: r) \/
     (exists x y r r', a = p ++ x :: r /\ b = q ++ y :: r' /\ pcmpT x y <> Some Eq)).
Proof. exact @pcmp_shapes. Qed.

(* arrays of the same type have equal lengths: the length tie-break never decides *)
Theorem C13_spec_same_length : forall T (pcmpT : T -> T -> option comparison) (a b : list T),
  length a = length b ->
  slice_partial_cmp pcmpT a b = match pcmp_loop pcmpT a b with Some r => r | None => Some Eq end.
Proof. exact @pcmp_same_length. Qed.

Theorem C13_spec_lt_is_lex : forall T (pcmpT : T -> T -> option comparison) (a b : list T),
  slice_partial_cmp pcmpT a b = Some Lt <->
  lex_lt (fun x y => pcmpT x y = Some Lt) (EqR pcmpT) a b.
Proof. exact @pcmp_lt_lex. Qed.

(* == is partial_cmp = Some Equal, if it is so for the elements *)
Theorem C13_spec_eq_pcmp : forall T (eqT : T -> T -> bool) (pcmpT : T -> T -> option comparison),
  (forall x y, eqT x y = true <-> pcmpT x y = Some Eq) ->
  forall a b, slice_eq eqT a b = true <-> slice_partial_cmp pcmpT a b = Some Eq.
Proof. exact @slice_eq_iff_pcmp_eq. Qed.

(* partial_cmp is Some(cmp), if it is so for the elements *)
Theorem C13_spec_pcmp_cmp : forall T (pcmpT : T -> T -> option comparison) (cmpT : T -> T -> comparison) (a b : list T),
  (forall x y, pcmpT x y = Some (cmpT x y)) ->
  slice_partial_cmp pcmpT a b = Some (slice_cmp cmpT a b).
Proof. exact @slice_pcmp_is_cmp. Qed.

Theorem C13_spec_antisym : forall T (pcmpT : T -> T -> option comparison) (a b : list T),
  (forall x y, pcmpT y x = opp_opt (pcmpT x y)) ->
  slice_partial_cmp pcmpT b a = opp_opt (slice_partial_cmp pcmpT a b).
Proof. exact @slice_pcmp_antisym. Qed.

Theorem C13_spec_cmp_antisym : forall T (cmpT : T -> T -> comparison) (a b : list T),
  (forall x y, cmpT y x = CompOpp (cmpT x y)) ->
  slice_cmp cmpT b a = CompOpp (slice_cmp cmpT a b).
Proof. exact @slice_cmp_antisym. Qed.

Theorem C13_spec_cmp_eq : forall T (cmpT : T -> T -> comparison) (a b : list T),
  slice_cmp cmpT a b = Eq <-> Forall2 (fun x y => cmpT x y = Eq) a b.
Proof. exact @cmp_eq_pointwise. Qed.

Theorem C13_spec_cmp_trans : forall T (cmpT : T -> T -> comparison),
  (forall x y z, cmpT x y = Lt -> cmpT y z = Lt -> cmpT x z = Lt) ->
  (forall x y z, cmpT x y = Eq -> cmpT y z = Eq -> cmpT x z = Eq) ->
  (forall x y z, cmpT x y = Eq -> cmpT y z = Lt -> cmpT x z = Lt) ->
  (forall x y z, cmpT x y = Lt -> cmpT y z = Eq -> cmpT x z = Lt) ->
  forall a b c, slice_cmp cmpT a b = Lt -> slice_cmp cmpT b c = Lt -> slice_cmp cmpT a c = Lt.
Proof. exact @slice_cmp_lt_trans. Qed.

(* the length prefix: equal feeds come from slices of equal length *)
Theorem C13_spec_hash_length : forall T (h : hasht T) (a b : list T),
  slice_hash h a = slice_hash h b -> length a = length b.
Proof. exact @slice_hash_length. Qed.

(* ---- the statement discriminates: an impl hashing without the length prefix
   never feeds what the slice feeds ---- *)
Theorem C13_noprefix_refuted : forall T (h : hasht T) (a : garr T),
  ga_hash_noprefix h a <> slice_hash h (storage a).
Proof. exact @noprefix_refuted. Qed.

(* ---- tie to the current source (tools/ga2coq, coq/gen/GenDeleg.v): the bodies of the trait
        impls as they stand in the source now are the delegations the model implements ---- *)
From Coq Require Import String.
From GA Require Import Deleg.
From GAGen Require Import GenDeleg.
Local Open Scope string_scope.
Theorem C13_source_delegations :
  lookup "PartialEq::eq" gen_delegations = Some (DBinOp "==" (VDeref "self") (VDeref "other")) /\
  lookup "PartialOrd::partial_cmp" gen_delegations =
    Some (DCall "PartialOrd::partial_cmp" [VAsSlice "self"; VAsSlice "other"]) /\
  lookup "Ord::cmp" gen_delegations = Some (DCall "Ord::cmp" [VAsSlice "self"; VAsSlice "other"]) /\
  lookup "Hash::hash" gen_delegations = Some (DCall "Hash::hash" [VAsSlice "self"; VArg "state"]) /\
  lookup "Debug::fmt" gen_delegations = Some (DMethod (VAsSlice "self") "fmt" [VArg "fmt"]) /\
  lookup "Borrow<[T]>::borrow" gen_delegations = Some (DView (VAsSlice "self")) /\
  lookup "BorrowMut<[T]>::borrow_mut" gen_delegations = Some (DView (VAsMutSlice "self")) /\
  lookup "AsRef<[T]>::as_ref" gen_delegations = Some (DView (VAsSlice "self")) /\
  lookup "AsMut<[T]>::as_mut" gen_delegations = Some (DView (VAsMutSlice "self")).
Proof. repeat split. Qed.

(* ---- T1: which trait methods are implemented (coq/gen/GenSigs.v gen_impl_methods) ---- *)
From Coq Require Import String.
From GA Require Import SigDefs.
From GAGen Require Import GenSigs.
Local Open Scope string_scope.

(* the comparison / hashing / formatting methods the array defines itself (regenerated): ne, lt, le, gt, ge, max, min, clamp, hash_slice are the standard library's defaults over eq / partial_cmp / cmp / hash *)
Theorem C13_source_impl_methods :
  methods_of "PartialEq for GenericArray<T,N>" = Some ["eq"] /\
  methods_of "Eq for GenericArray<T,N>" = Some [] /\
  methods_of "PartialOrd for GenericArray<T,N>" = Some ["partial_cmp"] /\
  methods_of "Ord for GenericArray<T,N>" = Some ["cmp"] /\
  methods_of "Hash for GenericArray<T,N>" = Some ["hash"] /\
  methods_of "Debug for GenericArray<T,N>" = Some ["fmt"].
Proof. repeat split. Qed.


(* each of these impls exists for exactly the element types that have the trait (regenerated bounds) *)
Theorem C13_source_impl_bounds :
  Forall (fun tr => bounds_of (tr ++ " for GenericArray<T,N>") = Some ["N:ArrayLength"; ("T:" ++ tr)%string])
         ["Default"; "Clone"; "PartialEq"; "Eq"; "PartialOrd"; "Ord"; "Debug"; "Hash"].
Proof. repeat constructor. Qed.

(* ---- T1: the one-expression bodies this property's code consists of besides the modelled core, as they stand
        in the source now (coq/gen/GenSigs.v gen_thin_bodies) ---- *)
From Coq Require Import String.
From GA Require Import SigDefs.
From GAGen Require Import GenSigs.
Local Open Scope string_scope.

Theorem C13_source_thin_bodies :
  thin_of "PartialEq for GenericArray<T,N>" "eq" = Some "* * self == * * other" /\
  thin_of "PartialOrd for GenericArray<T,N>" "partial_cmp" = Some "PartialOrd :: partial_cmp (self . as_slice () , other . as_slice ())" /\
  thin_of "Ord for GenericArray<T,N>" "cmp" = Some "Ord :: cmp (self . as_slice () , other . as_slice ())" /\
  thin_of "Debug for GenericArray<T,N>" "fmt" = Some "self . as_slice () . fmt (fmt)" /\
  thin_of "Hash for GenericArray<T,N>" "hash" = Some "Hash :: hash (self . as_slice () , state)".
Proof. repeat split. Qed.

(* the ONLY impls of Borrow / BorrowMut / AsRef / AsMut / Hash / Debug for (or from) array types are these
   (regenerated headers): a further `Borrow<Q>` form would have to hash like the array to keep map look-ups working *)
Theorem C13_source_view_headers :
  map (fun r => snd (fst r))
      (filter (fun r => (mentions "Borrow" (snd (fst r)) || mentions "AsRef<" (snd (fst r)) || mentions "AsMut<" (snd (fst r))
                         || mentions "Hash for" (snd (fst r)) || mentions "Debug for GenericArray<" (snd (fst r)))%bool) gen_impl_bounds)
  = ["Debug for GenericArray<T,N>"; "Borrow<[T]> for GenericArray<T,N>"; "BorrowMut<[T]> for GenericArray<T,N>";
     "AsRef<[T]> for GenericArray<T,N>"; "AsMut<[T]> for GenericArray<T,N>"; "Hash for GenericArray<T,N>";
     "AsRef<[T;N]> for GenericArray<T,ConstArrayLength<N>>"; "AsMut<[T;N]> for GenericArray<T,ConstArrayLength<N>>"].
Proof. reflexivity. Qed.

(* C05 -- a panicking element destructor never causes a second drop or a stale read.
   Statements only; proofs in theories/IterDropProofs.v. *)
From Coq Require Import Permutation.
From GA Require Import Base Iter IterProofs IterDropProofs.

(* Every history: any array (distinct identities), any sequence of next / next_back /
   nth n / nth_back n (every n, the caller catching every unwind and carrying on),
   finished by dropping the iterator, count() or last(); ANY choice of the one
   element whose destructor panics.  The release events (destructor runs and
   moves to the caller) are a permutation of the array's elements: nothing is
   released twice, nothing is moved out (read) after it was dropped. *)
Theorem C05_exactly_once : forall a ops f bomb,
  NoDup a -> Permutation a (releases (dtrace dstep bomb a ops f)).
Proof. exact no_double_release. Qed.

Corollary C05_no_double : forall a ops f bomb,
  NoDup a -> NoDup (releases (dtrace dstep bomb a ops f)).
Proof. exact no_double_release_NoDup. Qed.

(* the same from every iterator position (front, back) satisfying the invariant *)
Theorem C05_from_any_position : forall s ops f bomb, Inv s ->
  let '(outs, s', b) := drun dstep bomb s ops in
  Permutation (live s) (releases (flat_map snd outs ++ snd (dfinish b s' f))).
Proof. exact no_double_release_from. Qed.

(* discrimination: the order of 614d235 (skipped range dropped before the index
   moves) does NOT satisfy the statement *)
Theorem C05_prefix_order_refuted :
  exists a ops f bomb, NoDup a /\ ~ NoDup (releases (dtrace dstep_buggy bomb a ops f)).
Proof. exact nth_buggy_refuted. Qed.

Theorem C05_prefix_order_back_refuted :
  exists a ops f bomb, NoDup a /\ ~ NoDup (releases (dtrace dstep_buggy bomb a ops f)).
Proof. exact nth_back_buggy_refuted. Qed.

(* C05 -- a panicking element destructor never causes a second drop or a stale read.
   Statements only; proofs in theories/IterDropProofs.v. *)
From Coq Require Import Permutation.
From Coq Require Import String.
From GA Require Import Base Iter IterProofs IterDropProofs MuRust IterTie.
From GAGen Require Import GenIter.

(* Every history: any array (distinct identities), any sequence of next / next_back /
   nth n / nth_back n (every n, the caller catching every unwind and carrying on),
   finished by dropping the iterator, count() or last(); ANY choice of the one
   element whose destructor panics.  The release events (destructor runs and
   moves to the caller) are a permutation of the array's elements: nothing is
   released twice, nothing is moved out (read) after it was dropped. *)
Theorem C05_exactly_once : forall a ops f bomb,
  NoDup a -> Permutation a (releases (dtrace dstep bomb a ops f)).
Proof. exact no_double_release. Qed.

Corollary C05_no_double : forall a ops f bomb,
  NoDup a -> NoDup (releases (dtrace dstep bomb a ops f)).
Proof. exact no_double_release_NoDup. Qed.

(* the same from every iterator position (front, back) satisfying the invariant *)
Theorem C05_from_any_position : forall s ops f bomb, Inv s ->
  let '(outs, s', b) := drun dstep bomb s ops in
  Permutation (live s) (releases (flat_map snd outs ++ snd (dfinish b s' f))).
Proof. exact no_double_release_from. Qed.

(* discrimination: the order of 614d235 (skipped range dropped before the index
   moves) does NOT satisfy the statement *)
Theorem C05_prefix_order_refuted :
  exists a ops f bomb, NoDup a /\ ~ NoDup (releases (dtrace dstep_buggy bomb a ops f)).
Proof. exact nth_buggy_refuted. Qed.

Theorem C05_prefix_order_back_refuted :
  exists a ops f bomb, NoDup a /\ ~ NoDup (releases (dtrace dstep_buggy bomb a ops f)).
Proof. exact nth_back_buggy_refuted. Qed.

(* ---- tie to the current source (regenerated on every run by tools/ga2coq) ----
   The method bodies of /repo/src/iter.rs, translated statement by statement into
   coq/gen/GenIter.v, compute exactly the hub functions the theorems above are about --
   including the order "index moved, then the skipped range dropped" and what is left in
   the iterator when a destructor panics. *)
Theorem C05_source_nth : forall s b n, Inv s -> bounded s -> (0 <= n < two64)%Z ->
  call iter_table DEPTH "nth" [VInt n] (embed s) b = lift4 (nth_ b s n).
Proof. exact tie_nth. Qed.

Theorem C05_source_nth_back : forall s b n, Inv s -> bounded s -> (0 <= n < two64)%Z ->
  call iter_table DEPTH "nth_back" [VInt n] (embed s) b = lift4 (nth_back_ b s n).
Proof. exact tie_nth_back. Qed.

Theorem C05_source_drop : forall s b, Inv s -> bounded s ->
  drop3 (call iter_table DEPTH "drop" [] (embed s) b) =
  (let '(fired, b', e) := drop_it b s in ((if fired then MPanic else MRet VUnit), b', e)).
Proof. exact tie_drop. Qed.

Theorem C05_source_count : forall s b, Inv s -> bounded s ->
  drop3 (call iter_table DEPTH "count" [] (embed s) b) =
  (let '(r, b', e) := count_ b s in
   (match r with Ret n => MRet (VInt (Z.of_nat n)) | Panicked => MPanic | UB => MUB end, b', e)).
Proof. exact tie_count. Qed.

Theorem C05_source_last : forall s b, Inv s -> bounded s ->
  drop3 (call iter_table DEPTH "last" [] (embed s) b) =
  (let '(r, b', e) := last_ b s in (lift_res r, b', e)).
Proof. exact tie_last. Qed.

(* internal.rs: Drop of ArrayBuilder / IntrusiveArrayBuilder releases slots [0, position),
   Drop of ArrayConsumer releases slots [position, N) *)
Theorem C05_source_builder_drop : forall slots0 p b, p <= length slots0 ->
  drop3 (call builder_table DEPTH "drop" [] (with_pos slots0 p) b) =
  (let '(fired, b', e) := drop_list b (firstn p slots0) in ((if fired then MPanic else MRet VUnit), b', e)) /\
  drop3 (call ibuilder_table DEPTH "drop" [] (with_pos slots0 p) b) =
  (let '(fired, b', e) := drop_list b (firstn p slots0) in ((if fired then MPanic else MRet VUnit), b', e)).
Proof. exact tie_builder_drop. Qed.

Theorem C05_source_consumer_drop : forall slots0 p b, p <= length slots0 ->
  drop3 (call consumer_table DEPTH "drop" [] (with_pos slots0 p) b) =
  (let '(fired, b', e) := drop_list b (skipn p slots0) in ((if fired then MPanic else MRet VUnit), b', e)).
Proof. exact tie_consumer_drop. Qed.

(* ---- T1: the destructors and the methods that release elements are the ones modelled: no other method of these
        impls is overridden (coq/gen/GenSigs.v gen_impl_methods) ---- *)
From Coq Require Import String.
From GA Require Import SigDefs.
From GAGen Require Import GenSigs.
Local Open Scope string_scope.

Theorem C05_source_methods :
  methods_of "Drop for GenericArrayIter<T,N>" = Some ["drop"] /\
  methods_of "Clone for GenericArrayIter<T,N>" = Some ["clone"] /\
  methods_of "Iterator for GenericArrayIter<T,N>" = Some ["next"; "fold"; "size_hint"; "count"; "nth"; "last"] /\
  methods_of "DoubleEndedIterator for GenericArrayIter<T,N>" = Some ["next_back"; "rfold"; "nth_back"].
Proof. repeat split. Qed.

(* ---- T3: the INTERMEDIATE values of map / zip / fold and of the iterator's fold / rfold / clone, as regenerated
        (coq/gen/GenPipe.v): an element destructor that panics inside the caller's function (the function drops
        its argument) is a panic of call [pan]; whichever call that is, every element of every owned input and
        every value already produced is released exactly once or returned -- the consumer / builder / iterator
        that unwinding tears down releases exactly what was not yet handed out ---- *)
From Coq Require Permutation.
From GA Require Builder Functional FunctionalProofs Pipe PipeTie.
From GAGen Require GenPipe.

Theorem C05_source_intermediates_accounted : forall f g pan a b so nd init,
  (let '(o, m, t, e, c) := Pipe.run_from_iter [a] so f g pan (PipeTie.pipe_of GenPipe.gen_map nd) (List.length a) in
   Permutation.Permutation
     (a ++ Functional.produced f 0 (firstn (Functional.completed pan (List.length a)) (map (fun x => [x]) a)))%list
     (releases (m ++ t ++ e) ++ match o with Builder.Ok r => r | _ => [] end)%list) /\
  (List.length a = List.length b -> Pipe.nd_eval nd (Pipe.NdOr (Pipe.NdArg 0) (Pipe.NdArg 1)) = true ->
   let '(o, m, t, e, c) := Pipe.run_from_iter [b; a] so f g pan (PipeTie.pipe_of GenPipe.gen_inverted_zip nd) (List.length a) in
   Permutation.Permutation
     (a ++ b ++ Functional.produced f 0 (firstn (Functional.completed pan (List.length a)) (PipeTie.zrows a b)))%list
     (releases (m ++ t ++ e) ++ match o with Builder.Ok r => r | _ => [] end)%list) /\
  (let '(o, m, t, c) := Pipe.run_fold [a] so f g pan (PipeTie.pipe_of GenPipe.gen_fold nd) (List.length a) init in
   releases (m ++ t) = a) /\
  (let '(o, m, t, c) := Pipe.run_fold [a] so f g pan (PipeTie.pipe_of GenPipe.gen_iter_fold nd) (List.length a) init in
   (o, (m ++ t)%list, List.concat c) = Functional.fold_ true g pan init a) /\
  (let '(o, m, t, c) := Pipe.run_fold [a] so f g pan (PipeTie.pipe_of GenPipe.gen_iter_rfold nd) (List.length a) init in
   exists t', Functional.fold_ true g pan init (rev a) = (o, (m ++ t')%list, List.concat c) /\ Permutation.Permutation t t').
Proof.
  exact (fun f g pan a b so nd init =>
    conj (PipeTie.src_map_accounted f g pan a so nd)
    (conj (PipeTie.src_zip_accounted f g pan a b so nd)
    (conj (PipeTie.src_fold_accounted f g pan a so nd init)
    (conj (PipeTie.tie_iter_fold f g pan a so nd init) (PipeTie.tie_iter_rfold f g pan a so nd init))))).
Qed.

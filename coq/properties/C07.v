(* C07 -- collecting from an iterator yields an array only for exactly N items.
   Statements only; proofs in theories/BuilderProofs.v.  The source is an arbitrary
   script: any size hint (possibly lying), not necessarily fused, may panic. *)
From Coq Require Import Permutation.
From GA Require Import Base Builder BuilderProofs.

(* Ok only if the source produced exactly N items and then ended; element i is the
   i-th item; exactly N+1 calls of next(); nothing dropped *)
Theorem C07_ok_only_exact : forall N s a e p,
  try_from_iter N s = (Ok a, e, p) ->
  exact_source N s a /\ e = [] /\ p = S N /\ precheck_reject N s = false.
Proof. exact ok_only_exact. Qed.

(* for a truthful size hint, exactly N items then the end IS accepted *)
Theorem C07_truthful_exact_ok : forall N s a,
  exact_source N s a -> hint_truthful s N -> try_from_iter N s = (Ok a, [], S N).
Proof. exact truthful_exact_is_ok. Qed.

Theorem C07_ok_iff : forall N s,
  (exists a e p, try_from_iter N s = (Ok a, e, p)) <->
  (precheck_reject N s = false /\ exists a, exact_source N s a).
Proof. exact ok_iff. Qed.

(* every other case (no panic in the source): LengthError *)
Theorem C07_otherwise_err : forall N s,
  (forall j, j <= N -> resp s j <> PanicNow) ->
  ~ (precheck_reject N s = false /\ exists a, exact_source N s a) ->
  fst (fst (try_from_iter N s)) = Err.
Proof. exact not_exact_is_err. Qed.

(* a size hint that rules N out: LengthError with zero polls *)
Theorem C07_hint_reject : forall N s,
  precheck_reject N s = true -> try_from_iter N s = (Err, [], 0).
Proof. exact hint_reject_no_poll. Qed.

(* at most N+1 items pulled; polls are consecutive; every poll but the last answered
   an item: never polled again after None (or after a panic) *)
Theorem C07_polls : forall N s, let '(_, _, p) := try_from_iter N s in
  p <= S N /\ forall j, j + 1 < p -> exists y, resp s j = Item y.
Proof. exact polls_bound. Qed.

(* every pulled item is in the returned array or dropped exactly once *)
Theorem C07_pulled_accounted : forall N s, let '(o, e, p) := try_from_iter N s in
  Permutation (pulled (resp s) 0 p) (releases e ++ match o with Ok a => a | _ => [] end).
Proof. exact pulled_accounted. Qed.

(* the boxed form has the same outcome, polls and drops *)
Theorem C07_boxed_same : forall N s, try_boxed_from_iter N s = try_from_iter N s.
Proof. reflexivity. Qed.

(* ---- tie to the current source: regenerated on every run by tools/ga2coq (coq/gen) ---- *)
From Coq Require Import String.
From GA Require Import Guards GuardTieCollect.
From GAGen Require Import GenGuards GenConstFns.
Local Open Scope Z_scope.

(* the two size-hint pre-checks of try_from_iter as they stand in src/lib.rs now are the
   model's precheck_reject *)
Theorem C07_source_prechecks : forall N (s : Builder.src),
  Builder.precheck_reject N s =
  precheck_of try_from_iter_prechecks (Builder.hint_lo s) (Builder.hint_hi s) (Z.of_nat N).
Proof. exact tie_prechecks. Qed.

(* ---- tier T3: the BODIES of IntrusiveArrayBuilder::extend (src/internal.rs), GenericArray::
   try_from_iter (src/lib.rs) and try_boxed_from_iter (src/impl_alloc.rs) as regenerated on every
   run (coq/gen/GenCollect.v: the size-hint arms, the fill with its zip order and closure
   statements, the short-circuit Err condition, the successful ending), executed over an arbitrary
   scripted source by the interpreter of Collect.v, ARE the model's functions: outcome, destructor
   runs and number of next() calls, for every N and every source ---- *)
From GA Require Import Pipe Collect CollectTie.
From GAGen Require Import GenCollect.

Theorem C07_source_try_from_iter : forall N (s : Builder.src),
  run_collect N s gen_extend gen_try_from_iter = Some (try_from_iter N s).
Proof. exact tie_try_from_iter. Qed.

Theorem C07_source_try_boxed_from_iter : forall N (s : Builder.src),
  run_collect N s gen_extend gen_try_boxed_from_iter = Some (try_boxed_from_iter N s).
Proof. exact tie_try_boxed_from_iter. Qed.

(* so of the regenerated functions themselves: an array comes back only for exactly N items *)
Theorem C07_source_ok_only_exact : forall N (s : Builder.src) a e p,
  run_collect N s gen_extend gen_try_from_iter = Some (Ok a, e, p) ->
  exact_source N s a /\ e = [] /\ p = S N /\ precheck_reject N s = false.
Proof.
  intros N s a e p H. rewrite tie_try_from_iter in H. injection H as H.
  exact (ok_only_exact N s a e p H).
Qed.

(* ---- T1: the one-expression bodies this property's code consists of besides the modelled core, as they stand
        in the source now (coq/gen/GenSigs.v gen_thin_bodies) ---- *)
From Coq Require Import String.
From GA Require Import SigDefs.
From GAGen Require Import GenSigs.
Local Open Scope string_scope.

Theorem C07_source_thin_bodies :
  thin_of "FromIterator<T> for GenericArray<T,N>" "from_iter" = Some "match Self :: try_from_iter (iter) { Ok (res) => res , Err (_) => from_iter_length_fail (N :: USIZE) , }" /\
  thin_of "FromIterator<T> for Box<GenericArray<T,N>>" "from_iter" = Some "match GenericArray :: try_boxed_from_iter (iter) { Ok (res) => res , Err (_) => crate :: from_iter_length_fail (N :: USIZE) , }".
Proof. repeat split. Qed.

(* ---- T2: the bounds of the trait impls this property's operations come from, as they stand in the source now
        (coq/gen/GenSigs.v gen_impl_bounds): code that is generic over the lengths / element type and states
        exactly these bounds can call them ---- *)
From Coq Require Import String.
From GA Require Import SigDefs.
From GAGen Require Import GenSigs.
Local Open Scope string_scope.

Theorem C07_source_impl_bounds :
  bounds_of "FromIterator<T> for GenericArray<T,N>" = Some ["N:ArrayLength"] /\
  bounds_of "FromIterator<T> for Box<GenericArray<T,N>>" = Some ["N:ArrayLength"].
Proof. repeat split. Qed.

(* what a wrong number of items looks like to the caller (regenerated): the panic of collect / from_iter names the
   expected count, the error of the try_ forms is LengthError *)
Theorem C07_source_failures :
  thin_of "fn" "from_iter_length_fail" = Some "panic ! (""GenericArray::from_iter expected {length} items"")" /\
  thin_of "core::fmt::Display for LengthError" "fmt" = Some "f . write_str (""LengthError: Slice or iterator does not match GenericArray length"")".
Proof. split; reflexivity. Qed.

(* ---- T1: the signatures of this property's inherent methods / free functions as they stand in the source now
        (coq/gen/GenSigs.v gen_fn_sigs): visibility, const / unsafe, generics, parameters, result, where-clause --
        any `IntoIterator<Item = T>`, `Result<_, LengthError>` ---- *)
From Coq Require Import String.
From GA Require Import SigDefs.
From GAGen Require Import GenSigs.
Local Open Scope string_scope.

Theorem C07_source_signatures :
  sig_of "GenericArray<T,N> where N:ArrayLength" "try_from_iter" = Some "pub fn try_from_iter < I > (iter : I) -> Result < Self , LengthError > where I : IntoIterator < Item = T > ," /\
  sig_of "GenericArray<T,N> where N:ArrayLength" "try_boxed_from_iter" = Some "pub fn try_boxed_from_iter < I > (iter : I) -> Result < Box < GenericArray < T , N > > , LengthError > where I : IntoIterator < Item = T > ,".
Proof. repeat split. Qed.

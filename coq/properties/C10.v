(* C10 -- chunk regrouping partitions a slice exactly, without copying.
   Only statements closed by [exact]; model in theories/Chunks.v, proofs in
   theories/ChunksProofs.v.  Pointers are element offsets into the source
   object; [valid_slice M s]: s = (At p, L) with 0 <= p, 0 <= L < 2^64 and
   p + L <= M, i.e. s is a Rust slice inside an object of M elements. *)
From GA Require Import Base Chunks ChunksProofs.
Local Open Scope Z_scope.

(* floor(L / N) arrays starting where the slice starts, then L mod N elements
   starting right after them, for every L and every N > 0 *)
Theorem C10_values : forall N q L, 0 < N -> 0 <= L < U64 ->
  chunks_from_slice N (mkS q L) =
  Ret (mkC q (L / N), mkS (padd q (L / N * N)) (L mod N)).
Proof. exact chunks_values. Qed.

Theorem C10_floor_mod : forall N s M c r, 0 < N -> valid_slice M s ->
  chunks_from_slice N s = Ret (c, r) ->
  ccnt c = slen s / N /\ slen r = slen s mod N /\
  cptr c = sptr s /\ sptr r = padd (sptr s) (slen s / N * N) /\
  ccnt c * N + slen r = slen s /\ 0 <= slen r < N /\ 0 <= ccnt c.
Proof. exact chunks_floor_mod. Qed.

(* non-vacuity witness: ChunksProofs.ex_floor_mod_ex *)

(* cover exactly / same memory / same order / nothing beyond the end: element k
   of the slice is element k mod N of array k / N, or element k - C*N of the
   remainder; every element of either view is that element of the slice, hence
   inside [p, p+L) and inside the source object *)
Theorem C10_partition : forall N s M c r, 0 < N -> valid_slice M s ->
  chunks_from_slice N s = Ret (c, r) ->
  (forall k x, slice_elem s k x ->
      (k < ccnt c * N /\ chunk_elem N c (k / N) (k mod N) x) \/
      (ccnt c * N <= k /\ slice_elem r (k - ccnt c * N) x))
  /\ (forall i k x, chunk_elem N c i k x -> slice_elem s (i * N + k) x)
  /\ (forall k x, slice_elem r k x -> slice_elem s (ccnt c * N + k) x)
  /\ (forall k x, slice_elem s k x -> 0 <= x < M).
Proof. exact chunks_partition. Qed.

(* non-vacuity witness: ChunksProofs.ex_partition_ex *)

(* no overlap: no element of the source object is reached twice *)
Theorem C10_no_overlap : forall N s M c r, 0 < N -> valid_slice M s ->
  chunks_from_slice N s = Ret (c, r) ->
  (forall i k i' k' x, chunk_elem N c i k x -> chunk_elem N c i' k' x -> i = i' /\ k = k')
  /\ (forall i k k' x, chunk_elem N c i k x -> slice_elem r k' x -> False)
  /\ (forall k k' x, slice_elem r k x -> slice_elem r k' x -> k = k').
Proof. exact chunks_no_overlap. Qed.

(* same order *)
Theorem C10_order : forall N s M c r, 0 < N -> valid_slice M s ->
  chunks_from_slice N s = Ret (c, r) ->
  (forall i k x i' k' x', chunk_elem N c i k x -> chunk_elem N c i' k' x' ->
      (i < i' \/ (i = i' /\ k < k')) -> x < x')
  /\ (forall i k x k' x', chunk_elem N c i k x -> slice_elem r k' x' -> x < x')
  /\ (forall k x k' x', slice_elem r k x -> slice_elem r k' x' -> k < k' -> x < x').
Proof. exact chunks_order. Qed.

(* the multiplication stays below 2^64 and the subtraction does not underflow *)
Theorem C10_arith_side_conditions : forall L N, 0 < N -> 0 <= L < U64 ->
  L / N * N < U64 /\ L / N * N <= L.
Proof. exact arith_side_conditions. Qed.

Theorem C10_no_ub : forall N s, 0 <= N -> 0 <= slen s < U64 -> chunks_from_slice N s <> UB.
Proof. exact chunks_no_ub. Qed.

(* N = 0: the empty slice gives two empty results, any other slice panics *)
Theorem C10_n0_empty : forall q,
  chunks_from_slice 0 (mkS q 0) = Ret (mkC Dangling 0, mkS Dangling 0).
Proof. exact chunks_n0_empty. Qed.

Theorem C10_n0_panics : forall q L, L <> 0 -> chunks_from_slice 0 (mkS q L) = Panicked.
Proof. exact chunks_n0_panics. Qed.

(* slice_from_chunks: same address, C * N elements -- provided C * N < 2^64.
   That side condition is explicit: it follows from the chunk slice being a Rust
   object when the element size is non-zero (C10_product_bound_sized); for a
   zero-sized element type it does not (ChunksProofs.ex_zst_overflow_ex: 2^60 arrays of 16
   zero-sized elements are a legal slice whose product leaves the usize range). *)
Theorem C10_flatten : forall N q C, C * N < U64 ->
  slice_from_chunks N (mkC q C) = Ret (mkS q (C * N)).
Proof. exact flatten_value. Qed.

Theorem C10_flatten_overflow : forall N q C, U64 <= C * N ->
  slice_from_chunks N (mkC q C) = UB.
Proof. exact flatten_overflow. Qed.

Theorem C10_product_bound_sized : forall C N sz, 0 <= C -> 0 <= N -> 0 < sz ->
  C * N * sz <= ISIZE_MAX -> C * N < U64.
Proof. exact product_bound_sized. Qed.

(* non-vacuity witness: ChunksProofs.ex_zst_overflow_ex *)

(* inverse, both ways *)
Theorem C10_inverse_flatten : forall N s M c r, 0 < N -> valid_slice M s ->
  chunks_from_slice N s = Ret (c, r) ->
  exists f, slice_from_chunks N c = Ret f /\ sptr f = sptr s /\
            sptr r = padd (sptr f) (slen f) /\ slen f + slen r = slen s.
Proof. exact inverse_flatten. Qed.

Theorem C10_inverse_chunks : forall N q C, 0 < N -> 0 <= C -> C * N < U64 ->
  slice_from_chunks N (mkC q C) = Ret (mkS q (C * N)) /\
  chunks_from_slice N (mkS q (C * N)) = Ret (mkC q C, mkS (padd q (C * N)) 0).
Proof. exact inverse_chunks. Qed.

(* non-vacuity witness: ChunksProofs.ex_inverse_ex *)

(* from_chunks / into_chunks: same address and count, inverse of each other,
   same contents through either view *)
Theorem C10_from_into : forall c,
  cptr (from_chunks c) = cptr c /\ ccnt (from_chunks c) = ccnt c /\
  cptr (into_chunks c) = cptr c /\ ccnt (into_chunks c) = ccnt c /\
  into_chunks (from_chunks c) = c /\ from_chunks (into_chunks c) = c.
Proof. exact from_into_same. Qed.

Theorem C10_from_into_contents : forall mem N c,
  read_chunks mem N (from_chunks c) = read_chunks mem N c /\
  read_chunks mem N (into_chunks c) = read_chunks mem N c.
Proof. exact from_into_contents. Qed.

(* element level: the arrays read through the chunk view, concatenated, followed
   by the remainder, are the elements of the slice; every array has N elements *)
Theorem C10_contents : forall mem N s c r, 0 < N -> valid_slice (zlen mem) s ->
  chunks_from_slice N s = Ret (c, r) ->
  exists els chs rem,
    read mem s = Some els /\ read_chunks mem N c = Some chs /\ read mem r = Some rem /\
    concat chs ++ rem = els /\
    Forall (fun a => zlen a = N) chs /\ zlen chs = slen s / N /\ zlen rem = slen s mod N.
Proof. exact chunks_contents. Qed.

(* non-vacuity witness: ChunksProofs.ex_contents_ex *)

(* the mutable form: what is written through the chunk view and the remainder
   is what the original slice then holds, in order; nothing outside the slice
   changes (no copy is involved: the views ARE the slice's memory) *)
Theorem C10_write_through : forall mem N s c r vs rv, 0 < N -> valid_slice (zlen mem) s ->
  chunks_from_slice N s = Ret (c, r) ->
  Forall (fun a => zlen a = N) vs -> zlen vs = ccnt c -> zlen rv = slen r ->
  exists p m1 m2,
    sptr s = At p /\
    write_chunks mem N c vs = Some m1 /\ write m1 r rv = Some m2 /\
    read m2 s = Some (concat vs ++ rv) /\ zlen m2 = zlen mem /\
    firstn (Z.to_nat p) m2 = firstn (Z.to_nat p) mem /\
    skipn (Z.to_nat (p + slen s)) m2 = skipn (Z.to_nat (p + slen s)) mem.
Proof. exact chunks_write_through. Qed.

(* non-vacuity witness: ChunksProofs.ex_write_through_ex *)

(* the mutants listed in DESIGN.md section 7 are told apart by C10_values *)
Theorem C10_bad_rem_refuted : exists N s, 0 < N /\ valid_slice 16 s /\
  chunks_from_slice_bad_rem N s <> chunks_from_slice N s.
Proof. exact bad_rem_refuted. Qed.

Theorem C10_bad_add_refuted : exists N s, 0 < N /\ valid_slice 16 s /\
  chunks_from_slice_bad_add N s <> chunks_from_slice N s.
Proof. exact bad_add_refuted. Qed.

(* ---- tie to the current source: regenerated on every run by tools/ga2coq (coq/gen) ---- *)
From Coq Require Import String.
From GA Require Import Guards GuardTieChunks.
From GAGen Require Import GenGuards GenConstFns.
Local Open Scope Z_scope.

(* the arithmetic of chunks_from_slice / chunks_from_slice_mut as it stands in src/lib.rs now:
   L / N arrays, the remainder at element offset (L / N) * N with length L - (L / N) * N; the
   N = 0 branch asserts an empty slice; and the hub function is built from these expressions *)
Theorem C10_source_arith : forall L N,
  let en := chunk_env chunks_from_slice_lets L N in
  geval en N chunks_from_slice_count = L / N /\
  geval en N chunks_from_slice_rem_offset = L / N * N /\
  geval en N chunks_from_slice_rem_len = L - L / N * N /\
  ctest (env1 "slice.len" L) N chunks_from_slice_zero_cond = (N =? 0) /\
  rejects chunks_from_slice_zero_guard (env1 "slice.len" L) N = negb (L =? 0) /\
  fails_by_panic chunks_from_slice_zero_guard = true.
Proof. exact tie_chunks_arith. Qed.

Theorem C10_source_arith_mut : forall L N,
  let en := chunk_env chunks_from_slice_mut_lets L N in
  geval en N chunks_from_slice_mut_count = L / N /\
  geval en N chunks_from_slice_mut_rem_offset = L / N * N /\
  geval en N chunks_from_slice_mut_rem_len = L - L / N * N /\
  ctest (env1 "slice.len" L) N chunks_from_slice_mut_zero_cond = (N =? 0) /\
  rejects chunks_from_slice_mut_zero_guard (env1 "slice.len" L) N = negb (L =? 0) /\
  fails_by_panic chunks_from_slice_mut_zero_guard = true.
Proof. exact tie_chunks_mut_arith. Qed.

Theorem C10_source_model : forall N (s : Chunks.sl), 0 < N -> 0 <= Chunks.slen s < Chunks.U64 ->
  let L := Chunks.slen s in
  let en := chunk_env chunks_from_slice_lets L N in
  Chunks.chunks_from_slice N s =
  Ret (Chunks.mkC (Chunks.sptr s) (geval en N chunks_from_slice_count),
       Chunks.mkS (Chunks.padd (Chunks.sptr s) (geval en N chunks_from_slice_rem_offset))
                  (geval en N chunks_from_slice_rem_len)).
Proof. exact tie_chunks_model. Qed.

Theorem C10_source_model_zero : forall (s : Chunks.sl),
  Chunks.chunks_from_slice 0 s =
  (if rejects chunks_from_slice_zero_guard (env1 "slice.len" (Chunks.slen s)) 0 then Panicked
   else Ret (Chunks.mkC Chunks.Dangling 0, Chunks.mkS Chunks.Dangling 0)).
Proof. exact tie_chunks_model_zero. Qed.

Theorem C10_source_flatten_len : forall C N,
  geval (env1 "slice.len" C) N slice_from_chunks_len = C * N /\
  geval (env1 "slice.len" C) N slice_from_chunks_mut_len = C * N.
Proof. exact tie_slice_from_chunks. Qed.

(* from_chunks / from_chunks_mut / into_chunks / into_chunks_mut as they stand in src/lib.rs now
   (coq/gen/GenSigs.v): one transmute of the slice reference each *)
From GA Require Import SigDefs.
From GAGen Require Import GenSigs.
Local Open Scope string_scope.
Theorem C10_source_chunk_casts :
  transmute_of "GenericArray::from_chunks" = Some ("transmute", "chunks") /\
  transmute_of "GenericArray::from_chunks_mut" = Some ("transmute", "chunks") /\
  transmute_of "GenericArray::into_chunks" = Some ("transmute", "chunks") /\
  transmute_of "GenericArray::into_chunks_mut" = Some ("transmute", "chunks").
Proof. repeat split. Qed.

(* ---- T1: the one-expression bodies this property's code consists of besides the modelled core, as they stand
        in the source now (coq/gen/GenSigs.v gen_thin_bodies) ---- *)
From Coq Require Import String.
From GA Require Import SigDefs.
From GAGen Require Import GenSigs.
Local Open Scope string_scope.

Theorem C10_source_thin_bodies :
  thin_of "GenericArray<T,N>" "slice_from_chunks" = Some "unsafe { slice :: from_raw_parts (slice . as_ptr () as * const T , slice . len () * N :: USIZE) }" /\
  thin_of "GenericArray<T,N>" "slice_from_chunks_mut" = Some "unsafe { slice :: from_raw_parts_mut (slice . as_mut_ptr () as * mut T , slice . len () * N :: USIZE) }" /\
  thin_of "GenericArray<T,N>" "from_chunks" = Some "unsafe { mem :: transmute (chunks) }" /\
  thin_of "GenericArray<T,N>" "from_chunks_mut" = Some "unsafe { mem :: transmute (chunks) }" /\
  thin_of "GenericArray<T,N>" "into_chunks" = Some "unsafe { mem :: transmute (chunks) }" /\
  thin_of "GenericArray<T,N>" "into_chunks_mut" = Some "unsafe { mem :: transmute (chunks) }".
Proof. repeat split. Qed.

(* ---- T1: the signatures of this property's inherent methods / free functions as they stand in the source now
        (coq/gen/GenSigs.v gen_fn_sigs): visibility, const / unsafe, generics, parameters, result, where-clause --
        a caller generic over `const U` states exactly `Const<U>: IntoArrayLength<ArrayLength = N>`; all eight are const fns ---- *)
From Coq Require Import String.
From GA Require Import SigDefs.
From GAGen Require Import GenSigs.
Local Open Scope string_scope.

Theorem C10_source_signatures :
  sig_of "GenericArray<T,N> where N:ArrayLength" "chunks_from_slice" = Some "pub const fn chunks_from_slice (slice : & [T]) -> (& [GenericArray < T , N >] , & [T])" /\
  sig_of "GenericArray<T,N> where N:ArrayLength" "chunks_from_slice_mut" = Some "pub const fn chunks_from_slice_mut (slice : & mut [T]) -> (& mut [GenericArray < T , N >] , & mut [T])" /\
  sig_of "GenericArray<T,N> where N:ArrayLength" "slice_from_chunks" = Some "pub const fn slice_from_chunks (slice : & [GenericArray < T , N >]) -> & [T]" /\
  sig_of "GenericArray<T,N> where N:ArrayLength" "slice_from_chunks_mut" = Some "pub const fn slice_from_chunks_mut (slice : & mut [GenericArray < T , N >]) -> & mut [T]" /\
  sig_of "GenericArray<T,N> where N:ArrayLength" "from_chunks" = Some "pub const fn from_chunks < const U : usize > (chunks : & [[T ; U]]) -> & [GenericArray < T , N >] where Const < U > : IntoArrayLength < ArrayLength = N > ," /\
  sig_of "GenericArray<T,N> where N:ArrayLength" "from_chunks_mut" = Some "pub const fn from_chunks_mut < const U : usize > (chunks : & mut [[T ; U]]) -> & mut [GenericArray < T , N >] where Const < U > : IntoArrayLength < ArrayLength = N > ," /\
  sig_of "GenericArray<T,N> where N:ArrayLength" "into_chunks" = Some "pub const fn into_chunks < const U : usize > (chunks : & [GenericArray < T , N >]) -> & [[T ; U]] where Const < U > : IntoArrayLength < ArrayLength = N > ," /\
  sig_of "GenericArray<T,N> where N:ArrayLength" "into_chunks_mut" = Some "pub const fn into_chunks_mut < const U : usize > (chunks : & mut [GenericArray < T , N >]) -> & mut [[T ; U]] where Const < U > : IntoArrayLength < ArrayLength = N > ,".
Proof. repeat split. Qed.

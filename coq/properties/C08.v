(* C08 -- generate/map/zip/fold/clone/default apply the function once per index, in order.
   Statements only; proofs in theories/FunctionalProofs.v. *)
From GA Require Import Base Builder Iter Functional FunctionalProofs.

(* every form (any ownership), every length: the function is called exactly once per index,
   in ascending order (call log = the rows in order), result = f applied row by row *)
Theorem C08_once_in_order : forall own f rows,
  zipmap own f None rows = (Ok (produced f 0 rows), moves own rows, rows).
Proof. exact zipmap_ok. Qed.

(* result i = f i (row i) *)
Theorem C08_result_index : forall f rows i k r,
  nth_error rows k = Some r -> nth_error (produced f i rows) k = Some (f (i + k) r).
Proof. exact produced_nth. Qed.

(* results and call order are the same for every receiver and argument form *)
Theorem C08_forms_agree : forall own own' f pan rows,
  fst (fst (zipmap own f pan rows)) = fst (fst (zipmap own' f pan rows)) /\
  snd (zipmap own f pan rows) = snd (zipmap own' f pan rows).
Proof. exact zipmap_forms_agree. Qed.

(* generate: N calls with 0, 1, ..., N-1 *)
Theorem C08_generate : forall N f,
  generate_ N f None = (Ok (produced f 0 (repeat [] N)), [], repeat [] N) /\
  length (repeat (@nil Z) N) = N.
Proof.
  intros N f. split; [|apply repeat_length]. unfold generate_. rewrite zipmap_ok. f_equal. f_equal.
  unfold moves. induction N as [|N IH]; cbn; [reflexivity|exact IH].
Qed.

(* fold = the left fold, visiting every index once in ascending order, for every form *)
Theorem C08_fold : forall owned g init a,
  fold_ owned g None init a =
  (FoldOk (fold_acc g 0 init a), (if owned then map EMove a else []), a).
Proof. exact fold_ok. Qed.

(* ---- tie to the current source (tools/ga2coq, coq/gen/GenDeleg.v): the bodies of the trait
        impls as they stand in the source now are the delegations the model implements ---- *)
From Coq Require Import String.
From GA Require Import Deleg DelegTie.
From GAGen Require Import GenDeleg.
Local Open Scope string_scope.
Theorem C08_source_clone_default :
  lookup "Clone::clone" gen_delegations = Some (DMap VSelf "Clone::clone") /\
  lookup "Default::default" gen_delegations = Some (DGenerate "T::default").
Proof. rewrite !tie_deleg_of. repeat split. Qed.

(* C08 -- generate/map/zip/fold/clone/default apply the function once per index, in order.
   Statements only; proofs in theories/FunctionalProofs.v. *)
From GA Require Import Base Builder Iter Functional FunctionalProofs.

(* every form (any ownership), every length: the function is called exactly once per index,
   in ascending order (call log = the rows in order), result = f applied row by row *)
Theorem C08_once_in_order : forall own f rows,
  zipmap own f None rows = (Ok (produced f 0 rows), moves own rows, rows).
Proof. exact zipmap_ok. Qed.

(* result i = f i (row i) *)
Theorem C08_result_index : forall f rows i k r,
  nth_error rows k = Some r -> nth_error (produced f i rows) k = Some (f (i + k) r).
Proof. exact produced_nth. Qed.

(* results and call order are the same for every receiver and argument form *)
Theorem C08_forms_agree : forall own own' f pan rows,
  fst (fst (zipmap own f pan rows)) = fst (fst (zipmap own' f pan rows)) /\
  snd (zipmap own f pan rows) = snd (zipmap own' f pan rows).
Proof. exact zipmap_forms_agree. Qed.

(* generate: N calls with 0, 1, ..., N-1 *)
Theorem C08_generate : forall N f,
  generate_ N f None = (Ok (produced f 0 (repeat [] N)), [], repeat [] N) /\
  length (repeat (@nil Z) N) = N.
Proof.
  intros N f. split; [|apply repeat_length]. unfold generate_. rewrite zipmap_ok. f_equal. f_equal.
  unfold moves. induction N as [|N IH]; cbn; [reflexivity|exact IH].
Qed.

(* fold = the left fold, visiting every index once in ascending order, for every form *)
Theorem C08_fold : forall owned g init a,
  fold_ owned g None init a =
  (FoldOk (fold_acc g 0 init a), (if owned then map EMove a else []), a).
Proof. exact fold_ok. Qed.

(* ---- tie to the current source (tools/ga2coq, coq/gen/GenDeleg.v): the bodies of the trait
        impls as they stand in the source now are the delegations the model implements ---- *)
From Coq Require Import String.
From GA Require Import Deleg.
From GAGen Require Import GenDeleg.
Local Open Scope string_scope.
Theorem C08_source_clone_default :
  lookup "Clone::clone" gen_delegations = Some (DMap VSelf "Clone::clone") /\
  lookup "Default::default" gen_delegations = Some (DGenerate "T::default").
Proof. repeat split. Qed.

(* ---- tier T3 (coq/gen/GenPipe.v, theories/Pipe.v, theories/PipeTie.v): the regenerated bodies of
        map / inverted_zip / fold / generate, executed statement by statement, call the caller's
        function exactly once per index, in ascending order, on the elements at that index, and
        slot i of the result is what call i returned ---- *)
From GA Require Import Pipe PipeTie.
From GAGen Require Import GenPipe.
Import Coq.Lists.List.

Theorem C08_source_map_in_order : forall f g a so nd,
  let '(o, m, t, e, c) := run_from_iter [a] so f g None (pipe_of gen_map nd) (length a) in
  o = Ok (produced f 0 (map (fun x => [x]) a)) /\ c = map (fun x => [x]) a.
Proof. exact src_map_in_order. Qed.

Theorem C08_source_zip_in_order : forall f g a b so nd, length a = length b ->
  nd_eval nd (NdOr (NdArg 0) (NdArg 1)) = true ->
  let '(o, m, t, e, c) := run_from_iter [b; a] so f g None (pipe_of gen_inverted_zip nd) (length a) in
  o = Ok (produced f 0 (zrows a b)) /\ c = zrows a b.
Proof. exact src_zip_in_order. Qed.

Theorem C08_source_fold_in_order : forall f g a so nd init,
  let '(o, m, t, c) := run_fold [a] so f g None (pipe_of gen_fold nd) (length a) init in
  o = FoldOk (fold_acc g 0 init a) /\ List.concat c = a.
Proof. exact src_fold_in_order. Qed.

Theorem C08_source_generate : forall f g so nd N,
  flat5 (run_for_each [] so f g None (pipe_of gen_generate nd) N) = generate_ N f None /\
  flat5 (run_for_each [] so f g None (pipe_of gen_boxed_generate nd) N) = generate_ N f None.
Proof. exact (fun f g => src_generate_spec f g None). Qed.

(* ---- T1: which trait methods are implemented (coq/gen/GenSigs.v gen_impl_methods) ---- *)
From Coq Require Import String.
From GA Require Import SigDefs.
From GAGen Require Import GenSigs.
Local Open Scope string_scope.

(* which of generate / inverted_zip / inverted_zip2 / map / zip / fold the array and the boxed array define themselves (regenerated): the boxed array only generate, everything else is the trait default over into_iter / from_iter *)
Theorem C08_source_functional_methods :
  methods_of "GenericSequence<T> for GenericArray<T,N>" = Some ["generate"; "inverted_zip"; "inverted_zip2"] /\
  methods_of "FunctionalSequence<T> for GenericArray<T,N>" = Some ["map"; "zip"; "fold"] /\
  methods_of "GenericSequence<T> for Box<GenericArray<T,N>>" = Some ["generate"] /\
  methods_of "FunctionalSequence<T> for Box<GenericArray<T,N>>" = Some [].
Proof. repeat split. Qed.


(* ---- T1: the one-expression bodies this property's code consists of besides the modelled core, as they stand
        in the source now (coq/gen/GenSigs.v gen_thin_bodies) ---- *)
From Coq Require Import String.
From GA Require Import SigDefs.
From GAGen Require Import GenSigs.
Local Open Scope string_scope.

Theorem C08_source_thin_bodies :
  thin_of "FunctionalSequence<T> for GenericArray<T,N>" "zip" = Some "rhs . inverted_zip (self , f)" /\
  thin_of "Default for GenericArray<T,N>" "default" = Some "Self :: generate (| _ | T :: default ())" /\
  thin_of "Clone for GenericArray<T,N>" "clone" = Some "self . map (Clone :: clone)" /\
  thin_of "trait GenericSequence" "inverted_zip2" = Some "FromIterator :: from_iter (lhs . into_iter () . zip (self) . map (| (l , r) | f (l , r)))" /\
  thin_of "trait FunctionalSequence" "map" = Some "FromIterator :: from_iter (self . into_iter () . map (f))" /\
  thin_of "trait FunctionalSequence" "zip" = Some "rhs . inverted_zip2 (self , f)" /\
  thin_of "trait FunctionalSequence" "fold" = Some "self . into_iter () . fold (init , f)".
Proof. repeat split. Qed.

(* ---- the trait defaults as regenerated (functional.rs map / fold, sequence.rs inverted_zip2): what the
        by-reference forms run; once per index, in ascending order, slot i = what call i returned ---- *)
From GA Require Import Pipe PipeTie.
From GAGen Require Import GenPipe.
Import Coq.Lists.List.

Theorem C08_source_default_map_in_order : forall f g a so nd,
  let '(o, m, t, e, c) := run_from_iter [a] so f g None (pipe_of gen_default_map nd) (length a) in
  o = Ok (produced f 0 (map (fun x => [x]) a)) /\ c = map (fun x => [x]) a.
Proof. exact src_default_map_in_order. Qed.

Theorem C08_source_default_zip2_in_order : forall f g a b so nd, length a = length b ->
  let '(o, m, t, e, c) := run_from_iter [b; a] so f g None (pipe_of gen_default_inverted_zip2 nd) (length a) in
  o = Ok (produced f 0 (zrows a b)) /\ c = zrows a b.
Proof. exact src_default_zip2_in_order. Qed.

Theorem C08_source_default_fold_in_order : forall f g a so nd init,
  let '(o, m, t, c) := run_fold [a] so f g None (pipe_of gen_default_fold nd) (length a) init in
  o = FoldOk (fold_acc g 0 init a) /\ List.concat c = a.
Proof. exact src_default_fold_in_order. Qed.

(* a lent sequence is neither moved from nor dropped by fold, whatever call panics *)
Theorem C08_source_default_fold_lent : forall f g pan a nd init,
  let '(o, m, t, c) := run_fold [a] false f g pan (pipe_of gen_default_fold nd) (length a) init in
  (m ++ t)%list = [].
Proof. exact src_default_fold_lent_untouched. Qed.

(* ---- T2: the bounds of the trait impls this property's operations come from, as they stand in the source now
        (coq/gen/GenSigs.v gen_impl_bounds): code that is generic over the lengths / element type and states
        exactly these bounds can call them ---- *)
From Coq Require Import String.
From GA Require Import SigDefs.
From GAGen Require Import GenSigs.
Local Open Scope string_scope.

Theorem C08_source_impl_bounds :
  bounds_of "unsafe GenericSequence<T> for GenericArray<T,N>" = Some ["N:ArrayLength"; "Self:IntoIterator<Item=T>"] /\
  bounds_of "MappedGenericSequence<T,U> for GenericArray<T,N>" = Some ["GenericArray<U,N>:GenericSequence<U,Length=N>"; "N:ArrayLength"] /\
  bounds_of "FunctionalSequence<T> for GenericArray<T,N>" = Some ["N:ArrayLength"; "Self:GenericSequence<T,Item=T,Length=N>"] /\
  bounds_of "unsafe GenericSequence<T> for Box<GenericArray<T,N>>" = Some ["N:ArrayLength"] /\
  bounds_of "MappedGenericSequence<T,U> for Box<GenericArray<T,N>>" = Some ["N:ArrayLength"] /\
  bounds_of "FunctionalSequence<T> for Box<GenericArray<T,N>>" = Some ["N:ArrayLength"; "Self:GenericSequence<T,Item=T,Length=N>"].
Proof. repeat split. Qed.

(* default_boxed (src/impl_alloc.rs) is the boxed generate of T::default: one call per index, as for the stack
   Default (regenerated; the allocation side is C16's) *)
Theorem C08_source_default_boxed :
  thin_of "GenericArray<T,N>" "default_boxed" = Some "Box :: < GenericArray < T , N > > :: generate (| _ | T :: default ())".
Proof. reflexivity. Qed.

(* the by-reference sequences generate through the owned type (regenerated) *)
Theorem C08_source_ref_generate :
  thin_of "GenericSequence<T> for &S" "generate" = Some "S :: generate (f)" /\
  thin_of "GenericSequence<T> for &mutS" "generate" = Some "S :: generate (f)".
Proof. split; reflexivity. Qed.

(* ---- T1: what the traits of this property declare in the source now (coq/gen/GenSigs.v gen_trait_headers):
        the signatures of generate / map / zip / fold and of the defaults, and the bounds a generic caller states ---- *)
From Coq Require Import String.
From GA Require Import SigDefs.
From GAGen Require Import GenSigs.
Local Open Scope string_scope.

Theorem C08_source_trait_headers :
  trait_header_of "pub unsafe trait GenericSequence<T>" = Some ["Self:IntoIterator"; "Self:Sized"; "fn generate < F > (f : F) -> Self :: Sequence where F : FnMut (usize) -> T"; "fn inverted_zip < B , U , F > (self , lhs : GenericArray < B , Self :: Length > , mut f : F ,) -> MappedSequence < GenericArray < B , Self :: Length > , B , U > where GenericArray < B , Self :: Length > : GenericSequence < B , Length = Self :: Length > + MappedGenericSequence < B , U > , Self : MappedGenericSequence < T , U > , F : FnMut (B , Self :: Item) -> U , {default}"; "fn inverted_zip2 < B , Lhs , U , F > (self , lhs : Lhs , mut f : F) -> MappedSequence < Lhs , B , U > where Lhs : GenericSequence < B , Length = Self :: Length > + MappedGenericSequence < B , U > , Self : MappedGenericSequence < T , U > , F : FnMut (Lhs :: Item , Self :: Item) -> U , {default}"; "type Length:ArrayLength"; "type Sequence:FromIterator<T>"; "type Sequence:GenericSequence<T,Length=Self::Length>"] /\
  trait_header_of "pub trait MappedGenericSequence<T,U>" = Some ["Self:GenericSequence<T>"; "type Mapped:GenericSequence<U,Length=Self::Length>"] /\
  trait_header_of "pub trait FunctionalSequence<T>" = Some ["Self:GenericSequence<T>"; "fn fold < U , F > (self , init : U , f : F) -> U where F : FnMut (U , Self :: Item) -> U , {default}"; "fn map < U , F > (self , f : F) -> MappedSequence < Self , T , U > where Self : MappedGenericSequence < T , U > , F : FnMut (Self :: Item) -> U , {default}"; "fn zip < B , Rhs , U , F > (self , rhs : Rhs , f : F) -> MappedSequence < Self , T , U > where Self : MappedGenericSequence < T , U > , Rhs : MappedGenericSequence < B , U , Mapped = MappedSequence < Self , T , U > > , Rhs : GenericSequence < B , Length = Self :: Length > , F : FnMut (Self :: Item , Rhs :: Item) -> U , {default}"].
Proof. repeat split. Qed.

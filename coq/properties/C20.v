(* C20 -- arr! and box_arr! build the array their literal syntax denotes.
   Statements only; proofs in theories/MacrosProofs.v.

   [crate_decls] (theories/MacroDecls.v) are the arms of arr!, box_arr! and
   box_arr_helper! transcribed from src/arr.rs; [run d w cx m i] expands the
   invocation m![i] with the first matching arm, expands nested macro calls, and
   evaluates the result in a run-time or const position with an effect log.
   The caller's expressions are opaque: [mk_user (tag, v, c)] logs [tag] when
   evaluated at run time and yields [v]; [vals us] are their values, [evals us]
   the log "each evaluated exactly once, in order".  The world [w] fixes the
   element size, whether the element type is Copy, and typenum's Const<k> table.

   Strength PARTIAL: macro_rules! matching and hygiene, Rust's evaluation order
   (as stated by [eval]) and typenum's table are trusted and sampled by the
   correspondence; what is proved is the meaning of the transcribed arms. *)
From GA Require Import Base Macros MacroDecls MacrosProofs.
Local Open Scope Z_scope.

(* arr![e0, ..., ek] with any number of trailing commas, the empty list included:
   every expression evaluated exactly once, left to right; a GenericArray whose
   type-level length is the element count, holding the values.  The one guard is
   the one rustc applies: Const<count> must be in typenum's table. *)
Theorem C20_list : forall w us trailing,
  run crate_decls w Runtime MArr (InList (map mk_user us) trailing)
  = if csup w (zlen us) then Done (VGA (zlen us) (vals us), evals us)
    else CompileError ENoConstLen.
Proof. exact arr_list_full. Qed.

(* the same invocation as the initialiser of a const: accepted exactly when every
   element is a constant expression; evaluated at compile time, nothing logged *)
Theorem C20_list_const : forall w us trailing,
  run crate_decls w Const MArr (InList (map mk_user us) trailing)
  = if forallb u_const us
    then if csup w (zlen us) then Done (VGA (zlen us) (vals us), []) else CompileError ENoConstLen
    else CompileError ENotConst.
Proof. exact arr_list_const_full. Qed.

(* arr![x; N] with a type-level N (any Unsigned, Const's table is not involved):
   N copies of x, x evaluated once; needs Copy unless N <= 1 (rustc's rule for [x; n]) *)
Theorem C20_repeat_ty : forall w tag v c k, 0 <= k ->
  run crate_decls w Runtime MArr (InSemi (User tag v c) (TyLen k))
  = if (k <=? 1) || copyT w then Done (VGA k (copies v k), [LEval tag])
    else CompileError ENotCopy.
Proof. exact arr_rep_ty_full. Qed.

(* arr![x; n] with a constant expression n *)
Theorem C20_repeat_expr : forall w tag v c tn n, 0 <= n ->
  run crate_decls w Runtime MArr (InSemi (User tag v c) (User tn n true))
  = if (n <=? 1) || copyT w
    then if csup w n then Done (VGA n (copies v n), [LEval tag]) else CompileError ENoConstLen
    else CompileError ENotCopy.
Proof. exact arr_rep_expr_full. Qed.

(* both repeat forms in a const position *)
Theorem C20_repeat_ty_const : forall w tag v k, 0 <= k ->
  run crate_decls w Const MArr (InSemi (User tag v true) (TyLen k))
  = if (k <=? 1) || copyT w then Done (VGA k (copies v k), []) else CompileError ENotCopy.
Proof. exact arr_rep_ty_const_full. Qed.

Theorem C20_repeat_expr_const : forall w tag v tn n, 0 <= n ->
  run crate_decls w Const MArr (InSemi (User tag v true) (User tn n true))
  = if (n <=? 1) || copyT w
    then if csup w n then Done (VGA n (copies v n), []) else CompileError ENoConstLen
    else CompileError ENotCopy.
Proof. exact arr_rep_expr_const_full. Qed.

(* box_arr![e0, ..., ek]: a Box holding the same array; each expression evaluated
   ONCE although $x occurs twice in the transcriber; unwrap_unchecked is on Ok
   (the result is Done, not UBhit) *)
Theorem C20_box_list : forall w us trailing,
  run crate_decls w Runtime MBoxArr (InList (map mk_user us) trailing)
  = if csup w (zlen us) then Done (VBox (zlen us) (vals us), evals us)
    else CompileError ENoConstLen.
Proof. exact box_list_full. Qed.

(* why: the unit array has the vec!'s length, and evaluating it evaluates nothing *)
Theorem C20_box_unit_array : forall w us trailing,
  exists unitsq elemsq,
    expand crate_decls MBoxArr (InList (map mk_user us) trailing)
      = Some (Call FFromVecHelper None (SCons (ArrayLit unitsq) (SCons (VecLit elemsq) SNil)))
    /\ seq_len unitsq = length us /\ seq_len elemsq = length us
    /\ (forall cx e lg, eval_seq crate_decls w cx e unitsq lg = Done (units us, lg))
    /\ (forall e lg, eval_seq crate_decls w Runtime e elemsq lg = Done (vals us, lg ++ evals us)).
Proof. exact box_list_unit_array. Qed.

(* box_arr_helper!(@unit e) expands to () for every expression e *)
Theorem C20_helper_unit : forall e, parses_as FSExpr e = true ->
  expand1 crate_decls MBoxArrHelper (InAt kw_unit e) = Some UnitLit.
Proof. exact helper_unit. Qed.

(* box_arr![x; N] / box_arr![x; n]: N copies, x evaluated once, then the N-1 clones
   of vec!; Clone suffices; the unwrap() is on Ok *)
Theorem C20_box_repeat_ty : forall w tag v c k, 0 <= k ->
  run crate_decls w Runtime MBoxArr (InSemi (User tag v c) (TyLen k))
  = Done (VBox k (copies v k), LEval tag :: clone_events w (VE v) k).
Proof. exact box_rep_ty_full. Qed.

Theorem C20_box_repeat_expr : forall w tag v c tn n, 0 <= n ->
  run crate_decls w Runtime MBoxArr (InSemi (User tag v c) (User tn n true))
  = if csup w n then Done (VBox n (copies v n), LEval tag :: clone_events w (VE v) n)
    else CompileError ENoConstLen.
Proof. exact box_rep_expr_full. Qed.

(* with the same arguments: whenever arr! builds an array, box_arr! builds a Box
   holding an equal array (same type-level length, same contents) with the same log *)
Theorem C20_box_equals_arr : forall w i n l lg, user_input i ->
  run crate_decls w Runtime MArr i = Done (VGA n l, lg) ->
  run crate_decls w Runtime MBoxArr i = Done (VBox n l, lg).
Proof. exact box_equals_arr. Qed.

(* the type-level length of every result is its number of elements *)
Theorem C20_length_is_count : forall w m i r lg, user_input i -> m = MArr \/ m = MBoxArr ->
  run crate_decls w Runtime m i = Done (r, lg) ->
  exists n l, (r = VGA n l \/ r = VBox n l) /\ zlen l = n.
Proof. exact result_well_formed. Qed.

(* an invocation builds its array or is rejected at compile time: the size test of
   const_transmute, the unwrap() and the unwrap_unchecked() are never on the bad side *)
Theorem C20_no_panic_no_ub : forall w m i, user_input i -> m = MArr \/ m = MBoxArr ->
  run crate_decls w Runtime m i <> Panic /\ run crate_decls w Runtime m i <> UBhit.
Proof. exact never_panics_never_ub. Qed.

(* box_arr! is not usable in a const *)
Theorem C20_box_not_const : forall w us trailing,
  run crate_decls w Const MBoxArr (InList (map mk_user us) trailing) = CompileError ENotConst.
Proof. exact box_list_not_const. Qed.

(* a const item named by a bare path as the length parses as a type, so the
   type-length arm is taken and the invocation does not compile (write {LEN}) *)
Theorem C20_const_path_rejected : forall w cx m tag v c k, m = MArr \/ m = MBoxArr ->
  exists e, run crate_decls w cx m (InSemi (User tag v c) (ConstPath k)) = CompileError e.
Proof. exact rep_constpath_rejected. Qed.

(* a repeat operand that is a path to a `const` item of the element type is accepted for every
   length also when the element type is not Copy, in run-time and const positions alike *)
Theorem C20_const_operand_ty : forall w cx v k, 0 <= k ->
  run crate_decls w cx MArr (InSemi (ConstPath v) (TyLen k)) = Done (VGA k (copies v k), []).
Proof. exact arr_rep_const_operand_ty. Qed.

Theorem C20_const_operand_expr : forall w cx v tn n, 0 <= n ->
  run crate_decls w cx MArr (InSemi (ConstPath v) (User tn n true))
  = if csup w n then Done (VGA n (copies v n), []) else CompileError ENoConstLen.
Proof. exact arr_rep_const_operand_expr. Qed.

(* ---- unsafe hygiene: no fragment written by the caller ends up inside an `unsafe { }` block of an expansion
        (element and length expressions are compiled in the safety context the caller wrote them in): for every
        argument list of every length, and for both repeat forms with any caller-written length; the arms as data
        have no metavariable under an unsafe block; wrapping the call of the local helper fn in `unsafe { }`
        instead (a `const unsafe fn` helper) would put $x inside ---- *)
Theorem C20_unsafe_hygiene_lists : forall us trailing,
  (exists t, expand crate_decls MArr (InList (map mk_user us) trailing) = Some t /\ exposed false t = false) /\
  (exists t, expand crate_decls MBoxArr (InList (map mk_user us) trailing) = Some t /\ exposed false t = false).
Proof. exact unsafe_hygiene_lists. Qed.

Theorem C20_unsafe_hygiene_repeat : forall m tag v c n, is_caller n = true ->
  match expand crate_decls m (InSemi (User tag v c) n) with
  | Some t => exposed false t = false
  | None => True
  end.
Proof. exact unsafe_hygiene_repeat. Qed.

Theorem C20_arms_hygienic :
  forallb (fun a => negb (exposed false (arm_body a)))
          (arms_of crate_decls MArr ++ arms_of crate_decls MBoxArr ++ arms_of crate_decls MBoxArrHelper) = true.
Proof. exact arms_hygienic. Qed.

Theorem C20_unsafe_call_refuted :
  exposed false arr_rep_ty_arm_unsafe_call = true /\
  forall tag v c k, exposed false (subst (upd_bind (upd_bind no_bind MVx (One (User tag v c))) MVN (One (TyLen k)))
                                         arr_rep_ty_arm_unsafe_call) = true.
Proof. exact unsafe_call_refuted. Qed.


(* ---- KNOWN FINDING (known_findings.txt, C20 via 11): a list element compiled out by `#[cfg(any())]`.  The faithful
        model of the arms reaches `unwrap_unchecked` on `Err` for box_arr!, while arr! with the same arguments (and
        box_arr! without the element) yield the one-element array: "box_arr! with the same arguments yields a Box
        holding an equal array" fails on this input.  Replayed on the crate: harness case [6, 2, 0, 0, 11]. ---- *)
Theorem C20_box_list_cfg_out_refuted :
  run crate_decls w_all Runtime MArr (InList [CfgOut (User 0 3 false); User 1 10 false] 0)
    = Done (VGA 1 [VE 10], [LEval 1]) /\
  run crate_decls w_all Runtime MBoxArr (InList [User 1 10 false] 0)
    = Done (VBox 1 [VE 10], [LEval 1]) /\
  run crate_decls w_all Runtime MBoxArr (InList [CfgOut (User 0 3 false); User 1 10 false] 0) = UBhit.
Proof. exact box_list_cfg_out_refuted. Qed.


(* ---- tie to the current source: the arms of arr!, box_arr!, box_arr_helper! (matcher shape and
   transcriber term) and the const-ness of from_array / const_transmute / try_from_vec /
   __from_vec_helper, regenerated by tools/ga2coq from src/arr.rs, src/lib.rs, src/impl_alloc.rs on
   every run (coq/gen/GenMacro.v), are the declarations every theorem above runs on ---- *)
From GA Require Import MacroTie.
From GAGen Require GenMacro.

Theorem C20_source_arms :
  GenMacro.gen_arr_arms = arr_arms /\ GenMacro.gen_box_arr_arms = box_arr_arms /\
  GenMacro.gen_box_arr_helper_arms = box_arr_helper_arms.
Proof. exact (conj tie_arr_arms (conj tie_box_arr_arms tie_box_arr_helper_arms)). Qed.

Theorem C20_source_fn_const : forall f b, In (f, b) GenMacro.gen_fn_const -> crate_fn_const f = b.
Proof. exact tie_fn_const. Qed.

Theorem C20_source_decls : forall m f,
  arms_of gen_decls m = arms_of crate_decls m /\ fn_is_const gen_decls f = fn_is_const crate_decls f.
Proof. exact (fun m f => conj (tie_decls_arms m) (tie_decls_const f)). Qed.

(* C02 -- borrowed views alias the array's storage and reinterpretation needs exact
   length.  Only statements closed by [exact]; proofs live in theories/ViewsProofs.v.
   [self] is the address of the array (a pointer into the element-granular memory
   of Mem.v), N its type-level length, [valid_ref m self N a]: the N cells from
   [self] on are in bounds, initialised and hold the values [a]. *)
From GA Require Import Base Mem Views ViewsProofs.

(* every view (as_slice, as_mut_slice, Deref, DerefMut, Borrow, BorrowMut, AsRef/AsMut
   to [T] and to [T; N], & and &mut iteration), for every N and every address:
   starts at the array's address, has exactly N elements, element i is the cell
   self+i, an index >= N is rejected, and reading index i gives element i *)
Theorem C02_view : forall k N self,
  sptr (view_of k N self) = self /\ slen (view_of k N self) = N /\
  (forall i, i < N -> elem_ptr (view_of k N self) i = Ret (padd self i)) /\
  (forall i, N <= i -> elem_ptr (view_of k N self) i = Panicked) /\
  (forall m a, valid_ref m self N a -> forall i,
     view_get m (view_of k N self) i =
     match nth_error a i with Some x => Ret x | None => Panicked end).
Proof. exact view_spec. Qed.

(* all N elements in index order, every access in bounds and initialised (no UB) *)
Theorem C02_view_read : forall k N self m a, valid_ref m self N a ->
  view_read m (view_of k N self) = map Ret a.
Proof. exact view_read_spec. Qed.

(* by-reference iteration yields exactly N references, the i-th to the cell self+i *)
Theorem C02_iter : forall k N self,
  slice_iter (view_of k N self) = map (padd self) (seq 0 N) /\
  length (slice_iter (view_of k N self)) = N /\
  (forall i, i < N -> nth_error (slice_iter (view_of k N self)) i = Some (padd self i)) /\
  (forall i, N <= i -> nth_error (slice_iter (view_of k N self)) i = None).
Proof. exact iter_spec. Qed.

(* a write at index i through ANY view kA is read back at index i through EVERY view
   kB, every other index reads what it read before, and no other cell of memory changes *)
Theorem C02_write_through : forall kA kB N self m a i v,
  valid_ref m self N a -> i < N ->
  exists m',
    view_set m (view_of kA N self) i v = Ret m' /\
    valid_ref m' self N (upd i v a) /\
    (forall j, view_get m' (view_of kB N self) j =
               if j =? i then Ret v else view_get m (view_of kB N self) j) /\
    (forall q, q <> padd self i -> cell_at m' q = cell_at m q).
Proof. exact write_through. Qed.

(* from_slice on (p, L): a reference iff L = N, and then p itself; otherwise a panic -
   for every L, in particular L < N and L > N *)
Theorem C02_exact : forall N s,
  (forall q, from_slice N s = Ret q <-> slen s = N /\ q = sptr s) /\
  (slen s <> N -> from_slice N s = Panicked).
Proof. exact from_slice_exact. Qed.

Theorem C02_exact_mut : forall N s,
  (forall q, from_mut_slice N s = Ret q <-> slen s = N /\ q = sptr s) /\
  (slen s <> N -> from_mut_slice N s = Panicked).
Proof. exact from_mut_slice_exact. Qed.

Theorem C02_exact_try : forall N s,
  (forall q, try_from_slice N s = Ret (TOk q) <-> slen s = N /\ q = sptr s) /\
  (slen s <> N -> try_from_slice N s = Ret TErr).
Proof. exact try_from_slice_exact. Qed.

Theorem C02_exact_try_mut : forall N s,
  (forall q, try_from_mut_slice N s = Ret (TOk q) <-> slen s = N /\ q = sptr s) /\
  (slen s <> N -> try_from_mut_slice N s = Ret TErr).
Proof. exact try_from_mut_slice_exact. Qed.

(* the six checked forms at once (from_slice, try_from_slice, from_mut_slice,
   try_from_mut_slice, TryFrom<&[T]>, TryFrom<&mut [T]>): Ok p iff L = N; a wrong
   length (shorter or longer) gives the form's own rejection (panic / LengthError) *)
Theorem C02_exact_all : forall f N s,
  (forall q, reinterpret f N s = Ret (TOk q) <-> slen s = N /\ q = sptr s) /\
  (slen s <> N -> reinterpret f N s = reject_kind f) /\
  (slen s < N -> reinterpret f N s = reject_kind f) /\
  (N < slen s -> reinterpret f N s = reject_kind f) /\
  reinterpret f N s <> UB.
Proof. exact reinterpret_exact. Qed.

(* the result aliases the source without copying: same pointer, a valid reference to
   the very cells of the slice, and viewing it as a slice gives the source slice back *)
Theorem C02_alias : forall f N s q m a,
  reinterpret f N s = Ret (TOk q) -> valid_slice m s a ->
  q = sptr s /\ valid_ref m q N a /\ as_slice N q = s.
Proof. exact reinterpret_alias. Qed.

(* From<&[T; N]> / From<&mut [T; N]> *)
Theorem C02_alias_native : forall a m l, valid_slice m a l ->
  from_array_ref a = Ret (sptr a) /\ from_array_mut a = Ret (sptr a) /\
  valid_ref m (sptr a) (slen a) l.
Proof. exact from_array_ref_alias. Qed.

(* a write through a reinterpreted mutable reference lands in the source slice *)
Theorem C02_alias_write : forall f N s q m a i v k,
  reinterpret f N s = Ret (TOk q) -> valid_slice m s a -> i < N ->
  exists m', view_set m (view_of k N q) i v = Ret m' /\
             valid_slice m' s (upd i v a) /\
             view_get m' s i = Ret v /\
             (forall r, r <> padd (sptr s) i -> cell_at m' r = cell_at m r).
Proof. exact reinterpret_write_through. Qed.

Theorem C02_roundtrip : forall N p,
  from_slice N (as_slice N p) = Ret p /\
  (forall f k, reinterpret f N (view_of k N p) = Ret (TOk p)) /\
  (forall f s q, reinterpret f N s = Ret (TOk q) -> forall k, view_of k N q = s).
Proof. exact roundtrip. Qed.

(* by-value conversion to and from [T; N] and same-typed tuples: the size test of
   const_transmute passes and every element keeps its position, both directions *)
Theorem C02_by_value : forall s N (v : list Z), length v = N ->
  from_array s N N v = Ret v /\ into_array s N N v = Ret v /\
  from_native s N v = Ret v /\ into_native s N v = Ret v /\
  from_tuple s v = Ret v /\ into_tuple s v = Ret v.
Proof. exact by_value_spec. Qed.

Theorem C02_by_value_positions : forall s N (v : list Z), length v = N ->
  (forall r, from_native s N v = Ret r -> forall i, nth_error r i = nth_error v i) /\
  (forall r, into_native s N v = Ret r -> forall i, nth_error r i = nth_error v i) /\
  (forall r, from_tuple s v = Ret r -> forall i, nth_error r i = nth_error v i) /\
  (forall r, into_tuple s v = Ret r -> forall i, nth_error r i = nth_error v i) /\
  rbind (from_native s N v) (into_native s N) = Ret v /\
  rbind (from_tuple s v) (into_tuple s) = Ret v.
Proof. exact by_value_positions. Qed.

(* ---- tie to the current source: regenerated on every run by tools/ga2coq (coq/gen) ---- *)
From Coq Require Import String.
From GA Require Import Guards GuardTieViews GuardTieTransmute.
From GAGen Require Import GenGuards GenConstFns.
Local Open Scope Z_scope.

(* the guards of the four checked reinterpretations, as they stand in src/lib.rs now, are what
   the model's functions compute with; they accept exactly L = N; the first and third fail by
   panicking, the other two by returning LengthError *)
Theorem C02_source_from_slice : forall N (s : Views.slice),
  Views.from_slice N s =
  (if rejects from_slice_guard (slice_env (Views.slen s)) (Z.of_nat N) then Panicked else Ret (Views.sptr s)) /\
  fails_by_panic from_slice_guard = true.
Proof. exact tie_from_slice. Qed.

Theorem C02_source_try_from_slice : forall N (s : Views.slice),
  Views.try_from_slice N s =
  (if rejects try_from_slice_guard (slice_env (Views.slen s)) (Z.of_nat N)
   then Ret Views.TErr else Ret (Views.TOk (Views.sptr s))) /\
  fails_by_panic try_from_slice_guard = false.
Proof. exact tie_try_from_slice. Qed.

Theorem C02_source_from_mut_slice : forall N (s : Views.slice),
  Views.from_mut_slice N s =
  (if rejects from_mut_slice_guard (slice_env (Views.slen s)) (Z.of_nat N) then Panicked else Ret (Views.sptr s)) /\
  fails_by_panic from_mut_slice_guard = true.
Proof. exact tie_from_mut_slice. Qed.

Theorem C02_source_try_from_mut_slice : forall N (s : Views.slice),
  Views.try_from_mut_slice N s =
  (if rejects try_from_mut_slice_guard (slice_env (Views.slen s)) (Z.of_nat N)
   then Ret Views.TErr else Ret (Views.TOk (Views.sptr s))) /\
  fails_by_panic try_from_mut_slice_guard = false.
Proof. exact tie_try_from_mut_slice. Qed.

Theorem C02_source_guards_exact : forall L N,
  rejects from_slice_guard (slice_env L) (Z.of_nat N) = negb (Nat.eqb L N) /\
  rejects try_from_slice_guard (slice_env L) (Z.of_nat N) = negb (Nat.eqb L N) /\
  rejects from_mut_slice_guard (slice_env L) (Z.of_nat N) = negb (Nat.eqb L N) /\
  rejects try_from_mut_slice_guard (slice_env L) (Z.of_nat N) = negb (Nat.eqb L N).
Proof. exact guards_accept_iff. Qed.

Theorem C02_source_const_transmute : forall a b,
  rejects const_transmute_guard (env2 "size_of_A" a "size_of_B" b) 0 = negb (a =? b) /\
  fails_by_panic const_transmute_guard = true.
Proof. exact tie_const_transmute. Qed.

From GA Require Import Deleg.
From GAGen Require Import GenDeleg.
Local Open Scope string_scope.
(* Deref / DerefMut / Borrow / AsRef to [T], as they stand in the source now, are exactly
   as_slice / as_mut_slice *)
Theorem C02_source_view_delegations :
  lookup "Deref::deref" gen_delegations = Some (DView (VAsSlice "self")) /\
  lookup "DerefMut::deref_mut" gen_delegations = Some (DView (VAsMutSlice "self")) /\
  lookup "Borrow<[T]>::borrow" gen_delegations = Some (DView (VAsSlice "self")) /\
  lookup "BorrowMut<[T]>::borrow_mut" gen_delegations = Some (DView (VAsMutSlice "self")) /\
  lookup "AsRef<[T]>::as_ref" gen_delegations = Some (DView (VAsSlice "self")) /\
  lookup "AsMut<[T]>::as_mut" gen_delegations = Some (DView (VAsMutSlice "self")).
Proof. repeat split. Qed.

(* from_array / into_array (by value: the size-checked const_transmute) and AsRef / AsMut<[T; U]>
   (a transmute of the reference) as they stand in the source now (coq/gen/GenSigs.v); fourteen
   functions of lib.rs / impls.rs / sequence.rs have a body that is one reinterpretation, no more *)
From GA Require Import SigDefs.
From GAGen Require Import GenSigs.
Local Open Scope string_scope.
Theorem C02_source_array_casts :
  transmute_of "GenericArray::from_array" = Some ("const_transmute", "value") /\
  transmute_of "GenericArray::into_array" = Some ("const_transmute", "self") /\
  transmute_of "GenericArray::AsRef<[T; U]>::as_ref" = Some ("transmute", "self") /\
  transmute_of "GenericArray::AsMut<[T; U]>::as_mut" = Some ("transmute", "self") /\
  List.length gen_transmutes = 14%nat.
Proof. repeat split. Qed.

(* the tuple conversions (impl_tuple!, src/impls.rs) as they stand now: safe destructuring in both
   directions, through from_array / into_array *)
Theorem C02_source_tuple_bodies :
  gen_tuple_bodies =
  ("let ($ ($ t ,) *) = tuple ; GenericArray :: from_array ([$ ($ t ,) *])",
   "let [$ ($ t) ,*] = array . into_array () ; ($ ($ t ,) *)").
Proof. reflexivity. Qed.


(* ---- T1: the one-expression bodies this property's code consists of besides the modelled core, as they stand
        in the source now (coq/gen/GenSigs.v gen_thin_bodies) ---- *)
From Coq Require Import String.
From GA Require Import SigDefs.
From GAGen Require Import GenSigs.
Local Open Scope string_scope.

Theorem C02_source_thin_bodies :
  thin_of "Deref for GenericArray<T,N>" "deref" = Some "GenericArray :: as_slice (self)" /\
  thin_of "DerefMut for GenericArray<T,N>" "deref_mut" = Some "GenericArray :: as_mut_slice (self)" /\
  thin_of "IntoIterator for &GenericArray<T,N>" "into_iter" = Some "self . as_slice () . iter ()" /\
  thin_of "IntoIterator for &mutGenericArray<T,N>" "into_iter" = Some "self . as_mut_slice () . iter_mut ()" /\
  thin_of "GenericArray<T,N>" "as_slice" = Some "unsafe { slice :: from_raw_parts (self as * const Self as * const T , N :: USIZE) }" /\
  thin_of "GenericArray<T,N>" "as_mut_slice" = Some "unsafe { slice :: from_raw_parts_mut (self as * mut Self as * mut T , N :: USIZE) }" /\
  thin_of "GenericArray<T,N>" "try_from_mut_slice" = Some "match slice . len () == N :: USIZE { true => Ok (GenericArray :: from_mut_slice (slice)) , false => Err (LengthError) , }" /\
  thin_of "TryFrom<&[T]> for &GenericArray<T,N>" "try_from" = Some "GenericArray :: try_from_slice (slice)" /\
  thin_of "TryFrom<&mut[T]> for &mutGenericArray<T,N>" "try_from" = Some "GenericArray :: try_from_mut_slice (slice)" /\
  thin_of "Borrow<[T]> for GenericArray<T,N>" "borrow" = Some "self . as_slice ()" /\
  thin_of "BorrowMut<[T]> for GenericArray<T,N>" "borrow_mut" = Some "self . as_mut_slice ()" /\
  thin_of "AsRef<[T]> for GenericArray<T,N>" "as_ref" = Some "self . as_slice ()" /\
  thin_of "AsMut<[T]> for GenericArray<T,N>" "as_mut" = Some "self . as_mut_slice ()" /\
  thin_of "From<[T;N]> for GenericArray<T,ConstArrayLength<N>>" "from" = Some "GenericArray :: from_array (value)" /\
  thin_of "From<&[T;N]> for &GenericArray<T,ConstArrayLength<N>>" "from" = Some "unsafe { & * (slice . as_ptr () as * const GenericArray < T , ConstArrayLength < N > >) }" /\
  thin_of "From<&mut[T;N]> for &mutGenericArray<T,ConstArrayLength<N>>" "from" = Some "unsafe { & mut * (slice . as_mut_ptr () as * mut GenericArray < T , ConstArrayLength < N > >) }" /\
  thin_of "AsRef<[T;N]> for GenericArray<T,ConstArrayLength<N>>" "as_ref" = Some "unsafe { core :: mem :: transmute (self) }" /\
  thin_of "AsMut<[T;N]> for GenericArray<T,ConstArrayLength<N>>" "as_mut" = Some "unsafe { core :: mem :: transmute (self) }".
Proof. repeat split. Qed.

(* from_slice / try_from_slice / from_mut_slice as they stand in src/lib.rs now: the length test, then the cast of
   the slice's own data pointer *)
Theorem C02_source_slice_casts :
  small_of "GenericArray" "from_slice" =
    Some ["if slice . len () != N :: USIZE { panic ! (""slice.len() != N in GenericArray::from_slice"") ; }";
          "unsafe { & * (slice . as_ptr () as * const GenericArray < T , N >) }"] /\
  small_of "GenericArray" "try_from_slice" =
    Some ["if slice . len () != N :: USIZE { return Err (LengthError) ; }";
          "Ok (unsafe { & * (slice . as_ptr () as * const GenericArray < T , N >) })"] /\
  small_of "GenericArray" "from_mut_slice" =
    Some ["assert ! (slice . len () == N :: USIZE , ""slice.len() != N in GenericArray::from_mut_slice"") ;";
          "unsafe { & mut * (slice . as_mut_ptr () as * mut GenericArray < T , N >) }"].
Proof. repeat split. Qed.

(* ---- T2: the bounds of the trait impls this property's operations come from, as they stand in the source now
        (coq/gen/GenSigs.v gen_impl_bounds): code that is generic over the lengths / element type and states
        exactly these bounds can call them ---- *)
From Coq Require Import String.
From GA Require Import SigDefs.
From GAGen Require Import GenSigs.
Local Open Scope string_scope.

Theorem C02_source_impl_bounds :
  bounds_of "Deref for GenericArray<T,N>" = Some ["N:ArrayLength"] /\
  bounds_of "DerefMut for GenericArray<T,N>" = Some ["N:ArrayLength"] /\
  bounds_of "IntoIterator for &GenericArray<T,N>" = Some ["N:ArrayLength"] /\
  bounds_of "IntoIterator for &mutGenericArray<T,N>" = Some ["N:ArrayLength"] /\
  bounds_of "TryFrom<&[T]> for &GenericArray<T,N>" = Some ["N:ArrayLength"] /\
  bounds_of "TryFrom<&mut[T]> for &mutGenericArray<T,N>" = Some ["N:ArrayLength"] /\
  bounds_of "Borrow<[T]> for GenericArray<T,N>" = Some ["N:ArrayLength"] /\
  bounds_of "BorrowMut<[T]> for GenericArray<T,N>" = Some ["N:ArrayLength"] /\
  bounds_of "AsRef<[T]> for GenericArray<T,N>" = Some ["N:ArrayLength"] /\
  bounds_of "AsMut<[T]> for GenericArray<T,N>" = Some ["N:ArrayLength"] /\
  bounds_of "From<[T;N]> for GenericArray<T,ConstArrayLength<N>>" = Some ["Const<N>:IntoArrayLength"; "const N"] /\
  bounds_of "From<&[T;N]> for &GenericArray<T,ConstArrayLength<N>>" = Some ["Const<N>:IntoArrayLength"; "const N"] /\
  bounds_of "From<&mut[T;N]> for &mutGenericArray<T,ConstArrayLength<N>>" = Some ["Const<N>:IntoArrayLength"; "const N"] /\
  bounds_of "AsRef<[T;N]> for GenericArray<T,ConstArrayLength<N>>" = Some ["Const<N>:IntoArrayLength"; "const N"] /\
  bounds_of "AsMut<[T;N]> for GenericArray<T,ConstArrayLength<N>>" = Some ["Const<N>:IntoArrayLength"; "const N"].
Proof. repeat split. Qed.

(* the by-value conversion to the native array, an impl FOR [T; N] (regenerated): forwards to into_array under the
   published bound *)
Theorem C02_source_into_native :
  thin_of "From<GenericArray<T,ConstArrayLength<N>>> for [T;N]" "from" = Some "value . into_array ()" /\
  bounds_of "From<GenericArray<T,ConstArrayLength<N>>> for [T;N]" = Some ["Const<N>:IntoArrayLength"; "const N"] /\
  methods_of "From<GenericArray<T,ConstArrayLength<N>>> for [T;N]" = Some ["from"].
Proof. repeat split. Qed.

(* ---- T1: the signatures of this property's inherent methods / free functions as they stand in the source now
        (coq/gen/GenSigs.v gen_fn_sigs): visibility, const / unsafe, generics, parameters, result, where-clause --
        the views borrow from `self` / from the slice they are given (one elided lifetime each) ---- *)
From Coq Require Import String.
From GA Require Import SigDefs.
From GAGen Require Import GenSigs.
Local Open Scope string_scope.

Theorem C02_source_signatures :
  sig_of "GenericArray<T,N> where N:ArrayLength" "as_slice" = Some "pub const fn as_slice (& self) -> & [T]" /\
  sig_of "GenericArray<T,N> where N:ArrayLength" "as_mut_slice" = Some "pub const fn as_mut_slice (& mut self) -> & mut [T]" /\
  sig_of "GenericArray<T,N> where N:ArrayLength" "from_slice" = Some "pub const fn from_slice (slice : & [T]) -> & GenericArray < T , N >" /\
  sig_of "GenericArray<T,N> where N:ArrayLength" "try_from_slice" = Some "pub const fn try_from_slice (slice : & [T]) -> Result < & GenericArray < T , N > , LengthError >" /\
  sig_of "GenericArray<T,N> where N:ArrayLength" "from_mut_slice" = Some "pub const fn from_mut_slice (slice : & mut [T]) -> & mut GenericArray < T , N >" /\
  sig_of "GenericArray<T,N> where N:ArrayLength" "try_from_mut_slice" = Some "pub const fn try_from_mut_slice (slice : & mut [T] ,) -> Result < & mut GenericArray < T , N > , LengthError >" /\
  sig_of "GenericArray<T,N> where N:ArrayLength" "from_array" = Some "pub const fn from_array < const U : usize > (value : [T ; U]) -> Self where Const < U > : IntoArrayLength < ArrayLength = N > ," /\
  sig_of "GenericArray<T,N> where N:ArrayLength" "into_array" = Some "pub const fn into_array < const U : usize > (self) -> [T ; U] where Const < U > : IntoArrayLength < ArrayLength = N > ," /\
  sig_of "GenericArrayIter<T,N> where N:ArrayLength" "as_slice" = Some "pub fn as_slice (& self) -> & [T]" /\
  sig_of "GenericArrayIter<T,N> where N:ArrayLength" "as_mut_slice" = Some "pub fn as_mut_slice (& mut self) -> & mut [T]".
Proof. repeat split. Qed.

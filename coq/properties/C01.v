(* C01 -- GenericArray<T, N> has exactly the memory layout of [T; N], for every element
   type and every length.  Only statements closed by [exact]; the proofs are in
   theories/LayoutProofs.v, the model in theories/Layout.v, the crate's declarations
   in theories/LayoutDecls.v.

   [generic_array crate_decls T ds] is the type GenericArray<T, N> the crate declares
   for the length N whose typenum representation has the binary digits [ds] (least
   significant first; any number of leading zero digits); [val ds] is N.  [layout]
   applies rustc's repr(C) / repr(transparent) / array / PhantomData rules. *)
From GA Require Import Base Layout LayoutDecls LayoutProofs.
Local Open Scope Z_scope.

(* Size and alignment are those of [T; N]: N * size_of(T) bytes, aligned as T -- for
   EVERY element type that has a layout (primitives of any size and alignment, padded
   or packed structs, zero-sized aligned types, arrays, other GenericArrays ...) and
   EVERY digit list, including N = 0 and size_of(T) = 0. *)
Theorem C01_layout : forall (T : ty) (l : lay) (ds : list bool),
  layout T = Some l ->
  exists G, generic_array crate_decls T ds = Some G /\
            layout G = Some {| sz := val ds * sz l; al := al l |} /\
            layout G = layout (Arr T (val ds)).
Proof. exact layout_eq_native. Qed.

(* the same, for an element type given by its size and alignment: all s >= 0, a > 0
   with a | s (every layout rustc produces satisfies this) *)
Theorem C01_layout_prim : forall (s a : Z) (ds : list bool),
  0 <= s -> 0 < a -> (a | s) ->
  exists G, generic_array crate_decls (Prim s a) ds = Some G /\
            layout G = Some {| sz := val ds * s; al := a |} /\
            layout G = layout (Arr (Prim s a) (val ds)).
Proof. exact layout_eq_native_prim. Qed.

(* the side conditions are not restrictions: every type with a layout has size >= 0,
   alignment > 0 and a size that is a multiple of its alignment *)
Theorem C01_layout_wf : forall (t : ty) (l : lay),
  layout t = Some l -> 0 <= sz l /\ 0 < al l /\ (al l | sz l).
Proof. exact layout_wf. Qed.

(* The elements, in memory order, are at byte offsets 0, s, 2s, ..., (N-1)s: N of
   them, element i at i * size_of(T), no padding before, between or after. *)
Theorem C01_offsets : forall (T : ty) (l : lay) (ds : list bool),
  layout T = Some l ->
  exists G, generic_array crate_decls T ds = Some G /\
            offsets 0 G 0 = Some (map (fun i => Z.of_nat i * sz l) (seq 0 (Z.to_nat (val ds)))) /\
            count 0 G = val ds.
Proof. exact offsets_eq_native. Qed.

(* indexed form (no enumeration, so meaningful for N = 2^62 as well): element i exists
   iff 0 <= i < N, and is at i * size_of(T) *)
Theorem C01_offset_at : forall (T : ty) (l : lay) (ds : list bool) (i : Z),
  layout T = Some l ->
  exists G, generic_array crate_decls T ds = Some G /\
            offset_at 0 G 0 i = if (0 <=? i) && (i <? val ds) then Some (i * sz l) else None.
Proof. exact offset_at_eq_native. Qed.

(* Viewing the array as a slice or native array touches nothing outside it and no
   padding: the N elements lie inside [0, N*s) = [0, size_of(GenericArray)), and are
   disjoint and ordered. *)
Theorem C01_in_bounds : forall (T : ty) (l : lay) (ds : list bool),
  layout T = Some l ->
  exists G os, generic_array crate_decls T ds = Some G /\ offsets 0 G 0 = Some os /\
    layout G = Some {| sz := val ds * sz l; al := al l |} /\
    length os = Z.to_nat (val ds) /\
    (forall o, In o os -> 0 <= o /\ o + sz l <= val ds * sz l) /\
    (forall i j oi oj, nth_error os i = Some oi -> nth_error os j = Some oj -> (i < j)%nat ->
                       oi + sz l <= oj).
Proof. exact elements_in_bounds. Qed.

(* GenericArray<T, N> and the native array [T; N] agree on everything the model
   computes: size, alignment, number and offsets of the elements. *)
Theorem C01_same_as_native : forall (T : ty) (l : lay) (ds : list bool),
  layout T = Some l ->
  exists G, generic_array crate_decls T ds = Some G /\
            layout G = layout (Arr (Elem T) (val ds)) /\
            offsets 0 G 0 = offsets 0 (Arr (Elem T) (val ds)) 0 /\
            count 0 G = count 0 (Arr (Elem T) (val ds)).
Proof. exact same_as_native. Qed.

(* Closure under nesting: GenericArray<GenericArray<T, N1>, N2> has the layout of
   [T; N2*N1]; its N2 elements are at multiples of N1*s and the N2*N1 inner elements at
   0, s, ..., (N2*N1-1)s. *)
Theorem C01_nested : forall (T : ty) (l : lay) (ds1 ds2 : list bool),
  layout T = Some l ->
  exists G1 G2, generic_array crate_decls T ds1 = Some G1 /\
                generic_array crate_decls G1 ds2 = Some G2 /\
    layout G2 = Some {| sz := val ds2 * val ds1 * sz l; al := al l |} /\
    offsets 0 G2 0 = Some (elems (val ds1 * sz l) (val ds2)) /\
    offsets 1 G2 0 = Some (elems (sz l) (val ds2 * val ds1)) /\
    count 1 G2 = val ds2 * val ds1 /\
    forall i, offset_at 1 G2 0 i =
              if (0 <=? i) && (i <? val ds2 * val ds1) then Some (i * sz l) else None.
Proof. exact nested_flat. Qed.

(* The invariant behind all of the above, closed under GenericArray<_, N>: a type that
   is laid out as m elements of stride e (alignment a) at depth d yields, for every
   digit list, a type laid out as N*m such elements at depth d+1. *)
Theorem C01_closure : forall (d : nat) (T : ty) (a e : Z) (m : nat) (ds : list bool),
  array_like d T a e m ->
  generic_array crate_decls T ds = Some (ga_ty T ds) /\
  array_like (S d) (ga_ty T ds) a e (Z.to_nat (val ds) * m).
Proof. exact closure. Qed.

(* The linear-time evaluation used by the correspondence check for deep digit lists
   computes the layout of the real type, for any declarations. *)
Theorem C01_placeholder_eval : forall D T ds,
  lay_of (generic_array D T ds) = lay_of (generic_array_ph D T ds).
Proof. exact generic_array_ph_ok. Qed.

(* const_transmute's run-time check lets exactly the equal sizes through *)
Theorem C01_const_transmute_guard : forall sa sb, const_transmute_panics sa sb = false <-> sa = sb.
Proof. exact const_transmute_guard. Qed.

(* Negative controls: the theorems discriminate. *)

(* base case () instead of [T; 0]: GenericArray<u64, U0> would be aligned 1, not 8 *)
Theorem C01_unit_base_refuted :
  exists s a ds G, 0 <= s /\ 0 < a /\ (a | s) /\
    generic_array decls_unit_base (Prim s a) ds = Some G /\
    layout G = Some {| sz := 0; al := 1 |} /\
    layout (Arr (Prim s a) (val ds)) = Some {| sz := 0; al := 8 |}.
Proof. exact unit_base_refuted. Qed.

(* a marker field in the even node that is not a 1-ZST: padding inside a u8 array *)
Theorem C01_sized_marker_refuted :
  exists G, generic_array decls_sized_marker (Prim 1 1) [false; true; false; true] = Some G /\
            layout G = Some {| sz := 12; al := 2 |} /\
            layout (Arr (Prim 1 1) (val [false; true; false; true])) = Some {| sz := 10; al := 1 |} /\
            offsets 0 G 0 = Some [0; 1; 2; 3; 4; 6; 7; 8; 9; 10].
Proof. exact sized_marker_refuted. Qed.

(* without repr(C) on the nodes / repr(transparent) on the wrapper no layout is
   guaranteed at all *)
Theorem C01_repr_rust_nodes_refuted : forall T b ds G,
  generic_array decls_rust_nodes T (b :: ds) = Some G -> layout G = None.
Proof. exact rust_nodes_refuted. Qed.

Theorem C01_repr_rust_wrapper_refuted : forall T ds G,
  generic_array decls_rust_wrapper T ds = Some G -> layout G = None.
Proof. exact rust_wrapper_refuted. Qed.

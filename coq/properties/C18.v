(* C18 -- the const API evaluates at compile time without UB and agrees with run time.
   Statements only; proofs in theories/ConstEvalProofs.v.  [call st e f a] runs the const fn
   [f] of the table [const_fns] on the arguments [a], element size [e], under the
   interpretation [st]: true = the const evaluator's checks (out-of-bounds / dangling
   pointers, uninitialised reads are the failure [UB]), false = run time (no checks).
   All statements are for every type-level length N, every slice length, every element
   size (0 included) and every valid input object. *)
From Coq Require Import String.
From GA Require Import Base ConstEval ConstEvalProofs.
Local Open Scope Z_scope.

(* the evaluator has nothing to reject: a value, or the documented panic (from_slice /
   from_mut_slice with len <> N; chunks_from_slice(_mut) with N = 0 and a non-empty slice) *)
Theorem C18_strict_ok : forall e f a,
  valid_args e f a ->
  (documented_panic f a -> call true e f a = Panicked) /\
  (~ documented_panic f a -> exists v, call true e f a = Ret v).
Proof. exact strict_returns_value. Qed.

Theorem C18_no_ub : forall e f a, valid_args e f a -> call true e f a <> UB.
Proof. exact strict_no_ub. Qed.

(* the same call at run time yields the same value *)
Theorem C18_same : forall e f a, valid_args e f a -> call false e f a = call true e f a.
Proof. exact same_at_run_time. Qed.

(* one definition, two interpretations: they coincide whenever the strict one succeeds,
   for ANY arguments (valid or not) *)
Theorem C18_coincide : forall e f a, call true e f a <> UB -> call false e f a = call true e f a.
Proof. exact call_agrees. Qed.

(* both, for every entry of the const-fn table; and the table lists every modelled function *)
Theorem C18_const_api : forall name f, In (name, f) const_fns ->
  forall e a, valid_args e f a ->
    call true e f a <> UB /\ call false e f a = call true e f a.
Proof. exact const_api_ok. Qed.

Theorem C18_const_fns_complete : forall f, exists name, In (name, f) const_fns.
Proof. exact const_fns_complete. Qed.

(* observing through a returned reference: run time reads the values the evaluator reads *)
Theorem C18_read_same : forall j e m n p,
  rd_range true j e m p n <> UB -> rd_range false j e m p n = rd_range true j e m p n.
Proof. exact agrees_rd_range. Qed.

Theorem C18_write_same : forall e vs m p,
  wr_range true e m p vs <> UB -> wr_range false e m p vs = wr_range true e m p vs.
Proof. exact agrees_wr_range. Qed.

(* ... and they are the cells of the source allocation at the reference's offset *)
Theorem C18_read_through : forall st j e (m : mem) b (bl : block) n off vs,
  e <> 0 -> nth_error m b = Some bl -> 0 <= off ->
  firstn n (skipn (Z.to_nat off) bl) = map Init vs -> List.length vs = n ->
  rd_range st j e m (mkPtr (Blk b) off) n = Ret vs.
Proof. exact rd_range_ok. Qed.

(* what the values are, in both interpretations [st] *)
Theorem C18_as_slice : forall st e m N self,
  valid_ref e m self N -> as_slice st e m N self = Ret (mkSlice self N 1).
Proof. exact as_slice_ok. Qed.

Theorem C18_from_slice : forall st e m N s,
  valid_slice e m s -> sstride s = 1 ->
  from_slice st e m N s = (if slen s =? N then Ret (mkSlice (sp s) 1 N) else Panicked) /\
  from_mut_slice st e m N s = (if slen s =? N then Ret (mkSlice (sp s) 1 N) else Panicked).
Proof. exact from_slice_ok. Qed.

Theorem C18_try_from_slice : forall st e m N s,
  valid_slice e m s -> sstride s = 1 ->
  try_from_slice st e m N s = Ret (if slen s =? N then Some (mkSlice (sp s) 1 N) else None) /\
  try_from_mut_slice st e m N s = Ret (if slen s =? N then Some (mkSlice (sp s) 1 N) else None).
Proof. exact try_from_slice_ok. Qed.

(* the chunk arithmetic of the code: L / N chunks at the slice's base, L mod N remaining
   elements at base + (L / N) * N; no overflow, no underflow, every pointer in bounds *)
Theorem C18_chunks : forall st e m N s,
  0 < N -> valid_slice e m s -> sstride s = 1 ->
  chunks_from_slice st e m N s =
    Ret (mkSlice (sp s) (slen s / N) N,
         mkSlice (mkPtr (pbase (sp s)) (poff (sp s) + slen s / N * N)) (slen s mod N) 1).
Proof. exact chunks_ok. Qed.

Theorem C18_chunks_cover : forall N L, 0 < N -> 0 <= L ->
  L / N * N + L mod N = L /\ 0 <= L mod N < N /\ 0 <= L / N.
Proof. exact chunks_cover. Qed.

Theorem C18_chunks_zero : forall st e m s,
  chunks_from_slice st e m 0 s = if slen s =? 0 then Ret (empty_lit 0, empty_lit 1) else Panicked.
Proof. exact chunks_zero. Qed.

Theorem C18_slice_from_chunks : forall st e m N s,
  valid_slice e m s -> sstride s = N ->
  slice_from_chunks st e m N s = Ret (mkSlice (sp s) (slen s * N) 1).
Proof. exact slice_from_chunks_ok. Qed.

Theorem C18_from_into_chunks : forall st e m N s,
  valid_slice e m s -> sstride s = N -> from_chunks st e m N s = Ret (mkSlice (sp s) (slen s) N).
Proof. exact from_chunks_ok. Qed.

(* by-value conversions: the same elements (for a zero-sized T: N copies of its value) *)
Theorem C18_const_transmute : forall st e needs N a,
  0 <= e -> valid_val needs N a ->
  const_transmute st e needs N a = Ret (if e =? 0 then repeat (Init 0) (Z.to_nat N) else a).
Proof. exact const_transmute_ok. Qed.

Theorem C18_const_transmute_mismatch : forall st e needs M a,
  zlen a * e <> M * e -> const_transmute st e needs M a = Panicked.
Proof. exact const_transmute_mismatch. Qed.

Theorem C18_uninit : forall st e N, uninit st e N = Ret (repeat Uninit (Z.to_nat N)).
Proof. exact uninit_ok. Qed.

Theorem C18_assume_init : forall st e needs N a,
  0 <= e -> 0 <= N -> valid_val needs N a ->
  assume_init st e needs N a = Ret (if e =? 0 then repeat (Init 0) (Z.to_nat N) else a).
Proof. exact assume_init_ok. Qed.

(* the structural ConstDefault over the storage nodes yields exactly N default elements *)
Theorem C18_const_default : forall d N, 0 <= N ->
  const_default d N = Ret (repeat (Init d) (Z.to_nat N)).
Proof. exact const_default_ok. Qed.

(* arr!: the list arm and both repeat arms (typenum length: const_transmute of [x; N::USIZE],
   any N; expression length: from_array) build exactly the denoted elements *)
Theorem C18_arr_list : forall st e xs, 0 <= e ->
  arr_list st e xs = Ret (if e =? 0 then repeat (Init 0) (List.length xs) else map Init xs).
Proof. exact arr_list_ok. Qed.

Theorem C18_arr_repeat : forall st e x N, 0 <= e -> 0 <= N ->
  arr_repeat_ty st e x N = Ret (repeat (Init (if e =? 0 then 0 else x)) (Z.to_nat N)) /\
  arr_repeat_expr st e x N = Ret (repeat (Init (if e =? 0 then 0 else x)) (Z.to_nat N)).
Proof. exact arr_repeat_ok. Qed.

(* the const builder constructors: position 0, all N slots uninitialised, full iff N = 0 *)
Theorem C18_builders : forall st e N, 0 <= N ->
  builder_new st e N = Ret (mkBuilder (repeat Uninit (Z.to_nat N)) 0) /\
  (forall b, builder_new st e N = Ret b -> builder_is_full N b = (N =? 0)) /\
  (forall p, ibuilder_new p = Ret (mkIBuilder p 0)) /\
  (forall p, ibuilder_is_full N (mkIBuilder p 0) = (N =? 0)) /\
  (forall a, consumer_new a = Ret (mkBuilder a 0)).
Proof. exact builders_ok. Qed.

(* the strict interpretation is not vacuous: it rejects an overshooting view, a remainder
   pointer past the end, and assume_init of a partly written array *)
Theorem C18_discriminates :
  (exists m self, valid_ref 1 m self 3 /\ as_slice_off_by_one true 1 m 3 self = UB
                  /\ exists v, as_slice_off_by_one false 1 m 3 self = Ret v) /\
  chunks_bad_add true 1 [[Init 1; Init 2; Init 3; Init 4]] 3 (mkSlice (mkPtr (Blk 0%nat) 0) 4 1) = UB /\
  assume_init true 1 true 2 [Init 1; Uninit] = UB.
Proof.
  exact (conj as_slice_off_by_one_refuted (conj chunks_bad_add_refuted (proj1 assume_init_partial_refuted))).
Qed.

(* ---- tie to the current source: regenerated on every run by tools/ga2coq (coq/gen) ---- *)
From Coq Require Import String.
From GA Require Import Guards GuardTieConstFns GuardTieChunks.
From GAGen Require Import GenGuards GenConstFns.
Local Open Scope Z_scope.

(* the const API: every function the model treats as const is declared `const fn` in the
   source as it stands now, and every `const fn` of the source is covered by the model *)
Theorem C18_source_const_declared :
  forallb (fun n => is_macro_name n || existsb (String.eqb n) source_const_fns)
          (map fst ConstEval.const_fns) = true.
Proof. exact tie_const_fns_declared. Qed.

Theorem C18_source_const_covered :
  forallb (fun n => existsb (String.eqb n) (map fst ConstEval.const_fns)) source_const_fns = true.
Proof. exact tie_const_fns_covered. Qed.

Theorem C18_source_chunk_arith : forall L N,
  let en := chunk_env chunks_from_slice_lets L N in
  geval en N chunks_from_slice_count = L / N /\
  geval en N chunks_from_slice_rem_offset = L / N * N /\
  geval en N chunks_from_slice_rem_len = L - L / N * N /\
  ctest (env1 "slice.len" L) N chunks_from_slice_zero_cond = (N =? 0) /\
  rejects chunks_from_slice_zero_guard (env1 "slice.len" L) N = negb (L =? 0) /\
  fails_by_panic chunks_from_slice_zero_guard = true.
Proof. exact tie_chunks_arith. Qed.

(* ---- T1: the one-expression bodies this property's code consists of besides the modelled core, as they stand
        in the source now (coq/gen/GenSigs.v gen_thin_bodies) ---- *)
From Coq Require Import String.
From GA Require Import SigDefs.
From GAGen Require Import GenSigs.
Local Open Scope string_scope.

Theorem C18_source_thin_bodies :
  thin_of "GenericArray<T,N>" "len" = Some "N :: USIZE" /\
  thin_of "GenericArray<T,N>" "from_array" = Some "unsafe { crate :: const_transmute (value) }" /\
  thin_of "GenericArray<T,N>" "into_array" = Some "unsafe { crate :: const_transmute (self) }" /\
  thin_of "GenericArray<T,N>" "uninit" = Some "unsafe { MaybeUninit :: < GenericArray < MaybeUninit < T > , N > > :: uninit () . assume_init () }" /\
  thin_of "GenericArray<T,N>" "assume_init" = Some "const_transmute :: < _ , MaybeUninit < GenericArray < T , N > > > (array) . assume_init ()".
Proof. repeat split. Qed.

(* const_transmute as it stands in src/lib.rs now: size test, then a by-value union reinterpretation *)
Theorem C18_source_const_transmute_body :
  small_of "" "const_transmute" =
    Some ["if mem :: size_of :: < A > () != mem :: size_of :: < B > () { panic ! (""Size mismatch for generic_array::const_transmute"") ; }";
          "# [repr (C)] union Union < A , B > { a : ManuallyDrop < A > , b : ManuallyDrop < B > , }";
          "let a = ManuallyDrop :: new (a) ;";
          "ManuallyDrop :: into_inner (Union { a } . b)"].
Proof. reflexivity. Qed.

(* ---- T1: the signatures of this property's inherent methods / free functions as they stand in the source now
        (coq/gen/GenSigs.v gen_fn_sigs): visibility, const / unsafe, generics, parameters, result, where-clause --
        every function of the const API is declared `const fn` with these parameters and bounds ---- *)
From Coq Require Import String.
From GA Require Import SigDefs.
From GAGen Require Import GenSigs.
Local Open Scope string_scope.

Theorem C18_source_signatures :
  sig_of "GenericArray<T,N> where N:ArrayLength" "len" = Some "pub const fn len () -> usize" /\
  sig_of "GenericArray<T,N> where N:ArrayLength" "as_slice" = Some "pub const fn as_slice (& self) -> & [T]" /\
  sig_of "GenericArray<T,N> where N:ArrayLength" "as_mut_slice" = Some "pub const fn as_mut_slice (& mut self) -> & mut [T]" /\
  sig_of "GenericArray<T,N> where N:ArrayLength" "from_slice" = Some "pub const fn from_slice (slice : & [T]) -> & GenericArray < T , N >" /\
  sig_of "GenericArray<T,N> where N:ArrayLength" "try_from_slice" = Some "pub const fn try_from_slice (slice : & [T]) -> Result < & GenericArray < T , N > , LengthError >" /\
  sig_of "GenericArray<T,N> where N:ArrayLength" "from_mut_slice" = Some "pub const fn from_mut_slice (slice : & mut [T]) -> & mut GenericArray < T , N >" /\
  sig_of "GenericArray<T,N> where N:ArrayLength" "try_from_mut_slice" = Some "pub const fn try_from_mut_slice (slice : & mut [T] ,) -> Result < & mut GenericArray < T , N > , LengthError >" /\
  sig_of "GenericArray<T,N> where N:ArrayLength" "chunks_from_slice" = Some "pub const fn chunks_from_slice (slice : & [T]) -> (& [GenericArray < T , N >] , & [T])" /\
  sig_of "GenericArray<T,N> where N:ArrayLength" "chunks_from_slice_mut" = Some "pub const fn chunks_from_slice_mut (slice : & mut [T]) -> (& mut [GenericArray < T , N >] , & mut [T])" /\
  sig_of "GenericArray<T,N> where N:ArrayLength" "slice_from_chunks" = Some "pub const fn slice_from_chunks (slice : & [GenericArray < T , N >]) -> & [T]" /\
  sig_of "GenericArray<T,N> where N:ArrayLength" "slice_from_chunks_mut" = Some "pub const fn slice_from_chunks_mut (slice : & mut [GenericArray < T , N >]) -> & mut [T]" /\
  sig_of "GenericArray<T,N> where N:ArrayLength" "from_array" = Some "pub const fn from_array < const U : usize > (value : [T ; U]) -> Self where Const < U > : IntoArrayLength < ArrayLength = N > ," /\
  sig_of "GenericArray<T,N> where N:ArrayLength" "into_array" = Some "pub const fn into_array < const U : usize > (self) -> [T ; U] where Const < U > : IntoArrayLength < ArrayLength = N > ," /\
  sig_of "GenericArray<T,N> where N:ArrayLength" "from_chunks" = Some "pub const fn from_chunks < const U : usize > (chunks : & [[T ; U]]) -> & [GenericArray < T , N >] where Const < U > : IntoArrayLength < ArrayLength = N > ," /\
  sig_of "GenericArray<T,N> where N:ArrayLength" "from_chunks_mut" = Some "pub const fn from_chunks_mut < const U : usize > (chunks : & mut [[T ; U]]) -> & mut [GenericArray < T , N >] where Const < U > : IntoArrayLength < ArrayLength = N > ," /\
  sig_of "GenericArray<T,N> where N:ArrayLength" "into_chunks" = Some "pub const fn into_chunks < const U : usize > (chunks : & [GenericArray < T , N >]) -> & [[T ; U]] where Const < U > : IntoArrayLength < ArrayLength = N > ," /\
  sig_of "GenericArray<T,N> where N:ArrayLength" "into_chunks_mut" = Some "pub const fn into_chunks_mut < const U : usize > (chunks : & mut [GenericArray < T , N >]) -> & mut [[T ; U]] where Const < U > : IntoArrayLength < ArrayLength = N > ," /\
  sig_of "GenericArray<T,N> where N:ArrayLength" "uninit" = Some "pub const fn uninit () -> GenericArray < MaybeUninit < T > , N >" /\
  sig_of "GenericArray<T,N> where N:ArrayLength" "assume_init" = Some "pub const unsafe fn assume_init (array : GenericArray < MaybeUninit < T > , N >) -> Self" /\
  sig_of "fn" "const_transmute" = Some "pub const unsafe fn const_transmute < A , B > (a : A) -> B" /\
  sig_of "GenericArray<T,U> where Self:ConstDefault,T:ConstDefault,U:ArrayLength" "const_default" = Some "pub const fn const_default () -> Self" /\
  sig_of "ArrayBuilder<T,N> where N:ArrayLength" "new" = Some "pub const fn new () -> ArrayBuilder < T , N >" /\
  sig_of "ArrayBuilder<T,N> where N:ArrayLength" "is_full" = Some "pub const fn is_full (& self) -> bool" /\
  sig_of "ArrayBuilder<T,N> where N:ArrayLength" "assume_init" = Some "pub const unsafe fn assume_init (self) -> GenericArray < T , N >" /\
  sig_of "IntrusiveArrayBuilder<,T,N> where N:ArrayLength" "new" = Some "pub const fn new (array : & 'a mut GenericArray < MaybeUninit < T > , N > ,) -> IntrusiveArrayBuilder < 'a , T , N >" /\
  sig_of "IntrusiveArrayBuilder<,T,N> where N:ArrayLength" "is_full" = Some "pub const fn is_full (& self) -> bool" /\
  sig_of "IntrusiveArrayBuilder<,T,N> where N:ArrayLength" "finish" = Some "pub const unsafe fn finish (self)" /\
  sig_of "ArrayConsumer<T,N> where N:ArrayLength" "new" = Some "pub const fn new (array : GenericArray < T , N >) -> ArrayConsumer < T , N >".
Proof. repeat split. Qed.

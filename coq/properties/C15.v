(* C15 -- heap interop preserves contents, needs exact length, reuses the allocation.
   Statements only; proofs in theories/HeapConvProofs.v (and HeapTraceProofs.v for the
   layout clause).  Model: theories/Alloc.v (heap, std oracles), theories/HeapOps.v (the
   functions of src/impl_alloc.rs and box_arr!).  Every statement holds for every N
   (including 0), every element size (including 0), every source length and capacity, and
   for the operation started in an arbitrary state [st].  [fails] is the allocation-failure
   oracle; where an operation may allocate, the statement is under "this allocation does
   not fail" (allocation failure is C16's clause).
   NOT expressible in this model: "the boxed constructors build arrays far larger than the
   thread's stack" -- established only by the run c15big of the harness (evidence NOTE). *)
From GA Require Import Base Builder BuilderProofs Functional FunctionalProofs Alloc HeapOps
  HeapOpsProofs HeapConvProofs HeapTraceProofs.
Local Open Scope Z_scope.

(* ---- the O(1) conversions: THE SAME block, the same elements, ZERO allocator events
        (the whole state, trace included, is returned unchanged) ---- *)
Theorem C15_into_boxed_slice_same_block : forall (b : hbox) st,
  into_boxed_slice b st = (MRet (mkBox (bblk b) (bel b)), st).
Proof. exact into_boxed_slice_spec. Qed.

Theorem C15_into_vec_same_block : forall (b : hbox) st,
  into_vec b st = (MRet (mkVec (bblk b) (blen b) (bel b)), st).
Proof. exact into_vec_spec. Qed.

Theorem C15_try_from_boxed_slice_same_block : forall T N (s : hbox) st,
  blen s = Z.of_nat N ->
  try_from_boxed_slice T N s st = (MRet (Some (mkBox (bblk s) (bel s))), st).
Proof. exact try_from_boxed_slice_ok. Qed.

(* try_from_vec when length = capacity (= N), or for zero-sized elements *)
Theorem C15_try_from_vec_same_block : forall fails T N (v : hvec) st,
  vlen v = Z.of_nat N -> vlen v = vcap v \/ esz T = 0 ->
  try_from_vec fails T N v st = (MRet (Some (mkBox (vblk v) (vel v))), st).
Proof. exact try_from_vec_o1. Qed.

(* ---- Ok exactly when the source length is N; otherwise LengthError and every source
        element dropped exactly once (one EDrop each, appended in order) ---- *)
Theorem C15_try_from_boxed_slice_ok_iff : forall T N (s : hbox) st, box_wf T s ->
  (exists b st', try_from_boxed_slice T N s st = (MRet (Some b), st')) <-> blen s = Z.of_nat N.
Proof. exact try_from_boxed_slice_ok_iff. Qed.

Theorem C15_try_from_boxed_slice_length_error : forall T N (s : hbox) st,
  blen s <> Z.of_nat N -> box_wf T s ->
  exists st', try_from_boxed_slice T N s st = (MRet None, st') /\
    added st st' (if bytes T (blen s) =? 0 then []
                  else match bblk s with Some i => [EDealloc i (bytes T (blen s)) (eal T)] | None => [] end)
              (map EDrop (bel s)).
Proof. exact try_from_boxed_slice_err. Qed.

(* try_from_vec with any capacity: contents and order preserved on Ok, nothing dropped *)
Theorem C15_try_from_vec : forall fails T N (v : hvec) st, vec_wf T v -> elt_ok T ->
  fails (nallocs st) = false ->
  exists r st', try_from_vec fails T N v st = (MRet r, st') /\
    if vlen v =? Z.of_nat N
    then (exists b, r = Some b /\ bel b = vel v) /\ etr st' = etr st
    else r = None /\ etr st' = etr st ++ map EDrop (vel v).
Proof. exact try_from_vec_spec. Qed.

Theorem C15_try_from_vec_ok_iff : forall fails T N (v : hvec) st, vec_wf T v -> elt_ok T ->
  fails (nallocs st) = false ->
  (exists b st', try_from_vec fails T N v st = (MRet (Some b), st')) <-> vlen v = Z.of_nat N.
Proof. exact try_from_vec_ok_iff. Qed.

(* TryFrom<Vec<T>> and TryFrom<Box<[T]>> for GenericArray<T, N> *)
Theorem C15_vec_to_array : forall T N (v : hvec) st, vec_wf T v ->
  exists r st', vec_to_array T N v st = (MRet r, st') /\
    if vlen v =? Z.of_nat N
    then r = Some (vel v) /\ etr st' = etr st
    else r = None /\ etr st' = etr st ++ map EDrop (vel v).
Proof. exact vec_to_array_spec. Qed.

Theorem C15_boxed_slice_to_array : forall T N (s : hbox) st, box_wf T s ->
  exists r st', boxed_slice_to_array T N s st = (MRet r, st') /\
    if blen s =? Z.of_nat N
    then r = Some (bel s) /\ etr st' = etr st
    else r = None /\ etr st' = etr st ++ map EDrop (bel s).
Proof. exact boxed_slice_to_array_spec. Qed.

(* ---- infallible conversions and constructors: contents and order ---- *)
Theorem C15_array_to_boxed_slice : forall fails T (a : list Z) st, fails (nallocs st) = false ->
  exists b st', array_to_boxed_slice fails T a st = (MRet b, st') /\ bel b = a /\
    etr st' = etr st /\
    atr st' = atr st ++ (if bytes T (zlen a) =? 0 then [] else [EAlloc (next st) (bytes T (zlen a)) (eal T)]) /\
    bblk b = (if bytes T (zlen a) =? 0 then None else Some (next st)).
Proof. exact array_to_boxed_slice_spec. Qed.

Theorem C15_array_to_vec : forall fails T (a : list Z) st, fails (nallocs st) = false ->
  exists v st', array_to_vec fails T a st = (MRet v, st') /\ vel v = a /\ vcap v = zlen a /\
    etr st' = etr st.
Proof. exact array_to_vec_spec. Qed.

Theorem C15_boxed_into_iter : forall T (b : hbox) k st, box_wf T b ->
  exists st', boxed_into_iter T b k st = (MRet (firstn k (bel b)), st') /\
    etr st' = etr st ++ map EDrop (skipn k (bel b)).
Proof. exact boxed_into_iter_spec. Qed.

Theorem C15_boxed_generate_contents : forall fails T N f pan st b st',
  boxed_generate fails T N f pan st = (MRet b, st') ->
  bel b = produced f 0 (repeat [] N) /\ length (bel b) = N.
Proof. exact boxed_generate_contents. Qed.

Theorem C15_try_boxed_from_iter_exact : forall fails T N s st b st',
  HeapOps.try_boxed_from_iter fails T N s st = (MRet (Some b), st') ->
  exact_source N s (bel b) /\ precheck_reject N s = false.
Proof. exact try_boxed_from_iter_contents. Qed.

Theorem C15_box_arr_list_contents : forall fails T l st b st',
  box_arr_list fails T l st = (MRet b, st') -> bel b = l.
Proof. exact box_arr_list_contents. Qed.

Theorem C15_box_arr_repeat_contents : forall fails T x N cl st b st',
  box_arr_repeat fails T x N cl st = (MRet b, st') ->
  bel b = match N with O => [] | S m => map cl (seq 0 m) ++ [x] end.
Proof. exact box_arr_repeat_contents. Qed.

Theorem C15_boxed_map_contents : forall fails T U f pan (src : hbox) st b st',
  boxed_map fails T U f pan src st = (MRet b, st') ->
  bel b = produced f 0 (map (fun x => [x]) (bel src)).
Proof. exact boxed_map_contents. Qed.

Theorem C15_boxed_zip_contents : forall fails T B U f pan (l r : hbox) st b st',
  boxed_zip fails T B U f pan l r st = (MRet b, st') ->
  bel b = produced f 0 (map (fun p : Z * Z => [fst p; snd p]) (combine (bel l) (bel r))).
Proof. exact boxed_zip_contents. Qed.

(* ---- layouts agree: in every run of every conversion (source built by std, the
        conversion, the result dropped through its own type: Box<GenericArray<T, N>> is
        released with (N * size, align) -- C01), every release names a live block with
        exactly the size and alignment it was requested with, from any starting heap ---- *)
Theorem C15_layouts_agree : forall fails T sc n k h0, elt_ok T -> scn_ok sc -> fresh n h0 ->
  forall t1 b sz al t2,
  atr (r_final (run_scn fails T sc (init n k))) = t1 ++ EDealloc b sz al :: t2 ->
  exists h1, valid h0 t1 h1 /\ hfind b h1 = Some (sz, al).
Proof. exact run_releases_paired. Qed.

(* ---- tie to the current source: regenerated on every run by tools/ga2coq (coq/gen) ---- *)
From Coq Require Import String.
From GA Require Import Guards GuardTieHeap.
From GAGen Require Import GenGuards GenConstFns.
Local Open Scope Z_scope.

(* the length tests of TryFrom<Vec<T>> and try_from_boxed_slice as they stand in
   src/impl_alloc.rs now: LengthError exactly when len <> N *)
Theorem C15_source_guards : forall L N,
  rejects try_from_vec_guard (env1 "v.len" L) N = negb (L =? N) /\ fails_by_panic try_from_vec_guard = false /\
  rejects try_from_boxed_slice_guard (env1 "slice.len" L) N = negb (L =? N) /\
  fails_by_panic try_from_boxed_slice_guard = false.
Proof. exact tie_heap_guards. Qed.

(* ---- tier T3: the BODIES of into_boxed_slice, into_vec, try_from_boxed_slice, try_from_vec,
   TryFrom<Vec<T>>, TryFrom<Box<[T]>>, From<GenericArray> for Box<[T]> and for Vec<T>
   (src/impl_alloc.rs) as tools/ga2coq regenerates them on every run (coq/gen/GenHeap.v: the length
   guard and one expression over Box::into_raw, pointer casts, slice_from_raw_parts_mut,
   Box::from_raw, Vec::from, Vec::into_boxed_slice, Box::new and calls of the file's other
   functions, every method call resolved from the declared types), run by the interpreter of
   HeapProg.v over the allocator model, ARE the hub functions the theorems above are about: same
   result, same allocator calls, same element events, from every allocator state ---- *)
From GA Require Import HeapProg HeapTie.
From GAGen Require Import GenHeap.
Local Open Scope string_scope.

Theorem C15_source_into_boxed_slice : forall fails T N b st, zlen (bel b) = Z.of_nat N ->
  HeapProg.call fails T N gen_heap_table "into_boxed_slice" (VBoxA b) st =
  (s <- into_boxed_slice b ;; ret (VBoxS s)) st.
Proof. exact tie_into_boxed_slice. Qed.

Theorem C15_source_into_vec : forall fails T N b st, zlen (bel b) = Z.of_nat N ->
  HeapProg.call fails T N gen_heap_table "into_vec" (VBoxA b) st = (v <- into_vec b ;; ret (VVecV v)) st.
Proof. exact tie_into_vec. Qed.

Theorem C15_source_try_from_boxed_slice : forall fails T N s st,
  HeapProg.call fails T N gen_heap_table "try_from_boxed_slice" (VBoxS s) st =
  (r <- try_from_boxed_slice T N s ;; ret (opt_box r)) st.
Proof. exact tie_try_from_boxed_slice. Qed.

Theorem C15_source_try_from_vec : forall fails T N v st,
  HeapProg.call fails T N gen_heap_table "try_from_vec" (VVecV v) st =
  (r <- try_from_vec fails T N v ;; ret (opt_box r)) st.
Proof. exact tie_try_from_vec. Qed.

Theorem C15_source_vec_to_array : forall fails T N v st,
  HeapProg.call fails T N gen_heap_table "TryFrom<Vec<T>>" (VVecV v) st =
  (r <- vec_to_array T N v ;; ret (opt_arr r)) st.
Proof. exact tie_vec_to_array. Qed.

Theorem C15_source_boxed_slice_to_array : forall fails T N s st,
  HeapProg.call fails T N gen_heap_table "TryFrom<Box<[T]>>" (VBoxS s) st =
  (r <- boxed_slice_to_array T N s ;; ret (opt_arr r)) st.
Proof. exact tie_boxed_slice_to_array. Qed.

Theorem C15_source_array_to_boxed_slice : forall fails T N a st, zlen a = Z.of_nat N ->
  HeapProg.call fails T N gen_heap_table "From<GenericArray> for Box<[T]>" (VArrV a) st =
  (s <- array_to_boxed_slice fails T a ;; ret (VBoxS s)) st.
Proof. exact tie_array_to_boxed_slice. Qed.

Theorem C15_source_array_to_vec : forall fails T N a st, zlen a = Z.of_nat N ->
  HeapProg.call fails T N gen_heap_table "From<GenericArray> for Vec<T>" (VArrV a) st =
  (v <- array_to_vec fails T a ;; ret (VVecV v)) st.
Proof. exact tie_array_to_vec. Qed.

(* ---- T1: the one-expression bodies this property's code consists of besides the modelled core, as they stand
        in the source now (coq/gen/GenSigs.v gen_thin_bodies) ---- *)
From Coq Require Import String.
From GA Require Import SigDefs.
From GAGen Require Import GenSigs.
Local Open Scope string_scope.

Theorem C15_source_thin_bodies :
  thin_of "GenericArray<T,N>" "into_boxed_slice" = Some "unsafe { Box :: from_raw (core :: ptr :: slice_from_raw_parts_mut (Box :: into_raw (self) as * mut T , N :: USIZE ,)) }" /\
  thin_of "GenericArray<T,N>" "into_vec" = Some "Vec :: from (self . into_boxed_slice ())" /\
  thin_of "GenericArray<T,N>" "try_from_vec" = Some "Self :: try_from_boxed_slice (vec . into_boxed_slice ())" /\
  thin_of "TryFrom<Box<[T]>> for GenericArray<T,N>" "try_from" = Some "Vec :: from (value) . try_into ()" /\
  thin_of "IntoIterator for Box<GenericArray<T,N>>" "into_iter" = Some "GenericArray :: into_vec (self) . into_iter ()".
Proof. repeat split. Qed.

(* ---- T2: the bounds of the trait impls this property's operations come from, as they stand in the source now
        (coq/gen/GenSigs.v gen_impl_bounds): code that is generic over the lengths / element type and states
        exactly these bounds can call them ---- *)
From Coq Require Import String.
From GA Require Import SigDefs.
From GAGen Require Import GenSigs.
Local Open Scope string_scope.

Theorem C15_source_impl_bounds :
  bounds_of "TryFrom<Vec<T>> for GenericArray<T,N>" = Some ["N:ArrayLength"] /\
  bounds_of "TryFrom<Box<[T]>> for GenericArray<T,N>" = Some ["N:ArrayLength"] /\
  bounds_of "IntoIterator for Box<GenericArray<T,N>>" = Some ["N:ArrayLength"].
Proof. repeat split. Qed.

(* the From impls FOR Box<[T]> and Vec<T> (regenerated): one call chain each, no bound besides the length's *)
Theorem C15_source_from_array :
  thin_of "From<GenericArray<T,N>> for Box<[T]>" "from" = Some "Box :: new (value) . into_boxed_slice ()" /\
  thin_of "From<GenericArray<T,N>> for Vec<T>" "from" = Some "Box :: < [T] > :: from (value) . into ()" /\
  bounds_of "From<GenericArray<T,N>> for Box<[T]>" = Some ["N:ArrayLength"] /\
  bounds_of "From<GenericArray<T,N>> for Vec<T>" = Some ["N:ArrayLength"].
Proof. repeat split. Qed.

(* ---- T1: the signatures of this property's inherent methods / free functions as they stand in the source now
        (coq/gen/GenSigs.v gen_fn_sigs): visibility, const / unsafe, generics, parameters, result, where-clause --
        the Box / Vec / Box<[T]> interop functions ---- *)
From Coq Require Import String.
From GA Require Import SigDefs.
From GAGen Require Import GenSigs.
Local Open Scope string_scope.

Theorem C15_source_signatures :
  sig_of "GenericArray<T,N> where N:ArrayLength" "into_boxed_slice" = Some "pub fn into_boxed_slice (self : Box < GenericArray < T , N > >) -> Box < [T] >" /\
  sig_of "GenericArray<T,N> where N:ArrayLength" "into_vec" = Some "pub fn into_vec (self : Box < GenericArray < T , N > >) -> Vec < T >" /\
  sig_of "GenericArray<T,N> where N:ArrayLength" "try_from_boxed_slice" = Some "pub fn try_from_boxed_slice (slice : Box < [T] >) -> Result < Box < GenericArray < T , N > > , LengthError >" /\
  sig_of "GenericArray<T,N> where N:ArrayLength" "try_from_vec" = Some "pub fn try_from_vec (vec : Vec < T >) -> Result < Box < GenericArray < T , N > > , LengthError >" /\
  sig_of "GenericArray<T,N> where N:ArrayLength" "default_boxed" = Some "pub fn default_boxed () -> Box < GenericArray < T , N > > where T : Default ," /\
  sig_of "GenericArray<T,N> where N:ArrayLength" "try_boxed_from_iter" = Some "pub fn try_boxed_from_iter < I > (iter : I) -> Result < Box < GenericArray < T , N > > , LengthError > where I : IntoIterator < Item = T > ,".
Proof. repeat split. Qed.

(* C17 -- serde round-trips arrays as fixed-size tuples and rejects any other length.
   Only statements closed by [exact]; model in theories/Serde.v, proofs in theories/SerdeProofs.v.
   N is the array length [n] / [length a]; a scripted SeqAccess [s] is arbitrary (not fused, hints
   not assumed truthful) unless a hypothesis says otherwise. *)
From GA Require Import Base Serde SerdeProofs.

(* (ser) a tuple of exactly N elements in index order, nothing else *)
Theorem C17_ser : forall a : list Z,
  serialize a = TupleStart (zlen a) :: map Elem a ++ [TupleEnd].
Proof. exact serialize_tokens. Qed.

(* no length prefix in a non-self-describing format: the bytes are the element encodings *)
Theorem C17_no_length_prefix : forall (enc : Z -> list Z) (a : list Z),
  bytes_nsd enc (serialize a) = flat_map enc a.
Proof. exact bytes_no_prefix. Qed.

(* (roundtrip) deserialising what the serializer emitted, through a format with exact hints or
   with none, returns an equal array and drops nothing *)
Theorem C17_roundtrip : forall (a : list Z) (hints : bool),
  result (deserialize (length a) (script_of_tokens (serialize a) hints)) = DOk a /\
  trace (deserialize (length a) (script_of_tokens (serialize a) hints)) = [].
Proof. exact roundtrip. Qed.

(* any source that delivers the elements of a in order and then ends (by hint or by probe) *)
Theorem C17_roundtrip_general : forall s a, delivers s a ->
  result (deserialize (length a) s) = DOk a /\ trace (deserialize (length a) s) = [] /\
  polls (deserialize (length a) s) <= S (length a).
Proof. exact roundtrip_general. Qed.

(* acceptance characterised: Ok a  iff  the up-front hint does not contradict N, the first N calls
   deliver exactly a, and the input ends there *)
Theorem C17_accept_iff : forall n s a,
  result (deserialize n s) = DOk a <->
  hint_rejects n (hint0 s) = false /\ leading s 0 n = a /\ length a = n /\ ends_at n s.
Proof. exact accept_iff. Qed.

(* (reject) an up-front hint other than N: Err before anything is read *)
Theorem C17_reject_hint : forall n s v, hint0 s = Some v -> v <> Z.of_nat n ->
  deserialize n s = mkO DErr 0 [].
Proof. exact reject_hint. Qed.

(* (reject) fewer than N elements, or the k-th element (k < N) fails to parse: Err after k+1 calls,
   exactly the k elements read are dropped *)
Theorem C17_reject_short_or_parse : forall n s k, hint_rejects n (hint0 s) = false ->
  k < n -> first_non_item s k ->
  result (deserialize n s) = DErr /\ polls (deserialize n s) = S k /\
  length (dropped (deserialize n s)) = k /\
  (forall j x, nth_error (dropped (deserialize n s)) j = Some x -> items s j = Item x).
Proof. exact reject_short_or_parse. Qed.

(* (reject) more than N elements (or an error right after the N-th), discovered while reading;
   [hint_after s n <> Some 0] excludes exactly the source that claims "nothing left" *)
Theorem C17_reject_long : forall n s, hint_rejects n (hint0 s) = false ->
  (forall j, j < n -> exists x, items s j = Item x) ->
  items s n <> Nothing -> hint_after s n <> Some 0%Z ->
  result (deserialize n s) = DErr /\ polls (deserialize n s) = S n /\
  length (dropped (deserialize n s)) = n /\
  (forall j x, nth_error (dropped (deserialize n s)) j = Some x -> items s j = Item x).
Proof. exact reject_long. Qed.

(* (drops) every outcome: on Err the destructor trace is one EDrop per element read and nothing
   else; on Ok no destructor runs and the array is exactly the N elements read, in order; never UB *)
Theorem C17_drops : forall n s,
  match result (deserialize n s) with
  | DOk a => trace (deserialize n s) = [] /\ a = reads n s /\ length a = n
  | DErr => trace (deserialize n s) = map EDrop (reads n s)
  | DUB => False
  end.
Proof. exact drops_spec. Qed.

Theorem C17_drops_exactly_once : forall n s, NoDup (reads n s) ->
  result (deserialize n s) = DErr ->
  forall x, count_occ Z.eq_dec (dropped (deserialize n s)) x =
            (if in_dec Z.eq_dec x (reads n s) then 1 else 0).
Proof. exact drops_exactly_once. Qed.

(* (polls) at most N+1 calls of next_element *)
Theorem C17_polls : forall n s, polls (deserialize n s) <= n + 1.
Proof. exact polls_bound. Qed.

Theorem C17_no_ub : forall n s, result (deserialize n s) <> DUB.
Proof. exact no_ub. Qed.

(* ---- tie to the current source: regenerated on every run by tools/ga2coq (coq/gen/GenGuards.v) ----
   the up-front hint check, the fullness test, the guard of the surplus probe and the announced
   tuple length of src/impl_serde.rs, as they stand now, are what the model's visit_seq uses *)
From Coq Require Import String.
From GA Require Import Guards GuardTieSerde.
From GAGen Require Import GenGuards.
Local Open Scope Z_scope.

Theorem C17_source_hint_check : forall n (h : option Z),
  hint_rejects n h =
  match h with Some v => ctest (env1 "hint" v) (Z.of_nat n) serde_hint_guard | None => false end.
Proof. exact tie_serde_hint. Qed.

Theorem C17_source_full_test : forall pos n : nat,
  Nat.eqb pos n = ctest (env1 "position" (Z.of_nat pos)) (Z.of_nat n) serde_full_test.
Proof. exact tie_serde_full. Qed.

Theorem C17_source_probe_guard : forall h : option Z,
  serde_probe_guard = ("!=", 0)%string /\
  hint_allows_probe h = match h with Some v => negb (v =? snd serde_probe_guard) | None => true end.
Proof. exact tie_serde_probe. Qed.

Theorem C17_source_tuple_len :
  serde_tuple_lens = [("serialize_tuple", GN); ("deserialize_tuple", GN)]%string.
Proof. exact tie_serde_tuple_len. Qed.

(* ---- T1: which trait methods are implemented (coq/gen/GenSigs.v gen_impl_methods) ---- *)
From Coq Require Import String.
From GA Require Import SigDefs.
From GAGen Require Import GenSigs.
Local Open Scope string_scope.

(* Serialize defines serialize and Deserialize defines deserialize, nothing else (regenerated): deserialize_in_place is serde's default, which delegates to deserialize *)
Theorem C17_source_impl_methods :
  methods_of "Serialize for GenericArray<T,N>" = Some ["serialize"] /\
  methods_of "Deserialize<'de> for GenericArray<T,N>" = Some ["deserialize"].
Proof. repeat split. Qed.


(* ---- tier T3: the BODY of GAVisitor::visit_seq as regenerated on every run (coq/gen/GenSerde.v: the
   up-front hint arm, the fill loop with `?` and `break`, the fullness test with the guarded surplus
   probe and the successful return, the final Err), run by the interpreter of SerdeProg.v over an
   arbitrary scripted SeqAccess, IS the model's visit_seq: result, number of next_element calls and
   destructor runs ---- *)
From GA Require Import Pipe SerdeProg SerdeTie.
From GAGen Require Import GenSerde.
Theorem C17_source_visit_seq : forall n s, vrun n s gen_visit_seq = Some (visit_seq n s).
Proof. exact tie_visit_seq. Qed.

(* Serialize::serialize as it stands in src/impl_serde.rs now (regenerated): serialize_tuple(N), one
   serialize_element per element in index order, end() -- the hub's token stream, for every array *)
Theorem C17_source_serialize : forall a, ser_run gen_serialize a = Some (serialize a).
Proof. exact tie_serialize. Qed.

(* Deserialize::deserialize (regenerated): deserialize_tuple(N::USIZE, visitor), the visitor holding no data *)
Theorem C17_source_deserialize :
  gen_deserialize = ("deserialize_tuple", "N :: USIZE", ["_t : PhantomData"; "_n : PhantomData"])%string.
Proof. exact tie_deserialize. Qed.

(* ---- T2: the bounds of the trait impls this property's operations come from, as they stand in the source now
        (coq/gen/GenSigs.v gen_impl_bounds): code that is generic over the lengths / element type and states
        exactly these bounds can call them ---- *)
From Coq Require Import String.
From GA Require Import SigDefs.
From GAGen Require Import GenSigs.
Local Open Scope string_scope.

Theorem C17_source_impl_bounds :
  bounds_of "Serialize for GenericArray<T,N>" = Some ["N:ArrayLength"; "T:Serialize"] /\
  bounds_of "Deserialize<> for GenericArray<T,N>" = Some ["N:ArrayLength"; "T:Deserialize<>"].
Proof. repeat split. Qed.

(* what a rejection says it expected: the array type with its length (regenerated) *)
Theorem C17_source_expecting :
  thin_of "Visitor<> for GAVisitor<T,N>" "expecting" = Some "write ! (formatter , ""struct GenericArray<T, U{}>"" , N :: USIZE)".
Proof. reflexivity. Qed.

(* the surplus probe deserialises a unit-like Dummy that accepts anything without looking at it (regenerated) *)
Theorem C17_source_dummy :
  thin_of "Deserialize<> for Dummy" "deserialize" = Some "Ok (Dummy)".
Proof. reflexivity. Qed.

(* C16 -- every heap block is requested validly, freed once with its layout, never leaked.
   Statements only; proofs in theories/HeapOpsProofs.v (scn_heap_ok, by symbolic execution
   of every operation) and theories/HeapTraceProofs.v.
   A run ([run_scn]) = build the source values with std, one alloc-feature operation of the
   crate ([scn]: every function of src/impl_alloc.rs and both box_arr! forms, boxed map / zip
   included), then drop whatever it returned.  Quantified: every operation, every N (incl. 0),
   every element size (incl. 0) and alignment, every source length / capacity, a panic at any
   closure call / source poll ([pan], [src]), any allocation-failure oracle [fails], any
   starting heap [h0] (with identities below the next fresh one) and any number [k] of
   allocation calls made before.
   The boxed generate of 614d235 violates three clauses: see the _refuted theorems at the end;
   the theorems here are about the FIXED function (Box::new_uninit). *)
From GA Require Import Base Builder Functional Alloc HeapOps HeapOpsProofs HeapTraceProofs.
Local Open Scope Z_scope.

(* the master statement (heap_ok: HeapOps.v) *)
Theorem C16_every_run : forall fails T sc, elt_ok T -> scn_ok sc ->
  forall n k h0, fresh n h0 ->
    rep_ok fails h0 n k (run_scn fails T sc (init n k)).
Proof. exact scn_heap_ok. Qed.

(* every request that reaches the allocator (alloc, realloc, also a failing one) has a
   non-zero size, and nothing touches the null block *)
Theorem C16_valid : forall fails T sc n k h0, elt_ok T -> scn_ok sc -> fresh n h0 ->
  forall e, In e (atr (r_final (run_scn fails T sc (init n k)))) -> request_ok e.
Proof. exact run_requests_valid. Qed.

Theorem C16_requests_nonzero : forall fails T sc n k h0, elt_ok T -> scn_ok sc -> fresh n h0 ->
  forall b sz al, In (EAlloc b sz al) (atr (r_final (run_scn fails T sc (init n k)))) -> 0 < sz.
Proof. exact run_requests_nonzero. Qed.

(* every release names a block that is live at that moment, with the size and alignment
   it was requested with *)
Theorem C16_paired : forall fails T sc n k h0, elt_ok T -> scn_ok sc -> fresh n h0 ->
  forall t1 b sz al t2,
  atr (r_final (run_scn fails T sc (init n k))) = t1 ++ EDealloc b sz al :: t2 ->
  exists h1, valid h0 t1 h1 /\ hfind b h1 = Some (sz, al).
Proof. exact run_releases_paired. Qed.

(* at most once: right after its release the block is not live *)
Theorem C16_released_at_most_once : forall fails T sc n k h0, elt_ok T -> scn_ok sc -> fresh n h0 ->
  hwf h0 -> forall t1 b sz al t2,
  atr (r_final (run_scn fails T sc (init n k))) = t1 ++ EDealloc b sz al :: t2 ->
  exists h1, valid h0 (t1 ++ [EDealloc b sz al]) h1 /\ hfind b h1 = None.
Proof. exact run_released_at_most_once. Qed.

(* no block stays allocated once all values are gone -- whatever the outcome (Ok,
   LengthError, a caught panic from caller code, the crate's own length panic), unless the
   process aborted through the allocation-error path *)
Theorem C16_no_leak : forall fails T sc n k h0, elt_ok T -> scn_ok sc -> fresh n h0 ->
  r_code (run_scn fails T sc (init n k)) <> RAllocErr ->
  valid h0 (atr (r_final (run_scn fails T sc (init n k)))) h0.
Proof. exact run_no_leak. Qed.

(* allocation failure: the run ends in the standard allocation-error outcome exactly when
   one of the allocation calls it made failed; that failed call is the last allocator event;
   the outcome is never undefined behaviour and the null block is never touched *)
Theorem C16_alloc_failure : forall fails T sc n k h0, elt_ok T -> scn_ok sc -> fresh n h0 ->
  (r_code (run_scn fails T sc (init n k)) = RAllocErr <->
   exists j, (k <= j < nallocs (r_final (run_scn fails T sc (init n k))))%nat /\ fails j = true) /\
  (r_code (run_scn fails T sc (init n k)) = RAllocErr ->
   exists t' sz al, atr (r_final (run_scn fails T sc (init n k))) = t' ++ [EAllocFail sz al] /\ nfail t' = O) /\
  (r_code (run_scn fails T sc (init n k)) <> RAllocErr ->
   nfail (atr (r_final (run_scn fails T sc (init n k)))) = O).
Proof. exact run_alloc_failure. Qed.

Theorem C16_never_ub : forall fails T sc n k h0, elt_ok T -> scn_ok sc -> fresh n h0 ->
  r_code (run_scn fails T sc (init n k)) <> RUB.
Proof. exact run_never_ub. Qed.

Theorem C16_never_touches_null : forall fails T sc n k h0, elt_ok T -> scn_ok sc -> fresh n h0 ->
  ~ In ENullDeref (atr (r_final (run_scn fails T sc (init n k)))).
Proof. exact run_never_touches_null. Qed.

(* histories: any sequence of runs in one process (panics caught in between) *)
Theorem C16_histories : forall fails l n k h0,
  Forall (fun p => elt_ok (fst p) /\ scn_ok (snd p)) l -> fresh n h0 ->
  let '(t, c) := history fails l n k in
  c <> RUB /\ (exists h, valid h0 t h) /\ (c <> RAllocErr -> valid h0 t h0).
Proof. exact history_ok. Qed.

(* ---- 614d235: the faithful model of the boxed generate as it is in /repo violates
        three clauses (witnesses computed) ---- *)
Theorem C16_buggy_generate_refuted_zero_size_request :
  exists T N f, elt_ok T /\
    let '(c, st) := run_generate_buggy nofail T N f None (init 0 0) in
    c = ROk /\ In (EAlloc 0 0 (eal T)) (atr st) /\
    ~ (forall e, In e (atr st) -> request_ok e) /\ ~ valid [] (atr st) [].
Proof. exact boxed_generate_buggy_refuted_zero_size. Qed.

Theorem C16_buggy_generate_refuted_null_dereference :
  exists T N f fails, elt_ok T /\
    let '(c, st) := run_generate_buggy fails T N f None (init 0 0) in
    fails O = true /\ c = RUB /\ c <> RAllocErr /\ In ENullDeref (atr st).
Proof. exact boxed_generate_buggy_refuted_null. Qed.

Theorem C16_buggy_generate_refuted_leak_on_panic :
  exists T N f pan, elt_ok T /\
    let '(c, st) := run_generate_buggy nofail T N f pan (init 0 0) in
    c = RPanic /\ valid [] (atr st) [(O, (16, 4))] /\ ~ valid [] (atr st) [].
Proof. exact boxed_generate_buggy_refuted_leak. Qed.

(* ---- tie to the current source (coq/gen/GenPipe.v): the boxed generate obtains its block with
   Box::new_uninit (what HeapOps.boxed_generate models as box_new_uninit: nothing requested for a
   zero-sized array, handle_alloc_error on failure, freed by the box when the caller's function
   panics) and hands the same pointer back with Box::from_raw; its fill loop is the stack form's ---- *)
From Coq Require Import String.
From GA Require Import Pipe.
From GAGen Require Import GenPipe.
Local Open Scope string_scope.
Theorem C16_source_boxed_generate_frame :
  gen_boxed_generate_frame = ("Box::new_uninit", "Box::from_raw(Box::into_raw(..).cast())") /\
  gen_boxed_generate = gen_generate.
Proof. split; reflexivity. Qed.

(* default_boxed as it stands in src/impl_alloc.rs now is the boxed generate applied to T::default
   (coq/gen/GenHeap.v; HeapOps.default_boxed = boxed_generate): no allocation path of its own *)
From GAGen Require Import GenHeap.
Theorem C16_source_default_boxed : gen_default_boxed_is_generate = true.
Proof. reflexivity. Qed.

(* ---- T1: the one-expression bodies this property's code consists of besides the modelled core, as they stand
        in the source now (coq/gen/GenSigs.v gen_thin_bodies) ---- *)
From Coq Require Import String.
From GA Require Import SigDefs.
From GAGen Require Import GenSigs.
Local Open Scope string_scope.

Theorem C16_source_thin_bodies :
  thin_of "GenericArray<T,N>" "default_boxed" = Some "Box :: < GenericArray < T , N > > :: generate (| _ | T :: default ())".
Proof. repeat split. Qed.

(* the boxed array's sequence impls define `generate` only: map / zip / fold / inverted_zip(2) of a boxed array are
   the trait defaults over its by-value iterator (regenerated, coq/gen/GenSigs.v gen_impl_methods) *)
Theorem C16_source_box_methods :
  methods_of "GenericSequence<T> for Box<GenericArray<T,N>>" = Some ["generate"] /\
  methods_of "FunctionalSequence<T> for Box<GenericArray<T,N>>" = Some [] /\
  methods_of "IntoIterator for Box<GenericArray<T,N>>" = Some ["into_iter"] /\
  methods_of "FromIterator<T> for Box<GenericArray<T,N>>" = Some ["from_iter"].
Proof. repeat split. Qed.

(* ---- T3: every other function of src/impl_alloc.rs the scenarios are made of, AS REGENERATED (coq/gen/GenHeap.v,
        run by the interpreter of HeapProg.v over the allocator model): same result, same allocator calls (request
        sizes and alignments, releases with the layout of the request), same element events as the hub functions
        of HeapOps.v that the theorems above quantify over -- from every allocator state, for every length and
        element layout ---- *)
From GA Require HeapProg HeapTie.

Theorem C16_source_heap_functions : forall fails T N b s v a st,
  (zlen (bel b) = Z.of_nat N ->
   HeapProg.call fails T N gen_heap_table "into_boxed_slice" (HeapProg.VBoxA b) st =
     (s <- into_boxed_slice b ;; ret (HeapProg.VBoxS s)) st /\
   HeapProg.call fails T N gen_heap_table "into_vec" (HeapProg.VBoxA b) st =
     (v <- into_vec b ;; ret (HeapProg.VVecV v)) st) /\
  HeapProg.call fails T N gen_heap_table "try_from_boxed_slice" (HeapProg.VBoxS s) st =
    (r <- try_from_boxed_slice T N s ;; ret (HeapTie.opt_box r)) st /\
  HeapProg.call fails T N gen_heap_table "try_from_vec" (HeapProg.VVecV v) st =
    (r <- try_from_vec fails T N v ;; ret (HeapTie.opt_box r)) st /\
  HeapProg.call fails T N gen_heap_table "TryFrom<Vec<T>>" (HeapProg.VVecV v) st =
    (r <- vec_to_array T N v ;; ret (HeapTie.opt_arr r)) st /\
  HeapProg.call fails T N gen_heap_table "TryFrom<Box<[T]>>" (HeapProg.VBoxS s) st =
    (r <- boxed_slice_to_array T N s ;; ret (HeapTie.opt_arr r)) st /\
  (zlen a = Z.of_nat N ->
   HeapProg.call fails T N gen_heap_table "From<GenericArray> for Box<[T]>" (HeapProg.VArrV a) st =
     (s <- array_to_boxed_slice fails T a ;; ret (HeapProg.VBoxS s)) st /\
   HeapProg.call fails T N gen_heap_table "From<GenericArray> for Vec<T>" (HeapProg.VArrV a) st =
     (v <- array_to_vec fails T a ;; ret (HeapProg.VVecV v)) st).
Proof.
  exact (fun fails T N b s v a st =>
    conj (fun H => conj (HeapTie.tie_into_boxed_slice fails T N b st H) (HeapTie.tie_into_vec fails T N b st H))
    (conj (HeapTie.tie_try_from_boxed_slice fails T N s st)
    (conj (HeapTie.tie_try_from_vec fails T N v st)
    (conj (HeapTie.tie_vec_to_array fails T N v st)
    (conj (HeapTie.tie_boxed_slice_to_array fails T N s st)
    (fun H => conj (HeapTie.tie_array_to_boxed_slice fails T N a st H) (HeapTie.tie_array_to_vec fails T N a st H))))))).
Qed.

(* try_boxed_from_iter (boxed collect, boxed map / zip go through it) as regenerated: the size-hint pre-checks, the
   Vec::with_capacity(N) + extend(take(N)) + one more poll, and the conversion of exactly N items *)
From GA Require Collect CollectTie.
From GAGen Require GenCollect.
Theorem C16_source_try_boxed_from_iter : forall N (s : Builder.src),
  Collect.run_collect N s GenCollect.gen_extend GenCollect.gen_try_boxed_from_iter = Some (Builder.try_boxed_from_iter N s).
Proof. exact CollectTie.tie_try_boxed_from_iter. Qed.

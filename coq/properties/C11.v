(* C11 -- flatten and unflatten regroup elements in row-major order over the same
   storage.  Only statements closed by [exact]; proofs live in theories/FlattenProofs.v.
   [shape N M a]: a is a value of type GenericArray<GenericArray<T,N>,M> (M rows of N
   elements); s is size_of T (any, including 0). *)
From GA Require Import Base Mem Views Flatten FlattenProofs.

(* flatten, owned: for all N, M, s the size test passes, the result has N*M elements,
   element i*N + j is element j of inner array i, and inner array i is the contiguous
   range [i*N, (i+1)*N) *)
Theorem C11_flatten : forall s N M a, shape N M a ->
  exists f, flatten_owned s N M a = Ret f /\ length f = N * M /\
    (forall i j, j < N -> nth_error f (i * N + j) = nested_nth a i j) /\
    (forall i r, nth_error a i = Some r -> range (i * N) (S i * N) f = r).
Proof. exact flatten_spec. Qed.

(* unflatten is the exact inverse of flatten (N > 0: Quot<_, U0> does not exist) *)
Theorem C11_unflatten_flatten : forall s N M a, shape N M a -> 0 < N ->
  rbind (flatten_owned s N M a) (unflatten_owned s (prod_len N M) N) = Ret a.
Proof. exact unflatten_flatten. Qed.

(* on the documented domain (N divides NM): unflatten yields NM/N rows of N elements,
   row i element j is element i*N + j, and flatten gives the original back *)
Theorem C11_flatten_unflatten : forall s NM N b, length b = NM -> 0 < N -> NM mod N = 0 ->
  exists a, unflatten_owned s NM N b = Ret a /\ shape N (quot_len NM N) a /\
    flatten_owned s N (quot_len NM N) a = Ret b /\
    (forall i j, j < N -> nested_nth a i j = nth_error b (i * N + j)).
Proof. exact flatten_unflatten. Qed.

(* flatten on & / &mut: same address, length N*M, same total extent as the source,
   leaf (i, j) of the source IS element i*N + j of the result, every element of the
   result is such a leaf *)
Theorem C11_flatten_ref : forall N M self,
  let src := mknref self N M in
  aptr (flatten_ref N M self) = self /\ aptr (flatten_mut N M self) = self /\
  alen (flatten_ref N M self) = N * M /\ alen (flatten_mut N M self) = N * M /\
  aref_extent (flatten_ref N M self) = nref_extent src /\
  (forall i j, i < M -> j < N ->
     nested_ptr src i j = elem_ptr (aref_slice (flatten_ref N M self)) (i * N + j) /\
     nested_ptr src i j = Ret (padd self (i * N + j))) /\
  (forall k, k < N * M -> 0 < N /\ k = (k / N) * N + k mod N /\ k / N < M /\ k mod N < N).
Proof. exact flatten_ref_spec. Qed.

(* unflatten on & / &mut, N > 0 dividing NM: same address, NM/N rows of N, same extent *)
Theorem C11_unflatten_ref : forall NM N self, 0 < N -> NM mod N = 0 ->
  let dst := unflatten_ref NM N self in
  nptr dst = self /\ ninner dst = N /\ nouter dst = NM / N /\
  unflatten_mut NM N self = dst /\
  nref_extent dst = NM /\
  (forall i j, i < NM / N -> j < N ->
     nested_ptr dst i j = elem_ptr (as_slice NM self) (i * N + j) /\
     nested_ptr dst i j = Ret (padd self (i * N + j))) /\
  (forall k, k < NM -> k = (k / N) * N + k mod N /\ k / N < NM / N /\ k mod N < N).
Proof. exact unflatten_ref_spec. Qed.

(* the regrouped references are valid references to the same cells with the regrouped contents *)
Theorem C11_flatten_ref_valid : forall N M self m a,
  valid_nested m (mknref self N M) a ->
  valid_ref m (aptr (flatten_ref N M self)) (alen (flatten_ref N M self)) (concat a).
Proof. exact flatten_ref_valid. Qed.

Theorem C11_unflatten_ref_valid : forall NM N self m b, 0 < N -> NM mod N = 0 ->
  valid_ref m self NM b ->
  valid_nested m (unflatten_ref NM N self) (chunks N (NM / N) b) /\
  concat (chunks N (NM / N) b) = b.
Proof. exact unflatten_ref_valid. Qed.

(* write-through between the nested and the flat view of the same N*M cells (covers the
   &mut flatten and, with M = NM/N, the &mut unflatten direction): the write of leaf
   (i, j) and of flat element i*N + j are the same memory update; it is read back through
   both views at exactly that position and nothing else changes *)
Theorem C11_write_through : forall N M self m a i j v,
  let nr := mknref self N M in
  let fl := aref_slice (flatten_mut N M self) in
  valid_nested m nr a -> i < M -> j < N ->
  exists m',
    view_set m fl (i * N + j) v = Ret m' /\ nested_set m nr i j v = Ret m' /\
    (forall i' j', i' < M -> j' < N ->
       nested_get m' nr i' j' = if (i' =? i) && (j' =? j) then Ret v else nested_get m nr i' j') /\
    (forall k, view_get m' fl k = if k =? i * N + j then Ret v else view_get m fl k) /\
    (forall q, q <> padd self (i * N + j) -> cell_at m' q = cell_at m q).
Proof. exact regroup_write_through. Qed.

(* the &mut unflatten direction spelled out *)
Theorem C11_write_through_unflatten : forall NM N self m b i j v,
  0 < N -> NM mod N = 0 -> valid_ref m self NM b -> i < NM / N -> j < N ->
  exists m',
    nested_set m (unflatten_mut NM N self) i j v = Ret m' /\
    nested_get m' (unflatten_mut NM N self) i j = Ret v /\
    (forall k, view_get m' (as_slice NM self) k =
               if k =? i * N + j then Ret v else view_get m (as_slice NM self) k) /\
    (forall q, q <> padd self (i * N + j) -> cell_at m' q = cell_at m q).
Proof. exact unflatten_write_through. Qed.

(* ---- tie to the current source: regenerated on every run by tools/ga2coq (coq/gen) ---- *)
From Coq Require Import String.
From GA Require Import Guards GuardTieTransmute.
From GAGen Require Import GenGuards GenConstFns.
Local Open Scope Z_scope.

(* flatten / unflatten by value go through const_transmute, whose size test as it stands in
   src/lib.rs now lets exactly equal sizes through *)
Theorem C11_source_const_transmute : forall a b,
  rejects const_transmute_guard (env2 "size_of_A" a "size_of_B" b) 0 = negb (a =? b) /\
  fails_by_panic const_transmute_guard = true.
Proof. exact tie_const_transmute. Qed.

(* the six flatten / unflatten bodies as they stand in src/sequence.rs now (coq/gen/GenSigs.v): by
   value one size-checked const_transmute of `self`, by reference one transmute of the reference --
   nothing is read, written, copied or dropped by the crate *)
From GA Require Import SigDefs.
From GAGen Require Import GenSigs.
Local Open Scope string_scope.
Theorem C11_source_regroup_bodies :
  transmute_of "GenericArray::Flatten::flatten" = Some ("const_transmute", "self") /\
  transmute_of "GenericArray::Unflatten::unflatten" = Some ("const_transmute", "self") /\
  transmute_of "&GenericArray::Flatten::flatten" = Some ("transmute", "self") /\
  transmute_of "&mut GenericArray::Flatten::flatten" = Some ("transmute", "self") /\
  transmute_of "&GenericArray::Unflatten::unflatten" = Some ("transmute", "self") /\
  transmute_of "&mut GenericArray::Unflatten::unflatten" = Some ("transmute", "self").
Proof. repeat split. Qed.

(* ---- T1: the one-expression bodies this property's code consists of besides the modelled core, as they stand
        in the source now (coq/gen/GenSigs.v gen_thin_bodies) ---- *)
From Coq Require Import String.
From GA Require Import SigDefs.
From GAGen Require Import GenSigs.
Local Open Scope string_scope.

Theorem C11_source_thin_bodies :
  thin_of "Flatten<T,N,M> for GenericArray<GenericArray<T,N>,M>" "flatten" = Some "unsafe { crate :: const_transmute (self) }" /\
  thin_of "Flatten<T,N,M> for &GenericArray<GenericArray<T,N>,M>" "flatten" = Some "unsafe { mem :: transmute (self) }" /\
  thin_of "Flatten<T,N,M> for &mutGenericArray<GenericArray<T,N>,M>" "flatten" = Some "unsafe { mem :: transmute (self) }" /\
  thin_of "Unflatten<T,NM,N> for GenericArray<T,NM>" "unflatten" = Some "unsafe { crate :: const_transmute (self) }" /\
  thin_of "Unflatten<T,NM,N> for &GenericArray<T,NM>" "unflatten" = Some "unsafe { mem :: transmute (self) }" /\
  thin_of "Unflatten<T,NM,N> for &mutGenericArray<T,NM>" "unflatten" = Some "unsafe { mem :: transmute (self) }".
Proof. repeat split. Qed.

(* ---- T2: the bounds of the trait impls this property's operations come from, as they stand in the source now
        (coq/gen/GenSigs.v gen_impl_bounds): code that is generic over the lengths / element type and states
        exactly these bounds can call them ---- *)
From Coq Require Import String.
From GA Require Import SigDefs.
From GAGen Require Import GenSigs.
Local Open Scope string_scope.

Theorem C11_source_impl_bounds :
  bounds_of "unsafe Flatten<T,N,M> for GenericArray<GenericArray<T,N>,M>" = Some ["M:ArrayLength"; "N:ArrayLength"; "N:Mul<M>"; "Prod<N,M>:ArrayLength"] /\
  bounds_of "unsafe Flatten<T,N,M> for &GenericArray<GenericArray<T,N>,M>" = Some ["M:ArrayLength"; "N:ArrayLength"; "N:Mul<M>"; "Prod<N,M>:ArrayLength"] /\
  bounds_of "unsafe Flatten<T,N,M> for &mutGenericArray<GenericArray<T,N>,M>" = Some ["M:ArrayLength"; "N:ArrayLength"; "N:Mul<M>"; "Prod<N,M>:ArrayLength"] /\
  bounds_of "unsafe Unflatten<T,NM,N> for GenericArray<T,NM>" = Some ["N:ArrayLength"; "NM:ArrayLength"; "NM:Div<N>"; "Quot<NM,N>:ArrayLength"] /\
  bounds_of "unsafe Unflatten<T,NM,N> for &GenericArray<T,NM>" = Some ["N:ArrayLength"; "NM:ArrayLength"; "NM:Div<N>"; "Quot<NM,N>:ArrayLength"] /\
  bounds_of "unsafe Unflatten<T,NM,N> for &mutGenericArray<T,NM>" = Some ["N:ArrayLength"; "NM:ArrayLength"; "NM:Div<N>"; "Quot<NM,N>:ArrayLength"].
Proof. repeat split. Qed.

(* ---- T1: what the traits of this property declare in the source now (coq/gen/GenSigs.v gen_trait_headers):
        the result length of flatten is Prod<N,M> and of unflatten Quot<NM,N> in the trait itself, under exactly these bounds ---- *)
From Coq Require Import String.
From GA Require Import SigDefs.
From GAGen Require Import GenSigs.
Local Open Scope string_scope.

Theorem C11_source_trait_headers :
  trait_header_of "pub unsafe trait Flatten<T,N,M>" = Some ["N:ArrayLength"; "N:Mul<M>"; "Prod<N,M>:ArrayLength"; "Self:GenericSequence<GenericArray<T,N>,Length=M>"; "fn flatten (self) -> Self :: Output"; "type Output:GenericSequence<T,Length=Prod<N,M>>"] /\
  trait_header_of "pub unsafe trait Unflatten<T,NM,N>" = Some ["N:ArrayLength"; "NM:ArrayLength"; "NM:Div<N>"; "Quot<NM,N>:ArrayLength"; "Self:GenericSequence<T,Length=NM>"; "fn unflatten (self) -> Self :: Output"; "type Output:GenericSequence<GenericArray<T,N>,Length=Quot<NM,N>>"].
Proof. repeat split. Qed.

(* C03 -- every element is dropped exactly once across any history of ownership moves.
   Statements only; proofs in theories/OwnProofs.v.  The history is any finite list of the
   pool operations of theories/Own.v (construction, by-value iteration incl. skipping,
   cloning and abandoning early, map/zip/fold, append/prepend/pop/split/concat/remove/
   swap_remove, flatten/unflatten, conversions to and from native arrays, tuples, Vec,
   Box, collecting from sources of the right and of the wrong length), chained through the pool; operations that do not type-check (wrong kind of
   object, lengths that do not fit) are not steps. *)
From Coq Require Import Permutation.
From GA Require Import Base Iter Own OwnProofs.

(* one step, from any pool whose iterators satisfy their invariant: what is owned
   afterwards plus what was dropped is exactly what was owned before plus what was created *)
Theorem C03_step : forall p o, iters_ok p ->
  Permutation (pool_ids (sp (step p o)) ++ sdropped (step p o)) (pool_ids p ++ snew (step p o)).
Proof. exact step_conserves. Qed.

Theorem C03_step_wf : forall p o, WF p -> WF (sp (step p o)).
Proof. exact step_WF. Qed.

(* every finite history from the empty pool, with everything still owned at the end dropped
   last: the drops are a permutation of the elements ever created, which are pairwise
   distinct -- every element is dropped exactly once *)
Theorem C03_exactly_once : forall ops z,
  let '(rs, p') := prun (empty_pool z) ops in
  Permutation (all_dropped rs p') (all_created rs) /\ NoDup (all_created rs).
Proof. exact exactly_once. Qed.

Corollary C03_dropped_once : forall ops z x,
  let '(rs, p') := prun (empty_pool z) ops in
  In x (all_created rs) -> count_occ Z.eq_dec (all_dropped rs p') x = 1.
Proof. exact dropped_once. Qed.

(* no element is observed (through any view of any object) after it has been dropped *)
Theorem C03_never_observed_after_drop : forall ops p before, WF p ->
  (forall x, In x before -> ~ In x (pool_ids p) /\ (x < next_id p)%Z) ->
  obs_ok before (fst (prun p ops)).
Proof. exact never_observed_after_drop. Qed.

(* from any well-formed pool *)
Theorem C03_history : forall ops p, WF p ->
  let '(rs, p') := prun p ops in
  Permutation (all_dropped rs p') (pool_ids p ++ all_created rs) /\
  NoDup (all_created rs) /\ (forall x, In x (all_created rs) -> (next_id p <= x)%Z) /\ WF p'.
Proof. exact history_conserves. Qed.

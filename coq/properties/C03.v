(* C03 -- every element is dropped exactly once across any history of ownership moves.
   Statements only; proofs in theories/OwnProofs.v.  The history is any finite list of the
   pool operations of theories/Own.v (construction, by-value iteration incl. skipping,
   cloning and abandoning early, map/zip/fold, append/prepend/pop/split/concat/remove/
   swap_remove, flatten/unflatten, conversions to and from native arrays, tuples, Vec,
   Box, collecting from sources of the right and of the wrong length), chained through the pool; operations that do not type-check (wrong kind of
   object, lengths that do not fit) are not steps. *)
From Coq Require Import Permutation.
From GA Require Import Base Iter Own OwnProofs.

(* one step, from any pool whose iterators satisfy their invariant: what is owned
   afterwards plus what was dropped is exactly what was owned before plus what was created *)
Theorem C03_step : forall p o, iters_ok p ->
  Permutation (pool_ids (sp (step p o)) ++ sdropped (step p o)) (pool_ids p ++ snew (step p o)).
Proof. exact step_conserves. Qed.

Theorem C03_step_wf : forall p o, WF p -> WF (sp (step p o)).
Proof. exact step_WF. Qed.

(* every finite history from the empty pool, with everything still owned at the end dropped
   last: the drops are a permutation of the elements ever created, which are pairwise
   distinct -- every element is dropped exactly once *)
Theorem C03_exactly_once : forall ops z,
  let '(rs, p') := prun (empty_pool z) ops in
  Permutation (all_dropped rs p') (all_created rs) /\ NoDup (all_created rs).
Proof. exact exactly_once. Qed.

Corollary C03_dropped_once : forall ops z x,
  let '(rs, p') := prun (empty_pool z) ops in
  In x (all_created rs) -> count_occ Z.eq_dec (all_dropped rs p') x = 1.
Proof. exact dropped_once. Qed.

(* no element is observed (through any view of any object) after it has been dropped *)
Theorem C03_never_observed_after_drop : forall ops p before, WF p ->
  (forall x, In x before -> ~ In x (pool_ids p) /\ (x < next_id p)%Z) ->
  obs_ok before (fst (prun p ops)).
Proof. exact never_observed_after_drop. Qed.

(* from any well-formed pool *)
Theorem C03_history : forall ops p, WF p ->
  let '(rs, p') := prun p ops in
  Permutation (all_dropped rs p') (pool_ids p ++ all_created rs) /\
  NoDup (all_created rs) /\ (forall x, In x (all_created rs) -> (next_id p <= x)%Z) /\ WF p'.
Proof. exact history_conserves. Qed.

(* ---- the list-level meaning used by the pool model is the PROVED meaning of the low-level
        hub models (pointer programs of sequence.rs, consumer/builder pipelines, const_transmute
        regrouping); the iterator operations use Iter.v directly ---- *)
From GA Require Import Builder Functional FunctionalProofs OwnTie.
From GA Require SeqOps Flatten.

Theorem C03_tie_lengthen_concat : forall l m x,
  SeqOps.append l x = (SeqOps.Ok (l ++ [x]), []) /\
  SeqOps.prepend l x = (SeqOps.Ok (x :: l), []) /\
  SeqOps.concat l m = (SeqOps.Ok (l ++ m), []).
Proof. intros l m x. exact (conj (tie_append l x) (conj (tie_prepend l x) (tie_concat l m))). Qed.

Theorem C03_tie_shorten_split : forall l x r k,
  (rev l = x :: r -> SeqOps.pop_back l = (SeqOps.Ok (rev r, x), [])) /\
  SeqOps.pop_front (x :: r) = (SeqOps.Ok (x, r), []) /\
  (k <= length l -> SeqOps.split k l = (SeqOps.Ok (firstn k l, skipn k l), [])).
Proof. intros l x r k. exact (conj (tie_pop_back l x r) (conj (tie_pop_front x r) (tie_split k l))). Qed.

Theorem C03_tie_remove : forall l idx x, nth_error l idx = Some x ->
  SeqOps.remove (Z.of_nat idx) l = (SeqOps.Ok (x, list_remove idx l), []).
Proof. exact tie_remove. Qed.

Theorem C03_tie_swap_remove : forall l idx x, nth_error l idx = Some x ->
  exists rest, SeqOps.swap_remove (Z.of_nat idx) l = (SeqOps.Ok (x, rest), []) /\
               Permutation (x :: rest) l /\ Permutation (x :: list_swap_remove idx l) l.
Proof. exact tie_swap_remove. Qed.

Theorem C03_tie_map_clone : forall p l,
  map_ true (fresh_fn (next_id p)) None l = (Ok (fresh p (length l)), map EMove l, map (fun x => [x]) l) /\
  clone_ (fresh_fn (next_id p)) None l = (Ok (fresh p (length l)), [], map (fun x => [x]) l).
Proof. intros p l. exact (conj (tie_map p l) (tie_clone p l)). Qed.

Theorem C03_tie_zip : forall p l m, length l = length m ->
  exists calls,
  zip_ true true (fresh_fn (next_id p)) None l m =
    (Ok (fresh p (length l)), calls, map (fun q : Z * Z => [fst q; snd q]) (combine l m)) /\
  Permutation (releases calls) (l ++ m).
Proof. exact tie_zip. Qed.

Theorem C03_tie_collect : forall l,
  try_from_iter (length l) (vec_src l) = (Ok l, [], S (length l)).
Proof. exact tie_collect. Qed.

Theorem C03_tie_try_collect_wrong : forall l n, n <> length l ->
  let '(o, e, p) := try_from_iter n (vec_src l) in
  o = Err /\ Permutation (pulled (resp (vec_src l)) 0 p) (releases e).
Proof. exact tie_try_collect_wrong. Qed.

Theorem C03_tie_flatten2 : forall s l m, length l = length m ->
  Flatten.flatten_owned s (length l) 2 [l; m] = Ret (l ++ m).
Proof. exact tie_flatten2. Qed.

(* ---- T1: the one-expression bodies this property's code consists of besides the modelled core, as they stand
        in the source now (coq/gen/GenSigs.v gen_thin_bodies) ---- *)
From Coq Require Import String.
From GA Require Import SigDefs.
From GAGen Require Import GenSigs.
Local Open Scope string_scope.

Theorem C03_source_thin_bodies :
  thin_of "ArrayBuilder<T,N>" "new" = Some "ArrayBuilder { array : GenericArray :: uninit () , position : 0 , }" /\
  thin_of "ArrayBuilder<T,N>" "is_full" = Some "self . position == N :: USIZE" /\
  thin_of "ArrayBuilder<T,N>" "iter_position" = Some "(self . array . iter_mut () , & mut self . position)" /\
  thin_of "IntrusiveArrayBuilder<,T,N>" "new" = Some "IntrusiveArrayBuilder { array , position : 0 }" /\
  thin_of "IntrusiveArrayBuilder<,T,N>" "is_full" = Some "self . position == N :: USIZE" /\
  thin_of "IntrusiveArrayBuilder<,T,N>" "iter_position" = Some "(self . array . iter_mut () , & mut self . position)" /\
  thin_of "IntrusiveArrayBuilder<,T,N>" "array_assume_init" = Some "ptr :: read (& array as * const _ as * const MaybeUninit < GenericArray < T , N > >) . assume_init ()" /\
  thin_of "ArrayConsumer<T,N>" "new" = Some "ArrayConsumer { array : ManuallyDrop :: new (array) , position : 0 , }" /\
  thin_of "ArrayConsumer<T,N>" "iter_position" = Some "(self . array . iter () , & mut self . position)".
Proof. repeat split. Qed.

(* the builders' endings and the owning builder's extend, as they stand in src/internal.rs now *)
From GA Require Import Pipe Collect.
From GAGen Require Import GenCollect.
Theorem C03_source_builder_endings :
  small_of "ArrayBuilder" "assume_init" =
    Some ["debug_assert ! (self . is_full ()) ;"; "let array = ptr :: read (& self . array) ;";
          "mem :: forget (self) ;"; "GenericArray :: assume_init (array)"] /\
  small_of "IntrusiveArrayBuilder" "finish" = Some ["debug_assert ! (self . is_full ()) ;"; "mem :: forget (self)"] /\
  gen_array_builder_extend = gen_extend.
Proof. repeat split. Qed.

(* ---- T3: the operations the histories are made of, AS THEY STAND IN THE SOURCE (regenerated on every run):
        the pointer programs of src/sequence.rs return exactly the moved elements and run no destructor
        (event list []); map / zip / fold release every input element exactly once or return it, whatever
        panics; the iterator methods and the iterator's Drop are the hub functions of Iter.v; collecting
        is the hub function of Collect.v; the owned regroupings are one const_transmute ---- *)
From GA Require PtrProg PtrTie.
From GAGen Require GenSeq.

Theorem C03_source_sequence_ops_only_move : forall (l m : list Z) (x : Z) (k K : nat) (idx : Z),
  PtrProg.run GenSeq.gen_append (List.length l) k [("self", PtrProg.VArr l); ("last", PtrProg.VElem x)]
    = (SeqOps.Ok [PtrProg.VArr (l ++ [x])], []) /\
  PtrProg.run GenSeq.gen_prepend (List.length l) k [("self", PtrProg.VArr l); ("first", PtrProg.VElem x)]
    = (SeqOps.Ok [PtrProg.VArr (x :: l)], []) /\
  PtrProg.run GenSeq.gen_concat (List.length l) (List.length m) [("self", PtrProg.VArr l); ("rest", PtrProg.VArr m)]
    = (SeqOps.Ok [PtrProg.VArr (l ++ m)], []) /\
  PtrProg.run GenSeq.gen_pop_back (List.length (l ++ [x])) k [("self", PtrProg.VArr (l ++ [x]))]
    = (SeqOps.Ok [PtrProg.VArr l; PtrProg.VElem x], []) /\
  PtrProg.run GenSeq.gen_pop_front (List.length (x :: l)) k [("self", PtrProg.VArr (x :: l))]
    = (SeqOps.Ok [PtrProg.VElem x; PtrProg.VArr l], []) /\
  (K <= List.length l ->
   PtrProg.run GenSeq.gen_split (List.length l) K [("self", PtrProg.VArr l)]
    = (SeqOps.Ok [PtrProg.VArr (firstn K l); PtrProg.VArr (skipn K l)], [])) /\
  ((0 <= idx < zlen l)%Z ->
   (exists r, SeqOps.vec_remove (Z.to_nat idx) l = Some r /\
      PtrProg.run_tail GenSeq.gen_remove "remove_unchecked" GenSeq.gen_remove_unchecked (List.length l) k
        [("self", PtrProg.VArr l); ("idx", PtrProg.VUsize idx)] = (SeqOps.Ok (PtrTie.rm_out r), [])) /\
   (exists r, SeqOps.vec_swap_remove (Z.to_nat idx) l = Some r /\
      PtrProg.run_tail GenSeq.gen_swap_remove "swap_remove_unchecked" GenSeq.gen_swap_remove_unchecked (List.length l) k
        [("self", PtrProg.VArr l); ("idx", PtrProg.VUsize idx)] = (SeqOps.Ok (PtrTie.rm_out r), []))).
Proof.
  exact (fun l m x k K idx =>
    conj (PtrTie.src_append l x k) (conj (PtrTie.src_prepend l x k) (conj (PtrTie.src_concat l m)
    (conj (PtrTie.src_pop_back l x k) (conj (PtrTie.src_pop_front l x k) (conj (PtrTie.src_split K l)
    (fun H => conj (PtrTie.src_remove l idx k H) (PtrTie.src_swap_remove l idx k H)))))))).
Qed.

From GA Require PipeTie MuRust IterTie CollectTie.
From GAGen Require GenPipe GenIter.

(* map / zip / fold of the array, as regenerated: whatever call of the caller's function panics (and when none does),
   every element of every owned input and every value already produced is released exactly once or returned *)
Theorem C03_source_map_zip_fold_accounted : forall f g pan a b so nd init,
  (let '(o, m, t, e, c) := Pipe.run_from_iter [a] so f g pan (PipeTie.pipe_of GenPipe.gen_map nd) (List.length a) in
   Permutation (a ++ produced f 0 (firstn (completed pan (List.length a)) (map (fun x => [x]) a)))%list
               (releases (m ++ t ++ e) ++ match o with Ok r => r | _ => [] end)%list) /\
  (List.length a = List.length b -> Pipe.nd_eval nd (Pipe.NdOr (Pipe.NdArg 0) (Pipe.NdArg 1)) = true ->
   let '(o, m, t, e, c) := Pipe.run_from_iter [b; a] so f g pan (PipeTie.pipe_of GenPipe.gen_inverted_zip nd) (List.length a) in
   Permutation (a ++ b ++ produced f 0 (firstn (completed pan (List.length a)) (PipeTie.zrows a b)))%list
               (releases (m ++ t ++ e) ++ match o with Ok r => r | _ => [] end)%list) /\
  (let '(o, m, t, c) := Pipe.run_fold [a] so f g pan (PipeTie.pipe_of GenPipe.gen_fold nd) (List.length a) init in
   releases (m ++ t) = a).
Proof.
  exact (fun f g pan a b so nd init =>
    conj (PipeTie.src_map_accounted f g pan a so nd)
    (conj (PipeTie.src_zip_accounted f g pan a b so nd) (PipeTie.src_fold_accounted f g pan a so nd init))).
Qed.

(* the by-value iterator's methods and its Drop, as regenerated from src/iter.rs, are the hub functions of Iter.v
   that the pool model's iterator operations use *)
Theorem C03_source_iterator : forall s b n, Inv s -> IterTie.bounded s -> (0 <= n < MuRust.two64)%Z ->
  MuRust.call GenIter.iter_table IterTie.DEPTH "next" [] (MuRust.embed s) b = IterTie.lift3 (next s) b /\
  MuRust.call GenIter.iter_table IterTie.DEPTH "next_back" [] (MuRust.embed s) b = IterTie.lift3 (next_back s) b /\
  MuRust.call GenIter.iter_table IterTie.DEPTH "nth" [MuRust.VInt n] (MuRust.embed s) b = IterTie.lift4 (nth_ b s n) /\
  MuRust.call GenIter.iter_table IterTie.DEPTH "nth_back" [MuRust.VInt n] (MuRust.embed s) b = IterTie.lift4 (nth_back_ b s n) /\
  IterTie.drop3 (MuRust.call GenIter.iter_table IterTie.DEPTH "drop" [] (MuRust.embed s) b) =
  (let '(fired, b', e) := drop_it b s in ((if fired then MuRust.MPanic else MuRust.MRet MuRust.VUnit), b', e)).
Proof.
  exact (fun s b n HI Hb Hn =>
    conj (IterTie.tie_next s b HI Hb) (conj (IterTie.tie_next_back s b HI Hb)
    (conj (IterTie.tie_nth s b n HI Hb Hn) (conj (IterTie.tie_nth_back s b n HI Hb Hn) (IterTie.tie_drop s b HI Hb))))).
Qed.

(* collecting (try_from_iter / try_boxed_from_iter with the builder's extend), as regenerated, is Collect.v's function *)
Theorem C03_source_collect : forall N (s : Builder.src),
  Collect.run_collect N s GenCollect.gen_extend GenCollect.gen_try_from_iter = Some (try_from_iter N s) /\
  Collect.run_collect N s GenCollect.gen_extend GenCollect.gen_try_boxed_from_iter = Some (Builder.try_boxed_from_iter N s).
Proof. exact (fun N s => conj (CollectTie.tie_try_from_iter N s) (CollectTie.tie_try_boxed_from_iter N s)). Qed.

(* the owned regroupings and the by-value conversions to / from native arrays are ONE reinterpretation of the whole
   object: nothing is read, written, cloned or dropped element-wise *)
Theorem C03_source_regroup_and_native :
  transmute_of "GenericArray::Flatten::flatten" = Some ("const_transmute", "self") /\
  transmute_of "GenericArray::Unflatten::unflatten" = Some ("const_transmute", "self") /\
  thin_of "GenericArray<T,N>" "from_array" = Some "unsafe { crate :: const_transmute (value) }" /\
  thin_of "GenericArray<T,N>" "into_array" = Some "unsafe { crate :: const_transmute (self) }".
Proof. repeat split. Qed.

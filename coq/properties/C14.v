(* C14 -- hex formatting prints exactly the bytes' digits, truncated to the precision.
   Only statements closed by [exact]; model in theories/Hex.v, proofs in
   theories/HexProofs.v.  Bytes are Z in 0..255 ([byte]), a precision is any usize
   ([prec_ok]: 0 <= p; None = no precision given), 2N < 2^64 holds for every array
   that exists (an object is at most isize::MAX bytes). *)
From GA Require Import Base Hex HexProofs.
Local Open Scope Z_scope.

(* MAIN.  For every encoder meeting the faster_hex contract (the table fallback is one:
   C14_fallback_contract), every byte list of every length -- all three strategies
   N < 16, 16 <= N <= 1024, N > 1024 --, both cases and every precision including
   odd p, p = 0 and p > 2N: the model of generic_hex writes exactly
   firstn (min p 2N) of the two-digits-per-byte string, without reaching any of its
   UB / panic checks. *)
Theorem C14_hex : forall (enc : encoder), enc_contract enc ->
  forall (upper : bool) (arr : list Z) (prec : option Z),
  Forall byte arr -> 2 * zlen arr < 2 ^ 64 -> prec_ok prec ->
  generic_hex enc upper arr prec = Ret (hex_spec upper arr prec).
Proof. exact generic_hex_correct. Qed.

(* default features: hex_encode is the table fallback (closed statement, no oracle) *)
Theorem C14_hex_default_features : forall (upper : bool) (arr : list Z) (prec : option Z),
  Forall byte arr -> 2 * zlen arr < 2 ^ 64 -> prec_ok prec ->
  generic_hex hex_encode_fallback upper arr prec = Ret (hex_spec upper arr prec).
Proof. exact generic_hex_fallback_correct. Qed.

(* the crate's own table encoder satisfies the contract assumed of faster_hex *)
Theorem C14_fallback_contract : enc_contract hex_encode_fallback.
Proof. exact fallback_contract. Qed.

(* identical output whether or not the SIMD encoder is compiled in *)
Theorem C14_feature_independent : forall (enc1 enc2 : encoder) upper arr prec,
  enc_contract enc1 -> enc_contract enc2 ->
  Forall byte arr -> 2 * zlen arr < 2 ^ 64 -> prec_ok prec ->
  generic_hex enc1 upper arr prec = generic_hex enc2 upper arr prec.
Proof. exact feature_independent. Qed.

(* max_digits is the clamp min(p, 2N); max_bytes = (d >> 1) + (d & 1) is ceil(d / 2),
   never exceeds N (src/hex.rs:72 unreachable_unchecked is unreachable, the slice
   arr[..max_bytes] is in bounds) and covers all max_digits digits *)
Theorem C14_max_bytes : forall (n : Z) (prec : option Z), 0 <= n -> prec_ok prec ->
  let d := max_digits_of n prec in
  0 <= d <= 2 * n /\ 0 <= max_bytes_of d <= n /\ d <= 2 * max_bytes_of d <= d + 1.
Proof. exact max_bytes_le_N. Qed.

Theorem C14_max_digits_clamp : forall (n : Z) (prec : option Z), 0 <= n -> prec_ok prec ->
  0 <= max_digits_of n prec <= 2 * n /\
  max_digits_of n prec = match prec with Some p => Z.min p (2 * n) | None => 2 * n end.
Proof. exact max_digits_bounds. Qed.

(* every encoder call satisfies the contract's precondition (2|src| <= |dst|, dst valid
   ASCII): an encoder that is UB on any other call gives the same result, so
   unwrap_unchecked never sees Err; and no UB / panic check of the model fires *)
Theorem C14_encoder_calls : forall (enc : encoder) upper arr prec,
  enc_contract enc -> Forall byte arr -> 2 * zlen arr < 2 ^ 64 -> prec_ok prec ->
  generic_hex (guarded enc) upper arr prec = generic_hex enc upper arr prec /\
  generic_hex enc upper arr prec <> UB /\ generic_hex enc upper arr prec <> Panicked.
Proof. exact encoder_calls_in_contract. Qed.

(* chunk induction, the invariant of the N > 1024 loop from ANY intermediate state:
   remaining input l, reused buffer with arbitrary earlier (ASCII) content, digit budget
   d >= 0, output so far.  digits_left -= n never underflows (would be Panicked),
   get_unchecked(..n) stays in the buffer (would be UB). *)
Theorem C14_chunk_loop : forall (enc : encoder), enc_contract enc ->
  forall upper (K : nat), (0 < K)%nat ->
  forall fuel l buf d out,
    (length l <= fuel)%nat -> Forall byte l ->
    (2 * K <= length buf)%nat -> Forall ascii buf -> 0 <= d ->
    hex_chunks enc upper (chunks_fuel fuel K l) buf d out =
    Ret (out ++ firstn (Z.to_nat d) (hex_string upper l)).
Proof. exact hex_chunks_ok. Qed.

(* only ASCII hexadecimal digits of the requested case reach from_utf8_unchecked *)
Theorem C14_only_hex_digits : forall (enc : encoder) upper arr prec out,
  enc_contract enc -> Forall byte arr -> 2 * zlen arr < 2 ^ 64 -> prec_ok prec ->
  generic_hex enc upper arr prec = Ret out ->
  Forall (is_hex_digit upper) out /\ Forall ascii out.
Proof. exact output_hex_digits. Qed.

(* reading of the specification: length min(p, 2N); character 2i is the high nibble of
   byte i, character 2i+1 its low nibble (an odd precision ends on a high nibble) *)
Theorem C14_spec_length : forall upper arr prec, prec_ok prec ->
  zlen (hex_spec upper arr prec) =
  match prec with Some p => Z.min p (2 * zlen arr) | None => 2 * zlen arr end.
Proof. exact hex_spec_length. Qed.

Theorem C14_spec_nth : forall upper arr prec (i : nat) b, prec_ok prec ->
  nth_error arr i = Some b ->
  (Z.of_nat (2 * i) < zlen (hex_spec upper arr prec) ->
     nth_error (hex_spec upper arr prec) (2 * i) = Some (digit upper (b / 16))) /\
  (Z.of_nat (2 * i + 1) < zlen (hex_spec upper arr prec) ->
     nth_error (hex_spec upper arr prec) (2 * i + 1) = Some (digit upper (b mod 16))).
Proof. exact hex_spec_nth. Qed.

(* ---- tie to the current source: regenerated on every run by tools/ga2coq (coq/gen) ---- *)
From Coq Require Import String.
From GA Require Import Guards GuardTieHex.
From GAGen Require Import GenGuards GenConstFns.
Local Open Scope Z_scope.

(* the strategy thresholds, chunk size, buffer size and the byte-count arithmetic as they
   stand in src/hex.rs now are the ones the model uses *)
Theorem C14_source_constants :
  hex_strategy_conds = [CLe GN (GInt 1024); CLt GN (GInt 16)] /\
  hex_chunk_sizes = [GInt 1024] /\ hex_buffer_sizes = [GInt 2048].
Proof. exact tie_hex_constants. Qed.

Theorem C14_source_arith : forall d n,
  geval (env1 "max_digits" d) n hex_max_bytes = Hex.max_bytes_of d /\
  geval (env1 "max_digits" d) n hex_max_digits_full = n * 2.
Proof. exact tie_hex_arith. Qed.

(* hex_encode_fallback as it stands in src/hex.rs now: its alphabets, the shape of its loop and its
   two digit indices are the model's enc_loop, its unreachable hint the model's length test *)
Theorem C14_source_fallback_encoder :
  (forall up, List.find (fun p => Bool.eqb (fst p) up) hex_alphabets = Some (up, Hex.alphabet up)) /\
  hex_fallback_shape = (GInt 2, true, "c"%string) /\
  (forall c n, map (fun p => (geval (env1 "c" c) n (fst p), geval (env1 "c" c) n (snd p))) hex_fallback_digits
               = [(0, Z.shiftr c 4); (1, Z.land c 15)]) /\
  (forall ld ls n, ctest (env2 "dst.len" ld "src.len" ls) n hex_fallback_guard = (ld <? ls * 2)).
Proof. exact tie_hex_fallback. Qed.

(* ---- T1: which trait methods are implemented (coq/gen/GenSigs.v gen_impl_methods) ---- *)
From Coq Require Import String.
From GA Require Import SigDefs.
From GAGen Require Import GenSigs.
Local Open Scope string_scope.

(* LowerHex and UpperHex define fmt only (regenerated) *)
Theorem C14_source_impl_methods :
  methods_of "fmt::LowerHex for GenericArray<u8,N>" = Some ["fmt"] /\
  methods_of "fmt::UpperHex for GenericArray<u8,N>" = Some ["fmt"].
Proof. repeat split. Qed.


(* ---- T3: the body of generic_hex, regenerated (coq/gen/GenHex.v), run by the interpreter of HexProg.v ---- *)
From GA Require Import Hex HexProofs HexProg HexTie.
From GAGen Require Import GenHex.
Local Open Scope Z_scope.

(* the function as it stands in src/hex.rs now IS the hub model: every encoder, both cases, every byte
   list of every length, every precision (a usize) *)
Theorem C14_source_generic_hex : forall enc upper arr prec, prec_ok prec ->
  run_hex gen_generic_hex enc upper arr prec = generic_hex enc upper arr prec.
Proof. exact tie_generic_hex. Qed.

(* hence it hands the formatter exactly the 2N digits cut at the precision, reaching no unreachable hint,
   unchecked index or non-ASCII str on the way (any of those would make the result UB, not Ret) *)
Theorem C14_source_prints_digits : forall enc upper arr prec,
  enc_contract enc -> Forall byte arr -> 2 * zlen arr < 2 ^ 64 -> prec_ok prec ->
  run_hex gen_generic_hex enc upper arr prec = Ret (hex_spec upper arr prec).
Proof. exact source_generic_hex_correct. Qed.

(* LowerHex::fmt / UpperHex::fmt are generic_hex::<_, false / true>(self, f); hex_encode compiles the table
   encoder exactly when faster-hex is off or under Miri, faster_hex's encoder of the same case otherwise *)
Theorem C14_source_impls_and_encoder :
  gen_hex_impls = [("LowerHex", false); ("UpperHex", true)]%string /\
  gen_hex_encode =
  [("", "debug_assert ! (dst . len () >= (src . len () * 2))");
   ("# [cfg (any (miri , not (feature = ""faster-hex"")))]", "hex_encode_fallback :: < UPPER > (src , dst)");
   ("# [cfg (all (feature = ""faster-hex"" , not (miri)))]",
    "match UPPER { true => unsafe { faster_hex :: hex_encode_upper (src , dst) . unwrap_unchecked () } , false => unsafe { faster_hex :: hex_encode (src , dst) . unwrap_unchecked () } , }")]%string.
Proof. exact (conj tie_hex_impls tie_hex_encode). Qed.

(* ---- T1: the one-expression bodies this property's code consists of besides the modelled core, as they stand
        in the source now (coq/gen/GenSigs.v gen_thin_bodies) ---- *)
From Coq Require Import String.
From GA Require Import SigDefs.
From GAGen Require Import GenSigs.
Local Open Scope string_scope.

Theorem C14_source_thin_bodies :
  thin_of "fmt::LowerHex for GenericArray<u8,N>" "fmt" = Some "generic_hex :: < _ , false > (self , f)" /\
  thin_of "fmt::UpperHex for GenericArray<u8,N>" "fmt" = Some "generic_hex :: < _ , true > (self , f)".
Proof. repeat split. Qed.

(* ---- T2: the bounds of the trait impls this property's operations come from, as they stand in the source now
        (coq/gen/GenSigs.v gen_impl_bounds): code that is generic over the lengths / element type and states
        exactly these bounds can call them ---- *)
From Coq Require Import String.
From GA Require Import SigDefs.
From GAGen Require Import GenSigs.
Local Open Scope string_scope.

Theorem C14_source_impl_bounds :
  bounds_of "fmt::LowerHex for GenericArray<u8,N>" = Some ["N:Add<N>"; "N:ArrayLength"; "Sum<N,N>:ArrayLength"] /\
  bounds_of "fmt::UpperHex for GenericArray<u8,N>" = Some ["N:Add<N>"; "N:ArrayLength"; "Sum<N,N>:ArrayLength"].
Proof. repeat split. Qed.

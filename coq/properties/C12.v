(* C12 -- length, thread-safety and lifetime errors are rejected at compile time.
   What is proved: the arithmetic / bound / lifetime MEANING of the crate's
   declarations (SigDecls.v), for all lengths.  That rustc implements this meaning is
   sampled by the generated corpus (harness/src/bin/c12.rs), not proved.
   Only statements closed by [exact]; proofs live in theories/TypeLevelProofs.v. *)
From GA Require Import Base TypeLevel Sigs SigDecls TypeLevelProofs.
From Coq Require Import NArith.
Local Open Scope N_scope.

(* split (owned, by & and by &mut): accepted iff K <= N; the halves have K and N - K elements *)
Theorem C12_split : forall d, In d split_decls -> forall n k,
  (accepts d [n; k] <-> k <= n) /\
  (forall r, accepted d [n; k] r -> r = [k; n - k] /\ k + (n - k) = n).
Proof. exact split_iff. Qed.

Theorem C12_concat : forall d, In d concat_decls -> forall n m, accepted d [n; m] [n + m].
Proof. exact concat_total. Qed.

(* append / prepend *)
Theorem C12_lengthen : forall d, In d lengthen_decls -> forall n, accepted d [n] [n + 1].
Proof. exact lengthen_total. Qed.

(* pop_back / pop_front / remove / swap_remove: accepted iff the array is not empty *)
Theorem C12_shorten_remove : forall d, In d (shorten_decls ++ remove_decls) -> forall n,
  (accepts d [n] <-> 1 <= n) /\
  (forall r, accepted d [n] r -> r = [n - 1] /\ (n - 1) + 1 = n).
Proof. exact shorten_iff. Qed.

(* zip (three receiver forms) and ==, partial_cmp, cmp: accepted iff the lengths are equal *)
Theorem C12_zip_compare : forall d, In d (zip_decls ++ cmp_decls) -> forall n1 n2,
  (accepts d [n1; n2] <-> n1 = n2) /\
  (forall r, accepted d [n1; n2] r -> r = if (d_op d =? 8)%Z then [n1] else []).
Proof. exact same_length_iff. Qed.

Theorem C12_flatten : forall d, In d flatten_decls -> forall n m, accepted d [n; m] [n * m].
Proof. exact flatten_total. Qed.

(* unflatten: accepted iff the chunk length is not 0; the result has floor(NM / N) chunks,
   which is exact whenever NM is a multiple of N *)
Theorem C12_unflatten : forall d, In d unflatten_decls -> forall nm n,
  (accepts d [nm; n] <-> n <> 0) /\
  (forall r, accepted d [nm; n] r ->
     r = [nm / n] /\ n * (nm / n) <= nm /\ (forall m, nm = n * m -> nm / n = m)).
Proof. exact unflatten_iff. Qed.

(* from_array / into_array / from_chunks(_mut) / into_chunks(_mut) and the From / AsRef / AsMut
   impls between [T; U] and GenericArray<T, N>: accepted iff U = N (and typenum has Const<U>) *)
Theorem C12_native_array : forall d, In d (constarr_decls ++ fromarr_decls) -> forall n u,
  (accepts d [n; u] <-> u = n /\ in_touint u = true) /\
  (forall r, accepted d [n; u] r -> r = [n]).
Proof. exact constarr_iff. Qed.

Corollary C12_native_array_small : forall d, In d (constarr_decls ++ fromarr_decls) ->
  forall n u, u <= 1024 -> (accepts d [n; u] <-> u = n).
Proof. exact constarr_small. Qed.

(* tuples (both directions): accepted iff the array length is the tuple's arity k and 1 <= k <= 12 *)
Theorem C12_tuples : forall variant, (variant = 0 \/ variant = 1)%Z -> forall n k,
  (sat_any (tuple_dir variant) [n; k] <> None <-> n = k /\ 1 <= k <= 12) /\
  (forall r, sat_any (tuple_dir variant) [n; k] = Some r -> r = [k]).
Proof. exact tuple_iff. Qed.

(* writing a length at a use site: accepted iff it is the inferred one *)
Theorem C12_ascribe : forall l i c l',
  ascribe (Some l) (Some (i, c)) = Some l' <-> l' = l /\ nth_error l i = Some c.
Proof. exact ascribe_iff. Qed.

(* N::ArrayType<T> of every concrete N has exactly the traits of T *)
Theorem C12_arraytype : forall bits T t, arraytype_has ga_structs bits T t = elem_has t T.
Proof. exact arraytype_is_elem. Qed.

Theorem C12_ga_send : forall n T, ga_has ga_structs n T TSend = e_send T.
Proof. exact ga_send. Qed.

Theorem C12_ga_sync : forall n T, ga_has ga_structs n T TSync = e_sync T.
Proof. exact ga_sync. Qed.

Theorem C12_ga_clone : forall n T, ga_has ga_structs n T TClone = e_clone T.
Proof. exact ga_clone. Qed.

Theorem C12_ga_copy_concrete : forall bits T, ga_has ga_structs (Concrete bits) T TCopy = e_copy T.
Proof. exact ga_copy_concrete. Qed.

Theorem C12_ga_copy_generic : forall wc T,
  ga_has ga_structs (Generic wc) T TCopy = e_copy T && wc TCopy.
Proof. exact ga_copy_generic. Qed.

Theorem C12_ga_copy_only_if : forall n T, ga_has ga_structs n T TCopy = true -> e_copy T = true.
Proof. exact ga_copy_only_if. Qed.

(* the by-value iterator: Send / Sync through its fields, Clone by its impl, never Copy *)
Theorem C12_iter_send : forall n T, iter_has ga_structs n T TSend = e_send T.
Proof. exact iter_send. Qed.

Theorem C12_iter_sync : forall n T, iter_has ga_structs n T TSync = e_sync T.
Proof. exact iter_sync. Qed.

Theorem C12_iter_clone : forall n T, iter_has ga_structs n T TClone = e_clone T.
Proof. exact iter_clone. Qed.

Theorem C12_iter_never_copy : forall n T, iter_has ga_structs n T TCopy = false.
Proof. exact iter_never_copy. Qed.

(* every reference-returning signature (and every arm of arr!) ties its result to its source *)
Theorem C12_all_sigs_sound : forall s, In s signatures -> sound_sig s = true.
Proof. exact every_sig_sound. Qed.

Theorem C12_sound_sig_meaning : forall s, sound_sig s = true ->
  (forall o, In o (sg_out s) ->
     r_lt o <> LtStatic /\
     exists i, In i (sg_in s) /\ r_lt i = r_lt o /\ (r_mut o = true -> r_mut i = true)) /\
  (forall p, In p (sg_tout s) -> In p (sg_tin s)).
Proof. exact sound_sig_meaning. Qed.

(* of the generated borrow programs exactly the two harmless ones are accepted *)
Theorem C12_lifetime_programs : forall s v, In s signatures ->
  (lifetime_verdict s v = true <-> (v = 0 \/ v = 4)%Z).
Proof. exact lifetime_verdict_iff. Qed.

Theorem C12_sealed : al_supertrait_unsigned arraylength_sealing = true /\
  al_arraytype_bound_sealed arraylength_sealing = true /\ sealed_is_private arraylength_sealing = true.
Proof. exact sealed. Qed.

(* ---- tie to the current source: regenerated on every run by tools/ga2coq (coq/gen/GenSigs.v) ----
   the where-clauses and result lengths of the Lengthen / Shorten / Split / Concat / Remove /
   Flatten / Unflatten impls, the fields and explicit Send / Sync / Copy / Clone impls (with
   bounds) of the four structs, the sealing of ArrayLength and the tuple table, as they stand
   in the source now, are the declarations the theorems above are about *)
From Coq Require Import String.
From GA Require Import SigTie.
From GAGen Require Import GenSigs GenLifetimes.
Local Open Scope string_scope.

Theorem C12_source_seq_impls :
  gen_lengthen = [("owned", lengthen_where, [LAdd1 V0])] /\
  gen_shorten = [("owned", shorten_where, [LSub1 V0])] /\
  gen_split = [("owned", split_where, [V1; LDiff V0 V1]); ("ref", split_where, [V1; LDiff V0 V1]);
               ("mut", split_where, [V1; LDiff V0 V1])] /\
  gen_concat = [("owned", concat_where, [LSum V0 V1])] /\
  gen_remove = [("owned", remove_where, [LSub1 V0])] /\
  gen_flatten = [("owned", flatten_where, [LProd V0 V1]); ("ref", flatten_where, [LProd V0 V1]);
                 ("mut", flatten_where, [LProd V0 V1])] /\
  gen_unflatten = [("owned", unflatten_where, [LQuot V0 V1]); ("ref", unflatten_where, [LQuot V0 V1]);
                   ("mut", unflatten_where, [LQuot V0 V1])].
Proof.
  exact (conj tie_lengthen (conj tie_shorten (conj tie_split (conj tie_concat
        (conj tie_remove (conj tie_flatten tie_unflatten)))))).
Qed.

Theorem C12_source_structs : forall E t,
  struct_has gen_even E t = struct_has (cs_even ga_structs) E t /\
  struct_has gen_odd E t = struct_has (cs_odd ga_structs) E t /\
  struct_has gen_ga E t = struct_has (cs_ga ga_structs) E t /\
  struct_has gen_iter_struct E t = struct_has (cs_iter ga_structs) E t.
Proof. exact tie_struct_has. Qed.

Theorem C12_source_sealing : gen_sealing = arraylength_sealing.
Proof. exact tie_sealing. Qed.

Theorem C12_source_tuples : gen_tuple_sizes = tuple_sizes.
Proof. exact tie_tuple_sizes. Qed.

(* the lifetimes of every reference-returning safe function, regenerated with elision applied
   (coq/gen/GenLifetimes.v): each is sound, the hand-stated ones are all present, and each has
   a single source reference that every result reference is tied to *)
Theorem C12_source_signatures_sound : forall n s, In (n, s) gen_signatures -> sound_sig s = true.
Proof. exact tie_lifetimes_sound. Qed.

Theorem C12_source_signatures_cover :
  forallb (fun n => existsb (String.eqb n) (map fst gen_signatures)) lifetime_names_required = true.
Proof. exact tie_lifetimes_cover. Qed.

Theorem C12_source_signatures_shape :
  forallb (fun p => single_source_shape (snd p)) gen_signatures = true.
Proof. exact tie_lifetimes_shape. Qed.

(* code generic over S: Lengthen<T> / Shorten<T> gets S back from a lengthen-shorten round trip,
   because the trait declarations, as regenerated from src/sequence.rs, bound the associated
   types with the inverse trait AND the equality with Self *)
Theorem C12_source_inverse_bounds :
  gen_inverse_bounds = [("Lengthen", "Longer", "Shorten", Some "Shorter"); ("Shorten", "Shorter", "Lengthen", Some "Longer")]%string /\
  inverse_eq_of "Lengthen" = inverse_bound_has_equality 0 /\
  inverse_eq_of "Shorten" = inverse_bound_has_equality 1.
Proof. exact tie_inverse_bounds. Qed.

Theorem C12_roundtrip : forall v, (0 <= v <= 3)%Z -> roundtrip_typechecks v = true.
Proof. exact roundtrip_ok. Qed.

(* ---- T1: which trait methods are implemented (coq/gen/GenSigs.v gen_impl_methods) ---- *)
From Coq Require Import String.
From GA Require Import SigTie.
From GAGen Require Import GenSigs.
Local Open Scope string_scope.

(* the marker impls (regenerated): exactly one Send, Sync and Copy impl for the array, Copy / Sealed for the storage nodes, and 75 trait impls for or from array types in all *)
Theorem C12_source_marker_impls :
  methods_of "Send for GenericArray<T,N>" = Some [] /\
  methods_of "Sync for GenericArray<T,N>" = Some [] /\
  methods_of "Copy for GenericArray<T,N>" = Some [] /\
  methods_of "Copy for GenericArrayImplEven<T,U>" = Some [] /\
  methods_of "Copy for GenericArrayImplOdd<T,U>" = Some [] /\
  methods_of "Sealed for GenericArrayImplEven<T,U>" = Some [] /\
  methods_of "Sealed for GenericArrayImplOdd<T,U>" = Some [] /\
  List.length gen_impl_methods = 75%nat.
Proof. repeat split. Qed.


(* ---- T2: the bounds of the trait impls (coq/gen/GenSigs.v gen_impl_bounds) ---- *)
(* the array is Send / Sync / Copy only with the element bound; these five are the only impls of Send, Sync
   or Copy in the crate (the iterator gets its auto traits from its fields and is Clone for T: Clone) *)
Theorem C12_source_marker_bounds :
  bounds_of "unsafe Send for GenericArray<T,N>" = Some ["N:ArrayLength"; "T:Send"] /\
  bounds_of "unsafe Sync for GenericArray<T,N>" = Some ["N:ArrayLength"; "T:Sync"] /\
  bounds_of "Copy for GenericArray<T,N>" = Some ["N::ArrayType<T>:Copy"; "N:ArrayLength"; "T:Copy"] /\
  bounds_of "Copy for GenericArrayImplEven<T,U>" = Some ["T:Copy"; "U:Copy"] /\
  bounds_of "Copy for GenericArrayImplOdd<T,U>" = Some ["T:Copy"; "U:Copy"] /\
  bounds_of "Clone for GenericArrayIter<T,N>" = Some ["N:ArrayLength"; "T:Clone"] /\
  filter (fun r => (mentions "Send for" (snd (fst r)) || mentions "Sync for" (snd (fst r)) || mentions "Copy for" (snd (fst r)))%bool)
         gen_impl_bounds
  = [("lib.rs", "Copy for GenericArrayImplEven<T,U>", ["T:Copy"; "U:Copy"]);
     ("lib.rs", "Copy for GenericArrayImplOdd<T,U>", ["T:Copy"; "U:Copy"]);
     ("lib.rs", "unsafe Send for GenericArray<T,N>", ["N:ArrayLength"; "T:Send"]);
     ("lib.rs", "unsafe Sync for GenericArray<T,N>", ["N:ArrayLength"; "T:Sync"]);
     ("impls.rs", "Copy for GenericArray<T,N>", ["N::ArrayType<T>:Copy"; "N:ArrayLength"; "T:Copy"])].
Proof. exact tie_marker_bounds. Qed.

(* comparing relates ONE length: the four comparison impls are for GenericArray<T,N> against itself, each
   for exactly the element types that have the trait (a narrower impl lets method calls fall through Deref
   to the slice impl, which accepts any two lengths) *)
Theorem C12_source_cmp_bounds :
  Forall (fun tr => bounds_of (tr ++ " for GenericArray<T,N>") = Some ["N:ArrayLength"; ("T:" ++ tr)%string])
         structural_traits /\
  map (fun r => snd (fst r))
      (filter (fun r => (mentions "PartialEq" (snd (fst r)) || mentions "PartialOrd" (snd (fst r))
                         || mentions "Ord for" (snd (fst r)) || mentions "Eq for" (snd (fst r)))%bool) gen_impl_bounds)
  = ["PartialEq for GenericArray<T,N>"; "Eq for GenericArray<T,N>"; "PartialOrd for GenericArray<T,N>"; "Ord for GenericArray<T,N>"].
Proof. exact (conj tie_structural_bounds tie_cmp_headers). Qed.

(* ---- T1: the one-expression bodies this property's code consists of besides the modelled core, as they stand
        in the source now (coq/gen/GenSigs.v gen_thin_bodies) ---- *)
From Coq Require Import String.
From GA Require Import SigTie.
From GAGen Require Import GenSigs.
Local Open Scope string_scope.

Theorem C12_source_thin_bodies :
  thin_of "Clone for GenericArrayImplEven<T,U>" "clone" = Some "unsafe { core :: hint :: unreachable_unchecked () }" /\
  thin_of "Clone for GenericArrayImplOdd<T,U>" "clone" = Some "unsafe { core :: hint :: unreachable_unchecked () }".
Proof. repeat split. Qed.

(* ---- T1: what the traits of this property declare in the source now (coq/gen/GenSigs.v gen_trait_headers):
        every length-relating trait: a correct program generic over one of them needs exactly these bounds, and the
        result lengths are the ones the associated-type bounds state ---- *)
From Coq Require Import String.
From GA Require Import SigDefs.
From GAGen Require Import GenSigs.
Local Open Scope string_scope.

Theorem C12_source_trait_headers :
  trait_header_of "pub unsafe trait ArrayLength" = Some ["Self:'static"; "Self:Unsigned"; "type ArrayType<T>:Sealed"] /\
  trait_header_of "pub trait IntoArrayLength" = Some ["type ArrayLength:ArrayLength"] /\
  trait_header_of "pub unsafe trait GenericSequence<T>" = Some ["Self:IntoIterator"; "Self:Sized"; "fn generate < F > (f : F) -> Self :: Sequence where F : FnMut (usize) -> T"; "fn inverted_zip < B , U , F > (self , lhs : GenericArray < B , Self :: Length > , mut f : F ,) -> MappedSequence < GenericArray < B , Self :: Length > , B , U > where GenericArray < B , Self :: Length > : GenericSequence < B , Length = Self :: Length > + MappedGenericSequence < B , U > , Self : MappedGenericSequence < T , U > , F : FnMut (B , Self :: Item) -> U , {default}"; "fn inverted_zip2 < B , Lhs , U , F > (self , lhs : Lhs , mut f : F) -> MappedSequence < Lhs , B , U > where Lhs : GenericSequence < B , Length = Self :: Length > + MappedGenericSequence < B , U > , Self : MappedGenericSequence < T , U > , F : FnMut (Lhs :: Item , Self :: Item) -> U , {default}"; "type Length:ArrayLength"; "type Sequence:FromIterator<T>"; "type Sequence:GenericSequence<T,Length=Self::Length>"] /\
  trait_header_of "pub trait MappedGenericSequence<T,U>" = Some ["Self:GenericSequence<T>"; "type Mapped:GenericSequence<U,Length=Self::Length>"] /\
  trait_header_of "pub unsafe trait Lengthen<T>" = Some ["Self:GenericSequence<T>"; "Self:Sized"; "fn append (self , last : T) -> Self :: Longer"; "fn prepend (self , first : T) -> Self :: Longer"; "type Longer:Shorten<T,Shorter=Self>"] /\
  trait_header_of "pub unsafe trait Shorten<T>" = Some ["Self:GenericSequence<T>"; "Self:Sized"; "fn pop_back (self) -> (Self :: Shorter , T)"; "fn pop_front (self) -> (T , Self :: Shorter)"; "type Shorter:Lengthen<T,Longer=Self>"] /\
  trait_header_of "pub unsafe trait Split<T,K>" = Some ["K:ArrayLength"; "Self:GenericSequence<T>"; "fn split (self) -> (Self :: First , Self :: Second)"; "type First:GenericSequence<T>"; "type Second:GenericSequence<T>"] /\
  trait_header_of "pub unsafe trait Concat<T,M>" = Some ["M:ArrayLength"; "Self:GenericSequence<T>"; "fn concat (self , rest : Self :: Rest) -> Self :: Output"; "type Output:GenericSequence<T>"; "type Rest:GenericSequence<T,Length=M>"] /\
  trait_header_of "pub unsafe trait Remove<T,N>" = Some ["N:ArrayLength"; "Self:GenericSequence<T>"; "fn remove (self , idx : usize) -> (T , Self :: Output) {default}"; "fn swap_remove (self , idx : usize) -> (T , Self :: Output) {default}"; "type Output:GenericSequence<T>"; "unsafe fn remove_unchecked (self , idx : usize) -> (T , Self :: Output)"; "unsafe fn swap_remove_unchecked (self , idx : usize) -> (T , Self :: Output)"] /\
  trait_header_of "pub unsafe trait Flatten<T,N,M>" = Some ["N:ArrayLength"; "N:Mul<M>"; "Prod<N,M>:ArrayLength"; "Self:GenericSequence<GenericArray<T,N>,Length=M>"; "fn flatten (self) -> Self :: Output"; "type Output:GenericSequence<T,Length=Prod<N,M>>"] /\
  trait_header_of "pub unsafe trait Unflatten<T,NM,N>" = Some ["N:ArrayLength"; "NM:ArrayLength"; "NM:Div<N>"; "Quot<NM,N>:ArrayLength"; "Self:GenericSequence<T,Length=NM>"; "fn unflatten (self) -> Self :: Output"; "type Output:GenericSequence<GenericArray<T,N>,Length=Quot<NM,N>>"].
Proof. repeat split. Qed.

(* ---- T1: ALL inherent methods of the crate's types (coq/gen/GenSigs.v gen_fn_sigs).  Method-call syntax tries a
        type's inherent methods before any trait method and before the methods of the slice it dereferences to: an
        inherent method added under the name of a trait method (map, zip, fold, concat, flatten, zeroize, ..) or of a
        slice method silently changes what correct callers run -- or keeps them from compiling ---- *)
Theorem C12_source_inherent_methods :
  inherent_methods = [("GenericArray<T,N> where N:ArrayLength", "into_boxed_slice");
    ("GenericArray<T,N> where N:ArrayLength", "into_vec");
    ("GenericArray<T,N> where N:ArrayLength", "try_from_boxed_slice");
    ("GenericArray<T,N> where N:ArrayLength", "try_from_vec");
    ("GenericArray<T,N> where N:ArrayLength", "default_boxed");
    ("GenericArray<T,N> where N:ArrayLength", "try_boxed_from_iter");
    ("GenericArray<T,U> where Self:ConstDefault,T:ConstDefault,U:ArrayLength", "const_default");
    ("ArrayBuilder<T,N> where N:ArrayLength", "new");
    ("ArrayBuilder<T,N> where N:ArrayLength", "extend");
    ("ArrayBuilder<T,N> where N:ArrayLength", "is_full");
    ("ArrayBuilder<T,N> where N:ArrayLength", "iter_position");
    ("ArrayBuilder<T,N> where N:ArrayLength", "assume_init");
    ("IntrusiveArrayBuilder<,T,N> where N:ArrayLength", "new");
    ("IntrusiveArrayBuilder<,T,N> where N:ArrayLength", "extend");
    ("IntrusiveArrayBuilder<,T,N> where N:ArrayLength", "is_full");
    ("IntrusiveArrayBuilder<,T,N> where N:ArrayLength", "iter_position");
    ("IntrusiveArrayBuilder<,T,N> where N:ArrayLength", "finish");
    ("IntrusiveArrayBuilder<,T,N> where N:ArrayLength", "array_assume_init");
    ("ArrayConsumer<T,N> where N:ArrayLength", "new");
    ("ArrayConsumer<T,N> where N:ArrayLength", "iter_position");
    ("GenericArrayIter<T,N> where N:ArrayLength", "as_slice");
    ("GenericArrayIter<T,N> where N:ArrayLength", "as_mut_slice");
    ("GenericArray<T,N> where N:ArrayLength", "len");
    ("GenericArray<T,N> where N:ArrayLength", "as_slice");
    ("GenericArray<T,N> where N:ArrayLength", "as_mut_slice");
    ("GenericArray<T,N> where N:ArrayLength", "from_slice");
    ("GenericArray<T,N> where N:ArrayLength", "try_from_slice");
    ("GenericArray<T,N> where N:ArrayLength", "from_mut_slice");
    ("GenericArray<T,N> where N:ArrayLength", "try_from_mut_slice");
    ("GenericArray<T,N> where N:ArrayLength", "chunks_from_slice");
    ("GenericArray<T,N> where N:ArrayLength", "chunks_from_slice_mut");
    ("GenericArray<T,N> where N:ArrayLength", "slice_from_chunks");
    ("GenericArray<T,N> where N:ArrayLength", "slice_from_chunks_mut");
    ("GenericArray<T,N> where N:ArrayLength", "from_array");
    ("GenericArray<T,N> where N:ArrayLength", "into_array");
    ("GenericArray<T,N> where N:ArrayLength", "from_chunks");
    ("GenericArray<T,N> where N:ArrayLength", "from_chunks_mut");
    ("GenericArray<T,N> where N:ArrayLength", "into_chunks");
    ("GenericArray<T,N> where N:ArrayLength", "into_chunks_mut");
    ("GenericArray<T,N> where N:ArrayLength", "uninit");
    ("GenericArray<T,N> where N:ArrayLength", "assume_init");
    ("GenericArray<T,N> where N:ArrayLength", "try_from_iter")].
Proof. reflexivity. Qed.

(* C04 -- a panic in caller-supplied code never loses or double-drops an element.
   Statements only; proofs in theories/FunctionalProofs.v and BuilderProofs.v.
   [own]: which inputs the operation owns (by value / Box) or borrows (& / &mut);
   [rows]: the inputs, row i = arguments of call i; [pan]: the call index at which the
   caller's code panics (None: never); [f]: what the caller's function returns. *)
From Coq Require Import Permutation.
From GA Require Import Base Builder BuilderProofs Iter IterProofs Functional FunctionalProofs.

(* map / zip / generate / Clone / Default in every form, every length, every call index:
   everything that existed -- the elements of the owned inputs and the values already
   produced -- is released exactly once (dropped, handed to the caller's code) or is in
   the returned array *)
Theorem C04_accounted : forall own f pan rows,
  let '(o, e, _) := zipmap own f pan rows in
  flat_map (owned_ids own) rows ++ produced f 0 (firstn (completed pan (length rows)) rows)
  = releases e ++ match o with Ok a => a | _ => [] end.
Proof. exact zipmap_accounted. Qed.

(* the panic propagates; no array with uninitialised slots is ever returned *)
Theorem C04_panic_propagates : forall own f k rows, k < length rows ->
  fst (fst (zipmap own f (Some k) rows)) = Panic.
Proof. exact zipmap_panic_propagates. Qed.

Theorem C04_no_partial : forall own f pan rows a,
  fst (fst (zipmap own f pan rows)) = Ok a -> length a = length rows.
Proof. exact zipmap_no_partial. Qed.

(* exactly what happens at a panic in call k: inputs up to k handed over, the rest
   dropped, the k results built so far dropped *)
Theorem C04_at_panic : forall own f k rows, k < length rows ->
  zipmap own f (Some k) rows =
  (Panic,
   moves own (firstn (S k) rows) ++ drops own (skipn (S k) rows) ++
   map EDrop (produced f 0 (firstn k rows)),
   firstn (S k) rows).
Proof.
  intros own f k rows H. rewrite zipmap_spec. apply Nat.ltb_lt in H. now rewrite H.
Qed.

(* fold (consumer-based and by-value iterator fold / rfold) *)
Theorem C04_fold_accounted : forall owned g pan init a,
  let '(_, e, _) := fold_ owned g pan init a in releases e = if owned then a else [].
Proof. exact fold_accounted. Qed.

Theorem C04_fold_panic : forall owned g k init a, k < length a ->
  fold_ owned g (Some k) init a =
  (FoldPanic, (if owned then map EMove (firstn (S k) a) ++ map EDrop (skipn (S k) a) else []), firstn (S k) a).
Proof. exact fold_panic. Qed.

(* a source iterator that panics inside from_iter / try_from_iter (stack and boxed):
   every item pulled is dropped exactly once *)
Theorem C04_from_iter_accounted : forall N s, let '(o, e, p) := try_from_iter N s in
  Permutation (pulled (resp s) 0 p) (releases e ++ match o with Ok a => a | _ => [] end).
Proof. exact pulled_accounted. Qed.

(* Clone of the by-value iterator: the clones already made are dropped exactly once,
   the original is untouched *)
Theorem C04_iter_clone : forall cl k s, k < length (live s) ->
  let '(r, e) := iter_clone cl (Some k) s in
  r = None /\ releases e = clones_of cl 0 (firstn k (live s)).
Proof. exact iter_clone_accounted. Qed.

(* the builder / consumer types dropped at any position *)
Theorem C04_builder_drop : forall slots p, releases (builder_drop slots p) = firstn p slots.
Proof. exact builder_drop_prefix. Qed.
Theorem C04_consumer_drop : forall slots p, releases (consumer_drop slots p) = skipn p slots.
Proof. exact consumer_drop_suffix. Qed.

(* discrimination: 614d235's GenericArrayIter::clone does not satisfy C04_iter_clone *)
Theorem C04_iter_clone_prefix_refuted :
  exists cl k s, k < length (live s) /\
    let '(_, e) := iter_clone_buggy cl (Some k) s in
    releases e <> clones_of cl 0 (firstn k (live s)).
Proof. exact iter_clone_buggy_refuted. Qed.

(* ---- tier T3: the BODIES of map / fold / inverted_zip / inverted_zip2 / generate (src/lib.rs) and
   of the boxed generate (src/impl_alloc.rs) as tools/ga2coq regenerates them on every run
   (coq/gen/GenPipe.v: sources iterated in lockstep, the closure statement by statement, the sink),
   executed by the position-tracking interpreter of Pipe.v -- ArrayConsumer drops position..,
   the builder drops ..position, the closure drops what it still holds when the caller's
   function panics -- give the list-level meaning the theorems above are about ... ---- *)
From Coq Require Import String.
From GA Require Import Pipe PipeTie.
From GAGen Require Import GenPipe.
Import Coq.Lists.List.

Theorem C04_source_map : forall f g pan a so nd,
  flat5 (run_from_iter [a] so f g pan (pipe_of gen_map nd) (length a)) = map_ true f pan a.
Proof. exact tie_map. Qed.

Theorem C04_source_zip : forall f g pan a b so nd, length a = length b ->
  nd_eval nd (NdOr (NdArg 0) (NdArg 1)) = true ->
  agrees (run_from_iter [b; a] so f g pan (pipe_of gen_inverted_zip nd) (length a))
         (zip_ true true f pan a b).
Proof. exact tie_zip. Qed.

Theorem C04_source_zip2 : forall f g pan a b so nd, length a = length b -> nd_eval nd (NdArg 0) = true ->
  agrees (run_from_iter [b; a] so f g pan (pipe_of gen_inverted_zip2 nd) (length a))
         (zip_ so true f pan a b).
Proof. exact tie_zip2. Qed.

(* the branches taken when no element type has drop glue: same calls, same result; this
   function itself drops nothing of `self` *)
Theorem C04_source_zip_nodrop : forall f g pan a b so nd, length a = length b ->
  nd_eval nd (NdOr (NdArg 0) (NdArg 1)) = false ->
  let '(o, m, t, e, c) := run_from_iter [b; a] so f g pan (pipe_of gen_inverted_zip nd) (length a) in
  t = [] /\ exists t', zip_ true true f pan a b = (o, (m ++ t' ++ e)%list, c).
Proof. exact tie_zip_nodrop. Qed.

Theorem C04_source_zip2_nodrop : forall f g pan a b so nd, length a = length b -> nd_eval nd (NdArg 0) = false ->
  let '(o, m, t, e, c) := run_from_iter [b; a] so f g pan (pipe_of gen_inverted_zip2 nd) (length a) in
  t = (if so then map EDrop (skipn (length c) a) else []) /\
  exists t', zip_ so true f pan a b = (o, (m ++ t' ++ e)%list, c).
Proof. exact tie_zip2_nodrop. Qed.

Theorem C04_source_fold : forall f g pan a so nd init,
  let '(o, m, t, c) := run_fold [a] so f g pan (pipe_of gen_fold nd) (length a) init in
  (o, (m ++ t)%list, List.concat c) = fold_ true g pan init a.
Proof. exact tie_fold. Qed.

Theorem C04_source_generate : forall f g pan so nd N,
  flat5 (run_for_each [] so f g pan (pipe_of gen_generate nd) N) = generate_ N f pan /\
  flat5 (run_for_each [] so f g pan (pipe_of gen_boxed_generate nd) N) = generate_ N f pan.
Proof. exact src_generate_spec. Qed.

(* ... so, of the regenerated bodies themselves: whatever call of the caller's function panics,
   every element of every owned input and every value already produced is released exactly
   once or is in the returned array *)
Theorem C04_source_map_accounted : forall f g pan a so nd,
  let '(o, m, t, e, c) := run_from_iter [a] so f g pan (pipe_of gen_map nd) (length a) in
  Permutation (a ++ produced f 0 (firstn (completed pan (length a)) (map (fun x => [x]) a)))%list
              (releases (m ++ t ++ e) ++ match o with Ok r => r | _ => [] end)%list.
Proof. exact src_map_accounted. Qed.

Theorem C04_source_zip_accounted : forall f g pan a b so nd, length a = length b ->
  nd_eval nd (NdOr (NdArg 0) (NdArg 1)) = true ->
  let '(o, m, t, e, c) := run_from_iter [b; a] so f g pan (pipe_of gen_inverted_zip nd) (length a) in
  Permutation (a ++ b ++ produced f 0 (firstn (completed pan (length a)) (zrows a b)))%list
              (releases (m ++ t ++ e) ++ match o with Ok r => r | _ => [] end)%list.
Proof. exact src_zip_accounted. Qed.

Theorem C04_source_fold_accounted : forall f g pan a so nd init,
  let '(o, m, t, c) := run_fold [a] so f g pan (pipe_of gen_fold nd) (length a) init in
  releases (m ++ t) = a.
Proof. exact src_fold_accounted. Qed.

(* GenericArrayIter::fold / rfold (src/iter.rs) as regenerated: the live window walked from the
   front / the back with the iterator's own index / index_back as the position, advanced before
   the caller's function runs; the iterator's Drop releases what is left when that function
   panics.  [a] is the live window. *)
Theorem C04_source_iter_fold : forall f g pan a so nd init,
  let '(o, m, t, c) := run_fold [a] so f g pan (pipe_of gen_iter_fold nd) (length a) init in
  (o, (m ++ t)%list, List.concat c) = fold_ true g pan init a.
Proof. exact tie_iter_fold. Qed.

Theorem C04_source_iter_rfold : forall f g pan a so nd init,
  let '(o, m, t, c) := run_fold [a] so f g pan (pipe_of gen_iter_rfold nd) (length a) init in
  exists t', fold_ true g pan init (rev a) = (o, (m ++ t')%list, List.concat c) /\ Permutation t t'.
Proof. exact tie_iter_rfold. Qed.

(* GenericArrayIter::clone as regenerated: each clone is written into the new iterator and THEN its
   index_back advanced, so that when a later T::clone (here: call k of f) panics the new iterator's
   Drop releases exactly the clones made so far -- Functional.clone_loop, the loop of iter_clone *)
Theorem C04_source_iter_clone : forall f g pan nd a,
  match clone_loop (cl_of f) pan 0 a [] with
  | (Some clones, _) =>
    run_for_each [a] false f g pan (pipe_of gen_iter_clone nd) (length a) =
    (Ok clones, [], [], [], map (fun x => [x]) a)
  | (None, made) =>
    exists c, run_for_each [a] false f g pan (pipe_of gen_iter_clone nd) (length a) =
              (Panic, [], [], map EDrop made, c)
  end.
Proof. exact tie_iter_clone. Qed.

(* the trait-default GenericSequence::inverted_zip (src/sequence.rs) as regenerated: owned.zip(&rhs, f)
   and owned.zip(&mut rhs, f) -- lhs behind an ArrayConsumer, self iterated by value *)
Theorem C04_source_default_zip : forall f g pan a b so nd, length a = length b ->
  agrees (run_from_iter [b; a] so f g pan (pipe_of gen_default_inverted_zip nd) (length a))
         (zip_ true so f pan a b).
Proof. exact tie_default_zip. Qed.

(* the other trait defaults as regenerated (src/functional.rs map / fold, src/sequence.rs inverted_zip2): what
   (&a).map(f), (&a).zip(&b, f), (&a).fold(init, f) and the same over &mut run.  `so` says whether the
   sequence iterated by value owns its items; whatever call panics, exactly the owned items are moved or
   released (Functional.map_ / zip_ / fold_ with that ownership) *)
Theorem C04_source_default_map : forall f g pan a so nd,
  flat5 (run_from_iter [a] so f g pan (pipe_of gen_default_map nd) (length a)) = map_ so f pan a.
Proof. exact tie_default_map. Qed.

Theorem C04_source_default_zip2 : forall f g pan a b so nd, length a = length b ->
  agrees (run_from_iter [b; a] so f g pan (pipe_of gen_default_inverted_zip2 nd) (length a))
         (zip_ so so f pan a b).
Proof. exact tie_default_zip2. Qed.

Theorem C04_source_default_fold : forall f g pan a so nd init,
  let '(o, m, t, c) := run_fold [a] so f g pan (pipe_of gen_default_fold nd) (length a) init in
  (o, (m ++ t)%list, List.concat c) = fold_ so g pan init a.
Proof. exact tie_default_fold. Qed.

(* zip(self, rhs, f) is rhs.inverted_zip(self, f) in GenericArray's impl and rhs.inverted_zip2(self, f) in the
   trait default: `self` becomes the left operand, f is handed over unchanged *)
Theorem C04_source_zip_delegations :
  gen_zip_delegations =
  [("lib.rs", "rhs", "inverted_zip", ["self"; "f"]); ("functional.rs", "rhs", "inverted_zip2", ["self"; "f"])]%string.
Proof. exact tie_zip_delegations. Qed.

(* which methods the impls that run caller code define themselves (regenerated, coq/gen/GenSigs.v):
   Clone defines clone only (clone_from is the standard default `*self = source.clone()`), Default
   default, FromIterator from_iter; the panic-safety theorems above cover exactly these bodies *)
From GA Require Import SigDefs.
From GAGen Require Import GenSigs.
Local Open Scope string_scope.
Theorem C04_source_impl_methods :
  methods_of "Clone for GenericArray<T,N>" = Some ["clone"] /\
  methods_of "Default for GenericArray<T,N>" = Some ["default"] /\
  methods_of "Clone for GenericArrayIter<T,N>" = Some ["clone"] /\
  methods_of "FromIterator<T> for GenericArray<T,N>" = Some ["from_iter"] /\
  methods_of "FromIterator<T> for Box<GenericArray<T,N>>" = Some ["from_iter"] /\
  methods_of "GenericSequence<T> for GenericArray<T,N>" = Some ["generate"; "inverted_zip"; "inverted_zip2"] /\
  methods_of "FunctionalSequence<T> for GenericArray<T,N>" = Some ["map"; "zip"; "fold"] /\
  methods_of "GenericSequence<T> for Box<GenericArray<T,N>>" = Some ["generate"] /\
  methods_of "FunctionalSequence<T> for Box<GenericArray<T,N>>" = Some [].
Proof. repeat split. Qed.

(* dst.clone_from(&src) (the standard default over the modelled clone): when a clone() panics the destination
   keeps all its elements -- the only releases are those of the clone attempt -- and on success they are dropped
   exactly once, after the clone is complete *)
Theorem C04_clone_from : forall tracked cl pan dst src,
  let '(o, e, c) := clone_from_ tracked cl pan dst src in
  let '(o', e', c') := clone_ cl pan src in
  o = o' /\ c = c' /\
  match o with
  | Ok _ => e = (e' ++ (if tracked then map EDrop dst else []))%list
  | _ => e = e'
  end.
Proof. exact clone_from_spec. Qed.

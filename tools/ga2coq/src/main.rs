//! ga2coq -- regenerates the source-derived parts of the Coq model from /repo/src.
//!
//! usage: ga2coq <repo>/src <outdir>
//!
//! Fail-closed: an item that is requested and not fully understood is reported on
//! stdout as `ERROR <generated file> <item>: <reason>` and is NOT emitted (never a
//! guess); the process still exits 0 so that the other items are regenerated.
use std::collections::BTreeMap;
use std::fmt::Write as _;
use std::fs;
use std::path::Path;

mod collect;
mod decls;
mod heapprog;
mod macros;
mod murust;
mod pipeprog;
mod ptrprog;
mod serdeprog;
mod hexprog;
mod sigs;

fn main() {
    let args: Vec<String> = std::env::args().collect();
    if args.len() != 3 {
        eprintln!("usage: ga2coq <src dir> <out dir>");
        std::process::exit(2);
    }
    let src = Path::new(&args[1]);
    let out = Path::new(&args[2]);
    fs::create_dir_all(out).unwrap();
    let mut files: BTreeMap<String, syn::File> = BTreeMap::new();
    for name in ["iter.rs", "internal.rs", "lib.rs", "impls.rs", "sequence.rs", "impl_const_default.rs", "arr.rs", "hex.rs", "impl_alloc.rs", "impl_serde.rs", "impl_zeroize.rs", "functional.rs"] {
        let p = src.join(name);
        match fs::read_to_string(&p) {
            Ok(text) => match syn::parse_file(&text) {
                Ok(f) => {
                    files.insert(name.to_string(), f);
                }
                Err(e) => println!("ERROR * {}: cannot parse: {}", name, e),
            },
            Err(e) => println!("ERROR * {}: cannot read: {}", name, e),
        }
    }
    if std::env::var("GA2COQ_COVERAGE").is_ok() {
        // listing for the maintainers of the translator: every fn with more than one statement
        for (name, file) in &files {
            fn walk_block(name: &str, owner: &str, ident: &str, b: &syn::Block) {
                let mut n = b.stmts.len();
                if n == 1 {
                    if let syn::Stmt::Expr(syn::Expr::Unsafe(u), None) = &b.stmts[0] {
                        n = u.block.stmts.len();
                    }
                }
                if n > 1 {
                    println!("MULTI {} {} {} {}", name, owner, ident, n);
                } else {
                    println!("THIN {} {} {} {}", name, owner, ident, n);
                }
            }
            for it in &file.items {
                match it {
                    syn::Item::Fn(f) => walk_block(name, "-", &f.sig.ident.to_string(), &f.block),
                    syn::Item::Impl(im) => {
                        let owner: String = quote::ToTokens::to_token_stream(&im.self_ty).to_string().split_whitespace().collect();
                        let tr = im.trait_.as_ref().map(|t| t.1.segments.last().unwrap().ident.to_string()).unwrap_or_default();
                        for ii in &im.items {
                            if let syn::ImplItem::Fn(f) = ii {
                                walk_block(name, &format!("{}:{}", tr, owner), &f.sig.ident.to_string(), &f.block);
                            }
                        }
                    }
                    syn::Item::Trait(t) => {
                        for ti in &t.items {
                            if let syn::TraitItem::Fn(m) = ti {
                                if let Some(b) = &m.default {
                                    walk_block(name, &format!("trait {}", t.ident), &m.sig.ident.to_string(), b);
                                }
                            }
                        }
                    }
                    _ => {}
                }
            }
        }
    }
    let mut gen_iter = String::new();
    murust::gen_iter(&files, &mut gen_iter);
    write_out(out, "GenIter.v", &gen_iter);
    let mut g = String::new();
    decls::gen_guards(&files, &mut g);
    write_out(out, "GenGuards.v", &g);
    let mut g = String::new();
    decls::gen_layout_decls(&files, &mut g);
    write_out(out, "GenLayoutDecls.v", &g);
    let mut g = String::new();
    decls::gen_const_default_decls(&files, &mut g);
    write_out(out, "GenConstDefaultDecls.v", &g);
    let mut g = String::new();
    decls::gen_const_fns(&files, &mut g);
    write_out(out, "GenConstFns.v", &g);
    let mut g = String::new();
    sigs::gen_sigs(&files, &mut g);
    sigs::gen_inverse_bounds(&files, &mut g);
    sigs::gen_transmutes(&files, &mut g);
    sigs::gen_tuple_bodies(&files, &mut g);
    sigs::gen_impl_methods(&files, &mut g);
    sigs::gen_impl_bounds(&files, &mut g);
    sigs::gen_trait_headers(&files, &mut g);
    sigs::gen_fn_sigs(&files, &mut g);
    sigs::gen_thin_bodies(&files, &mut g);
    sigs::gen_small_bodies(&files, &mut g);
    write_out(out, "GenSigs.v", &g);
    let mut g = String::new();
    sigs::gen_deleg(&files, &mut g);
    write_out(out, "GenDeleg.v", &g);
    let mut g = String::new();
    sigs::gen_lifetimes(&files, &mut g);
    write_out(out, "GenLifetimes.v", &g);
    let mut g = String::new();
    ptrprog::gen_seq(&files, &mut g);
    write_out(out, "GenSeq.v", &g);
    let mut g = String::new();
    pipeprog::gen_pipe(&files, &mut g);
    write_out(out, "GenPipe.v", &g);
    let mut g = String::new();
    macros::gen_macro(&files, &mut g);
    write_out(out, "GenMacro.v", &g);
    let mut g = String::new();
    collect::gen_collect(&files, &mut g);
    write_out(out, "GenCollect.v", &g);
    let mut g = String::new();
    heapprog::gen_heap(&files, &mut g);
    write_out(out, "GenHeap.v", &g);
    let mut g = String::new();
    serdeprog::gen_serde(&files, &mut g);
    write_out(out, "GenSerde.v", &g);
    let mut g = String::new();
    hexprog::gen_hex(&files, &mut g);
    write_out(out, "GenHex.v", &g);
}

fn write_out(out: &Path, name: &str, body: &str) {
    let mut s = String::new();
    writeln!(s, "(* {} -- GENERATED by tools/ga2coq from /repo/src on every run of ./check. Do not edit. *)", name).unwrap();
    s.push_str(body);
    fs::write(out.join(name), s).unwrap();
}

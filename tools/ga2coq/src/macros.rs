//! T1 for src/arr.rs: the arms of arr!, box_arr!, box_arr_helper! as data of
//! coq/theories/Macros.v (matcher shape + transcriber term), and the const-ness of the crate
//! functions the transcribers call.  Fail-closed.
use proc_macro2::{Delimiter, Group, Ident, Punct, Spacing, Span, TokenStream, TokenTree};
use std::collections::BTreeMap;
use std::fmt::Write as _;
use syn::{Expr, Item, Stmt, Type};

type R<T> = Result<T, String>;

fn mvar(name: &str) -> R<&'static str> {
    match name {
        "x" => Ok("MVx"),
        "N" => Ok("MVN"),
        "n" => Ok("MVn"),
        "e" => Ok("MVe"),
        _ => Err(format!("unknown macro variable ${}", name)),
    }
}
fn frag(name: &str) -> R<&'static str> {
    match name {
        "expr" => Ok("FSExpr"),
        "ty" => Ok("FSTy"),
        _ => Err(format!("unknown fragment specifier {}", name)),
    }
}

fn toks(ts: TokenStream) -> Vec<TokenTree> {
    ts.into_iter().collect()
}
fn is_punct(t: &TokenTree, c: char) -> bool {
    matches!(t, TokenTree::Punct(p) if p.as_char() == c)
}
fn ident_str(t: &TokenTree) -> Option<String> {
    match t {
        TokenTree::Ident(i) => Some(i.to_string()),
        _ => None,
    }
}

/// `$ v : frag` at position i
fn var_decl(t: &[TokenTree], i: usize) -> Option<(String, String)> {
    if i + 3 < t.len() + 0 && is_punct(&t[i], '$') && is_punct(&t[i + 2], ':') {
        Some((ident_str(&t[i + 1])?, ident_str(&t[i + 3])?))
    } else {
        None
    }
}

fn matcher(ts: TokenStream) -> R<String> {
    let t = toks(ts);
    // $( $x:frag ),* $(,)*
    if t.len() == 8 && is_punct(&t[0], '$') && is_punct(&t[2], ',') && is_punct(&t[3], '*') && is_punct(&t[4], '$') && is_punct(&t[7], '*') || (t.len() == 7 && is_punct(&t[0], '$')) {
        if let TokenTree::Group(g) = &t[1] {
            let inner = toks(g.stream());
            if inner.len() == 4 {
                if let Some((v, f)) = var_decl(&inner, 0) {
                    // the optional-trailing-commas group
                    let tail_ok = match t.get(5) {
                        Some(TokenTree::Group(g2)) => {
                            let x = toks(g2.stream());
                            x.len() == 1 && is_punct(&x[0], ',')
                        }
                        _ => false,
                    };
                    if tail_ok && is_punct(&t[2], ',') && is_punct(&t[3], '*') && is_punct(&t[4], '$') && is_punct(&t[6], '*') {
                        return Ok(format!("MSepList {} {}", mvar(&v)?, frag(&f)?));
                    }
                }
            }
        }
    }
    // $x:frag ; $y:frag
    if t.len() == 9 && is_punct(&t[4], ';') {
        if let (Some((v1, f1)), Some((v2, f2))) = (var_decl(&t, 0), var_decl(&t, 5)) {
            return Ok(format!("MSemi {} {} {} {}", mvar(&v1)?, frag(&f1)?, mvar(&v2)?, frag(&f2)?));
        }
    }
    // @kw $x:frag
    if t.len() == 6 && is_punct(&t[0], '@') {
        if let (Some(kw), Some((v, f))) = (ident_str(&t[1]), var_decl(&t, 2)) {
            if kw == "unit" {
                return Ok(format!("MAt kw_unit {} {}", mvar(&v)?, frag(&f)?));
            }
            return Err(format!("unknown keyword @{}", kw));
        }
    }
    Err(format!("unrecognised matcher `{}`", t.iter().map(|x| x.to_string()).collect::<Vec<_>>().join(" ")))
}

/// `$crate` -> `crate`, `$v` -> `MV_v`, `$( .. ) sep *` -> `REP!( .. )`
fn normalise(ts: TokenStream) -> R<TokenStream> {
    let t = toks(ts);
    let mut out: Vec<TokenTree> = vec![];
    let mut i = 0;
    while i < t.len() {
        match &t[i] {
            TokenTree::Punct(p) if p.as_char() == '$' => match t.get(i + 1) {
                Some(TokenTree::Ident(id)) => {
                    let s = id.to_string();
                    if s == "crate" {
                        out.push(TokenTree::Ident(Ident::new("crate", Span::call_site())));
                    } else {
                        mvar(&s)?;
                        out.push(TokenTree::Ident(Ident::new(&format!("MV_{}", s), Span::call_site())));
                    }
                    i += 2;
                }
                Some(TokenTree::Group(g)) if g.delimiter() == Delimiter::Parenthesis => {
                    // separator (optional) then `*`
                    let mut j = i + 2;
                    if j < t.len() && is_punct(&t[j], ',') {
                        j += 1;
                    }
                    if !(j < t.len() && is_punct(&t[j], '*')) {
                        return Err("repetition without `*`".into());
                    }
                    out.push(TokenTree::Ident(Ident::new("REP", Span::call_site())));
                    out.push(TokenTree::Punct(Punct::new('!', Spacing::Alone)));
                    out.push(TokenTree::Group(Group::new(Delimiter::Parenthesis, normalise(g.stream())?)));
                    i = j + 1;
                }
                _ => return Err("stray `$`".into()),
            },
            TokenTree::Group(g) => {
                out.push(TokenTree::Group(Group::new(g.delimiter(), normalise(g.stream())?)));
                i += 1;
            }
            other => {
                out.push(other.clone());
                i += 1;
            }
        }
    }
    Ok(out.into_iter().collect())
}

fn strip(e: &Expr) -> &Expr {
    match e {
        Expr::Paren(p) => strip(&p.expr),
        Expr::Group(g) => strip(&g.expr),
        _ => e,
    }
}

fn path_names(p: &syn::Path) -> Vec<String> {
    p.segments.iter().map(|s| s.ident.to_string()).filter(|s| s != "crate").collect()
}

fn first_mv(ts: &TokenStream) -> Option<String> {
    for t in ts.clone() {
        match t {
            TokenTree::Ident(i) => {
                let s = i.to_string();
                if let Some(v) = s.strip_prefix("MV_") {
                    return Some(v.to_string());
                }
            }
            TokenTree::Group(g) => {
                if let Some(v) = first_mv(&g.stream()) {
                    return Some(v);
                }
            }
            _ => {}
        }
    }
    None
}

fn ty_term(t: &Type) -> R<String> {
    match t {
        Type::Path(p) => {
            if let Some(q) = &p.qself {
                // <crate::typenum::Const<__LEN> as crate::IntoArrayLength>::ArrayLength
                let names = path_names(&p.path);
                if names.last().map(|s| s == "ArrayLength").unwrap_or(false) && names.iter().any(|s| s == "IntoArrayLength") {
                    if let Type::Path(inner) = &*q.ty {
                        let last = inner.path.segments.last().unwrap();
                        if last.ident == "Const" {
                            if let syn::PathArguments::AngleBracketed(a) = &last.arguments {
                                if let Some(syn::GenericArgument::Type(Type::Path(c))) = a.args.first() {
                                    if let Some(id) = c.path.get_ident() {
                                        return Ok(format!("(ConstLen {})", cref(&id.to_string())?));
                                    }
                                }
                                if let Some(syn::GenericArgument::Const(Expr::Path(c))) = a.args.first() {
                                    if let Some(id) = c.path.get_ident() {
                                        return Ok(format!("(ConstLen {})", cref(&id.to_string())?));
                                    }
                                }
                            }
                        }
                    }
                }
                return Err("unrecognised qualified type".into());
            }
            if let Some(id) = p.path.get_ident() {
                let s = id.to_string();
                if let Some(v) = s.strip_prefix("MV_") {
                    return Ok(format!("(MV {})", mvar(v)?));
                }
            }
            Err("unrecognised type".into())
        }
        _ => Err("unrecognised type".into()),
    }
}

fn cref(name: &str) -> R<String> {
    match name {
        "__INPUT_LENGTH" => Ok("(CRef CInputLength)".into()),
        "__LEN" => Ok("(CRef CLen)".into()),
        _ => Err(format!("unknown constant {}", name)),
    }
}
fn cname(name: &str) -> R<&'static str> {
    match name {
        "__INPUT_LENGTH" => Ok("CInputLength"),
        "__LEN" => Ok("CLen"),
        _ => Err(format!("unknown local constant {}", name)),
    }
}

struct FnCtx {
    param: Option<String>,   // the local fn's parameter name while inside its body
    ret_n: bool,             // the local fn returns GenericArray<T, N> with N its own type parameter
    local_fn: Option<String>,
}

/// the comma-separated (or `x; n`) contents of `[..]` / `vec![..]`
fn list_or_repeat(ts: TokenStream, cx: &FnCtx) -> R<Result<String, (String, String)>> {
    // try `a ; b`
    let t = toks(ts.clone());
    if let Some(pos) = t.iter().position(|x| is_punct(x, ';')) {
        let a: TokenStream = t[..pos].iter().cloned().collect();
        let b: TokenStream = t[pos + 1..].iter().cloned().collect();
        let ea: Expr = syn::parse2(a).map_err(|e| format!("repeat operand: {}", e))?;
        let eb: Expr = syn::parse2(b).map_err(|e| format!("repeat length: {}", e))?;
        return Ok(Err((term(&ea, cx)?, term(&eb, cx)?)));
    }
    let parser = syn::punctuated::Punctuated::<Expr, syn::Token![,]>::parse_terminated;
    let elems = syn::parse::Parser::parse2(parser, ts).map_err(|e| format!("list: {}", e))?;
    Ok(Ok(seq(elems.iter().collect(), cx)?))
}

fn seq(elems: Vec<&Expr>, cx: &FnCtx) -> R<String> {
    let mut s = "SNil".to_string();
    for e in elems.iter().rev() {
        match strip(e) {
            Expr::Macro(m) if m.mac.path.is_ident("REP") => {
                let inner: Expr = syn::parse2(m.mac.tokens.clone()).map_err(|e| format!("repetition body: {}", e))?;
                let v = first_mv(&m.mac.tokens).ok_or("repetition without a macro variable")?;
                s = format!("(SRep {} {} {})", mvar(&v)?, term(&inner, cx)?, s);
            }
            other => s = format!("(SCons {} {})", term(other, cx)?, s),
        }
    }
    Ok(s)
}

fn block_term(stmts: &[Stmt], cx: &FnCtx) -> R<String> {
    match stmts.split_first() {
        None => Err("empty block".into()),
        Some((Stmt::Item(Item::Const(c)), rest)) => {
            let name = c.ident.to_string();
            Ok(format!("(ConstItem {} {} {})", cname(&name)?, term(&c.expr, cx)?, block_term(rest, cx)?))
        }
        Some((Stmt::Item(Item::Fn(f)), rest)) => {
            // [const] fn NAME<T, N: ArrayLength>(arr: [T; LEN]) -> GenericArray<T, N> { body }
            let isconst = f.sig.constness.is_some();
            if f.sig.inputs.len() != 1 {
                return Err("local fn arity".into());
            }
            let (pname, plen) = match &f.sig.inputs[0] {
                syn::FnArg::Typed(t) => {
                    let n = match &*t.pat {
                        syn::Pat::Ident(i) => i.ident.to_string(),
                        _ => return Err("local fn parameter pattern".into()),
                    };
                    match &*t.ty {
                        Type::Array(a) => (n, term(&a.len, cx)?),
                        _ => return Err("local fn parameter is not an array".into()),
                    }
                }
                _ => return Err("local fn receiver".into()),
            };
            let tparams: Vec<String> = f.sig.generics.type_params().map(|p| p.ident.to_string()).collect();
            let ret_n = match &f.sig.output {
                syn::ReturnType::Type(_, t) => match &**t {
                    Type::Path(p) => {
                        let last = p.path.segments.last().unwrap();
                        last.ident == "GenericArray"
                            && match &last.arguments {
                                syn::PathArguments::AngleBracketed(a) => match a.args.iter().nth(1) {
                                    Some(syn::GenericArgument::Type(Type::Path(n))) => n.path.get_ident().map(|i| tparams.get(1).map(|x| *x == i.to_string()).unwrap_or(false)).unwrap_or(false),
                                    _ => false,
                                },
                                _ => false,
                            }
                    }
                    _ => false,
                },
                _ => false,
            };
            if !ret_n {
                return Err("local fn does not return GenericArray<T, N> over its own N".into());
            }
            let inner = FnCtx { param: Some(pname), ret_n: true, local_fn: None };
            let fbody = block_term(&f.block.stmts, &inner)?;
            let outer = FnCtx { param: cx.param.clone(), ret_n: cx.ret_n, local_fn: Some(f.sig.ident.to_string()) };
            Ok(format!("(LocalFn {} {} {} {})", isconst, plen, fbody, block_term(rest, &outer)?))
        }
        Some((Stmt::Expr(e, None), [])) => term(e, cx),
        _ => Err("unrecognised statement in a transcriber block".into()),
    }
}

fn term(e: &Expr, cx: &FnCtx) -> R<String> {
    match strip(e) {
        Expr::Block(b) => block_term(&b.block.stmts, cx),
        Expr::Unsafe(u) => Ok(format!("(UnsafeBlk {})", block_term(&u.block.stmts, cx)?)),
        Expr::Tuple(t) if t.elems.is_empty() => Ok("UnitLit".into()),
        Expr::Path(p) => {
            if let Some(q) = &p.qself {
                // <TY as crate::typenum::Unsigned>::USIZE
                let names = path_names(&p.path);
                if names.last().map(|s| s == "USIZE").unwrap_or(false) && names.iter().any(|s| s == "Unsigned") {
                    return Ok(format!("(Usize {})", ty_term(&q.ty)?));
                }
                return Err("unrecognised qualified path".into());
            }
            let id = p.path.get_ident().ok_or("unrecognised path")?.to_string();
            if let Some(v) = id.strip_prefix("MV_") {
                return Ok(format!("(MV {})", mvar(v)?));
            }
            if Some(&id) == cx.param.as_ref() {
                return Ok("Param".into());
            }
            cref(&id)
        }
        Expr::Array(a) => Ok(format!("(ArrayLit {})", seq(a.elems.iter().collect(), cx)?)),
        Expr::Repeat(r) => Ok(format!("(ArrayRepeat {} {})", term(&r.expr, cx)?, term(&r.len, cx)?)),
        Expr::MethodCall(m) if m.method == "unwrap" && m.args.is_empty() => Ok(format!("(Unwrap {})", term(&m.receiver, cx)?)),
        Expr::Macro(m) => {
            let names = path_names(&m.mac.path);
            match names.last().map(|s| s.as_str()) {
                Some("vec") => match list_or_repeat(m.mac.tokens.clone(), cx)? {
                    Ok(s) => Ok(format!("(VecLit {})", s)),
                    Err((x, n)) => Ok(format!("(VecRepeat {} {})", x, n)),
                },
                Some("box_arr_helper") => {
                    let t = toks(m.mac.tokens.clone());
                    if t.len() >= 3 && is_punct(&t[0], '@') && ident_str(&t[1]).as_deref() == Some("unit") {
                        let rest: TokenStream = t[2..].iter().cloned().collect();
                        let inner: Expr = syn::parse2(rest).map_err(|e| format!("helper argument: {}", e))?;
                        Ok(format!("(MacroCall MBoxArrHelper kw_unit (SCons {} SNil))", term(&inner, cx)?))
                    } else {
                        Err("unrecognised box_arr_helper! call".into())
                    }
                }
                _ => Err(format!("unrecognised macro call {}", names.join("::"))),
            }
        }
        Expr::Call(c) => {
            let (names, last_args, ty_before_last) = match strip(&c.func) {
                Expr::Path(p) if p.qself.is_none() => {
                    let segs: Vec<&syn::PathSegment> = p.path.segments.iter().filter(|s| s.ident != "crate").collect();
                    let names: Vec<String> = segs.iter().map(|s| s.ident.to_string()).collect();
                    let last_args = segs.last().map(|s| s.arguments.clone());
                    let before = if segs.len() >= 2 { Some(segs[segs.len() - 2].arguments.clone()) } else { None };
                    (names, last_args, before)
                }
                _ => return Err("unrecognised callee".into()),
            };
            let args = seq(c.args.iter().collect(), cx)?;
            let second_ty = |a: &Option<syn::PathArguments>| -> R<Option<String>> {
                match a {
                    Some(syn::PathArguments::AngleBracketed(g)) => match g.args.iter().nth(1) {
                        Some(syn::GenericArgument::Type(t)) => Ok(Some(ty_term(t)?)),
                        _ => Err("unrecognised generic arguments".into()),
                    },
                    _ => Ok(None),
                }
            };
            let ns: Vec<&str> = names.iter().map(|s| s.as_str()).collect();
            match ns.as_slice() {
                ["GenericArray", "from_array"] => Ok(format!("(Call FFromArray None {})", args)),
                ["GenericArray", "__from_vec_helper"] => Ok(format!("(Call FFromVecHelper None {})", args)),
                ["GenericArray", "try_from_vec"] => {
                    let ty = second_ty(&ty_before_last)?.ok_or("try_from_vec without an explicit length")?;
                    Ok(format!("(Call FTryFromVec (Some {}) {})", ty, args))
                }
                ["const_transmute"] => {
                    if cx.param.is_some() && cx.ret_n {
                        Ok(format!("(Call FConstTransmute (Some TyParamN) {})", args))
                    } else {
                        Err("const_transmute outside the local fn".into())
                    }
                }
                [f] if Some(&f.to_string()) == cx.local_fn.as_ref() => {
                    let ty = second_ty(&last_args)?.ok_or("local fn called without an explicit length")?;
                    Ok(format!("(Call FLocal (Some {}) {})", ty, args))
                }
                _ => Err(format!("unrecognised callee {}", names.join("::"))),
            }
        }
        _ => Err("unrecognised transcriber expression".into()),
    }
}

fn arms(tokens: TokenStream) -> R<Vec<String>> {
    let t = toks(tokens);
    let mut out = vec![];
    let mut i = 0;
    while i < t.len() {
        let m = match &t[i] {
            TokenTree::Group(g) => g.stream(),
            _ => return Err("arm does not start with a matcher group".into()),
        };
        if !(i + 3 < t.len() + 1 && is_punct(&t[i + 1], '=') && is_punct(&t[i + 2], '>')) {
            return Err("arm without `=>`".into());
        }
        let body = match t.get(i + 3) {
            Some(TokenTree::Group(g)) => g.stream(),
            _ => return Err("arm without a transcriber group".into()),
        };
        let norm = normalise(body)?;
        let e: Expr = syn::parse2(norm).map_err(|e| format!("transcriber does not parse as an expression: {}", e))?;
        let cx = FnCtx { param: None, ret_n: false, local_fn: None };
        out.push(format!("mkArm ({})\n        {}", matcher(m)?, term(&e, &cx)?));
        i += 4;
        if i < t.len() && is_punct(&t[i], ';') {
            i += 1;
        }
    }
    Ok(out)
}

fn is_const_fn(files: &BTreeMap<String, syn::File>, file: &str, name: &str) -> R<bool> {
    fn walk(items: &[Item], name: &str, found: &mut Vec<bool>) {
        for it in items {
            match it {
                Item::Fn(f) if f.sig.ident == name => found.push(f.sig.constness.is_some()),
                Item::Impl(im) => {
                    for ii in &im.items {
                        if let syn::ImplItem::Fn(f) = ii {
                            if f.sig.ident == name {
                                found.push(f.sig.constness.is_some());
                            }
                        }
                    }
                }
                Item::Mod(m) => {
                    if let Some((_, items)) = &m.content {
                        walk(items, name, found);
                    }
                }
                _ => {}
            }
        }
    }
    let f = files.get(file).ok_or("file missing")?;
    let mut found = vec![];
    walk(&f.items, name, &mut found);
    match found.as_slice() {
        [b] => Ok(*b),
        [] => Err(format!("{} not found in {}", name, file)),
        _ => Err(format!("{} defined more than once in {}", name, file)),
    }
}

pub fn gen_macro(files: &BTreeMap<String, syn::File>, out: &mut String) {
    out.push_str("From Coq Require Import ZArith List.\nFrom GA Require Import Base Macros.\nImport ListNotations.\nLocal Open Scope Z_scope.\n\nDefinition kw_unit : Z := 1.\n\n");
    let Some(file) = files.get("arr.rs") else {
        println!("ERROR GenMacro.v *: arr.rs missing");
        return;
    };
    for (mname, coq) in [("arr", "gen_arr_arms"), ("box_arr", "gen_box_arr_arms"), ("box_arr_helper", "gen_box_arr_helper_arms")] {
        let res: R<Vec<String>> = (|| {
            let mut found = None;
            for it in &file.items {
                if let Item::Macro(m) = it {
                    if m.mac.path.is_ident("macro_rules") && m.ident.as_ref().map(|i| i == mname).unwrap_or(false) {
                        if found.is_some() {
                            return Err("defined more than once".to_string());
                        }
                        found = Some(m);
                    }
                }
            }
            arms(found.ok_or("macro not found")?.mac.tokens.clone())
        })();
        match res {
            Ok(a) => writeln!(out, "Definition {} : list arm := [\n  {}\n].\n", coq, a.join(";\n  ")).unwrap(),
            Err(e) => println!("ERROR GenMacro.v {}: {}", mname, e),
        }
    }
    // const-ness of the functions the transcribers call
    let table = [("FFromArray", "lib.rs", "from_array"), ("FConstTransmute", "lib.rs", "const_transmute"), ("FTryFromVec", "impl_alloc.rs", "try_from_vec"), ("FFromVecHelper", "arr.rs", "__from_vec_helper")];
    let mut rows = vec![];
    let mut ok = true;
    for (f, file, name) in table {
        match is_const_fn(files, file, name) {
            Ok(b) => rows.push(format!("({}, {})", f, b)),
            Err(e) => {
                println!("ERROR GenMacro.v fn_const: {}", e);
                ok = false;
            }
        }
    }
    if ok {
        writeln!(out, "Definition gen_fn_const : list (fname * bool) := [{}].", rows.join("; ")).unwrap();
    }
}

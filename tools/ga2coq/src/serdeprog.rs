//! T3 for GAVisitor::visit_seq (src/impl_serde.rs): its body as the step list of
//! coq/theories/SerdeProg.v.  Fail-closed.
use std::collections::BTreeMap;
use std::fmt::Write as _;
use syn::{BinOp, Expr, ImplItem, Item, Pat, Stmt};

type R<T> = Result<T, String>;

fn strip(e: &Expr) -> &Expr {
    match e {
        Expr::Paren(p) => strip(&p.expr),
        Expr::Group(g) => strip(&g.expr),
        Expr::Reference(r) => strip(&r.expr),
        _ => e,
    }
}
fn path_of(e: &Expr) -> Vec<String> {
    match strip(e) {
        Expr::Path(p) => p.path.segments.iter().map(|s| s.ident.to_string()).collect(),
        _ => vec![],
    }
}
fn ident_of(e: &Expr) -> Option<String> {
    let p = path_of(e);
    if p.len() == 1 {
        Some(p[0].clone())
    } else {
        None
    }
}
fn is_n_usize(e: &Expr) -> bool {
    path_of(e) == ["N", "USIZE"]
}
fn deref_ident(e: &Expr) -> Option<String> {
    match strip(e) {
        Expr::Unary(u) if matches!(u.op, syn::UnOp::Deref(_)) => ident_of(&u.expr),
        _ => None,
    }
}
fn pat_ident(p: &Pat) -> Option<String> {
    match p {
        Pat::Ident(i) => Some(i.ident.to_string()),
        _ => None,
    }
}

/// `return Err(de::Error::invalid_length(<arg>, &self))` / `Err(..)`; gives the first argument
fn err_invalid_length(e: &Expr, must_return: bool) -> Option<&Expr> {
    let inner = match strip(e) {
        Expr::Return(r) => r.expr.as_deref()?,
        other if !must_return => other,
        _ => return None,
    };
    if let Expr::Call(c) = strip(inner) {
        if path_of(&c.func) == ["Err"] && c.args.len() == 1 {
            if let Expr::Call(il) = strip(&c.args[0]) {
                if path_of(&il.func).last().map(|s| s == "invalid_length").unwrap_or(false) && il.args.len() == 2 {
                    return Some(&il.args[0]);
                }
            }
        }
    }
    None
}
fn single_stmt_expr(b: &syn::Block) -> Option<&Expr> {
    if b.stmts.len() == 1 {
        if let Stmt::Expr(e, _) = &b.stmts[0] {
            return Some(e);
        }
    }
    None
}
/// seq.next_element[::<Dummy>]()?  -> whether a turbofish is present
fn next_element_q(e: &Expr, seq: &str) -> Option<bool> {
    if let Expr::Try(t) = strip(e) {
        if let Expr::MethodCall(m) = strip(&t.expr) {
            if m.method == "next_element" && m.args.is_empty() && ident_of(&m.receiver).as_deref() == Some(seq) {
                return Some(m.turbofish.is_some());
            }
        }
    }
    None
}

fn translate(f: &syn::ImplItemFn) -> R<Vec<String>> {
    let seq = f
        .sig
        .inputs
        .iter()
        .filter_map(|a| match a {
            syn::FnArg::Typed(t) => pat_ident(&t.pat),
            _ => None,
        })
        .next()
        .ok_or("visit_seq has no SeqAccess parameter")?;
    let st = &f.block.stmts;
    if st.len() != 2 {
        return Err("body is not `match seq.size_hint() {..}` followed by one unsafe block".into());
    }
    let mut out = vec![];
    // 1. the up-front hint
    match &st[0] {
        Stmt::Expr(Expr::Match(m), _) => {
            let on_hint = matches!(strip(&m.expr), Expr::MethodCall(c) if c.method == "size_hint" && ident_of(&c.receiver).as_deref() == Some(seq.as_str()));
            if !on_hint || m.arms.len() != 2 {
                return Err("first statement is not a two-armed match on seq.size_hint()".into());
            }
            let a0 = &m.arms[0];
            let var = match &a0.pat {
                Pat::TupleStruct(ts) if ts.path.is_ident("Some") && ts.elems.len() == 1 => pat_ident(&ts.elems[0]),
                _ => None,
            }
            .ok_or("first arm is not Some(n)")?;
            let g = a0.guard.as_ref().ok_or("first arm has no guard")?;
            let ok_guard = match strip(&g.1) {
                Expr::Binary(b) if matches!(b.op, BinOp::Ne(_)) => ident_of(&b.left).as_deref() == Some(var.as_str()) && is_n_usize(&b.right),
                _ => false,
            };
            let body = match strip(&a0.body) {
                Expr::Block(b) => single_stmt_expr(&b.block),
                other => Some(other),
            };
            let ok_body = body.and_then(|e| err_invalid_length(e, true)).map(|a| ident_of(a).as_deref() == Some(var.as_str())).unwrap_or(false);
            let a1 = &m.arms[1];
            let ok_rest = matches!(a1.pat, Pat::Wild(_)) && a1.guard.is_none() && matches!(strip(&a1.body), Expr::Block(b) if b.block.stmts.is_empty());
            if !(ok_guard && ok_body && ok_rest) {
                return Err("the up-front size-hint match is not `Some(n) if n != N::USIZE => return Err(invalid_length(n, ..)), _ => {}`".into());
            }
            out.push("VHintRejectNe".to_string());
        }
        _ => return Err("first statement is not the size-hint match".into()),
    }
    // 2. the unsafe block
    let inner = match &st[1] {
        Stmt::Expr(Expr::Unsafe(u), None) => &u.block.stmts,
        _ => return Err("second statement is not the unsafe block".into()),
    };
    if inner.len() != 6 {
        return Err("unsafe block is not dst; builder; iter_position; loop; full-test; Err".into());
    }
    let let_call = |s: &Stmt, path: &[&str]| -> Option<(String, Vec<Expr>)> {
        if let Stmt::Local(l) = s {
            let name = pat_ident(&l.pat)?;
            if let Expr::Call(c) = strip(&l.init.as_ref()?.expr) {
                let p = path_of(&c.func);
                if p.iter().map(|x| x.as_str()).collect::<Vec<_>>() == path {
                    return Some((name, c.args.iter().cloned().collect()));
                }
            }
        }
        None
    };
    let (dst, _) = let_call(&inner[0], &["GenericArray", "uninit"]).ok_or("no `let mut dst = GenericArray::uninit()`")?;
    let (builder, bargs) = let_call(&inner[1], &["IntrusiveArrayBuilder", "new"]).ok_or("no `let mut builder = IntrusiveArrayBuilder::new(..)`")?;
    if bargs.len() != 1 || ident_of(&bargs[0]).as_deref() != Some(dst.as_str()) {
        return Err("the builder is not over the uninitialised destination".into());
    }
    let (iter, pos) = match &inner[2] {
        Stmt::Local(l) => {
            let names = match &l.pat {
                Pat::Tuple(t) if t.elems.len() == 2 => (pat_ident(&t.elems[0]), pat_ident(&t.elems[1])),
                _ => (None, None),
            };
            let ok = matches!(l.init.as_ref().map(|i| strip(&i.expr)), Some(Expr::MethodCall(m)) if m.method == "iter_position" && ident_of(&m.receiver).as_deref() == Some(builder.as_str()));
            if !ok {
                return Err("no `let (build_iter, position) = builder.iter_position()`".into());
            }
            (names.0.ok_or("iterator name")?, names.1.ok_or("position name")?)
        }
        _ => return Err("third statement".into()),
    };
    // for slot in build_iter { match seq.next_element()? { Some(el) => { body }, None => break } }
    match &inner[3] {
        Stmt::Expr(Expr::ForLoop(fl), _) => {
            let slot = pat_ident(&fl.pat).ok_or("loop pattern")?;
            if ident_of(&fl.expr).as_deref() != Some(iter.as_str()) {
                return Err("the loop is not over the builder's slot iterator".into());
            }
            let m = match single_stmt_expr(&fl.body).map(strip) {
                Some(Expr::Match(m)) => m,
                _ => return Err("loop body is not one match".into()),
            };
            if next_element_q(&m.expr, &seq) != Some(false) || m.arms.len() != 2 {
                return Err("loop does not match on seq.next_element()?".into());
            }
            let el = match &m.arms[0].pat {
                Pat::TupleStruct(ts) if ts.path.is_ident("Some") && ts.elems.len() == 1 => pat_ident(&ts.elems[0]),
                _ => None,
            }
            .ok_or("first loop arm is not Some(el)")?;
            let none_break = matches!(&m.arms[1].pat, Pat::Ident(i) if i.ident == "None") && matches!(strip(&m.arms[1].body), Expr::Break(_));
            if !none_break {
                return Err("second loop arm is not `None => break`".into());
            }
            let stmts = match strip(&m.arms[0].body) {
                Expr::Block(b) => b.block.stmts.clone(),
                _ => return Err("Some(el) arm is not a block".into()),
            };
            let mut body = vec![];
            for s in &stmts {
                match s {
                    Stmt::Expr(e, Some(_)) => match strip(e) {
                        Expr::MethodCall(w) if w.method == "write" && w.args.len() == 1 => {
                            let d = ident_of(&w.receiver).ok_or("write receiver")?;
                            let v = ident_of(&w.args[0]).ok_or("written value")?;
                            body.push(format!("CWrite \"{}\" (XAtom (AVar \"{}\"))", d, v));
                        }
                        Expr::Binary(b) if matches!(b.op, BinOp::AddAssign(_)) => {
                            let p = deref_ident(&b.left).ok_or("`+=` on something other than *position")?;
                            if !matches!(strip(&b.right), Expr::Lit(l) if matches!(&l.lit, syn::Lit::Int(i) if i.base10_digits() == "1")) {
                                return Err("position advanced by something other than 1".into());
                            }
                            body.push(format!("CBump \"{}\"", p));
                        }
                        _ => return Err("unrecognised statement in the Some(el) arm".into()),
                    },
                    _ => return Err("unrecognised statement in the Some(el) arm".into()),
                }
            }
            out.push(format!("VFillLoop \"{}\" \"{}\" \"{}\" [{}]", slot, el, pos, body.join("; ")));
        }
        _ => return Err("fourth statement is not the fill loop".into()),
    }
    // if *position == N::USIZE { if [hint != Some(0) &&] next_element::<Dummy>()?.is_some() { return Err(pos + 1) } return Ok({..}); }
    match &inner[4] {
        Stmt::Expr(Expr::If(i), _) if i.else_branch.is_none() => {
            let ok_cond = match strip(&i.cond) {
                Expr::Binary(b) if matches!(b.op, BinOp::Eq(_)) => deref_ident(&b.left).as_deref() == Some(pos.as_str()) && is_n_usize(&b.right),
                _ => false,
            };
            if !ok_cond || i.then_branch.stmts.len() != 2 {
                return Err("the fullness test is not `if *position == N::USIZE { probe; return Ok }`".into());
            }
            // the probe
            let probe = match &i.then_branch.stmts[0] {
                Stmt::Expr(Expr::If(p), _) if p.else_branch.is_none() => p,
                _ => return Err("no surplus probe".into()),
            };
            let is_some_of_next = |e: &Expr| -> bool { matches!(strip(e), Expr::MethodCall(m) if m.method == "is_some" && next_element_q(&m.receiver, &seq) == Some(true)) };
            let hint_ne_zero = |e: &Expr| -> bool {
                match strip(e) {
                    Expr::Binary(b) if matches!(b.op, BinOp::Ne(_)) => {
                        let l = matches!(strip(&b.left), Expr::MethodCall(c) if c.method == "size_hint" && ident_of(&c.receiver).as_deref() == Some(seq.as_str()));
                        let r = match strip(&b.right) {
                            Expr::Call(c) => path_of(&c.func) == ["Some"] && c.args.len() == 1 && matches!(strip(&c.args[0]), Expr::Lit(l) if matches!(&l.lit, syn::Lit::Int(i) if i.base10_digits() == "0")),
                            _ => false,
                        };
                        l && r
                    }
                    _ => false,
                }
            };
            let guard = match strip(&probe.cond) {
                Expr::Binary(b) if matches!(b.op, BinOp::And(_)) && hint_ne_zero(&b.left) && is_some_of_next(&b.right) => true,
                e if is_some_of_next(e) => false,
                _ => return Err("unrecognised surplus probe condition".into()),
            };
            let ok_err = single_stmt_expr(&probe.then_branch)
                .and_then(|e| err_invalid_length(e, true))
                .map(|a| match strip(a) {
                    Expr::Binary(b) if matches!(b.op, BinOp::Add(_)) => deref_ident(&b.left).as_deref() == Some(pos.as_str()),
                    _ => false,
                })
                .unwrap_or(false);
            if !ok_err {
                return Err("the probe does not return Err(invalid_length(*position + 1, ..))".into());
            }
            // return Ok({ builder.finish(); array_assume_init(dst) })
            let ok_ret = match &i.then_branch.stmts[1] {
                Stmt::Expr(Expr::Return(r), _) => match r.expr.as_deref().map(strip) {
                    Some(Expr::Call(c)) if path_of(&c.func) == ["Ok"] && c.args.len() == 1 => match &c.args[0] {
                        Expr::Block(b) if b.block.stmts.len() == 2 => {
                            let fin = matches!(&b.block.stmts[0], Stmt::Expr(Expr::MethodCall(m), Some(_)) if m.method == "finish" && ident_of(&m.receiver).as_deref() == Some(builder.as_str()));
                            let ai = matches!(&b.block.stmts[1], Stmt::Expr(Expr::Call(c2), None) if path_of(&c2.func) == ["IntrusiveArrayBuilder", "array_assume_init"] && c2.args.len() == 1 && ident_of(&c2.args[0]).as_deref() == Some(dst.as_str()));
                            fin && ai
                        }
                        _ => false,
                    },
                    _ => false,
                },
                _ => false,
            };
            if !ok_ret {
                return Err("the full branch does not end in `return Ok({ builder.finish(); array_assume_init(dst) })`".into());
            }
            out.push(format!("VIfFull [VProbeErr {}; VReturnOk]", guard));
        }
        _ => return Err("fifth statement is not the fullness test".into()),
    }
    // Err(invalid_length(*position, &self))
    match &inner[5] {
        Stmt::Expr(e, None) => {
            let ok = err_invalid_length(e, false).map(|a| deref_ident(a).as_deref() == Some(pos.as_str())).unwrap_or(false);
            if !ok {
                return Err("the body does not end in Err(invalid_length(*position, ..))".into());
            }
            out.push("VErrPosition".to_string());
        }
        _ => return Err("sixth statement is not the final Err".into()),
    }
    Ok(out)
}

pub fn gen_serde(files: &BTreeMap<String, syn::File>, out: &mut String) {
    out.push_str("From Coq Require Import String ZArith List.\nFrom GA Require Import Base Pipe SerdeProg.\nImport ListNotations.\nLocal Open Scope string_scope.\n\n");
    let r: R<Vec<String>> = (|| {
        let file = files.get("impl_serde.rs").ok_or("impl_serde.rs missing")?;
        let mut found = None;
        for it in &file.items {
            if let Item::Impl(im) = it {
                let is_visitor = im.trait_.as_ref().map(|t| t.1.segments.last().unwrap().ident == "Visitor").unwrap_or(false);
                if !is_visitor {
                    continue;
                }
                for ii in &im.items {
                    if let ImplItem::Fn(f) = ii {
                        if f.sig.ident == "visit_seq" {
                            if found.is_some() {
                                return Err("visit_seq defined more than once".to_string());
                            }
                            found = Some(f);
                        }
                    }
                }
            }
        }
        translate(found.ok_or("visit_seq not found")?)
    })();
    match r {
        Ok(s) => writeln!(out, "Definition gen_visit_seq : list vstep :=\n  [{}].", s.join(";\n   ")).unwrap(),
        Err(e) => println!("ERROR GenSerde.v visit_seq: {}", e),
    }
    match gen_serialize(files) {
        Ok(s) => writeln!(out, "\n(* impl_serde.rs :: Serialize::serialize :: the body *)\nDefinition gen_serialize : list sstep :=\n  [{}].", s.join("; ")).unwrap(),
        Err(e) => println!("ERROR GenSerde.v serialize: {}", e),
    }
    match gen_deserialize(files) {
        Ok(s) => writeln!(out, "\n(* impl_serde.rs :: Deserialize::deserialize :: (deserializer method, its length argument, the visitor's fields) *)\nDefinition gen_deserialize : string * string * list string :=\n  {}.", s).unwrap(),
        Err(e) => println!("ERROR GenSerde.v deserialize: {}", e),
    }
}

fn find_method<'a>(file: &'a syn::File, tr: &str, name: &str) -> R<&'a syn::ImplItemFn> {
    let mut found = None;
    for it in &file.items {
        if let Item::Impl(im) = it {
            let is_tr = im.trait_.as_ref().map(|t| t.1.segments.last().unwrap().ident == tr).unwrap_or(false);
            let for_ga = quote::ToTokens::to_token_stream(&im.self_ty).to_string().starts_with("GenericArray");
            if !is_tr || !for_ga {
                continue;
            }
            for ii in &im.items {
                if let ImplItem::Fn(f) = ii {
                    if f.sig.ident == name {
                        if found.is_some() {
                            return Err(format!("{}::{} defined more than once", tr, name));
                        }
                        found = Some(f);
                    }
                }
            }
        }
    }
    found.ok_or(format!("{}::{} for GenericArray not found", tr, name))
}

fn gen_serialize(files: &BTreeMap<String, syn::File>) -> R<Vec<String>> {
    let file = files.get("impl_serde.rs").ok_or("impl_serde.rs missing")?;
    let f = find_method(file, "Serialize", "serialize")?;
    let params: Vec<String> = f.sig.inputs.iter().filter_map(|a| match a {
        syn::FnArg::Typed(t) => pat_ident(&t.pat),
        _ => None,
    }).collect();
    if params != ["serializer"] {
        return Err(format!("parameters {:?}", params));
    }
    let mut out = vec![];
    let n = f.block.stmts.len();
    for (i, s) in f.block.stmts.iter().enumerate() {
        match s {
            // let mut tup = serializer.serialize_tuple(N::USIZE)?;
            Stmt::Local(l) => {
                let v = pat_ident(&l.pat).ok_or("let pattern")?;
                let init = l.init.as_ref().ok_or("let without initialiser")?;
                let t = match strip(&init.expr) {
                    Expr::Try(t) => t,
                    _ => return Err("serialize_tuple without `?`".into()),
                };
                match strip(&t.expr) {
                    Expr::MethodCall(m) if m.method == "serialize_tuple" && m.args.len() == 1 && ident_of(&m.receiver).as_deref() == Some("serializer") => {
                        out.push(format!("SerTuple \"{}\" {}", v, is_n_usize(&m.args[0])));
                    }
                    _ => return Err("a let that is not `serializer.serialize_tuple(..)?`".into()),
                }
            }
            // for el in self { tup.serialize_element(el)?; }
            Stmt::Expr(Expr::ForLoop(fl), _) => {
                let el = pat_ident(&fl.pat).ok_or("for pattern")?;
                let src = ident_of(&fl.expr).ok_or("for over something that is not a variable")?;
                if fl.body.stmts.len() != 1 {
                    return Err("loop body is not a single statement".into());
                }
                let Stmt::Expr(e, Some(_)) = &fl.body.stmts[0] else { return Err("loop body is not an expression statement".into()) };
                let Expr::Try(t) = strip(e) else { return Err("serialize_element without `?`".into()) };
                match strip(&t.expr) {
                    Expr::MethodCall(m) if m.method == "serialize_element" && m.args.len() == 1 && ident_of(&m.args[0]).as_deref() == Some(el.as_str()) => {
                        out.push(format!("SerForEach \"{}\" \"{}\" \"{}\"", el, src, ident_of(&m.receiver).ok_or("receiver")?));
                    }
                    _ => return Err("loop body is not `tup.serialize_element(el)?`".into()),
                }
            }
            // tup.end()
            Stmt::Expr(e, None) if i + 1 == n => match strip(e) {
                Expr::MethodCall(m) if m.method == "end" && m.args.is_empty() => {
                    out.push(format!("SerEnd \"{}\"", ident_of(&m.receiver).ok_or("receiver")?));
                }
                _ => return Err("the body does not end in `tup.end()`".into()),
            },
            _ => return Err("unsupported statement in serialize".into()),
        }
    }
    Ok(out)
}

fn gen_deserialize(files: &BTreeMap<String, syn::File>) -> R<String> {
    let file = files.get("impl_serde.rs").ok_or("impl_serde.rs missing")?;
    let f = find_method(file, "Deserialize", "deserialize")?;
    if f.block.stmts.len() != 2 {
        return Err("expected `let visitor = GAVisitor {..}; deserializer.deserialize_tuple(N::USIZE, visitor)`".into());
    }
    let norm = |s: String| s.split_whitespace().collect::<Vec<_>>().join(" ");
    let (vname, fields) = match &f.block.stmts[0] {
        Stmt::Local(l) => {
            let v = pat_ident(&l.pat).ok_or("let pattern")?;
            let init = l.init.as_ref().ok_or("let without initialiser")?;
            match strip(&init.expr) {
                Expr::Struct(st) if st.path.segments.last().map(|s| s.ident == "GAVisitor").unwrap_or(false) && st.rest.is_none() => {
                    let fields: Vec<String> = st.fields.iter().map(|fv| norm(format!("{} : {}", quote::ToTokens::to_token_stream(&fv.member), quote::ToTokens::to_token_stream(&fv.expr)))).collect();
                    (v, fields)
                }
                _ => return Err("the visitor is not a GAVisitor literal".into()),
            }
        }
        _ => return Err("first statement is not the visitor".into()),
    };
    match &f.block.stmts[1] {
        Stmt::Expr(e, None) => match strip(e) {
            Expr::MethodCall(m) if m.args.len() == 2 && ident_of(&m.receiver).as_deref() == Some("deserializer") && ident_of(&m.args[1]).as_deref() == Some(vname.as_str()) => {
                Ok(format!(
                    "(\"{}\", \"{}\", [{}])",
                    m.method,
                    norm(quote::ToTokens::to_token_stream(&m.args[0]).to_string()),
                    fields.iter().map(|x| format!("\"{}\"", x)).collect::<Vec<_>>().join("; ")
                ))
            }
            _ => Err("the body does not end in deserializer.<method>(len, visitor)".into()),
        },
        _ => Err("second statement is not the tail call".into()),
    }
}

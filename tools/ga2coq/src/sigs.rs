//! T1 for C12: impl headers of the length-relating traits (where-clauses and associated
//! types as TypeLevel.v constraints), struct fields and explicit Send/Sync/Copy/Clone impls
//! (Sigs.v data), sealing facts, the impl_tuple! table.
use std::collections::BTreeMap;
use quote::ToTokens;
use std::fmt::Write as _;
use syn::{GenericArgument, GenericParam, ImplItem, Item, PathArguments, Type, TypeParamBound, WherePredicate};

type R<T> = Result<T, String>;

fn last_seg(p: &syn::Path) -> &syn::PathSegment {
    p.segments.last().unwrap()
}
fn seg_args(s: &syn::PathSegment) -> Vec<&GenericArgument> {
    match &s.arguments {
        PathArguments::AngleBracketed(a) => a.args.iter().collect(),
        _ => vec![],
    }
}

/// a type-level length expression over the length variables `vars`
fn lexp(t: &Type, vars: &[&str]) -> R<String> {
    match t {
        Type::Path(p) => {
            let seg = last_seg(&p.path);
            let name = seg.ident.to_string();
            let args: Vec<&Type> = seg_args(seg)
                .into_iter()
                .filter_map(|a| if let GenericArgument::Type(t) = a { Some(t) } else { None })
                .collect();
            if p.path.segments.len() == 1 && args.is_empty() {
                if let Some(i) = vars.iter().position(|v| *v == name) {
                    return Ok(format!("(LVar {})", i));
                }
            }
            let un = |c: &str| -> R<String> { Ok(format!("({} {})", c, lexp(args[0], vars)?)) };
            let bin = |c: &str| -> R<String> { Ok(format!("({} {} {})", c, lexp(args[0], vars)?, lexp(args[1], vars)?)) };
            match (name.as_str(), args.len()) {
                ("Add1", 1) => un("LAdd1"),
                ("Sub1", 1) => un("LSub1"),
                ("Sum", 2) => bin("LSum"),
                ("Diff", 2) => bin("LDiff"),
                ("Prod", 2) => bin("LProd"),
                ("Quot", 2) => bin("LQuot"),
                _ => Err(format!("unsupported length expression `{}`", name)),
            }
        }
        _ => Err("unsupported length expression".into()),
    }
}

/// `X: Bound` as constraints
fn bound_constraints(subject: &Type, b: &TypeParamBound, vars: &[&str], out: &mut Vec<String>) -> R<()> {
    let tb = match b {
        TypeParamBound::Trait(t) => t,
        TypeParamBound::Lifetime(_) => return Ok(()),
        _ => return Err("unsupported bound".into()),
    };
    let seg = last_seg(&tb.path);
    let name = seg.ident.to_string();
    let x = lexp(subject, vars)?;
    let args = seg_args(seg);
    match name.as_str() {
        "ArrayLength" => out.push(format!("CLen {}", x)),
        "Add" | "Sub" | "Mul" | "Div" => {
            let rhs = match args.first() {
                Some(GenericArgument::Type(t)) => t,
                _ => return Err("operator bound without operand".into()),
            };
            let is_b1 = matches!(rhs, Type::Path(p) if last_seg(&p.path).ident == "B1");
            // Output = O ?
            let outp = args.iter().find_map(|a| match a {
                GenericArgument::AssocType(at) if at.ident == "Output" => Some(&at.ty),
                _ => None,
            });
            match (name.as_str(), is_b1, outp) {
                ("Add", true, None) => out.push(format!("CAddB1 {}", x)),
                ("Sub", true, None) => out.push(format!("CSubB1 {}", x)),
                ("Add", true, Some(o)) => out.push(format!("CAddB1Out {} {}", x, lexp(o, vars)?)),
                ("Sub", true, Some(o)) => out.push(format!("CSubB1Out {} {}", x, lexp(o, vars)?)),
                ("Add", false, None) => out.push(format!("CAdd {} {}", x, lexp(rhs, vars)?)),
                ("Sub", false, None) => out.push(format!("CSub {} {}", x, lexp(rhs, vars)?)),
                ("Mul", false, None) => out.push(format!("CMul {} {}", x, lexp(rhs, vars)?)),
                ("Div", false, None) => out.push(format!("CDiv {} {}", x, lexp(rhs, vars)?)),
                _ => return Err(format!("unsupported operator bound `{}`", name)),
            }
        }
        other => return Err(format!("unsupported trait bound `{}`", other)),
    }
    Ok(())
}

fn impl_constraints(im: &syn::ItemImpl, vars: &[&str]) -> R<Vec<String>> {
    let mut out = vec![];
    for gp in &im.generics.params {
        if let GenericParam::Type(tp) = gp {
            if vars.contains(&tp.ident.to_string().as_str()) {
                let subject: Type = syn::parse_str(&tp.ident.to_string()).unwrap();
                for b in &tp.bounds {
                    bound_constraints(&subject, b, vars, &mut out)?;
                }
            }
        }
    }
    if let Some(w) = &im.generics.where_clause {
        for pr in &w.predicates {
            if let WherePredicate::Type(pt) = pr {
                for b in &pt.bounds {
                    bound_constraints(&pt.bounded_ty, b, vars, &mut out)?;
                }
            }
        }
    }
    Ok(out)
}

/// the length argument of `GenericArray<_, L>` possibly behind a reference
fn ga_len<'a>(t: &'a Type) -> Option<&'a Type> {
    match t {
        Type::Reference(r) => ga_len(&r.elem),
        Type::Path(p) if last_seg(&p.path).ident == "GenericArray" => {
            let a = seg_args(last_seg(&p.path));
            match a.get(1) {
                Some(GenericArgument::Type(t)) => Some(t),
                _ => None,
            }
        }
        _ => None,
    }
}

fn self_kind(t: &Type) -> &'static str {
    match t {
        Type::Reference(r) if r.mutability.is_some() => "mut",
        Type::Reference(_) => "ref",
        _ => "owned",
    }
}
fn self_base(t: &Type) -> String {
    match t {
        Type::Reference(r) => self_base(&r.elem),
        Type::Path(p) => last_seg(&p.path).ident.to_string(),
        _ => String::new(),
    }
}

struct Family {
    name: &'static str,
    trait_name: &'static str,
    vars: &'static [&'static str],
    /// associated types whose GenericArray length is a result, in order
    outs: &'static [&'static str],
}

const FAMILIES: &[Family] = &[
    Family { name: "lengthen", trait_name: "Lengthen", vars: &["N"], outs: &["Longer"] },
    Family { name: "shorten", trait_name: "Shorten", vars: &["N"], outs: &["Shorter"] },
    Family { name: "split", trait_name: "Split", vars: &["N", "K"], outs: &["First", "Second"] },
    Family { name: "concat", trait_name: "Concat", vars: &["N", "M"], outs: &["Output"] },
    Family { name: "remove", trait_name: "Remove", vars: &["N"], outs: &["Output"] },
    Family { name: "flatten", trait_name: "Flatten", vars: &["N", "M"], outs: &["Output"] },
    Family { name: "unflatten", trait_name: "Unflatten", vars: &["NM", "N"], outs: &["Output"] },
];

pub fn gen_sigs(files: &BTreeMap<String, syn::File>, out: &mut String) {
    out.push_str("From Coq Require Import String ZArith NArith List.\nFrom GA Require Import Base TypeLevel Sigs.\nImport ListNotations.\n\n");
    // ---- impl families of sequence.rs
    if let Some(seq) = files.get("sequence.rs") {
        for fam in FAMILIES {
            let mut rows: Vec<String> = vec![];
            let mut err: Option<String> = None;
            for it in &seq.items {
                if let Item::Impl(im) = it {
                    let tn = im.trait_.as_ref().map(|t| last_seg(&t.1).ident.to_string());
                    if tn.as_deref() == Some(fam.trait_name) && self_base(&im.self_ty) == "GenericArray" {
                        let cs = impl_constraints(im, fam.vars);
                        let mut outs = vec![];
                        for o in fam.outs {
                            let ty = im.items.iter().find_map(|ii| match ii {
                                ImplItem::Type(t) if t.ident == *o => Some(&t.ty),
                                _ => None,
                            });
                            match ty.and_then(ga_len) {
                                Some(l) => match lexp(l, fam.vars) {
                                    Ok(x) => outs.push(x),
                                    Err(e) => err = Some(e),
                                },
                                None => err = Some(format!("associated type `{}` is not a GenericArray", o)),
                            }
                        }
                        match cs {
                            Ok(cs) => rows.push(format!("(\"{}\", [{}], [{}])", self_kind(&im.self_ty), cs.join("; "), outs.join("; "))),
                            Err(e) => err = Some(e),
                        }
                    }
                }
            }
            match err {
                Some(e) => println!("ERROR GenSigs.v gen_{}: {}", fam.name, e),
                None if rows.is_empty() => println!("ERROR GenSigs.v gen_{}: no impl of {} for GenericArray found", fam.name, fam.trait_name),
                None => writeln!(
                    out,
                    "(* sequence.rs :: impl {} for [&[mut]] GenericArray: receiver, where-clauses (generic bounds first), result lengths; vars {:?} *)\nDefinition gen_{} : list (String.string * list constraint * list lexp) :=\n  [{}]%string.\n",
                    fam.trait_name, fam.vars, fam.name, rows.join(";\n   ")
                )
                .unwrap(),
            }
        }
    }
    // ---- structs and explicit impls
    let fty = |t: &Type| -> R<String> {
        match t {
            Type::Path(p) => {
                let s = p.path.segments.iter().map(|s| s.ident.to_string()).collect::<Vec<_>>().join("::");
                let seg = last_seg(&p.path);
                let args = seg_args(seg);
                match s.as_str() {
                    "T" => Ok("FT".into()),
                    "U" => Ok("FParent".into()),
                    "usize" => Ok("FUsize".into()),
                    "PhantomData" => Ok("FPhantomT".into()),
                    "N::ArrayType" => Ok("FArrayType".into()),
                    "ManuallyDrop" => match args.first() {
                        Some(GenericArgument::Type(Type::Path(q))) if last_seg(&q.path).ident == "GenericArray" => Ok("(FManuallyDrop FGenericArray)".into()),
                        _ => Err("unsupported ManuallyDrop payload".into()),
                    },
                    other => Err(format!("unsupported field type `{}`", other)),
                }
            }
            Type::Array(a) => match (&*a.elem, &a.len) {
                (Type::Path(p), syn::Expr::Lit(l)) if p.path.is_ident("T") && matches!(&l.lit, syn::Lit::Int(i) if i.base10_digits() == "0") => Ok("FArr0T".into()),
                _ => Err("unsupported array field".into()),
            },
            _ => Err("unsupported field type".into()),
        }
    };
    let fields_of = |file: &syn::File, name: &str| -> R<String> {
        for it in &file.items {
            if let Item::Struct(s) = it {
                if s.ident == name {
                    if let syn::Fields::Named(n) = &s.fields {
                        let mut v = vec![];
                        for f in &n.named {
                            v.push(fty(&f.ty)?);
                        }
                        return Ok(format!("[{}]", v.join("; ")));
                    }
                }
            }
        }
        Err(format!("struct {} not found", name))
    };
    let atrait = |s: &str| match s {
        "Send" => Some("TSend"),
        "Sync" => Some("TSync"),
        "Copy" => Some("TCopy"),
        "Clone" => Some("TClone"),
        _ => None,
    };
    // explicit impls of the four traits for a struct, across files
    let impls_of = |name: &str| -> R<String> {
        let mut v: Vec<String> = vec![];
        for f in files.values() {
            for it in &f.items {
                if let Item::Impl(im) = it {
                    let tn = im.trait_.as_ref().map(|t| last_seg(&t.1).ident.to_string());
                    let Some(tr) = tn.as_deref().and_then(atrait) else { continue };
                    if self_base(&im.self_ty) != name || matches!(&*im.self_ty, Type::Reference(_)) {
                        continue;
                    }
                    let mut bs: Vec<String> = vec![];
                    for gp in &im.generics.params {
                        if let GenericParam::Type(tp) = gp {
                            for b in &tp.bounds {
                                if let TypeParamBound::Trait(tb) = b {
                                    if let Some(a) = atrait(&last_seg(&tb.path).ident.to_string()) {
                                        match tp.ident.to_string().as_str() {
                                            "T" => bs.push(format!("BT {}", a)),
                                            "U" => bs.push(format!("BParent {}", a)),
                                            other => return Err(format!("auto-trait bound on unexpected parameter `{}`", other)),
                                        }
                                    }
                                }
                            }
                        }
                    }
                    if let Some(w) = &im.generics.where_clause {
                        for pr in &w.predicates {
                            if let WherePredicate::Type(pt) = pr {
                                let subj = match &pt.bounded_ty {
                                    Type::Path(p) => p.path.segments.iter().map(|s| s.ident.to_string()).collect::<Vec<_>>().join("::"),
                                    _ => String::new(),
                                };
                                for b in &pt.bounds {
                                    if let TypeParamBound::Trait(tb) = b {
                                        if let Some(a) = atrait(&last_seg(&tb.path).ident.to_string()) {
                                            match subj.as_str() {
                                                "N::ArrayType" => bs.push(format!("BArrayType {}", a)),
                                                "T" => bs.push(format!("BT {}", a)),
                                                "U" => bs.push(format!("BParent {}", a)),
                                                other => return Err(format!("auto-trait where-clause on `{}`", other)),
                                            }
                                        }
                                    }
                                }
                            }
                        }
                    }
                    v.push(format!("({}, [{}])", tr, bs.join("; ")));
                }
            }
        }
        v.sort();
        Ok(format!("[{}]", v.join("; ")))
    };
    if let (Some(lib), Some(iter)) = (files.get("lib.rs"), files.get("iter.rs")) {
        for (gname, file, sname) in [
            ("gen_even", lib, "GenericArrayImplEven"),
            ("gen_odd", lib, "GenericArrayImplOdd"),
            ("gen_ga", lib, "GenericArray"),
            ("gen_iter_struct", iter, "GenericArrayIter"),
        ] {
            match (fields_of(file, sname), impls_of(sname)) {
                (Ok(fs), Ok(is)) => writeln!(out, "(* struct {} :: fields; explicit Send/Sync/Copy/Clone impls with their bounds (sorted) *)\nDefinition {} : sdecl := mkS {} {}.\n", sname, gname, fs, is).unwrap(),
                (Err(e), _) | (_, Err(e)) => println!("ERROR GenSigs.v {}: {}", gname, e),
            }
        }
        // sealing
        let mut unsigned = false;
        let mut sealed_bound = false;
        for it in &lib.items {
            if let Item::Trait(t) = it {
                if t.ident == "ArrayLength" {
                    unsigned = t.supertraits.iter().any(|b| matches!(b, TypeParamBound::Trait(tb) if last_seg(&tb.path).ident == "Unsigned"));
                    for ti in &t.items {
                        if let syn::TraitItem::Type(ty) = ti {
                            if ty.ident == "ArrayType" {
                                sealed_bound = ty.bounds.iter().any(|b| matches!(b, TypeParamBound::Trait(tb) if last_seg(&tb.path).ident == "Sealed"));
                            }
                        }
                    }
                }
            }
        }
        // `Sealed` lives in `mod internal` (private) and is not re-exported publicly
        let mut internal_private = false;
        let mut reexported = false;
        for it in &lib.items {
            match it {
                Item::Mod(m) if m.ident == "internal" => internal_private = matches!(m.vis, syn::Visibility::Inherited),
                Item::Use(u) if !matches!(u.vis, syn::Visibility::Inherited) => {
                    let s = quote::ToTokens::to_token_stream(&u.tree).to_string();
                    if s.contains("Sealed") {
                        reexported = true;
                    }
                }
                Item::Mod(m) if !matches!(m.vis, syn::Visibility::Inherited) => {
                    if let Some((_, items)) = &m.content {
                        for i2 in items {
                            if let Item::Use(u) = i2 {
                                if !matches!(u.vis, syn::Visibility::Inherited) && quote::ToTokens::to_token_stream(&u.tree).to_string().contains("Sealed") {
                                    reexported = true;
                                }
                            }
                        }
                    }
                }
                _ => {}
            }
        }
        writeln!(
            out,
            "(* lib.rs :: trait ArrayLength: supertrait Unsigned; type ArrayType<T>: Sealed; Sealed not nameable outside the crate *)\nDefinition gen_sealing : sealing := mkSealing {} {} {}.\n",
            unsigned,
            sealed_bound,
            internal_private && !reexported
        )
        .unwrap();
    }
    // ---- impl_tuple! table
    if let Some(imp) = files.get("impls.rs") {
        let mut sizes: Vec<String> = vec![];
        let mut bad: Option<String> = None;
        for it in &imp.items {
            if let Item::Macro(m) = it {
                if m.mac.path.is_ident("impl_tuple") {
                    // rows: `consts :: Uk => ( A , B , ... , ) ;`
                    let s = m.mac.tokens.to_string();
                    for row in s.split(';') {
                        let row = row.trim();
                        if row.is_empty() {
                            continue;
                        }
                        let parts: Vec<&str> = row.split("=>").collect();
                        if parts.len() != 2 {
                            bad = Some(format!("unparsable row `{}`", row));
                            continue;
                        }
                        let k: Option<u32> = parts[0].trim().rsplit("U").next().and_then(|d| d.trim().parse().ok());
                        let arity = parts[1].matches(|c: char| c.is_ascii_uppercase()).count() as u32;
                        match k {
                            Some(k) if k == arity => sizes.push(format!("{}%N", k)),
                            Some(k) => bad = Some(format!("row U{} lists {} fields", k, arity)),
                            None => bad = Some(format!("unparsable length in `{}`", row)),
                        }
                    }
                }
            }
        }
        match bad {
            Some(e) => println!("ERROR GenSigs.v gen_tuple_sizes: {}", e),
            None => writeln!(out, "(* impls.rs :: impl_tuple! rows: array length = number of tuple fields *)\nDefinition gen_tuple_sizes : list N :=\n  [{}].\n", sizes.join("; ")).unwrap(),
        }
    }
}

// ------------------------------------------------------------------ delegation bodies (T1)

/// how an operand is viewed: `self`, `**self`, `x.as_slice()`, `x.as_mut_slice()`, a plain argument
fn view(e: &syn::Expr) -> R<String> {
    use syn::Expr;
    match e {
        Expr::Paren(p) => view(&p.expr),
        Expr::Reference(r) => view(&r.expr),
        Expr::Path(p) if p.path.get_ident().is_some() => {
            let s = p.path.get_ident().unwrap().to_string();
            if s == "self" {
                Ok("VSelf".into())
            } else {
                Ok(format!("(VArg \"{}\")", s))
            }
        }
        Expr::Unary(u) if matches!(u.op, syn::UnOp::Deref(_)) => {
            // **x
            if let Expr::Unary(u2) = &*u.expr {
                if matches!(u2.op, syn::UnOp::Deref(_)) {
                    if let Expr::Path(p) = &*u2.expr {
                        if let Some(i) = p.path.get_ident() {
                            return Ok(format!("(VDeref \"{}\")", i));
                        }
                    }
                }
            }
            Err("unsupported dereference".into())
        }
        Expr::MethodCall(m) if m.args.is_empty() && (m.method == "as_slice" || m.method == "as_mut_slice") => match &*m.receiver {
            Expr::Path(p) if p.path.get_ident().is_some() => Ok(format!(
                "({} \"{}\")",
                if m.method == "as_slice" { "VAsSlice" } else { "VAsMutSlice" },
                p.path.get_ident().unwrap()
            )),
            _ => Err("unsupported receiver of as_slice".into()),
        },
        Expr::Call(c) => {
            // GenericArray::as_slice(self)
            if let Expr::Path(p) = &*c.func {
                let s = p.path.segments.iter().map(|s| s.ident.to_string()).collect::<Vec<_>>().join("::");
                if c.args.len() == 1 {
                    if let Expr::Path(a) = &c.args[0] {
                        if let Some(i) = a.path.get_ident() {
                            if s == "GenericArray::as_slice" {
                                return Ok(format!("(VAsSlice \"{}\")", i));
                            }
                            if s == "GenericArray::as_mut_slice" {
                                return Ok(format!("(VAsMutSlice \"{}\")", i));
                            }
                        }
                    }
                }
            }
            Err("unsupported call operand".into())
        }
        _ => Err("unsupported operand".into()),
    }
}

fn deleg(body: &syn::Block) -> R<String> {
    use syn::{Expr, Stmt};
    if body.stmts.len() != 1 {
        return Err("body is not a single expression".into());
    }
    let e = match &body.stmts[0] {
        Stmt::Expr(e, None) => e,
        _ => return Err("body is not a tail expression".into()),
    };
    fn go(e: &Expr) -> R<String> {
        match e {
            Expr::Paren(p) => go(&p.expr),
            Expr::Binary(b) => {
                let op = match b.op {
                    syn::BinOp::Eq(_) => "==",
                    syn::BinOp::Ne(_) => "!=",
                    _ => return Err("unsupported operator".into()),
                };
                Ok(format!("DBinOp \"{}\" {} {}", op, view(&b.left)?, view(&b.right)?))
            }
            Expr::Call(c) => {
                if let Ok(v) = view(e) {
                    return Ok(format!("DView {}", v));
                }
                let path = match &*c.func {
                    Expr::Path(p) => p.path.segments.iter().map(|s| s.ident.to_string()).collect::<Vec<_>>().join("::"),
                    _ => return Err("unsupported callee".into()),
                };
                if path == "Self::generate" && c.args.len() == 1 {
                    // Self::generate(|_| T::default())
                    if let Expr::Closure(cl) = &c.args[0] {
                        if let Expr::Call(inner) = &*cl.body {
                            if let Expr::Path(ip) = &*inner.func {
                                let ips = ip.path.segments.iter().map(|s| s.ident.to_string()).collect::<Vec<_>>().join("::");
                                if ips == "T::default" && inner.args.is_empty() {
                                    return Ok("DGenerate \"T::default\"".into());
                                }
                            }
                        }
                    }
                    return Err("unsupported generator closure".into());
                }
                let mut args = vec![];
                for a in &c.args {
                    args.push(view(a)?);
                }
                Ok(format!("DCall \"{}\" [{}]", path, args.join("; ")))
            }
            Expr::MethodCall(m) => {
                if let Ok(v) = view(e) {
                    return Ok(format!("DView {}", v));
                }
                // self.map(Clone::clone)
                if m.method == "map" && m.args.len() == 1 {
                    if let (Expr::Path(r), Expr::Path(f)) = (&*m.receiver, &m.args[0]) {
                        let fs = f.path.segments.iter().map(|s| s.ident.to_string()).collect::<Vec<_>>().join("::");
                        if r.path.is_ident("self") {
                            return Ok(format!("DMap VSelf \"{}\"", fs));
                        }
                    }
                }
                // self.as_mut_slice().iter_mut().zeroize()
                if m.method == "zeroize" && m.args.is_empty() {
                    if let Expr::MethodCall(m2) = &*m.receiver {
                        if m2.method == "iter_mut" && m2.args.is_empty() {
                            return Ok(format!("DEach {} \"zeroize\"", view(&m2.receiver)?));
                        }
                    }
                }
                let mut args = vec![];
                for a in &m.args {
                    args.push(view(a)?);
                }
                Ok(format!("DMethod {} \"{}\" [{}]", view(&m.receiver)?, m.method, args.join("; ")))
            }
            _ => Err("unsupported body".into()),
        }
    }
    go(e)
}

pub fn gen_deleg(files: &BTreeMap<String, syn::File>, out: &mut String) {
    out.push_str("From Coq Require Import String List.\nFrom GA Require Import Deleg.\nImport ListNotations.\nLocal Open Scope string_scope.\n\n");
    let mut rows: Vec<String> = vec![];
    for fname in ["impls.rs", "impl_zeroize.rs", "lib.rs"] {
        let Some(file) = files.get(fname) else { continue };
        for it in &file.items {
            if let Item::Impl(im) = it {
                let Some((_, tp, _)) = &im.trait_ else { continue };
                if self_base(&im.self_ty) != "GenericArray" || matches!(&*im.self_ty, Type::Reference(_)) {
                    continue;
                }
                let seg = last_seg(tp);
                let mut tname = seg.ident.to_string();
                // distinguish AsRef<[T]> from AsRef<[T; N]> etc.
                if let Some(GenericArgument::Type(t)) = seg_args(seg).first() {
                    match t {
                        Type::Slice(_) => tname.push_str("<[T]>"),
                        Type::Array(_) => tname.push_str("<[T;N]>"),
                        _ => {}
                    }
                }
                let wanted = [
                    "PartialEq", "PartialOrd", "Ord", "Hash", "Debug", "Borrow<[T]>", "BorrowMut<[T]>", "AsRef<[T]>", "AsMut<[T]>",
                    "Clone", "Default", "Zeroize", "Deref", "DerefMut",
                ];
                if !wanted.contains(&tname.as_str()) {
                    continue;
                }
                for ii in &im.items {
                    if let ImplItem::Fn(f) = ii {
                        match deleg(&f.block) {
                            Ok(d) => rows.push(format!("(\"{}::{}\", {})", tname, f.sig.ident, d)),
                            Err(e) => println!("ERROR GenDeleg.v {}::{}: {}", tname, f.sig.ident, e),
                        }
                    }
                }
            }
        }
    }
    rows.sort();
    writeln!(out, "(* impls.rs, impl_zeroize.rs, lib.rs :: the bodies of the trait impls for GenericArray that delegate to the slice *)\nDefinition gen_delegations : list (string * deleg) :=\n  [{}].", rows.join(";\n   ")).unwrap();
}

// ------------------------------------------------------------------ which trait methods are implemented (T1)

/// for every trait impl whose Self type is built from GenericArray / GenericArrayIter: the methods and
/// associated consts the impl defines itself (everything else is the trait's default)
pub fn gen_impl_methods(files: &BTreeMap<String, syn::File>, out: &mut String) {
    let mut rows = vec![];
    for fname in ["lib.rs", "impls.rs", "iter.rs", "sequence.rs", "impl_alloc.rs", "impl_serde.rs", "impl_zeroize.rs", "impl_const_default.rs", "hex.rs"] {
        let Some(file) = files.get(fname) else { continue };
        for it in &file.items {
            let Item::Impl(im) = it else { continue };
            let Some((_, tr, _)) = &im.trait_ else { continue };
            let st = im.self_ty.to_token_stream().to_string();
            // impls FOR an array type, and impls of a trait that names one (From<GenericArray<..>> for [T; N])
            if !st.contains("GenericArray") && !im.trait_.as_ref().map(|t| t.1.to_token_stream().to_string().contains("GenericArray")).unwrap_or(false) {
                continue;
            }
            let mut self_txt: String = st.split_whitespace().collect::<Vec<_>>().join("");
            // lifetimes and parameter names do not matter for the table
            for lt in ["'a", "'de"] {
                self_txt = self_txt.replace(lt, "");
            }
            let tr_txt: String = tr.to_token_stream().to_string().split_whitespace().collect::<Vec<_>>().join("");
            let mut names = vec![];
            for ii in &im.items {
                match ii {
                    ImplItem::Fn(f) => names.push(f.sig.ident.to_string()),
                    ImplItem::Const(c) => names.push(c.ident.to_string()),
                    _ => {}
                }
            }
            rows.push(format!("(\"{}\", \"{} for {}\", [{}])", fname, tr_txt, self_txt, names.iter().map(|n| format!("\"{}\"", n)).collect::<Vec<_>>().join("; ")));
        }
    }
    writeln!(out, "\n(* every trait impl for a type built from GenericArray / GenericArrayIter: (file, impl header, the methods\n   and consts it defines itself -- every other method of the trait is the default one) *)\nDefinition gen_impl_methods : list (String.string * String.string * list String.string) :=\n  [{}]%string.", rows.join(";\n   ")).unwrap();
}

/// for every trait impl whose Self type is built from GenericArray / GenericArrayIter: the bounds the impl
/// places on its type parameters (generic-parameter bounds and where-predicates, normalised and sorted)
pub fn gen_impl_bounds(files: &BTreeMap<String, syn::File>, out: &mut String) {
    let norm = |s: String| -> String {
        let mut t: String = s.split_whitespace().collect::<Vec<_>>().join("");
        for lt in ["'a", "'de"] {
            t = t.replace(lt, "");
        }
        t
    };
    let mut rows = vec![];
    for fname in ["lib.rs", "impls.rs", "iter.rs", "sequence.rs", "impl_alloc.rs", "impl_serde.rs", "impl_zeroize.rs", "impl_const_default.rs", "hex.rs"] {
        let Some(file) = files.get(fname) else { continue };
        for it in &file.items {
            let Item::Impl(im) = it else { continue };
            let Some((neg, tr, _)) = &im.trait_ else { continue };
            let st = im.self_ty.to_token_stream().to_string();
            // impls FOR an array type, and impls of a trait that names one (From<GenericArray<..>> for [T; N])
            if !st.contains("GenericArray") && !im.trait_.as_ref().map(|t| t.1.to_token_stream().to_string().contains("GenericArray")).unwrap_or(false) {
                continue;
            }
            let self_txt = norm(st);
            let tr_txt = norm(tr.to_token_stream().to_string());
            let mut bounds: Vec<String> = vec![];
            for gp in &im.generics.params {
                match gp {
                    syn::GenericParam::Type(tp) => {
                        for b in &tp.bounds {
                            if matches!(b, syn::TypeParamBound::Lifetime(_)) {
                                continue;
                            }
                            bounds.push(format!("{}:{}", tp.ident, norm(b.to_token_stream().to_string())));
                        }
                    }
                    syn::GenericParam::Lifetime(_) => {}
                    syn::GenericParam::Const(c) => bounds.push(format!("const {}", c.ident)),
                }
            }
            if let Some(wc) = &im.generics.where_clause {
                for pr in &wc.predicates {
                    match pr {
                        syn::WherePredicate::Type(pt) => {
                            let lhs = norm(pt.bounded_ty.to_token_stream().to_string());
                            for b in &pt.bounds {
                                bounds.push(format!("{}:{}", lhs, norm(b.to_token_stream().to_string())));
                            }
                        }
                        syn::WherePredicate::Lifetime(_) => {}
                        other => {
                            println!("ERROR GenSigs.v impl_bounds {}: unsupported where-predicate `{}`", fname, other.to_token_stream());
                        }
                    }
                }
            }
            bounds.sort();
            let unsafety = if im.unsafety.is_some() { "unsafe " } else { "" };
            let negs = if neg.is_some() { "!" } else { "" };
            rows.push(format!(
                "(\"{}\", \"{}{}{} for {}\", [{}])",
                fname,
                unsafety,
                negs,
                tr_txt,
                self_txt,
                bounds.iter().map(|n| format!("\"{}\"", n)).collect::<Vec<_>>().join("; ")
            ));
        }
    }
    writeln!(out, "\n(* every trait impl for a type built from GenericArray / GenericArrayIter: (file, impl header, the bounds on\n   its type parameters: generic-parameter bounds and where-predicates, normalised, sorted) *)\nDefinition gen_impl_bounds : list (String.string * String.string * list String.string) :=\n  [{}]%string.", rows.join(";\n   ")).unwrap();
}


// ------------------------------------------------------------------ trait headers (T1)

/// every trait the crate declares (outside test modules): (file, header, rows) where the rows are the
/// supertraits (`Self:X`), the bounds on its parameters and its where-predicates, every associated type
/// with each of its bounds (`type A:X`), every associated const, and the signature of every method
/// (normalised token text, sorted).  What a caller generic over the trait may assume -- and must state.
pub fn gen_trait_headers(files: &BTreeMap<String, syn::File>, out: &mut String) {
    use syn::TraitItem;
    let norm = |s: String| -> String { s.split_whitespace().collect::<Vec<_>>().join("") };
    let mut rows = vec![];
    for (fname, file) in files {
        for it in &file.items {
            let Item::Trait(tr) = it else { continue };
            let mut gens = vec![];
            let mut lines: Vec<String> = vec![];
            for gp in &tr.generics.params {
                match gp {
                    syn::GenericParam::Type(tp) => {
                        gens.push(tp.ident.to_string());
                        for b in &tp.bounds {
                            lines.push(format!("{}:{}", tp.ident, norm(b.to_token_stream().to_string())));
                        }
                        if let Some(d) = &tp.default {
                            lines.push(format!("{}={}", tp.ident, norm(d.to_token_stream().to_string())));
                        }
                    }
                    syn::GenericParam::Lifetime(l) => gens.push(l.lifetime.to_string()),
                    syn::GenericParam::Const(c) => gens.push(format!("const {}", c.ident)),
                }
            }
            for sup in &tr.supertraits {
                lines.push(format!("Self:{}", norm(sup.to_token_stream().to_string())));
            }
            let mut preds = |wc: &Option<syn::WhereClause>, prefix: &str, lines: &mut Vec<String>| {
                if let Some(wc) = wc {
                    for pr in &wc.predicates {
                        match pr {
                            syn::WherePredicate::Type(pt) => {
                                let lhs = norm(pt.bounded_ty.to_token_stream().to_string());
                                for b in &pt.bounds {
                                    lines.push(format!("{}{}:{}", prefix, lhs, norm(b.to_token_stream().to_string())));
                                }
                            }
                            other => lines.push(format!("{}{}", prefix, norm(other.to_token_stream().to_string()))),
                        }
                    }
                }
            };
            preds(&tr.generics.where_clause, "", &mut lines);
            for ti in &tr.items {
                match ti {
                    TraitItem::Type(t) => {
                        let g = norm(t.generics.params.to_token_stream().to_string());
                        let name = if g.is_empty() { t.ident.to_string() } else { format!("{}<{}>", t.ident, g) };
                        if t.bounds.is_empty() {
                            lines.push(format!("type {}", name));
                        }
                        for b in &t.bounds {
                            lines.push(format!("type {}:{}", name, norm(b.to_token_stream().to_string())));
                        }
                        preds(&t.generics.where_clause, &format!("type {} where ", name), &mut lines);
                        if let Some((_, d)) = &t.default {
                            lines.push(format!("type {}={}", name, norm(d.to_token_stream().to_string())));
                        }
                    }
                    TraitItem::Const(c) => lines.push(format!("const {}:{}", c.ident, norm(c.ty.to_token_stream().to_string()))),
                    TraitItem::Fn(f) => {
                        let has_default = if f.default.is_some() { " {default}" } else { "" };
                        lines.push(format!("{}{}", f.sig.to_token_stream().to_string().split_whitespace().collect::<Vec<_>>().join(" "), has_default));
                    }
                    other => {
                        println!("ERROR GenSigs.v trait_headers {}: unsupported trait item `{}`", fname, other.to_token_stream());
                    }
                }
            }
            lines.sort();
            let unsafety = if tr.unsafety.is_some() { "unsafe " } else { "" };
            let vis = if matches!(tr.vis, syn::Visibility::Public(_)) { "pub " } else { "" };
            let header = if gens.is_empty() { tr.ident.to_string() } else { format!("{}<{}>", tr.ident, gens.join(",")) };
            rows.push(format!(
                "(\"{}\", \"{}{}trait {}\", [{}])",
                fname,
                vis,
                unsafety,
                header,
                lines.iter().map(|n| format!("\"{}\"", n.replace('"', "\"\""))).collect::<Vec<_>>().join("; ")
            ));
        }
    }
    writeln!(out, "\n(* every trait the crate declares: (file, header, supertraits `Self:X` + parameter bounds + where-predicates +\n   associated types with each bound + associated consts + method signatures, normalised, sorted) *)\nDefinition gen_trait_headers : list (String.string * String.string * list String.string) :=\n  [{}]%string.", rows.join(";\n   ")).unwrap();
}


// ------------------------------------------------------------------ signatures of inherent and free functions (T1)

/// every inherent method and every free function of the crate (outside test modules): (file, owner, name, the
/// signature as normalised token text: visibility, const / unsafe qualifiers, generics, parameters, result,
/// where-clause).  What a caller may pass, gets back, must state as bounds, and may use in a const context.
pub fn gen_fn_sigs(files: &BTreeMap<String, syn::File>, out: &mut String) {
    let norm = |s: String| -> String { s.split_whitespace().collect::<Vec<_>>().join(" ") };
    let squash = |s: String| -> String {
        let mut t: String = s.split_whitespace().collect::<Vec<_>>().join("");
        for lt in ["'a", "'de"] {
            t = t.replace(lt, "");
        }
        t
    };
    let vis_of = |v: &syn::Visibility| -> &'static str {
        match v {
            syn::Visibility::Public(_) => "pub ",
            syn::Visibility::Restricted(_) => "pub(restricted) ",
            syn::Visibility::Inherited => "",
        }
    };
    let mut rows = vec![];
    for (fname, file) in files {
        for it in &file.items {
            match it {
                Item::Fn(f) => {
                    rows.push(format!("(\"{}\", \"fn\", \"{}\", \"{}{}\")", fname, f.sig.ident, vis_of(&f.vis), norm(f.sig.to_token_stream().to_string()).replace('"', "\"\"")));
                }
                Item::Impl(im) if im.trait_.is_none() => {
                    let owner = squash(im.self_ty.to_token_stream().to_string());
                    let mut ib: Vec<String> = vec![];
                    for gp in &im.generics.params {
                        if let syn::GenericParam::Type(tp) = gp {
                            for b in &tp.bounds {
                                ib.push(format!("{}:{}", tp.ident, squash(b.to_token_stream().to_string())));
                            }
                        }
                    }
                    if let Some(wc) = &im.generics.where_clause {
                        for pr in &wc.predicates {
                            ib.push(squash(pr.to_token_stream().to_string()));
                        }
                    }
                    ib.sort();
                    let owner = if ib.is_empty() { owner } else { format!("{} where {}", owner, ib.join(",")) };
                    for ii in &im.items {
                        if let ImplItem::Fn(f) = ii {
                            rows.push(format!("(\"{}\", \"{}\", \"{}\", \"{}{}\")", fname, owner, f.sig.ident, vis_of(&f.vis), norm(f.sig.to_token_stream().to_string()).replace('"', "\"\"")));
                        }
                    }
                }
                _ => {}
            }
        }
    }
    writeln!(out, "\n(* every inherent method and free function: (file, owner = the impl's Self type with the impl's bounds, name,\n   signature as normalised token text) *)\nDefinition gen_fn_sigs : list (String.string * String.string * String.string * String.string) :=\n  [{}]%string.", rows.join(";\n   ")).unwrap();
}

// ------------------------------------------------------------------ thin bodies (T1)

/// every method of an impl (for a type built from GenericArray / GenericArrayIter) and every default method
/// of the crate's sequence traits whose body is ONE expression (possibly inside `unsafe`): the glue around
/// the modelled core, as normalised token text
pub fn gen_thin_bodies(files: &BTreeMap<String, syn::File>, out: &mut String) {
    use syn::{Expr, Stmt};
    fn one_expr(b: &syn::Block) -> Option<String> {
        if b.stmts.len() != 1 {
            return None;
        }
        match &b.stmts[0] {
            Stmt::Expr(Expr::Unsafe(u), None) => one_expr(&u.block).map(|t| format!("unsafe {{ {} }}", t)),
            Stmt::Expr(e, None) => {
                let t: String = e.to_token_stream().to_string().split_whitespace().collect::<Vec<_>>().join(" ");
                if t.len() <= 160 {
                    Some(t)
                } else {
                    None
                }
            }
            // a macro call as the whole body (`write!(..)`, `panic!(..);`)
            Stmt::Macro(m) => {
                Some(m.mac.to_token_stream().to_string().split_whitespace().collect::<Vec<_>>().join(" "))
            }
            _ => None,
        }
    }
    let norm = |s: String| -> String {
        let mut t: String = s.split_whitespace().collect::<Vec<_>>().join("");
        for lt in ["'a", "'de"] {
            t = t.replace(lt, "");
        }
        t
    };
    let esc = |s: &str| s.replace('"', "\"\"");
    let mut rows = vec![];
    for fname in ["lib.rs", "impls.rs", "iter.rs", "sequence.rs", "functional.rs", "impl_alloc.rs", "impl_serde.rs", "impl_zeroize.rs", "impl_const_default.rs", "hex.rs", "internal.rs"] {
        let Some(file) = files.get(fname) else { continue };
        for it in &file.items {
            match it {
                Item::Impl(im) => {
                    let st = im.self_ty.to_token_stream().to_string();
                    // every impl of the crate's source files is listed (rows are looked up by header, so extra rows are harmless)
                    let header = match &im.trait_ {
                        Some((_, tr, _)) => format!("{} for {}", norm(tr.to_token_stream().to_string()), norm(st)),
                        None => norm(st),
                    };
                    for ii in &im.items {
                        if let ImplItem::Fn(f) = ii {
                            if let Some(t) = one_expr(&f.block) {
                                rows.push(format!("(\"{}\", \"{}\", \"{}\", \"{}\")", fname, esc(&header), f.sig.ident, esc(&t)));
                            }
                        }
                    }
                }
                Item::Fn(f) => {
                    if let Some(t) = one_expr(&f.block) {
                        rows.push(format!("(\"{}\", \"fn\", \"{}\", \"{}\")", fname, f.sig.ident, esc(&t)));
                    }
                }
                Item::Trait(tr) => {
                    for ti in &tr.items {
                        if let syn::TraitItem::Fn(m) = ti {
                            if let Some(b) = &m.default {
                                if let Some(t) = one_expr(b) {
                                    rows.push(format!("(\"{}\", \"trait {}\", \"{}\", \"{}\")", fname, tr.ident, m.sig.ident, esc(&t)));
                                }
                            }
                        }
                    }
                }
                _ => {}
            }
        }
    }
    writeln!(out, "\n(* every method whose body is one expression: (file, impl header or trait, method, body) as normalised token text *)\nDefinition gen_thin_bodies : list (String.string * String.string * String.string * String.string) :=\n  [{}]%string.", rows.join(";\n   ")).unwrap();
}

// ------------------------------------------------------------------ short multi-statement bodies (T1)

/// the few short bodies that are neither one expression nor translated into one of the program languages:
/// ArrayBuilder::assume_init, IntrusiveArrayBuilder::finish (src/internal.rs), const_transmute (src/lib.rs),
/// statement by statement as normalised token text
pub fn gen_small_bodies(files: &BTreeMap<String, syn::File>, out: &mut String) {
    let esc = |s: String| s.replace('"', "\"\"");
    let norm = |t: String| t.split_whitespace().collect::<Vec<_>>().join(" ");
    let mut rows = vec![];
    let stmts_of = |b: &syn::Block| -> Vec<String> { b.stmts.iter().map(|s| esc(norm(s.to_token_stream().to_string()))).collect() };
    for (fname, owner, func) in [
        ("internal.rs", "ArrayBuilder", "assume_init"),
        ("internal.rs", "IntrusiveArrayBuilder", "finish"),
        ("lib.rs", "", "const_transmute"),
        ("lib.rs", "GenericArray", "from_slice"),
        ("lib.rs", "GenericArray", "try_from_slice"),
        ("lib.rs", "GenericArray", "from_mut_slice"),
    ] {
        let Some(file) = files.get(fname) else { continue };
        let mut found: Vec<Vec<String>> = vec![];
        for it in &file.items {
            match it {
                Item::Fn(f) if owner.is_empty() && f.sig.ident == func => found.push(stmts_of(&f.block)),
                Item::Impl(im) if !owner.is_empty() && im.trait_.is_none() => {
                    let st = im.self_ty.to_token_stream().to_string();
                    if st.split(|c: char| !c.is_alphanumeric() && c != '_').next() != Some(owner) {
                        continue;
                    }
                    for ii in &im.items {
                        if let ImplItem::Fn(f) = ii {
                            if f.sig.ident == func {
                                found.push(stmts_of(&f.block));
                            }
                        }
                    }
                }
                _ => {}
            }
        }
        if found.len() != 1 {
            println!("ERROR GenSigs.v small_bodies {}::{}: found {} definitions", owner, func, found.len());
            continue;
        }
        rows.push(format!("(\"{}\", \"{}\", [{}])", owner, func, found[0].iter().map(|x| format!("\"{}\"", x)).collect::<Vec<_>>().join(";\n      ")));
    }
    writeln!(out, "\n(* the short multi-statement bodies not translated into a program language: (owner, fn, statements) *)\nDefinition gen_small_bodies : list (String.string * String.string * list String.string) :=\n  [{}]%string.", rows.join(";\n   ")).unwrap();
}

// ------------------------------------------------------------------ impl_tuple! bodies (T1)

/// the two `fn from(..) -> Self { .. }` bodies inside macro_rules! impl_tuple, as normalised token text
pub fn gen_tuple_bodies(files: &BTreeMap<String, syn::File>, out: &mut String) {
    use proc_macro2::{Delimiter, TokenStream, TokenTree};
    fn walk(ts: TokenStream, found: &mut Vec<String>) {
        let t: Vec<TokenTree> = ts.into_iter().collect();
        for i in 0..t.len() {
            if let TokenTree::Group(g) = &t[i] {
                let is_body = i >= 3
                    && matches!(&t[i - 1], TokenTree::Ident(id) if id == "Self")
                    && matches!(&t[i - 2], TokenTree::Punct(p) if p.as_char() == '>')
                    && matches!(&t[i - 3], TokenTree::Punct(p) if p.as_char() == '-')
                    && g.delimiter() == Delimiter::Brace;
                if is_body {
                    found.push(g.stream().to_string().split_whitespace().collect::<Vec<_>>().join(" "));
                } else {
                    walk(g.stream(), found);
                }
            }
        }
    }
    let Some(file) = files.get("impls.rs") else { return };
    let mut found = vec![];
    for it in &file.items {
        if let Item::Macro(m) = it {
            if m.mac.path.is_ident("macro_rules") && m.ident.as_ref().map(|i| i == "impl_tuple").unwrap_or(false) {
                walk(m.mac.tokens.clone(), &mut found);
            }
        }
    }
    if found.len() != 2 {
        println!("ERROR GenSigs.v tuple_bodies: expected the two `fn from(..) -> Self` bodies of impl_tuple!, found {}", found.len());
        return;
    }
    let esc = |s: &str| s.replace('"', "\"\"");
    writeln!(out, "\n(* impls.rs :: macro_rules! impl_tuple: the bodies of From<tuple> for GenericArray and of\n   From<GenericArray> for the tuple, as normalised token text *)\nDefinition gen_tuple_bodies : String.string * String.string :=\n  (\"{}\", \"{}\")%string.", esc(&found[0]), esc(&found[1])).unwrap();
}

// ------------------------------------------------------------------ whole-body reinterpretations (T1)

/// every function of lib.rs / impls.rs / sequence.rs whose whole body is one reinterpretation of its
/// argument: `unsafe { crate::const_transmute(x) }` (by value, size-checked) or
/// `unsafe { mem::transmute(x) }` (references and slices)
pub fn gen_transmutes(files: &BTreeMap<String, syn::File>, out: &mut String) {
    fn body_kind(b: &syn::Block) -> Option<(String, String)> {
        let mut stmts = &b.stmts;
        loop {
            if stmts.len() != 1 {
                return None;
            }
            match &stmts[0] {
                syn::Stmt::Expr(syn::Expr::Unsafe(u), None) => stmts = &u.block.stmts,
                syn::Stmt::Expr(syn::Expr::Call(c), None) => {
                    let name = match &*c.func {
                        syn::Expr::Path(p) => p.path.segments.last()?.ident.to_string(),
                        _ => return None,
                    };
                    if (name != "const_transmute" && name != "transmute") || c.args.len() != 1 {
                        return None;
                    }
                    let arg = match &c.args[0] {
                        syn::Expr::Path(p) => p.path.get_ident()?.to_string(),
                        _ => return None,
                    };
                    return Some((name, arg));
                }
                _ => return None,
            }
        }
    }
    let mut rows = vec![];
    for fname in ["lib.rs", "impls.rs", "sequence.rs"] {
        let Some(file) = files.get(fname) else { continue };
        for it in &file.items {
            let Item::Impl(im) = it else { continue };
            let tr = im.trait_.as_ref().map(|t| {
                let seg = last_seg(&t.1);
                // keep the first generic argument when it distinguishes impls of the same trait (AsRef<[T]> / AsRef<[T; U]>)
                let arg = seg_args(seg).first().map(|a| match a {
                    GenericArgument::Type(Type::Array(_)) => "<[T; U]>".to_string(),
                    GenericArgument::Type(Type::Slice(_)) => "<[T]>".to_string(),
                    _ => String::new(),
                });
                format!("{}{}::", seg.ident, arg.unwrap_or_default())
            });
            for ii in &im.items {
                let ImplItem::Fn(f) = ii else { continue };
                if let Some((kind, arg)) = body_kind(&f.block) {
                    rows.push(format!("(\"{}::{}{}\", \"{}\", \"{}\")", base_with_ref(&im.self_ty), tr.clone().unwrap_or_default(), f.sig.ident, kind, arg));
                }
            }
        }
    }
    writeln!(out, "\n(* every function of lib.rs / impls.rs / sequence.rs whose whole body is one reinterpretation of its\n   argument: (function, const_transmute | transmute, the argument) *)\nDefinition gen_transmutes : list (String.string * String.string * String.string) :=\n  [{}]%string.", rows.join(";\n   ")).unwrap();
}

// ------------------------------------------------------------------ inverse bounds of Lengthen / Shorten (T1)

/// `type Longer: Shorten<T, Shorter = Self>;` -> ("Lengthen", "Longer", "Shorten", Some "Shorter")
pub fn gen_inverse_bounds(files: &BTreeMap<String, syn::File>, out: &mut String) {
    let Some(file) = files.get("sequence.rs") else { return };
    let mut rows = vec![];
    for tr_name in ["Lengthen", "Shorten"] {
        let mut found = false;
        for it in &file.items {
            let Item::Trait(tr) = it else { continue };
            if tr.ident != tr_name {
                continue;
            }
            for ti in &tr.items {
                let syn::TraitItem::Type(ty) = ti else { continue };
                for b in &ty.bounds {
                    let TypeParamBound::Trait(tb) = b else { continue };
                    let seg = last_seg(&tb.path);
                    let bname = seg.ident.to_string();
                    if bname != "Lengthen" && bname != "Shorten" {
                        continue;
                    }
                    // an associated-type equality `X = Self` among the generic arguments
                    let mut back = "None".to_string();
                    if let PathArguments::AngleBracketed(a) = &seg.arguments {
                        for ga in &a.args {
                            if let GenericArgument::AssocType(at) = ga {
                                if let Type::Path(p) = &at.ty {
                                    if p.path.is_ident("Self") {
                                        back = format!("(Some \"{}\")", at.ident);
                                    }
                                }
                            }
                        }
                    }
                    rows.push(format!("(\"{}\", \"{}\", \"{}\", {})", tr_name, ty.ident, bname, back));
                    found = true;
                }
            }
        }
        if !found {
            println!("ERROR GenSigs.v inverse_bounds: no Lengthen/Shorten bound on an associated type of {}", tr_name);
        }
    }
    writeln!(out, "\n(* the bounds `type Longer: Shorten<T, Shorter = Self>` / `type Shorter: Lengthen<T, Longer = Self>`:\n   (trait, associated type, bounding trait, the associated type equated with Self) *)\nDefinition gen_inverse_bounds : list (String.string * String.string * String.string * option String.string) :=\n  [{}]%string.", rows.join("; ")).unwrap();
}

// ------------------------------------------------------------------ lifetimes of reference-returning signatures (T1)

#[derive(Clone, Debug, PartialEq)]
enum Lt {
    Named(usize),
    Static,
    Elided,
}

struct LtCtx {
    names: Vec<String>,
}
impl LtCtx {
    fn idx(&mut self, n: &str) -> usize {
        if let Some(i) = self.names.iter().position(|x| x == n) {
            i
        } else {
            self.names.push(n.to_string());
            self.names.len() - 1
        }
    }
    fn fresh(&mut self) -> usize {
        let n = format!("'_elided{}", self.names.len());
        self.idx(&n)
    }
    fn of(&mut self, l: Option<&syn::Lifetime>) -> Lt {
        match l {
            None => Lt::Elided,
            Some(l) if l.ident == "static" => Lt::Static,
            Some(l) if l.ident == "_" => Lt::Elided,
            Some(l) => Lt::Named(self.idx(&l.ident.to_string())),
        }
    }
}

/// every reference (and every lifetime argument of a path type) inside `t`, outermost first
fn refs_in(t: &Type, cx: &mut LtCtx, self_ty: Option<&Type>, assoc: &BTreeMap<String, Type>, depth: usize, out: &mut Vec<(Lt, bool)>) {
    if depth > 6 {
        return;
    }
    match t {
        Type::Reference(r) => {
            let l = cx.of(r.lifetime.as_ref());
            out.push((l, r.mutability.is_some()));
            // a reference to a reference does not add a second tie for our purposes
        }
        Type::Tuple(tu) => {
            for e in &tu.elems {
                refs_in(e, cx, self_ty, assoc, depth + 1, out);
            }
        }
        Type::Paren(p) => refs_in(&p.elem, cx, self_ty, assoc, depth + 1, out),
        Type::Path(p) => {
            // Self / Self::Assoc
            if p.path.segments.first().map(|s| s.ident == "Self").unwrap_or(false) {
                if p.path.segments.len() == 1 {
                    if let Some(st) = self_ty {
                        refs_in(st, cx, None, assoc, depth + 1, out);
                    }
                    return;
                }
                if p.path.segments.len() == 2 {
                    if let Some(a) = assoc.get(&p.path.segments[1].ident.to_string()) {
                        let a = a.clone();
                        refs_in(&a, cx, self_ty, assoc, depth + 1, out);
                    }
                    return;
                }
            }
            let seg = last_seg(&p.path);
            let is_mut_iter = seg.ident == "IterMut";
            for a in seg_args(seg) {
                match a {
                    GenericArgument::Lifetime(l) => {
                        let lt = cx.of(Some(l));
                        out.push((lt, is_mut_iter));
                    }
                    GenericArgument::Type(inner) => {
                        // Result<&X, E>, Option<&X>, ... but not the payload types of containers we own
                        if ["Result", "Option"].contains(&seg.ident.to_string().as_str()) {
                            refs_in(inner, cx, self_ty, assoc, depth + 1, out);
                        }
                    }
                    _ => {}
                }
            }
        }
        _ => {}
    }
}

pub fn gen_lifetimes(files: &BTreeMap<String, syn::File>, out: &mut String) {
    out.push_str("From Coq Require Import String ZArith List.\nFrom GA Require Import Base Sigs.\nImport ListNotations.\n\n");
    let mut rows: Vec<String> = vec![];
    let mut id = 1;
    for fname in ["lib.rs", "impls.rs", "iter.rs", "sequence.rs"] {
        let Some(file) = files.get(fname) else { continue };
        for it in &file.items {
            let Item::Impl(im) = it else { continue };
            let base = self_base(&im.self_ty);
            if base != "GenericArray" && base != "GenericArrayIter" {
                continue;
            }
            let trait_name = im.trait_.as_ref().map(|t| last_seg(&t.1).ident.to_string());
            // associated types of this impl
            let mut assoc: BTreeMap<String, Type> = BTreeMap::new();
            for ii in &im.items {
                if let ImplItem::Type(t) = ii {
                    assoc.insert(t.ident.to_string(), t.ty.clone());
                }
            }
            for ii in &im.items {
                let ImplItem::Fn(f) = ii else { continue };
                if f.sig.unsafety.is_some() {
                    continue;
                }
                if trait_name.is_none() && !matches!(f.vis, syn::Visibility::Public(_)) {
                    continue;
                }
                let mut cx = LtCtx { names: vec![] };
                let mut ins: Vec<(Lt, bool)> = vec![];
                let mut has_self_ref = false;
                let mut self_lt: Option<Lt> = None;
                for a in &f.sig.inputs {
                    match a {
                        syn::FnArg::Receiver(r) => {
                            if r.colon_token.is_some() {
                                // self: &'a GenericArray<..>
                                let mut v = vec![];
                                refs_in(&r.ty, &mut cx, Some(&im.self_ty), &assoc, 0, &mut v);
                                if let Some(first) = v.first() {
                                    has_self_ref = true;
                                    self_lt = Some(first.0.clone());
                                }
                                ins.extend(v);
                            } else if let Some((_, lt)) = &r.reference {
                                let l = cx.of(lt.as_ref());
                                has_self_ref = true;
                                self_lt = Some(l.clone());
                                ins.push((l, r.mutability.is_some()));
                            } else {
                                // by-value self: the Self type may itself be a reference (&'a GenericArray)
                                let mut v = vec![];
                                refs_in(&im.self_ty, &mut cx, None, &assoc, 0, &mut v);
                                if let Some(first) = v.first() {
                                    has_self_ref = true;
                                    self_lt = Some(first.0.clone());
                                }
                                ins.extend(v);
                            }
                        }
                        syn::FnArg::Typed(t) => refs_in(&t.ty, &mut cx, Some(&im.self_ty), &assoc, 0, &mut ins),
                    }
                }
                // every elided input lifetime is a distinct fresh one
                let mut ins2: Vec<(usize, bool)> = vec![];
                for (l, m) in ins.iter_mut() {
                    if *l == Lt::Elided {
                        *l = Lt::Named(cx.fresh());
                    }
                    if let Lt::Named(i) = l {
                        ins2.push((*i, *m));
                    }
                }
                if let Some(Lt::Elided) = self_lt {
                    // the receiver was the first input
                    self_lt = ins.first().map(|x| x.0.clone());
                }
                let mut outs: Vec<(Lt, bool)> = vec![];
                if let syn::ReturnType::Type(_, ty) = &f.sig.output {
                    refs_in(ty, &mut cx, Some(&im.self_ty), &assoc, 0, &mut outs);
                }
                if outs.is_empty() {
                    continue;
                }
                // elision of output lifetimes
                let mut bad = None;
                let input_lts: Vec<usize> = {
                    let mut v: Vec<usize> = ins2.iter().map(|x| x.0).collect();
                    v.dedup();
                    v.sort();
                    v.dedup();
                    v
                };
                for (l, _) in outs.iter_mut() {
                    if *l == Lt::Elided {
                        if has_self_ref && f.sig.receiver().is_some() {
                            *l = self_lt.clone().unwrap_or(Lt::Elided);
                        } else if input_lts.len() == 1 {
                            *l = Lt::Named(input_lts[0]);
                        } else {
                            bad = Some("elided output lifetime cannot be resolved");
                        }
                    }
                }
                let name = format!("{}::{}{}", base_with_ref(&im.self_ty), trait_name.as_ref().map(|t| format!("{}::", t)).unwrap_or_default(), f.sig.ident);
                if let Some(e) = bad {
                    println!("ERROR GenLifetimes.v {}: {}", name, e);
                    continue;
                }
                let fmt = |v: &Vec<(Lt, bool)>| -> String {
                    v.iter()
                        .map(|(l, m)| match l {
                            Lt::Named(i) => format!("mkRf (LtNamed {}) {}", i, m),
                            _ => format!("mkRf LtStatic {}", m),
                        })
                        .collect::<Vec<_>>()
                        .join("; ")
                };
                rows.push(format!("(\"{}\", mkSig {} [{}] [{}] [] [])", name, id, fmt(&ins), fmt(&outs)));
                id += 1;
            }
        }
    }
    writeln!(out, "(* every safe public / trait-impl function of GenericArray and GenericArrayIter whose result contains a\n   reference or a lifetime-carrying iterator, after lifetime elision: references among the arguments and in the result *)\nDefinition gen_signatures : list (String.string * sig) :=\n  [{}]%string.", rows.join(";\n   ")).unwrap();
}

fn base_with_ref(t: &Type) -> String {
    match t {
        Type::Reference(r) => format!("&{}{}", if r.mutability.is_some() { "mut " } else { "" }, base_with_ref(&r.elem)),
        _ => self_base(t),
    }
}
